(* Lemmas about the per-simulant clock model (DESIGN.md C10). *)
From Viv Require Import Common Clock.
Local Open Scope Z_scope.

(* ---------- the post-processor ---------- *)
Lemma min_some_le vals v : In (Some v) vals -> exists w, min_some vals = Some w /\ w <= v.
Proof.
  induction vals as [|[x|] r IH]; intros Hin; simpl in *; [contradiction| |].
  - destruct Hin as [E|Hin].
    + inversion E; subst. destruct (min_some r) as [w|]; eexists; split; try reflexivity; lia.
    + destruct (IH Hin) as [w [-> Hw]]. eexists; split; [reflexivity|]. lia.
  - destruct Hin as [E|Hin]; [discriminate|]. now apply IH.
Qed.

Lemma min_some_in vals w : min_some vals = Some w -> In (Some w) vals.
Proof.
  revert w. induction vals as [|[x|] r IH]; intros w H; simpl in *; [discriminate| |].
  - destruct (min_some r) as [u|] eqn:Eu.
    + inversion H; subst. destruct (Z.min_spec x u) as [[_ ->]|[_ ->]]; [now left | right; now apply IH].
    + inversion H; subst. now left.
  - right. now apply IH.
Qed.

Lemma min_some_none vals : min_some vals = None -> forall v, ~ In (Some v) vals.
Proof.
  intros H v Hin. destruct (min_some_le _ _ Hin) as [w [Hw _]]. congruence.
Qed.

(* each simulant's step is the SMALLEST step requested for it by any modifier, the standard step where none applies *)
Lemma requested_spec std0 vals :
  (forall v, In (Some v) vals -> requested std0 vals <= v) /\
  (In (Some (requested std0 vals)) vals \/ ((forall v, ~ In (Some v) vals) /\ requested std0 vals = std0)).
Proof.
  unfold requested. destruct (min_some vals) as [w|] eqn:E.
  - split.
    + intros v Hv. destruct (min_some_le _ _ Hv) as [u [Hu Hle]]. congruence.
    + left. now apply min_some_in.
  - split.
    + intros v Hv. exfalso. exact (min_some_none _ E v Hv).
    + right. split; [now apply min_some_none | reflexivity].
Qed.

(* ... rounded down to a whole multiple of the minimum step and never below it *)
Lemma post_spec m0 std0 vals : 0 < m0 -> 0 <= requested std0 vals ->
  let v := requested std0 vals in
  post m0 std0 vals = m0 * Z.max 1 (v / m0) /\
  post m0 std0 vals mod m0 = 0 /\ m0 <= post m0 std0 vals /\
  (m0 <= v -> post m0 std0 vals <= v /\ v < post m0 std0 vals + m0).
Proof.
  intros Hm Hv v. unfold post. fold v.
  assert (Hq : 0 <= v / m0) by (apply Z.div_pos; lia).
  assert (E : (if v / m0 =? 0 then 1 else v / m0) = Z.max 1 (v / m0)).
  { destruct (Z.eqb_spec (v / m0) 0) as [->|Hne]; lia. }
  rewrite E. repeat split.
  - lia.
  - apply Z_mod_mult.
  - nia.
  - assert (1 <= v / m0) by (apply Z.div_le_lower_bound; lia).
    rewrite Z.max_r by lia. pose proof (Z.mul_div_le v m0 Hm). lia.
  - assert (1 <= v / m0) by (apply Z.div_le_lower_bound; lia).
    rewrite Z.max_r by lia. pose proof (Z.mul_succ_div_gt v m0 Hm). lia.
Qed.

Lemma post_pos m0 std0 vals : 0 < m0 -> 0 <= requested std0 vals -> 0 < post m0 std0 vals.
Proof. intros Hm Hv. destruct (post_spec m0 std0 vals Hm Hv) as [_ [_ [H _]]]. lia. Qed.

(* ---------- minima ---------- *)
Lemma minl_le d l : forall x, In x (d :: l) -> minl d l <= x.
Proof.
  unfold minl. induction l as [|y l IH]; intros x Hx; simpl in *.
  - destruct Hx as [<-|[]]. lia.
  - destruct Hx as [<-|[<-|Hx]].
    + specialize (IH d (or_introl eq_refl)). lia.
    + lia.
    + specialize (IH x (or_intror Hx)). lia.
Qed.
Lemma minl_in d l : In (minl d l) (d :: l).
Proof.
  unfold minl. induction l as [|y l IH]; simpl; [auto|].
  destruct (Z.min_spec y (fold_right Z.min d l)) as [[_ ->]|[_ ->]]; [auto|].
  destruct IH as [H|H]; [left; exact H | right; right; exact H].
Qed.
Lemma min_next_le rs r : In r rs -> min_next rs <= nxt r.
Proof.
  destruct rs as [|r0 rs]; [contradiction|]. intros H. unfold min_next. apply minl_le.
  destruct H as [<-|H]; [left; reflexivity | right; now apply in_map].
Qed.
Lemma min_next_in rs : rs <> [] -> exists r, In r rs /\ nxt r = min_next rs.
Proof.
  destruct rs as [|r0 rs]; [congruence|]. intros _. unfold min_next.
  destruct (minl_in (nxt r0) (map nxt rs)) as [H|H].
  - exists r0. split; [left; reflexivity | auto].
  - apply in_map_iff in H as [r [Hr Hi]]. exists r. split; [right; auto | auto].
Qed.

(* ---------- consequences of the invariant ---------- *)
Lemma inv_hits_earliest c : Inv c -> T c + S c = min_next (rows c).
Proof. intros [_ [_ HS]]. lia. Qed.

Lemma inv_step_positive c : Inv c -> 0 < S c.
Proof.
  intros [Hne [Hlt HS]]. destruct (min_next_in _ Hne) as [r [Hr E]]. specialize (Hlt r Hr). lia.
Qed.

Lemma inv_active_exact c r : Inv c -> In r (rows c) -> due (T c + S c) r = true <-> nxt r = T c + S c.
Proof.
  intros HI Hr. unfold due. rewrite Z.leb_le. pose proof (min_next_le _ _ Hr). rewrite (inv_hits_earliest c HI). lia.
Qed.

Lemma inv_active_nonempty c : Inv c -> active c <> [].
Proof.
  intros HI. destruct HI as [Hne [Hlt HS]]. destruct (min_next_in _ Hne) as [r [Hr E]].
  unfold active, active_at, labels. intro H. apply map_eq_nil in H.
  assert (In r (filter (due (T c + S c)) (rows c))); [|rewrite H in *; contradiction].
  apply filter_In. split; [assumption|]. unfold due. apply Z.leb_le. lia.
Qed.

(* ---------- step_forward ---------- *)
Lemma step_forward_ok req c c' : step_forward req c = Ok c' -> rows c <> [] ->
  filter (due (T c + S c)) (rows c) <> [] ->
  c' = set_clk c (T c + S c) (min_next (map (update_row req c (T c + S c)) (rows c)) - (T c + S c))
               (map (update_row req c (T c + S c)) (rows c)) [].
Proof.
  unfold step_forward. intros H Hne HU. destruct (rows c) as [|r0 rs] eqn:ER; [congruence|].
  destruct (filter (due (T c + S c)) (r0 :: rs)) as [|u U] eqn:EU; [congruence|].
  destruct (forallb _ (snooze c)); [|discriminate]. now inversion H.
Qed.

Theorem step_forward_inv req c c' :
  0 < m c -> (forall l, 0 <= requested (std c) (req l)) ->
  Inv c -> T c + S c < E c ->                         (* the boundaries from which run() continues *)
  step_forward req c = Ok c' -> Inv c'.
Proof.
  intros Hm Hreq HI Hend H. pose proof HI as [Hne [Hlt HS]].
  assert (HU : filter (due (T c + S c)) (rows c) <> []).
  { pose proof (inv_active_nonempty c HI) as Ha. unfold active, active_at, labels in Ha.
    intro E0. rewrite E0 in Ha. now apply Ha. }
  rewrite (step_forward_ok req c c' H Hne HU). unfold Inv, set_clk; cbn [T S rows].
  set (T' := T c + S c).
  assert (Hall : forall r, In r (rows c) -> T' <= nxt r).
  { intros r Hr. unfold T'. rewrite (inv_hits_earliest c HI). now apply min_next_le. }
  split; [|split].
  - destruct (rows c); [congruence | simpl; congruence].
  - intros r' Hr'. apply in_map_iff in Hr' as [r [<- Hr]]. unfold update_row.
    destruct (due T' r) eqn:Ed.
    + cbn [nxt]. destruct (zmem (lbl r) (snooze c)); [lia|].
      pose proof (post_pos (m c) (std c) (req (lbl r)) Hm (Hreq _)). lia.
    + unfold due in Ed. apply Z.leb_gt in Ed. exact Ed.
  - reflexivity.
Qed.

(* no next-event time is passed without its simulant being included in the events of that step *)
Theorem never_passed req c c' : Inv c -> step_forward req c = Ok c' ->
  T c' = T c + S c /\
  forall r, In r (rows c) -> T c' <= nxt r /\ (nxt r = T c' -> In (lbl r) (active c)).
Proof.
  intros HI H. pose proof HI as [Hne [Hlt HS]].
  assert (HT : T c' = T c + S c).
  { unfold step_forward in H. destruct (rows c); [now inversion H|].
    destruct (filter _ _); [now inversion H|]. destruct (forallb _ _); [now inversion H | discriminate]. }
  split; [assumption|]. intros r Hr. rewrite HT. split.
  - rewrite (inv_hits_earliest c HI). now apply min_next_le.
  - intros E0. unfold active, active_at, labels. apply in_map. apply filter_In. split; [assumption|].
    unfold due. apply Z.leb_le. lia.
Qed.

(* an included simulant's next-event time moves forward by its (new) step; the others keep their row *)
Theorem included_advances req c c' : Inv c -> step_forward req c = Ok c' ->
  forall r, In r (rows c) ->
    (due (T c + S c) r = true ->
       In {| lbl := lbl r; nxt := T c' + (if zmem (lbl r) (snooze c) then E c + m c - T c'
                                            else post (m c) (std c) (req (lbl r)));
             stp := (if zmem (lbl r) (snooze c) then E c + m c - T c' else post (m c) (std c) (req (lbl r))) |}
          (rows c')) /\
    (due (T c + S c) r = false -> In r (rows c')).
Proof.
  intros HI H r Hr. pose proof HI as [Hne _].
  assert (HU : filter (due (T c + S c)) (rows c) <> []).
  { pose proof (inv_active_nonempty c HI) as Ha. unfold active, active_at, labels in Ha.
    intro E0. rewrite E0 in Ha. now apply Ha. }
  rewrite (step_forward_ok req c c' H Hne HU). unfold set_clk; cbn [T rows].
  split; intros Hd; apply in_map_iff; exists r; (split; [|assumption]); unfold update_row; rewrite Hd; reflexivity.
Qed.

(* ---------- creation and move-to-end keep the invariant ---------- *)
Lemma new_rows_spec first n t s r : In r (new_rows first n t s) -> nxt r = t /\ stp r = s.
Proof.
  revert first. induction n as [|k IH]; intros first Hin; simpl in *; [contradiction|].
  destruct Hin as [<-|Hin]; [auto | eapply IH; eauto].
Qed.

Lemma min_next_app_ge rs extra t : rs <> [] -> min_next rs <= t -> (forall r, In r extra -> nxt r = t) ->
  min_next (rs ++ extra) = min_next rs.
Proof.
  intros Hne Hle Hex. apply Z.le_antisymm.
  - destruct (min_next_in rs Hne) as [r [Hr <-]]. apply min_next_le. apply in_or_app. now left.
  - assert (Hne' : rs ++ extra <> []) by (destruct rs; [congruence | discriminate]).
    destruct (min_next_in _ Hne') as [r [Hr <-]]. apply in_app_or in Hr as [Hr|Hr].
    + now apply min_next_le.
    + rewrite (Hex r Hr). exact Hle.
Qed.

Theorem create_inv c n : Inv c -> Inv (create c n).
Proof.
  intros HI. pose proof HI as [Hne [Hlt HS]]. pose proof (inv_step_positive c HI) as Hs.
  unfold create, Inv, set_clk; cbn [T S rows]. split; [|split].
  - destruct (rows c); [congruence | discriminate].
  - intros r Hr. apply in_app_or in Hr as [Hr|Hr]; [auto|]. apply new_rows_spec in Hr as [-> _]. lia.
  - rewrite (min_next_app_ge (rows c) _ (T c + S c) Hne); [exact HS | lia |].
    intros r Hr. now apply new_rows_spec in Hr as [-> _].
Qed.

Theorem snooze_inv c idx : Inv c -> Inv (snooze_op c idx).
Proof.
  intros HI. unfold snooze_op. destruct (rows c) eqn:ER, idx; try exact HI.
  destruct HI as [H1 [H2 H3]]. unfold Inv, set_clk; cbn [T S rows]. rewrite ER in *. auto.
Qed.

(* the initial population: after initialize_simulants (n > 0) the invariant holds and the clock is back at start *)
Theorem initialize_inv req c n c' : 0 < m c -> (forall l, 0 <= requested (std c) (req l)) ->
  rows c = [] -> snooze c = [] -> (0 < n)%nat -> initialize req c n = Ok c' -> Inv c' /\ T c' = T c.
Proof.
  intros Hm Hreq Hr Hs Hn H. unfold initialize in H.
  set (c0 := create (set_clk c (T c - S c) (S c) (rows c) (snooze c)) n) in *.
  assert (Hrows : rows c0 = new_rows 0 n (T c) (S c)).
  { unfold c0, create, set_clk; cbn [T S rows]. rewrite Hr. simpl. f_equal. lia. }
  assert (Hne : rows c0 <> []) by (rewrite Hrows; destruct n; [lia | discriminate]).
  assert (HT : T c0 + S c0 = T c) by (unfold c0, create, set_clk; cbn [T S]; lia).
  assert (Hdue : forall r, In r (rows c0) -> due (T c0 + S c0) r = true).
  { intros r Hin. rewrite Hrows in Hin. apply new_rows_spec in Hin as [E0 _]. unfold due. apply Z.leb_le. lia. }
  assert (HU : filter (due (T c0 + S c0)) (rows c0) <> []).
  { destruct (rows c0) as [|r0 rs] eqn:E0; [congruence|]. simpl. rewrite (Hdue r0 (or_introl eq_refl)). discriminate. }
  rewrite (step_forward_ok req c0 c' H Hne HU). unfold Inv, set_clk; cbn [T S rows]. split; [|exact HT].
  split; [|split].
  - destruct (rows c0); [congruence | discriminate].
  - intros r' Hr'. apply in_map_iff in Hr' as [r [<- Hin]]. unfold update_row. rewrite (Hdue r Hin). cbn [nxt].
    assert (snooze c0 = []) as -> by (unfold c0, create, set_clk; cbn [snooze]; exact Hs). cbn [zmem existsb].
    assert (m c0 = m c /\ std c0 = std c) as [-> ->] by (unfold c0, create, set_clk; cbn; auto).
    pose proof (post_pos (m c) (std c) (req (lbl r)) Hm (Hreq _)). lia.
  - reflexivity.
Qed.

(* ---------- simulants moved to the end ---------- *)
Lemma step_forward_consts req c c' : step_forward req c = Ok c' -> E c' = E c /\ m c' = m c /\ std c' = std c.
Proof.
  unfold step_forward. destruct (rows c); [intros [= <-]; auto|].
  destruct (filter _ _); [intros [= <-]; auto|]. destruct (forallb _ _); [intros [= <-]; auto | discriminate].
Qed.

Lemma step_forward_T req c c' : step_forward req c = Ok c' -> T c' = T c + S c.
Proof.
  unfold step_forward. destruct (rows c); [intros [= <-]; auto|].
  destruct (filter _ _); [intros [= <-]; auto|]. destruct (forallb _ _); [intros [= <-]; auto | discriminate].
Qed.

(* a snoozed simulant that is due gets next = stop + minimum *)
Theorem snoozed_next req c c' r : Inv c -> step_forward req c = Ok c' -> In r (rows c) ->
  due (T c + S c) r = true -> zmem (lbl r) (snooze c) = true ->
  In {| lbl := lbl r; nxt := E c + m c; stp := E c + m c - T c' |} (rows c').
Proof.
  intros HI H Hr Hd Hs. destruct (included_advances req c c' HI H r Hr) as [Ha _]. specialize (Ha Hd).
  rewrite Hs in Ha. replace (T c' + (E c + m c - T c')) with (E c + m c) in Ha by lia. exact Ha.
Qed.

(* a row whose time has not been reached is carried over unchanged by a step *)
Lemma far_row_kept req c c' r : step_forward req c = Ok c' -> In r (rows c) -> T c + S c < nxt r -> In r (rows c').
Proof.
  unfold step_forward. intros H Hr Hfar. destruct (rows c) as [|r0 rs] eqn:ER; [contradiction|].
  destruct (filter _ (r0 :: rs)); [inversion H; subst; cbn; now rewrite <- ER|].
  destruct (forallb _ _); [|discriminate]. inversion H; subst; cbn [rows set_clk].
  apply in_map_iff. exists r. split; [|assumption]. unfold update_row, due.
  destruct (Z.leb_spec (nxt r) (T c + S c)); [lia | reflexivity].
Qed.

(* any number of further steps, with any modifiers, for as long as the next event time is at or before the stop time
   (the events the property speaks about): the row of a simulant moved to the end stays exactly as it is, and it is
   due at none of those events *)
Fixpoint steps_upto_end (reqs : list (Z -> list (option Z))) (c : clk) : result clk :=
  match reqs with
  | [] => Ok c
  | q :: r =>
      if E c <? T c + S c then Ok c          (* next event would be after the stop time: outside the claim *)
      else match step_forward q c with
           | Ok c1 => steps_upto_end r c1
           | Rejected e => Rejected e
           | OutOfFuel => OutOfFuel
           end
  end.

Theorem snoozed_stays reqs : forall c c' r, 0 < m c -> In r (rows c) -> nxt r = E c + m c ->
  steps_upto_end reqs c = Ok c' -> In r (rows c').
Proof.
  induction reqs as [|q reqs IH]; intros c c' r Hm Hr Hn H; simpl in H.
  - now inversion H.
  - destruct (Z.ltb_spec (E c) (T c + S c)) as [Hlt|Hle]; [now inversion H|].
    destruct (step_forward q c) as [c1| |] eqn:E1; try discriminate.
    destruct (step_forward_consts q c c1 E1) as [HE [Hm1 _]].
    apply (IH c1 c' r); [lia | | lia | exact H].
    apply (far_row_kept q c c1 r E1 Hr). lia.
Qed.

Theorem snoozed_excluded c r : 0 < m c -> nxt r = E c + m c -> T c + S c <= E c -> due (T c + S c) r = false.
Proof. intros Hm Hn Hle. unfold due. apply Z.leb_gt. lia. Qed.

(* ---------- regression witnesses for the two repaired defects ---------- *)
(* F-A: under the old guard (Index.any(): truthiness of labels) the population {0} with a 3-tick modifier keeps the
   1-tick step and its clock row is never updated: the invariant breaks *)
Definition c_single0 : clk :=
  {| T := 0; S := 1; E := 10; m := 1; std := 1; rows := [ {| lbl := 0; nxt := 1; stp := 1 |} ]; snooze := [] |}.
Lemma inv_c_single0 : Inv c_single0.
Proof. unfold Inv, c_single0; simpl. split; [congruence|]. split; [|reflexivity]. intros r [<-|[]]; simpl; lia. Qed.

Theorem any_guard_refuted : exists c req c', Inv c /\ T c + S c < E c /\
  step_forward_any req c = Ok c' /\ ~ Inv c'.
Proof.
  exists c_single0, (fun _ => [Some 3]), (set_clk c_single0 1 1 (rows c_single0) []).
  split; [apply inv_c_single0|]. split; [vm_compute; reflexivity|]. split; [reflexivity|].
  intros [_ [H _]]. specialize (H {| lbl := 0; nxt := 1; stp := 1 |} (or_introl eq_refl)). simpl in H. lia.
Qed.

(* ... and with the repaired guard the same population is handled like any other *)
Example single0_ok : exists c', step_forward (fun _ => [Some 3]) c_single0 = Ok c' /\ Inv c' /\
  rows c' = [ {| lbl := 0; nxt := 4; stp := 3 |} ] /\ S c' = 3.
Proof.
  eexists. split; [reflexivity|]. split; [|split; reflexivity].
  apply (step_forward_inv (fun _ => [Some 3]) c_single0); try reflexivity.
  - intros l. vm_compute. discriminate.
  - apply inv_c_single0.
Qed.

(* F-B: InteractiveContext.step used to put the pre-step global step back after the step *)
Definition istep_old (req : Z -> list (option Z)) (c : clk) : result clk :=
  match step_forward req c with
  | Ok c' => Ok (set_clk c' (T c') (S c) (rows c') (snooze c'))
  | r => r
  end.
Definition c_two : clk :=
  {| T := 0; S := 1; E := 20; m := 1; std := 1;
     rows := [ {| lbl := 0; nxt := 1; stp := 1 |}; {| lbl := 1; nxt := 1; stp := 1 |} ]; snooze := [] |}.
Theorem istep_old_refuted : exists c req c', Inv c /\ istep_old req c = Ok c' /\ ~ Inv c'.
Proof.
  exists c_two, (fun l => [Some (2 + l)]). eexists. split; [|split; [reflexivity|]].
  - unfold Inv, c_two; simpl. split; [congruence|]. split; [|reflexivity]. intros r [<-|[<-|[]]]; simpl; lia.
  - intros [_ [_ H]]. vm_compute in H. discriminate.
Qed.
