(* C08 - Each step emits its four events once, in order, to every listener by priority.  Statements only; proofs live
   in theories/EventsProofs.v.  Models: theories/Events.v (EventChannel / EventManager / Component hook registration),
   theories/Stepper.v (engine step / run / initialize_simulants / finalize / report, InteractiveContext run).          *)
From Coq Require Import Permutation Sorted.
From Viv Require Import Common Lifecycle Events Stepper EventsProofs.
Local Open Scope Z_scope.

(* For EVERY registration sequence (any channels, any priorities - valid or not -, any order, the same listener any number
   of times): an emission on channel c calls exactly the listeners whose registration on c was accepted, each as many
   times as it was registered, in non-decreasing bucket order, and in registration order inside a bucket (stronger than
   the property, which promises no order there).  [emit_tagged] is [emit] with each call tagged by its bucket. *)
Theorem C08_emit_order : forall (rs : list reg) (c : cid),
  let m := register_all no_listeners rs in
  Permutation (emit m c) (map snd (filter (accepted_on c) rs))
  /\ StronglySorted le (map fst (emit_tagged m c))
  /\ map snd (emit_tagged m c) = emit m c
  /\ (forall n, (n < nbuckets)%nat ->
        map snd (filter (fun t => Nat.eqb (fst t) n) (emit_tagged m c)) = of_bucket c n rs).
Proof. exact emit_order. Qed.

(* closed form: emit = the stable sort of the registration sequence by bucket *)
Theorem C08_emit_is_stable_sort : forall rs c, emit (register_all no_listeners rs) c = emit_spec c rs.
Proof. exact emit_is_spec. Qed.

(* a priority 0..9 is its own bucket: "bucket order" is "priority order" on the property's domain;
   -10..-1 index from the end as python lists do; anything else raises and registers nothing *)
Theorem C08_priority_is_bucket : forall p, 0 <= p < 10 -> bucket_index p = Some (Z.to_nat p).
Proof. exact bucket_index_priority. Qed.
Theorem C08_bad_priority_inert : forall m c p l, bucket_index p = None -> register m (c, p, l) = Rejected EOther.
Proof. exact register_rejected_inert. Qed.

(* One step, for ANY clock (fixed or per-simulant: [nxt] is the rule giving the next global step size): the four channels
   once each in the order prepare, time_step, cleanup, collect_metrics; every event carries time = clock + step and
   step_size = step (see [emission_tcalls]); afterwards the clock has advanced by exactly the step. *)
Theorem C08_step_trace : forall nxt s,
  calls (step nxt s) = calls s ++ flat_map (emission_tcalls (lst s) (clock s) (stepsz s))
                                          [ch_prepare; ch_time_step; ch_cleanup; ch_collect]
  /\ clock (step nxt s) = clock s + stepsz s
  /\ stepsz (step nxt s) = nxt (clock s + stepsz s) (stepsz s)
  /\ stop (step nxt s) = stop s /\ lst (step nxt s) = lst s /\ inits (step nxt s) = inits s
  /\ icalls (step nxt s) = icalls s /\ nsteps (step nxt s) = nsteps s + 1.
Proof. exact step_trace. Qed.

(* what one emission looks like from the listeners: channel, listener, clock, event.time = clock + step, event.step_size *)
Theorem C08_event_fields : forall m t st c,
  map snd (emission_tcalls m t st c) = map (fun l => (c, l, t, t + st, st)) (emit m c).
Proof. exact emission_tcalls_plain. Qed.

(* run(): for every start, stop and every positive fixed step, exactly ceil((stop - start)/step) steps - no more, no
   fewer, whatever the (sufficient) fuel; the clock ends on the first grid point at or after stop; nothing happens when
   start >= stop.  The log is the step log repeated at clock = start + i*step. *)
Theorem C08_run_count : forall s fuel, 0 < stepsz s ->
  steps_needed (clock s) (stop s) (stepsz s) <= Z.of_nat fuel ->
  exists s', run_loop fuel fixed s = Ok s'
    /\ nsteps s' = nsteps s + steps_needed (clock s) (stop s) (stepsz s)
    /\ clock s' = clock s + steps_needed (clock s) (stop s) (stepsz s) * stepsz s
    /\ stepsz s' = stepsz s
    /\ calls s' = calls s ++ steps_tcalls (lst s) (clock s) (stepsz s) (Z.to_nat (steps_needed (clock s) (stop s) (stepsz s)))
    /\ icalls s' = icalls s /\ lst s' = lst s /\ stop s' = stop s
    /\ (clock s < stop s -> stop s <= clock s' < stop s + stepsz s)
    /\ (stop s <= clock s -> s' = s).
Proof. exact run_final. Qed.

Theorem C08_steps_needed_is_ceiling : forall start stop_ st, 0 < st -> start < stop_ ->
  steps_needed start stop_ st = cdiv (stop_ - start) st
  /\ stop_ - start <= st * steps_needed start stop_ st < stop_ - start + st.
Proof.
  intros start stop_ st Hs Hl. split; [symmetry; now apply cdiv_steps_needed|].
  unfold steps_needed. destruct (Z.ltb_spec start stop_); [|lia]. apply ceil_bounds; lia.
Qed.

Theorem C08_steps_log : forall m t st n,
  steps_tcalls m t st n = flat_map (fun i => step_tcalls m (t + Z.of_nat i * st) st) (seq 0 n).
Proof. intros. apply steps_tcalls_nth. Qed.

Theorem C08_run_fuel_independent : forall s f1 f2, 0 < stepsz s ->
  steps_needed (clock s) (stop s) (stepsz s) <= Z.of_nat f1 -> steps_needed (clock s) (stop s) (stepsz s) <= Z.of_nat f2 ->
  run_loop f1 fixed s = run_loop f2 fixed s.
Proof. exact run_fuel_independent. Qed.

Theorem C08_run_out_of_fuel_is_explicit : forall fuel s, 0 < stepsz s ->
  Z.of_nat fuel < steps_needed (clock s) (stop s) (stepsz s) -> run_loop fuel fixed s = OutOfFuel.
Proof. exact run_out_of_fuel. Qed.

(* the fencepost: initializers see creation_time = start - step, creation_window = step; the clock is back at start *)
Theorem C08_fencepost : forall nxt s,
  let s' := initialize nxt s in
  icalls s' = icalls s ++ map (fun i => (i, clock s - stepsz s, stepsz s, clock s - stepsz s)) (inits s)
  /\ clock s' = clock s /\ stepsz s' = nxt (clock s) (stepsz s) /\ calls s' = calls s /\ lst s' = lst s
  /\ stop s' = stop s /\ nsteps s' = nsteps s.
Proof. exact fencepost. Qed.

(* a whole simulation of positive length: post_setup once, creation (fencepost), ceil((stop-start)/step) steps,
   simulation_end once - after the last step, at the final clock -, report once.
   GUARD start < stop: the exact class excluded is the finding below (C08_zero_length_run_cannot_finish). *)
Theorem C08_simulation_trace : forall start stop_ st cs fuel, 0 < st -> start < stop_ ->
  steps_needed start stop_ st <= Z.of_nat fuel ->
  let s0 := mk_sim start stop_ st cs in
  let n := steps_needed start stop_ st in
  exists s, run_simulation fuel fixed s0 = Ok s
    /\ nsteps s = n /\ clock s = start + n * st
    /\ calls s = emission_tcalls (lst s0) start st ch_post_setup
                 ++ steps_tcalls (lst s0) start st (Z.to_nat n)
                 ++ emission_tcalls (lst s0) (start + n * st) st ch_end
                 ++ emission_tcalls (lst s0) (start + n * st) st ch_report
    /\ icalls s = map (fun i => (i, start - st, st, start - st)) (all_initializers cs).
Proof. exact simulation_trace. Qed.

(* FINDING (F-V, new): a run of length zero (end <= start) makes no step - as the property says - but can then not be
   finished: finalize's declaration of simulation_end is refused by the life cycle (its only predecessor is
   collect_metrics), so simulation_end is never emitted and run_simulation raises InvalidTransitionError. *)
Theorem C08_zero_length_run_cannot_finish : forall start stop_ st cs fuel, stop_ <= start ->
  let s0 := mk_sim start stop_ st cs in
  run_only fuel fixed s0 = Ok (initialize fixed (do_setup s0))
  /\ nsteps (initialize fixed (do_setup s0)) = 0
  /\ run_simulation fuel fixed s0 = Rejected EInvalidTransition.
Proof. exact zero_length_run. Qed.
(* why [finalize] is modelled with the guard "at least one step": in the documented engine life cycle (C06, numbering
   0 initialization .. 9 report) simulation_end (8) can be entered from collect_metrics (7) only *)
Example finalize_needs_a_step :
  let lc := build_phases [(1, [1; 2; 3], false); (2, [4; 5; 6; 7], true); (3, [8; 9], false)] (init_lc 0 0) in
  filter (fun s => valid_next lc s 8) [0; 1; 2; 3; 4; 5; 6; 7; 8; 9] = [7].
Proof. vm_compute. reflexivity. Qed.

(* InteractiveContext.run (= run_until the stop time: `while clock < end: step()`, commit 98b7435f) does exactly what
   SimulationContext.run does - for EVERY step-size rule (fixed or per-simulant), every state and every fuel. *)
Theorem C08_interactive_run_agrees : forall fuel nxt s, interactive_run fuel nxt s = run_loop fuel nxt s.
Proof. exact interactive_run_agrees. Qed.

(* run_until / run_for to an ARBITRARY end time with a fixed step: exactly ceil((end - clock)/step) steps, ending on the
   first grid point at or after the end; no step at all when the end is not after the clock *)
Theorem C08_run_until_count : forall s e fuel, 0 < stepsz s -> steps_needed (clock s) e (stepsz s) <= Z.of_nat fuel ->
  exists s', run_until fuel fixed e s = Ok s'
    /\ nsteps s' = nsteps s + steps_needed (clock s) e (stepsz s)
    /\ clock s' = clock s + steps_needed (clock s) e (stepsz s) * stepsz s
    /\ (clock s < e -> e <= clock s' < e + stepsz s)
    /\ (e <= clock s -> s' = s).
Proof. exact run_until_final. Qed.

(* ... and for ANY step-size rule it stops exactly when the end time is reached: never short of it, and never a step
   further than needed *)
Theorem C08_run_until_stops_at_end : forall fuel nxt e s s', run_until fuel nxt e s = Ok s' ->
  e <= clock s' /\ (clock s < e -> exists s1, clock s1 < e /\ s' = step nxt s1).
Proof. exact run_until_stops_at_end. Qed.

(* A LISTENER THAT RAISES (bad says which call raises): the step is abandoned on the spot - the listeners called are exactly
   those before it in the step's call order plus itself; no later listener, no later event of that step; the clock, the
   step size and the step count do not move. *)
Theorem C08_raising_listener_abandons_step : forall bad nxt s s', step_r bad nxt s = (s', true) ->
  clock s' = clock s /\ stepsz s' = stepsz s /\ nsteps s' = nsteps s /\ icalls s' = icalls s /\ lst s' = lst s /\
  exists pre x post, flat_map (emission_tcalls (lst s) (clock s) (stepsz s)) [ch_prepare; ch_time_step; ch_cleanup; ch_collect]
                     = pre ++ x :: post
    /\ calls s' = calls s ++ pre ++ [x] /\ bad x = true /\ Forall (fun y => bad y = false) pre.
Proof. exact raising_listener_abandons_step. Qed.

(* if no call of the step raises, the step with exceptions is the ordinary step; and with no raising listener at all the
   whole run is the ordinary run *)
Theorem C08_step_without_raise : forall bad nxt s s', step_r bad nxt s = (s', false) ->
  s' = step nxt s /\ Forall (fun y => bad y = false) (step_tcalls (lst s) (clock s) (stepsz s)).
Proof. exact step_r_clean. Qed.
Theorem C08_run_without_raisers : forall fuel nxt s,
  run_loop_r fuel (fun _ => false) nxt s
  = match run_loop fuel nxt s with Ok s' => Ok (s', false) | Rejected e => Rejected e | OutOfFuel => OutOfFuel end.
Proof. exact run_loop_r_never. Qed.
(* a run abandoned by a raising listener stands where the abandoned step began, before the stop time *)
Theorem C08_abandoned_run_did_not_advance : forall fuel bad nxt s s', run_loop_r fuel bad nxt s = Ok (s', true) ->
  clock s' < stop s'.
Proof. exact run_loop_r_raised. Qed.

(* REFUSED DRIVER CALLS ARE INERT: a step / take_steps / run_until / run_for refused by its argument checks leaves the
   stepping state (clock, step size, listeners, logs, step count) exactly as it was, so any number of them, anywhere in a
   session, can be deleted without changing any later step - for every step-size rule and every session *)
Theorem C08_refused_step_inert : forall fuel nxt s, do_sop fuel nxt ORefused s = Ok s.
Proof. exact refused_step_inert. Qed.
Theorem C08_refused_calls_deletable : forall fuel nxt ops s,
  run_sops fuel nxt ops s = run_sops fuel nxt (filter (fun o => negb (is_refused o)) ops) s.
Proof. intros. apply refused_calls_deletable. Qed.

(* the comparison Coq makes between an observed call sequence and the model's (up to a permutation inside each bucket)
   means what it says: exactly the model's listeners with multiplicity, bucket by bucket *)
Theorem C08_comparison_sound : forall expected obs, same_up_to_buckets expected obs = true ->
  Permutation obs (map snd expected)
  /\ forall n, Permutation (filter (fun t => Nat.eqb (fst t) n) (combine (map fst expected) obs))
                           (filter (fun t => Nat.eqb (fst t) n) expected).
Proof. exact same_up_to_buckets_sound. Qed.

(* ---- non-vacuity ---- *)

(* three components; listeners on several channels and priorities, one listener registered twice, one with a negative
   and one with an out-of-range priority *)
Definition demo_comps : list comp :=
  [ ([(5, 9, 101); (5, 0, 102); (5, 0, 101); (9, 5, 103); (5, 12, 104); (5, -1, 105)], [(5, 5); (3, 5); (8, 2)], 1000)
  ; ([], [(2, 5); (4, 0); (5, 5); (6, 9); (7, 3)], 2000)
  ; ([(7, 3, 301)], [(3, 5); (7, 3)], 3000) ].
Example demo_time_step_order :
  emit_tagged (register_all no_listeners (all_regs demo_comps)) 5
  = [(0%nat, 102); (0%nat, 101); (5%nat, 1005); (5%nat, 2005); (9%nat, 101); (9%nat, 105)].
Proof. vm_compute. reflexivity. Qed.
(* start 10, stop 17, step 3: ceil(7/3) = 3 steps at clocks 10, 13, 16; the clock ends at 19; creation at 7 *)
Example demo_run :
  match run_simulation 5 fixed (mk_sim 10 17 3 demo_comps) with
  | Ok s => (nsteps s, clock s, icalls s,
             map (fun tc : tcall => let '(_, (c, l, t, e, sz)) := tc in (c, l, t, e)) (filter (fun tc : tcall => let '(_, (c, _, _, _, _)) := tc in c =? 7) (calls s)),
             length (calls s))
  | _ => (0, 0, [], [], 0%nat)
  end
  = (3, 19, [(1003, 7, 3, 7); (3003, 7, 3, 7)],
     [(7, 2007, 10, 13); (7, 301, 10, 13); (7, 3007, 10, 13); (7, 2007, 13, 16); (7, 301, 13, 16); (7, 3007, 13, 16);
      (7, 2007, 16, 19); (7, 301, 16, 19); (7, 3007, 16, 19)], 36%nat).
Proof. vm_compute. reflexivity. Qed.
(* a session with a step size that changes (2, then 3 from clock 12 on): run_until 11 (1 step: 10 -> 12), run_until 12 (none),
   run_until 16 (2 steps: 15, 18), run_until 3 (none) *)
Example demo_session_variable_step :
  match interactive_session 9 (table_nxt [(12, 3)]) [OUntil 11; ORefused; OUntil 12; OUntil 16; ORefused; OUntil 3]
                            (mk_sim 10 100 2 demo_comps) with
  | Ok s => (nsteps s, clock s, stepsz s) | _ => (-1, 0, 0) end = (3, 18, 3).
Proof. vm_compute. reflexivity. Qed.
(* listener 2005 (component 2's time_step hook, bucket 5) raises from clock 13 on: step 1 (clock 10) completes, step 2 is
   abandoned inside time_step after buckets 0 and listener 1005: clock stays 13, one completed step, no cleanup / metrics *)
Example demo_raise :
  match run_simulation_r 9 (raises_when 2005 13) fixed (mk_sim 10 17 3 demo_comps) with
  | Ok (s, raised) => (raised, nsteps s, clock s,
                       map (fun tc : tcall => (fst tc, tc_lid tc)) (filter (fun tc => tc_clock tc =? 13) (calls s)))
  | _ => (false, -1, 0, []) end
  = (true, 1, 13, [(0%nat, 2004); (0%nat, 102); (0%nat, 101); (5%nat, 1005); (5%nat, 2005)]).
Proof. vm_compute. reflexivity. Qed.
Example demo_zero_length :
  match run_only 0 fixed (mk_sim 10 10 3 demo_comps) with Ok s => (nsteps s, clock s, length (icalls s)) | _ => (-1, 0, 0%nat) end
  = (0, 10, 2%nat)
  /\ run_simulation 7 fixed (mk_sim 10 10 3 demo_comps) = Rejected EInvalidTransition.
Proof. vm_compute. auto. Qed.
Example demo_interactive_same :
  match interactive_simulation 9 fixed (mk_sim 10 17 3 demo_comps), run_simulation 9 fixed (mk_sim 10 17 3 demo_comps) with
  | Ok a, Ok b => list_eqb tcall_eqb (calls a) (calls b) && (clock a =? clock b)
  | _, _ => false
  end = true.
Proof. vm_compute. reflexivity. Qed.

Print Assumptions C08_emit_order.
Print Assumptions C08_emit_is_stable_sort.
Print Assumptions C08_priority_is_bucket.
Print Assumptions C08_bad_priority_inert.
Print Assumptions C08_step_trace.
Print Assumptions C08_event_fields.
Print Assumptions C08_run_count.
Print Assumptions C08_steps_needed_is_ceiling.
Print Assumptions C08_steps_log.
Print Assumptions C08_run_fuel_independent.
Print Assumptions C08_run_out_of_fuel_is_explicit.
Print Assumptions C08_fencepost.
Print Assumptions C08_simulation_trace.
Print Assumptions C08_zero_length_run_cannot_finish.
Print Assumptions C08_interactive_run_agrees.
Print Assumptions C08_run_until_count.
Print Assumptions C08_run_until_stops_at_end.
Print Assumptions C08_comparison_sound.
Print Assumptions C08_refused_step_inert.
Print Assumptions C08_refused_calls_deletable.
Print Assumptions C08_raising_listener_abandons_step.
Print Assumptions C08_step_without_raise.
Print Assumptions C08_run_without_raisers.
Print Assumptions C08_abandoned_run_did_not_advance.
