(* C16 - Stratified results count every eligible simulant exactly once.  Statements only; proofs live in
   theories/ResultsProofs.v.  Model: theories/Results.v (ResultsManager / ResultsContext / Stratification / observations).
   All statements quantify over EVERY configuration, sequence of registration attempts, observation, population
   snapshot and event history - no bounds.  External behaviour (mapper outputs, `query` verdicts, weights, to_observe
   verdicts, set iteration order) is universally quantified data inside the snapshots.                              *)
From Viv Require Import Common Results ResultsProofs.
From Coq Require Import Permutation Sorted.
Local Open Scope Z_scope.

(* One event, one adding observation.  [v] = the observation's view of the event population (pop_filter verdict,
   mapped categories with None = excluded/NaN, weight).  (1) conservation: the increments over all strata add up to
   the aggregate over the eligible rows; (2) a stratum's increment is the aggregate over the eligible rows whose
   categories are that stratum; (3) an eligible row contributes its weight to exactly one stratum of the key set and 0
   to every other, an ineligible row (outside the filter, or in an excluded category) contributes to none;
   (4) for a counting observation the aggregate is the NUMBER of eligible rows; (5) what the implementation's pipeline
   (query, dropna, groupby(observed=False), aggregate, fillna(0), expand to the product of the levels) produces is
   exactly these increments, stratum by stratum. *)
Theorem C16_partition : forall cfg qs o ev,
  let regs := build_regs cfg qs [] in
  let v := ev_view regs o ev in
  sumZ (increment v) (strata regs o) = eligible_total v /\
  (forall k, increment v k = sumZ v_w (filter (fun r => eligible r && cats_match (v_cats r) k) v)) /\
  (forall r, In r v ->
     (eligible r = true ->
        exists k, In k (strata regs o) /\ contrib r k = v_w r /\ forall k', k' <> k -> contrib r k' = 0) /\
     (eligible r = false -> forall k, contrib r k = 0)) /\
  (o_kind o = OCount -> eligible_total v = Z.of_nat (length (filter eligible v))) /\
  grouped (map (cats_of_name regs) (o_strats o)) (dropna (vfilter v)) = map (fun k => (k, increment v k)) (strata regs o).
Proof. exact partition_full. Qed.

(* Every event history (any populations: births, untracking, attribute changes; to_observe false on some events; events
   of other phases; empty populations; a refused event ends the run): the value reported for each stratum of each
   adding observation is the sum, over the events that were accepted, of that event's increment - nothing is lost,
   overwritten or counted twice.  [seen] is the accepted prefix: all of [evs] unless an event was refused. *)
Theorem C16_total_is_sum : forall regs os st0 evs st out,
  init regs os = Ok st0 -> run regs st0 evs = (st, out) ->
  let seen := accepted_prefix regs st0 evs in
  (out = Accepted -> seen = evs) /\
  (forall e, out = Refused e -> exists bad rest, evs = seen ++ bad :: rest /\ step regs st bad = (st, Refused e)) /\
  map fst st = os /\
  forall o res, In (o, res) st ->
    match o_kind o, res with
    | OConcat cols, RCat rows => rows = flat_map (ev_rows o cols) seen
    | OConcat _, RAdd _ => False
    | _, RAdd t => map fst t = strata regs o /\
                   forall k, In k (strata regs o) -> tlookup k t = Some (sumZ (fun ev => ev_increment regs o ev k) seen)
    | _, RCat _ => False
    end.
Proof. exact total_is_sum_full. Qed.

(* The key set of a stratified result is the product of the (non-excluded) categories of its stratifications - a
   single `all` row when there are none - without duplicates, present with value 0 right after post_setup, and the
   same after ANY history whatever was observed. *)
Theorem C16_full_index : forall cfg qs os st0 evs st out,
  let regs := build_regs cfg qs [] in
  init regs os = Ok st0 -> run regs st0 evs = (st, out) ->
  forall o res, In (o, res) st -> uses_strats o = true ->
  exists t, res = RAdd t /\ map fst t = strata regs o /\ NoDup (map fst t) /\
            In (o, RAdd (map (fun k => (k, 0)) (strata regs o))) st0 /\
            (forall k, In k (strata regs o) <-> Forall2 (fun c n => In c (cats_of_name regs n)) k (o_strats o)) /\
            (o_strats o = [] -> strata regs o = [[]]).
Proof. exact full_index. Qed.

(* ... where the categories of a registered stratification are the requested ones minus the excluded ones (argument if
   given, else the configuration's), in the requested order, for every sequence of registration attempts. *)
Theorem C16_categories : forall cfg qs s, In s (build_regs cfg qs []) ->
  exists q, In q qs /\ s_name s = q_name q /\ s_excl s = resolve_excl cfg q /\
            s_cats s = filter (fun c => negb (zmem c (resolve_excl cfg q))) (q_cats q) /\ NoDup (s_cats s).
Proof. exact categories_origin. Qed.

(* A simulant mapped to something that is neither a category nor an excluded category (or to NaN), by ANY registered
   stratification - used by an observation or not - stops the simulation, and no total changes. *)
Theorem C16_unknown_stops : forall regs st ev rest, has_unknown regs (e_rows ev) = true ->
  step regs st ev = (st, Refused EOther) /\ run regs st (ev :: rest) = (st, Refused EOther).
Proof. intros regs st ev rest H. split; [now apply unknown_step|now apply unknown_run]. Qed.

Theorem C16_unknown_means : forall regs rows, has_unknown regs rows = true <->
  exists r s, In r rows /\ In s regs /\ exists e, classify s (raw_of (s_name s) r) = Rejected e.
Proof. exact has_unknown_spec. Qed.

Theorem C16_rejected_means : forall s raw e, classify s raw = Rejected e ->
  e = EOther /\ (mapped_value s raw = None \/
                 exists v, mapped_value s raw = Some v /\ ~ In v (s_cats s) /\ ~ In v (s_excl s)).
Proof. exact classify_rejected. Qed.

(* Concatenating observations: the rows are exactly the filtered rows of the observed events, event after event, in
   population order (no dropna: such observations are not stratified). *)
Theorem C16_concat : forall regs os st0 evs st out o cols rows,
  init regs os = Ok st0 -> run regs st0 evs = (st, out) -> In (o, RCat rows) st -> o_kind o = OConcat cols ->
  rows = flat_map (fun ev => if observed o ev then map (payload cols ev) (filter (passes o) (e_rows ev)) else [])
                  (accepted_prefix regs st0 evs).
Proof.
  intros regs os st0 evs st out o cols rows Hi Hr Hin Hk.
  destruct (total_is_sum_full _ _ _ _ _ _ Hi Hr) as [_ [_ [_ H]]]. specialize (H _ _ Hin). rewrite Hk in H. exact H.
Qed.

(* The stratification tuple of an observation is sort(dedup(default ++ requested ++ additional) - excluded) whatever
   order the Python set is iterated in (feeds C01): strictly increasing, hence duplicate-free. *)
Theorem C16_strat_resolution : forall d r a e iter, Permutation iter (spec_set d r a e) ->
  resolve iter = isort (spec_set d r a e) /\ StronglySorted Z.lt (resolve iter) /\
  forall x, In x (resolve iter) <-> (In x d \/ In x r \/ In x a) /\ ~ In x e.
Proof. exact resolution_full. Qed.

Theorem C16_strat_resolution_order_free : forall iter1 iter2, Permutation iter1 iter2 -> resolve iter1 = resolve iter2.
Proof. exact resolve_perm_invariant. Qed.

(* ---------------------------------------------------------------------------------------------------------------
   non-vacuity: a concrete registry (one mapped stratification with an excluded category, one binned), two
   observations, a three-event history with an untracked simulant, an excluded simulant and an unobserved event
   --------------------------------------------------------------------------------------------------------------- *)
Definition ex_qs : list sreq :=
  [ {| q_name := 1; q_cats := [10; 11; 12]; q_excl := Some [12]; q_kind := QDefault; q_sources := 1%nat |};
    {| q_name := 2; q_cats := [20; 21]; q_excl := None; q_kind := QBinned [0; 10; 60]; q_sources := 1%nat |};
    {| q_name := 1; q_cats := [13]; q_excl := None; q_kind := QDefault; q_sources := 1%nat |} ].   (* refused: name used *)
Definition ex_regs := build_regs [] ex_qs [].
Definition ex_os : list obs :=
  [ {| o_name := 0; o_phase := 3; o_filter := 0%nat; o_strats := [1; 2]; o_kind := OCount |};
    {| o_name := 1; o_phase := 3; o_filter := 1%nat; o_strats := []; o_kind := OSum 0%nat |};
    {| o_name := 2; o_phase := 3; o_filter := 0%nat; o_strats := []; o_kind := OConcat [0%nat] |} ].
Definition ex_row (l c age : Z) (tracked : bool) (w : Z) : row :=
  {| r_label := l; r_raw := [(1, Some c); (2, Some age)]; r_pass := [tracked; true]; r_w := [w]; r_pay := [l] |}.
Definition ex_ev (t : Z) (rows : list row) (obs : list Z) : event :=
  {| e_phase := 3; e_time := t; e_rows := rows; e_obs := obs |}.
Definition ex_evs : list event :=
  [ ex_ev 1 [ex_row 0 10 5 true 3; ex_row 1 11 10 true 4; ex_row 2 12 30 true 5] [0; 1; 2];
    ex_ev 2 [ex_row 0 10 9 true 3; ex_row 1 11 10 false 4; ex_row 2 12 30 true 5; ex_row 3 10 59 true 1] [0; 1; 2];
    ex_ev 3 [ex_row 0 10 9 true 3] [1] ].

Example ex_registry : map s_name ex_regs = [1; 2] /\ map s_cats ex_regs = [[10; 11]; [20; 21]].
Proof. vm_compute. auto. Qed.
Example ex_run :
  match init ex_regs ex_os with
  | Ok st0 => let '(st, out) := run ex_regs st0 ex_evs in
              (out, map snd st) =
              (Accepted, [RAdd [([10; 20], 2); ([10; 21], 1); ([11; 20], 0); ([11; 21], 1)];
                          RAdd [([], 3 + 4 + 5 + 3 + 4 + 5 + 1 + 3)];
                          RCat [(1, [0]); (1, [1]); (1, [2]); (2, [0]); (2, [2]); (2, [3])]])
  | _ => False
  end.
Proof. vm_compute. reflexivity. Qed.
(* an unknown category (13 is neither a category nor excluded) and an age outside the bins both stop the run *)
Example ex_unknown :
  has_unknown ex_regs [ex_row 0 13 5 true 1] = true /\ has_unknown ex_regs [ex_row 0 10 60 true 1] = true /\
  has_unknown ex_regs [ex_row 0 12 59 true 1] = false.
Proof. vm_compute. auto. Qed.
Example ex_resolve : resolve [5; 1; 3] = [1; 3; 5] /\ spec_set [3; 1] [1] [5; 7] [7] = [3; 1; 5].
Proof. vm_compute. auto. Qed.

Print Assumptions C16_partition.
Print Assumptions C16_total_is_sum.
Print Assumptions C16_full_index.
Print Assumptions C16_categories.
Print Assumptions C16_unknown_stops.
Print Assumptions C16_unknown_means.
Print Assumptions C16_rejected_means.
Print Assumptions C16_concat.
Print Assumptions C16_strat_resolution.
Print Assumptions C16_strat_resolution_order_free.
