(* C10 - Per-simulant clocks: nobody is skipped, nobody is updated early.  Statements only; the model is
   theories/Clock.v (time.py, engine.step, InteractiveContext.step as they are after the repairs of F-A and F-B), the
   proofs are in theories/ClockProofs.v.  All statements quantify over every clock state / population (the single
   simulant 0 and the empty population included), every assignment of requested steps [req] and every history.

   Guards kept visible (see ClockProofs.v):
     req_ok c req    the requested steps are non-negative (a negative request makes the post-processor negative);
     step_guard c    no move-to-end request is pending, or the step ends before stop + minimum (beyond that the parked
                     step stop + minimum - T is not positive) - implied by "T + S <= E", the steps run() takes;
     Ok results      a move-to-end request for a simulant that is not updated at the next step raises KeyError in the
                     real code (robustness note F-I): modelled as Rejected and excluded by "= Ok c'".              *)
From Viv Require Import Common Clock ClockProofs.
Local Open Scope Z_scope.

(* each simulant's step is the smallest step requested for it by any modifier (the standard step where none applies),
   rounded down to a whole multiple of the minimum step and never below it *)
Theorem C10_post_spec : forall m0 std0 vals, 0 < m0 -> 0 <= std0 -> (forall v, In (Some v) vals -> 0 <= v) ->
  let v := requested std0 vals in
  (forall w, In (Some w) vals -> v <= w) /\
  (In (Some v) vals \/ ((forall w, ~ In (Some w) vals) /\ v = std0)) /\
  post m0 std0 vals = m0 * Z.max 1 (v / m0) /\
  post m0 std0 vals mod m0 = 0 /\ m0 <= post m0 std0 vals /\
  (m0 <= v -> post m0 std0 vals <= v /\ v < post m0 std0 vals + m0).
Proof.
  intros m0 std0 vals Hm Hs Hv v. destruct (requested_spec std0 vals) as [H1 H2].
  split; [exact H1|]. split; [exact H2|]. apply post_spec; [exact Hm | now apply requested_nonneg].
Qed.

(* EVERY step_forward - whatever the state before it - ends with every next-event time strictly after the clock and
   the global step equal to (earliest next-event time - clock), hence positive.  In particular at every boundary from
   which run() continues (T + S < E, positive requests). *)
Theorem C10_invariant : forall req c c', 0 < m c -> 0 <= std c ->
  (forall l v, In (Some v) (req l) -> 0 < v) -> T c + S c < E c -> (rows c = [] -> 0 < S c) ->
  step_forward req c = Ok c' ->
  0 < S c' /\ (forall r, In r (rows c') -> T c' < nxt r) /\ (rows c' <> [] -> S c' = min_next (rows c') - T c').
Proof.
  intros req c c' Hm Hs Hv Hend Hemp H.
  apply (step_forward_establishes_inv req c c'); auto.
  - apply req_ok_of_nonneg; [exact Hs|]. intros l v Hin. specialize (Hv l v Hin). lia.
  - apply step_guard_before_end; lia.
Qed.

Theorem C10_invariant_general : forall req c c', 0 < m c -> req_ok c req -> step_guard c -> (rows c = [] -> 0 < S c) ->
  step_forward req c = Ok c' -> Inv c'.
Proof. exact step_forward_establishes_inv. Qed.

(* ... it holds after initialize_simulants for every population size (0 and 1 included) ... *)
Theorem C10_invariant_initial : forall req c n c', 0 < m c -> 0 < S c -> req_ok c req -> rows c = [] -> snooze c = [] ->
  initialize req c n = Ok c' -> Inv c' /\ WF c' /\ T c' = T c /\ length (rows c') = n.
Proof. exact initialize_inv. Qed.

(* ... and is preserved by births and move-to-end requests, hence along ANY history of StepForward / Create / Snooze *)
Theorem C10_invariant_history : forall ops c c', 0 < m c -> Inv c -> guards c ops -> run_ops c ops = Ok c' -> Inv c'.
Proof. exact invariant_history. Qed.

(* ... and along any sequence of whole engine steps (four events with births / move-to-end requests, then step_forward) *)
Theorem C10_invariant_run : forall z steps c c', 0 < m c -> Inv c -> WF c -> engine_guards z c steps ->
  run_engine z c steps = Ok c' -> Inv c' /\ WF c'.
Proof. exact engine_history. Qed.

(* every iteration advances the global clock exactly to the earliest pending next-event time *)
Theorem C10_clock_hits_earliest : forall req c c', Inv c -> rows c <> [] -> step_forward req c = Ok c' ->
  T c + S c = min_next (rows c) /\ T c' = min_next (rows c).
Proof.
  intros req c c' HI Hne H. split; [now apply inv_hits_earliest | now apply (clock_hits_earliest req)].
Qed.

(* each main-loop event includes exactly the simulants whose next-event time has been reached: the index is the list
   of the simulants whose next-event time IS the earliest pending one (never empty) ... *)
Theorem C10_active_exact : forall c, Inv c -> rows c <> [] ->
  active c = labels (filter (fun r => nxt r =? min_next (rows c)) (rows c)) /\ active c <> [].
Proof. exact inv_active_exact. Qed.

(* ... and this is so for each of the four events of a step, whatever births and move-to-end requests happen during
   them: a simulant alive at the start of the step is in an event index iff its next-event time = the event time *)
Theorem C10_event_index_exact : forall z req c acts c' idxs, WF c -> Inv c ->
  engine_step z req c acts = Ok (c', idxs) ->
  forall idx r, In idx idxs -> In r (rows c) -> (In (lbl r) idx <-> nxt r = T c + S c).
Proof. exact event_index_exact. Qed.

(* no next-event time is ever passed: the clock never exceeds a pending time, and reaches it only in a step whose
   events include the simulant *)
Theorem C10_never_passed : forall req c c', Inv c -> step_forward req c = Ok c' ->
  forall r, In r (rows c) -> T c < nxt r /\ T c' <= nxt r /\ (nxt r = T c' -> In (lbl r) (active c)).
Proof.
  intros req c c' HI H r Hr. destruct (never_passed req c c' HI H r Hr) as [H1 H2].
  split; [|split; assumption]. destruct HI as [_ [Hlt _]]. now apply Hlt.
Qed.

(* an included simulant's next-event time moves forward by its step (the post-processed request, or the distance to
   stop + minimum if it was moved to the end); everybody else's clock is untouched: nobody is updated early *)
Theorem C10_included_advances : forall req c c', Inv c -> rows c <> [] -> step_forward req c = Ok c' ->
  forall r, In r (rows c) ->
    (due (T c + S c) r = true ->
       In {| lbl := lbl r; nxt := T c' + new_step req c (T c') (lbl r); stp := new_step req c (T c') (lbl r) |} (rows c')) /\
    (due (T c + S c) r = false -> In r (rows c')).
Proof. exact included_advances. Qed.

(* simulants moved to the end are parked at stop + minimum and are in no later event whose event time is at or before
   the stop time - through any later history of births, further move-to-end requests and steps *)
Theorem C10_snoozed_not_before_end : forall req c c1 r, WF c -> Inv c -> 0 < m c ->
  step_forward req c = Ok c1 -> In r (rows c) -> due (T c + S c) r = true -> zmem (lbl r) (snooze c) = true ->
  let r' := {| lbl := lbl r; nxt := E c + m c; stp := E c + m c - T c1 |} in
  In r' (rows c1) /\
  forall ops c2, within_end c1 ops -> run_ops c1 ops = Ok c2 ->
    In r' (rows c2) /\ (T c2 + S c2 <= E c2 -> ~ In (lbl r) (active c2)).
Proof. exact snoozed_not_before_end. Qed.

(* InteractiveContext.step without a step_size argument IS the engine's step, so stepping interactively (step,
   take_steps) visits exactly the states run() visits; with an argument the step is taken with that size and the
   pre-step global step is put back (the caller's own schedule: see istep_override_may_break_inv) *)
Theorem C10_istep_no_override : forall z req c acts, istep z None req c acts = engine_step z req c acts.
Proof. exact istep_none. Qed.

Theorem C10_take_steps_eq_run : forall z steps c,
  run_interactive z c (map (fun s => (None, s)) steps) = run_engine z c steps.
Proof. exact interactive_no_override_eq_run. Qed.

Theorem C10_istep_override : forall z s req c acts c' idxs, istep z (Some s) req c acts = Ok (c', idxs) ->
  exists c2, engine_step z req (with_S c s) acts = Ok (c2, idxs) /\ c' = with_S c2 (S c) /\ T c' = T c + s.
Proof. exact istep_override. Qed.

(* ---- untracked simulants.  The engine hands the clock the FULL population, untracked simulants included (engine.py
   since commit a70d8de6, under every context class); [untracked] is part of the model state and no clock operation
   reads it.  Hence: the whole schedule (clock, global step, both clock columns, pending move-to-end set, errors) of
   ANY history is that of the same history with all untracking erased, whatever was untracked before ... ---- *)
Theorem C10_untracked_never_matters : forall ops c u,
  clock_of (run_ops c ops) = clock_of (run_ops (with_untracked c u) (erase_untrack ops)).
Proof. exact untracked_never_matters. Qed.

(* ... untracking keeps the invariant (so C10_invariant_history / C10_invariant_run cover histories with Untrack) and an
   untracked simulant is in an event index exactly when its time has been reached *)
Theorem C10_untracked_in_events : forall c r, WF c -> Inv c -> In r (rows c) -> In (lbl r) (untracked c) ->
  (In (lbl r) (active c) <-> nxt r = T c + S c).
Proof. exact untracked_in_events. Qed.

(* ---- run_until(end) / run_for(duration) / run() (loop `while clock.time < end: step()`, commit 98b7435f): the result
   keeps the invariant, is the first step boundary at or after the end time reached by the engine steps taken, no step
   is taken from a boundary at or after the end time, and the returned count is the number of steps ---- *)
Theorem C10_run_until_spec : forall z e steps c c' n, run_until z e c steps = Ok (c', n) ->
  e <= T c' /\ (n <= length steps)%nat /\ run_engine z c (firstn n steps) = Ok c' /\
  forall k ck, (k < n)%nat -> run_engine z c (firstn k steps) = Ok ck -> T ck < e.
Proof. intros z e steps. exact (run_until_spec z e steps). Qed.

Theorem C10_run_until_invariant : forall z e steps c c' n, 0 < m c -> Inv c -> WF c -> engine_guards z c steps ->
  run_until z e c steps = Ok (c', n) -> Inv c' /\ WF c' /\ e <= T c'.
Proof. exact run_until_inv. Qed.

Theorem C10_run_until_noop : forall z e c steps, e <= T c -> run_until z e c steps = Ok (c, O).
Proof. exact run_until_noop. Qed.

(* every step moves the clock strictly forward (so the loops above make progress) *)
Theorem C10_step_progress : forall z req c acts c' idxs, Inv c -> engine_step z req c acts = Ok (c', idxs) -> T c < T c'.
Proof. exact engine_step_progress. Qed.

(* ---- regression: the two defects repaired in /repo (F-A 47eaecae, F-B 58535de7) are refuted by the old code's model ---- *)
Theorem C10_old_any_guard_refuted : exists c req c', Inv c /\ T c + S c < E c /\ step_forward_any req c = Ok c' /\ ~ Inv c'.
Proof. exact any_guard_refuted. Qed.
Theorem C10_old_istep_refuted : exists c req c' idxs, Inv c /\ istep_old false req c [] = Ok (c', idxs) /\ ~ Inv c'.
Proof. exact istep_old_refuted. Qed.
(* F-C (a70d8de6): a clock that is handed the tracked simulants only passes an untracked simulant's time *)
Theorem C10_old_tracked_only_refuted : exists c req c', Inv c /\ WF c /\
  step_forward_on (is_tracked c) req c = Ok c' /\ (exists r, In r (rows c') /\ nxt r <= T c') /\ ~ Inv c'.
Proof. exact tracked_only_refuted. Qed.

(* ---- non-vacuity ---- *)
(* a 1-tick clock, stop 12, standard step 2; three simulants asked for steps 2, 3, 7/2-rounded; simulant 0 alone *)
Definition clk0 : clk := {| T := 0; S := 1; E := 12; m := 1; std := 2; rows := []; snooze := []; untracked := [] |}.
Definition req3 (l : Z) : list (option Z) := [None; Some (2 + Z.abs l)].
Example req3_ok c : req_ok c req3.
Proof. intros l. unfold req3, requested. cbn [min_some]. lia. Qed.
Definition c3 : clk :=
  {| T := 0; S := 2; E := 12; m := 1; std := 2; snooze := []; untracked := [];
     rows := [ {| lbl := 0; nxt := 2; stp := 2 |}; {| lbl := 1; nxt := 3; stp := 3 |}; {| lbl := 2; nxt := 4; stp := 4 |} ] |}.
Example c3_is_initial : initialize req3 clk0 3 = Ok c3.
Proof. reflexivity. Qed.
Example c3_inv : Inv c3 /\ WF c3.
Proof.
  split; [|reflexivity]. unfold Inv, c3; simpl. split; [lia|]. split; [|reflexivity].
  intros r [<-|[<-|[<-|[]]]]; simpl; lia.
Qed.
(* a history with a birth, a move-to-end request for the whole event index, and five steps: indexes and clocks *)
Example c3_trace :
  let acts := [ {| births := 0; sn := []; ut := [] |}; {| births := 1; sn := [0]; ut := [1] |};
                {| births := 0; sn := []; ut := [] |}; {| births := 0; sn := []; ut := [] |} ] in
  match engine_step true req3 c3 acts with
  | Ok (c, idxs) => idxs = [[0]; [0]; [0; 3]; [0; 3]] /\ T c = 2 /\ S c = 1 /\
                    rows c = [ {| lbl := 0; nxt := 13; stp := 11 |}; {| lbl := 1; nxt := 3; stp := 3 |};
                               {| lbl := 2; nxt := 4; stp := 4 |}; {| lbl := 3; nxt := 7; stp := 5 |} ] /\
                    untracked c = [1]
  | _ => False
  end.
Proof. vm_compute. auto. Qed.
(* the single simulant 0 (F-A's population) with a 3-tick request *)
Example single0 : exists c, initialize (fun _ => [None; Some 3]) clk0 1 = Ok c /\ S c = 3 /\
  rows c = [ {| lbl := 0; nxt := 3; stp := 3 |} ] /\ active c = [0] /\
  exists c', step_forward (fun _ => [None; Some 3]) (snooze_op c [0]) = Ok c' /\
             rows c' = [ {| lbl := 0; nxt := 13; stp := 10 |} ] /\ T c' = 3 /\ S c' = 10.
Proof. eexists. split; [reflexivity|]. repeat split. eexists. repeat split. Qed.
(* guards are satisfiable: the history above satisfies [guards] *)
Example guards_nonvacuous : guards c3 [Snooze [0]; Create 1; StepForward req3] /\
  exists c, run_ops c3 [Snooze [0]; Create 1; StepForward req3] = Ok c /\ T c = 2 /\ Inv c.
Proof.
  assert (G : guards c3 [Snooze [0]; Create 1; StepForward req3]).
  { simpl. split; [exact I|]. intros c1 [= <-]. split; [exact I|]. intros c2 [= <-]. split; [|intros; exact I].
    split; [apply req3_ok | right; vm_compute; reflexivity]. }
  split; [exact G|]. eexists. split; [reflexivity|]. split; [reflexivity|].
  eapply (C10_invariant_history _ c3); [reflexivity | apply c3_inv | exact G | reflexivity].
Qed.
(* an event beyond stop + minimum with a pending move-to-end request is outside the invariant: the guard is needed *)
Example step_guard_needed : exists c c', Inv c /\ WF c /\ step_forward req3 c = Ok c' /\ ~ Inv c'.
Proof.
  exists {| T := 8; S := 5; E := 10; m := 1; std := 2; snooze := [0]; untracked := [];
            rows := [ {| lbl := 0; nxt := 13; stp := 5 |} ] |}.
  eexists. split; [|split; [reflexivity|split; [reflexivity|]]].
  - unfold Inv; simpl. split; [lia|]. split; [|reflexivity]. intros r [<-|[]]; simpl; lia.
  - intros [H _]. vm_compute in H. discriminate.
Qed.

(* run_until from c3: to time 4 takes the boundaries 2, 3, 4 (three steps) with simulant 1 untracked on the way; the
   untracked simulant 1 is in the event at its time 3 *)
Definition quiet4 : list ev_act := repeat {| births := 0; sn := []; ut := [] |} 4.
Example run_until_example :
  match run_until true 4 c3 [(req3, {| births := 0; sn := []; ut := [1] |} :: repeat {| births := 0; sn := []; ut := [] |} 3);
                             (req3, quiet4); (req3, quiet4); (req3, quiet4); (req3, quiet4)] with
  | Ok (c, n) => n = 3%nat /\ T c = 4 /\ untracked c = [1]
  | _ => False
  end /\
  match engine_step true req3 (untrack_op c3 [1]) quiet4 with
  | Ok (c, _) => snd (run_events c quiet4) = repeat [1] 4 | _ => False end.
Proof. vm_compute. auto. Qed.

Print Assumptions C10_post_spec.
Print Assumptions C10_invariant.
Print Assumptions C10_invariant_general.
Print Assumptions C10_invariant_initial.
Print Assumptions C10_invariant_history.
Print Assumptions C10_invariant_run.
Print Assumptions C10_clock_hits_earliest.
Print Assumptions C10_active_exact.
Print Assumptions C10_event_index_exact.
Print Assumptions C10_never_passed.
Print Assumptions C10_included_advances.
Print Assumptions C10_snoozed_not_before_end.
Print Assumptions C10_istep_no_override.
Print Assumptions C10_take_steps_eq_run.
Print Assumptions C10_istep_override.
Print Assumptions C10_old_any_guard_refuted.
Print Assumptions C10_old_istep_refuted.
Print Assumptions C10_untracked_never_matters.
Print Assumptions C10_untracked_in_events.
Print Assumptions C10_run_until_spec.
Print Assumptions C10_run_until_invariant.
Print Assumptions C10_run_until_noop.
Print Assumptions C10_step_progress.
Print Assumptions C10_old_tracked_only_refuted.
