(* C14 - A pipeline value is source, then modifiers in order, then post-processing.
   Statements only; proofs live in theories/PipelineProofs.v.  Callables (sources, modifiers, post-processors, and the
   truth value Python gives a source callable) are universally quantified functions; evaluation logs every call of a
   callable with the arguments it received, so "once", "in order", "previous output as last argument" are statements
   about the logged trace.

   No guard: "has a source" is `source is not None` (fix e7ddbc13, finding F-Y).  Before that fix the code tested the
   truthiness of the source callable and the registry / call theorems needed [forall s, truthy s = true]; what failed
   without it is recorded as C14_old_truthiness_second_source / C14_old_truthiness_call, statements about the
   explicitly named old model Pipeline.OldTruthiness (not about the code as it is now). *)
From Viv Require Import Common Pipeline PipelineProofs.
From Coq Require Import Permutation.
Local Open Scope Z_scope.

Section Statements.
  Variables arg atom : Type.
  Variable src : Z -> arg -> pv atom.
  Variable modr : Z -> arg -> pv atom -> pv atom.
  Variable modl : Z -> arg -> atom.
  Variable post : postk -> pv atom -> result (pv atom).
  Local Notation step' := (step arg atom src modr modl post).
  Local Notation run' := (run arg atom src modr modl post).
  Local Notation call' := (call arg atom src modr modl post).

  (* For EVERY sequence of registrations, look-ups and calls by anybody, in any interleaving (no guard needed):
     a pipeline's mutator list is the sub-sequence of the modifier registrations for its name, in registration order -
     before or after the source, through rejected registrations, through calls. *)
  Theorem C14_registry_mutators : forall ops r n,
    p_muts (get_pipe (fst (run' r ops)) n) = p_muts (get_pipe r n) ++ mods_of n ops.
  Proof. exact (run_muts arg atom src modr modl post). Qed.

  (* For EVERY history from the empty registry: mutators as above; the source (with its combiner and post-processor) is
     the FIRST producer registered for the name; every later producer registration for that name is rejected with
     DynamicValueError and returns the very same registry. *)
  Theorem C14_registry : forall ops n,
    let r := fst (run' [] ops) in
    p_muts (get_pipe r n) = mods_of n ops /\
    match first_producer n ops with
    | Some (s, c, k) => p_source (get_pipe r n) = Some s /\ p_comb (get_pipe r n) = c /\ p_post (get_pipe r n) = k
    | None => p_source (get_pipe r n) = None
    end /\
    (forall pre s c k rest, ops = pre ++ RegisterProducer n s c k :: rest -> first_producer n pre <> None ->
       step' (fst (run' [] pre)) (RegisterProducer n s c k) = (fst (run' [] pre), ORejected EDynamicValue)).
  Proof. exact (registry_history arg atom src modr modl post). Qed.

  (* one step: whenever the pipeline has a source, a further source is refused, inertly *)
  Theorem C14_second_source_rejected : forall r n s c k,
    has_source (get_pipe r n) = true -> step' r (RegisterProducer n s c k) = (r, ORejected EDynamicValue).
  Proof. exact (second_source_rejected arg atom src modr modl post). Qed.

  (* calls and look-ups change nothing that is registered *)
  Theorem C14_call_inert : forall r n a skip, fst (step' r (Call n a skip)) = r.
  Proof. exact (call_inert arg atom src modr modl post). Qed.
  Theorem C14_get_value_inert : forall r n m, get_pipe (fst (step' r (GetValue n))) m = get_pipe r m.
  Proof. exact (get_value_inert arg atom src modr modl post). Qed.

  (* replace_combiner: the trace is exactly  Src args; Mod m1 (args, v0); Mod m2 (args, v1); ...; [Post v_k]
     where v0 = source(args), v_i = m_i(args, v_(i-1)) - each modifier receives the previous stage's output as its last
     argument - and the value is post (v_k) (v_k itself when skipped or without post-processor). *)
  Theorem C14_call_trace_replace : forall p s a skip,
    p_source p = Some s -> p_comb p = CReplace ->
    let v := fold_left (fun x m => modr m a x) (p_muts p) (src s a) in
    call' p a skip =
      (ESrc s a :: replace_trace arg atom modr a (p_muts p) (src s a) ++
         (if post_applies p skip then [EPost (p_post p) v] else []),
       if post_applies p skip then post (p_post p) v else Ok v).
  Proof. exact (call_replace arg atom src modr modl post). Qed.

  (* list_combiner: every modifier is called with the caller's arguments only and contributes one appended entry *)
  Theorem C14_call_trace_list : forall p s a skip l0,
    p_source p = Some s -> p_comb p = CList -> src s a = Many l0 ->
    let v := Many (l0 ++ map (fun m => modl m a) (p_muts p)) in
    call' p a skip =
      (ESrc s a :: map (fun m => EMod m a None) (p_muts p) ++
         (if post_applies p skip then [EPost (p_post p) v] else []),
       if post_applies p skip then post (p_post p) v else Ok v).
  Proof. exact (call_list arg atom src modr modl post). Qed.

  (* whatever the combiner: a call that returns a value evaluated the source once, every registered modifier exactly
     once in registration order, and the post-processor once or (skipped / none) not at all *)
  Theorem C14_exactly_once : forall p a skip tr v, call' p a skip = (tr, Ok v) ->
    exists s, p_source p = Some s /\ src_ids tr = [s] /\ mod_ids tr = p_muts p /\
              post_ids tr = (if post_applies p skip then [p_post p] else []).
  Proof. exact (call_exactly_once arg atom src modr modl post). Qed.

  (* no source: DynamicValueError and NOTHING is evaluated *)
  Theorem C14_no_source : forall p a skip, has_source p = false -> call' p a skip = ([], Rejected EDynamicValue).
  Proof. exact (call_no_source arg atom src modr modl post). Qed.

  (* nothing is ever evaluated before the source *)
  Theorem C14_source_first : forall p a skip tr rv, call' p a skip = (tr, rv) -> tr <> [] ->
    exists s rest, p_source p = Some s /\ tr = ESrc s a :: rest.
  Proof. exact (call_trace_starts_with_source arg atom src modr modl post). Qed.

  (* registry and call together: after ANY history, calling pipeline n logs its first-registered source, then the
     modifiers registered for n in registration order, then the post-processor *)
  Theorem C14_history_call_replace : forall ops n s k a skip,
    first_producer n ops = Some (s, CReplace, k) ->
    let ms := mods_of n ops in
    let v := fold_left (fun x m => modr m a x) ms (src s a) in
    let applies := match k with PNone => false | _ => negb skip end in
    step' (fst (run' [] ops)) (Call n a skip) =
      (fst (run' [] ops),
       OCalled (ESrc s a :: replace_trace arg atom modr a ms (src s a) ++ (if applies then [EPost k v] else []))
               (if applies then post k v else Ok v)).
  Proof. exact (history_call_replace arg atom src modr modl post). Qed.

  Theorem C14_history_call_list : forall ops n s k a skip l0,
    first_producer n ops = Some (s, CList, k) -> src s a = Many l0 ->
    let ms := mods_of n ops in
    let v := Many (l0 ++ map (fun m => modl m a) ms) in
    let applies := match k with PNone => false | _ => negb skip end in
    step' (fst (run' [] ops)) (Call n a skip) =
      (fst (run' [] ops),
       OCalled (ESrc s a :: map (fun m => EMod m a None) ms ++ (if applies then [EPost k v] else []))
               (if applies then post k v else Ok v)).
  Proof. exact (history_call_list arg atom src modr modl post). Qed.

  Theorem C14_history_call_unsourced : forall ops n a skip,
    first_producer n ops = None ->
    step' (fst (run' [] ops)) (Call n a skip) = (fst (run' [] ops), OCalled [] (Rejected EDynamicValue)).
  Proof. exact (history_call_unsourced arg atom src modr modl post). Qed.
  (* ---- a pipeline used as the source of another pipeline ---- *)
  Variable nested : Z -> option Z.          (* the pipeline a source id denotes, if it denotes one *)
  Local Notation ncall' := (ncall arg atom src modr modl post nested).

  (* with ordinary sources the nested evaluator is Pipeline._call itself *)
  Theorem C14_nested_flat : forall f r n a skip,
    match p_source (get_pipe r n) with Some s => nested s = None | None => True end ->
    ncall' (S f) r n a skip = call' (get_pipe r n) a skip.
  Proof. exact (ncall_flat arg atom src modr modl post nested). Qed.

  (* the inner pipeline's complete evaluation - source, modifiers, its own post-processor (never skipped) - is embedded
     ONCE where the source call would be; then the outer modifiers in order, then the outer post-processor *)
  Theorem C14_nested_replace : forall f r n a skip s m tri vi,
    p_source (get_pipe r n) = Some s -> nested s = Some m -> p_comb (get_pipe r n) = CReplace ->
    ncall' f r m a false = (tri, Ok vi) ->
    let p := get_pipe r n in
    let v := fold_left (fun x q => modr q a x) (p_muts p) vi in
    ncall' (S f) r n a skip =
      (tri ++ replace_trace arg atom modr a (p_muts p) vi ++ (if post_applies p skip then [EPost (p_post p) v] else []),
       if post_applies p skip then post (p_post p) v else Ok v).
  Proof. exact (ncall_nested_replace arg atom src modr modl post nested). Qed.

  Theorem C14_nested_list : forall f r n a skip s m tri li,
    p_source (get_pipe r n) = Some s -> nested s = Some m -> p_comb (get_pipe r n) = CList ->
    ncall' f r m a false = (tri, Ok (Many li)) ->
    let p := get_pipe r n in
    let v := Many (li ++ map (fun q => modl q a) (p_muts p)) in
    ncall' (S f) r n a skip =
      (tri ++ map (fun q => EMod q a None) (p_muts p) ++ (if post_applies p skip then [EPost (p_post p) v] else []),
       if post_applies p skip then post (p_post p) v else Ok v).
  Proof. exact (ncall_nested_list arg atom src modr modl post nested). Qed.

  (* an inner failure (an unsourced pipeline down the chain, a raising callable) is the outer call's failure; nothing
     of the outer pipeline is evaluated *)
  Theorem C14_nested_failure : forall f r n a skip s m tri e,
    p_source (get_pipe r n) = Some s -> nested s = Some m -> ncall' f r m a false = (tri, Rejected e) ->
    ncall' (S f) r n a skip = (tri, Rejected e).
  Proof. exact (ncall_nested_failure arg atom src modr modl post nested). Qed.

  (* exactly once along a chain of any depth: one source evaluation, the chain's modifiers innermost first, every inner
     post-processor and the outermost one unless skipped *)
  Theorem C14_nested_exactly_once : forall f r n a skip tr v, ncall' f r n a skip = (tr, Ok v) ->
    length (src_ids tr) = 1%nat /\ mod_ids tr = chain_mods nested f r n /\ post_ids tr = chain_posts nested f r n skip.
  Proof. exact (ncall_exactly_once arg atom src modr modl post nested). Qed.
End Statements.

(* Historical (model of the code BEFORE fix e7ddbc13): a falsy source callable was overwritten by a second registration
   that was nevertheless answered with an error, and made its pipeline refuse every call; on truthy callables the old
   code coincides with the present one. *)
Theorem C14_old_truthiness_second_source :
  exists (tr : Z -> bool) (r : registry) n s c k e,
    p_source (get_pipe r n) <> None /\
    OldTruthiness.old_register_producer tr r n s c k =
      (set_pipe r n {| p_source := Some s; p_muts := p_muts (get_pipe r n); p_comb := c; p_post := k |}, Some e) /\
    get_pipe (fst (OldTruthiness.old_register_producer tr r n s c k)) n <> get_pipe r n.
Proof. exact old_second_source_not_inert. Qed.

Theorem C14_old_truthiness_call :
  exists (tr : Z -> bool) p, p_source p <> None /\ OldTruthiness.old_call_refused tr p = true.
Proof. exact old_sourced_call_refused. Qed.

(* ---- the rate post-processor: exact rational arithmetic, rate * step / year ---- *)
Theorem C14_rescale :
  (forall v s, rescale_q v s = qmul v (s, year_ns)) /\                                    (* the value itself *)
  (forall v s, qpos v -> qpos (rescale_q v s)) /\
  (* local: simulant i's result is simulant i's rate times simulant i's OWN step - nobody else's, not the global one *)
  (forall vs steps i, nth_error (rescale_vec vs steps) i =
      match nth_error vs i, nth_error steps i with Some v, Some s => Some (rescale_q v s) | _, _ => None end) /\
  (forall vs vs' steps steps' i, nth_error vs i = nth_error vs' i -> nth_error steps i = nth_error steps' i ->
      nth_error (rescale_vec vs steps) i = nth_error (rescale_vec vs' steps') i) /\
  (* linear in the rate, additive and monotone in the step *)
  (forall a b v w s, qeq (rescale_q (qadd (qmul a v) (qmul b w)) s)
                         (qadd (qmul a (rescale_q v s)) (qmul b (rescale_q w s)))) /\
  (forall v s1 s2, qeq (rescale_q v (s1 + s2)) (qadd (rescale_q v s1) (rescale_q v s2))) /\
  (forall v s1 s2, qpos v -> 0 <= fst v -> s1 <= s2 -> qle (rescale_q v s1) (rescale_q v s2)) /\
  (* zero for a zero step, the annual rate itself for a step of one year *)
  (forall v, qeq (rescale_q v 0) qzero) /\
  (forall v, qeq (rescale_q v year_ns) v).
Proof.
  repeat split.
  - exact rescale_pos.
  - exact rescale_vec_nth.
  - exact rescale_vec_local.
  - exact rescale_linear.
  - exact rescale_step_additive.
  - exact rescale_monotone_step.
  - exact rescale_zero_step.
  - exact rescale_year.
Qed.

(* ---- the union post-processor: 1 - prod (1 - p_i) ---- *)
Theorem C14_union :
  (forall l, qeq (union_q l) (qcompl (cp_num l, cp_den l))) /\            (* value: cp = product of the complements *)
  (forall v, union_q [v] = v) /\                                          (* one input: that input *)
  (forall l l', Permutation l l' -> union_q l = union_q l') /\            (* order-independent *)
  (forall l, Forall prob l -> qpos (union_q l) /\ qle qzero (union_q l) /\ qle (union_q l) qone) /\  (* stays in [0,1] *)
  (forall l, Forall prob l -> forall v, In v l -> qle v (union_q l)) /\   (* at least every single input *)
  (forall l p, Forall prob l -> prob p -> qle (union_q l) (union_q (p :: l))).   (* one more cause never lowers it *)
Proof.
  repeat split.
  - exact union_value.
  - exact union_perm.
  - now apply union_pos.
  - now apply union_range.
  - now apply union_range.
  - exact union_ge_each.
  - exact union_monotone.
Qed.

(* Series: element i of the union of equally long Series is the union of their elements i *)
Theorem C14_union_pointwise : forall l n i,
  (2 <= length l)%nat -> Forall (fun x => exists vs, x = Vec vs /\ length vs = n) l -> (i < n)%nat ->
  exists xs, union_atoms l = Vec xs /\ length xs = n /\ nth_error xs i = Some (union_q (map (atom_at i) l)).
Proof. exact union_atoms_nth. Qed.

(* cross-multiplication equality is an equivalence on positive denominators (what [qeq] statements mean) *)
Theorem C14_qeq_equivalence :
  (forall x, qeq x x) /\ (forall x y, qeq x y -> qeq y x) /\ (forall x y z, qpos y -> qeq x y -> qeq y z -> qeq x z).
Proof. repeat split; [exact qeq_sym | exact qeq_trans]. Qed.

(* ---- non-vacuity: a concrete history on the probe instantiation (3 non-commuting modifiers, one registered before
   the source, a rejected second source in between, per-simulant steps 1/2/3 days) ---- *)
Definition ex_env : env :=
  {| e_srcs := [(10, (true, false, [NTbl [(0, (1, 2)); (1, (3, 4)); (2, (1, 1))]]));
                (11, (true, true, [NTbl [(0, (1, 4)); (1, (1, 2)); (2, (0, 1))]]))];
     e_mods := [(20, ((2, 1), (1, 1), NTbl [(0, (1, 2)); (1, (1, 2)); (2, (1, 2))]));
                (21, ((1, 2), (3, 1), NSc (1, 4)));
                (22, ((3, 1), (-1, 2), NSc (0, 1)))];
     e_posts := [] |}.
Definition ex_ops : list (op carg) :=
  [RegisterModifier 1 20; RegisterProducer 1 10 CReplace PRescale; RegisterModifier 2 20; RegisterModifier 1 21;
   RegisterProducer 1 11 CList PUnion; RegisterProducer 2 11 CList PUnion; RegisterModifier 1 22; RegisterModifier 2 21].
Definition day_ns : Z := 86400000000000.
Definition ex_run := run carg catom (csrc ex_env) (cmodr ex_env) (cmodl ex_env)
                         (cpost ex_env (Some [0; 2]) [day_ns; 3 * day_ns] (2 * day_ns)).
Definition ex_step := step carg catom (csrc ex_env) (cmodr ex_env) (cmodl ex_env)
                         (cpost ex_env (Some [0; 2]) [day_ns; 3 * day_ns] (2 * day_ns)).

Example ex_registry :
  let r := fst (ex_run [] ex_ops) in
  p_muts (get_pipe r 1) = [20; 21; 22] /\ p_source (get_pipe r 1) = Some 10 /\ p_post (get_pipe r 1) = PRescale /\
  p_muts (get_pipe r 2) = [20; 21] /\ p_source (get_pipe r 2) = Some 11 /\
  nth 4 (snd (ex_run [] ex_ops)) ODone = ORejected EDynamicValue.
Proof. vm_compute. repeat split; reflexivity. Qed.

(* simulants 0 and 2 requested; ((v*2+1)/2+3)*3-1/2 = 3v + 10; rates (1/2, 1) -> 23/2, 13; steps 1 day, 3 days *)
Example ex_call_rate :
  match snd (ex_step (fst (ex_run [] ex_ops)) (Call 1 (Some [0; 2], [], []) false)) with
  | OCalled tr (Ok (One (Vec [x0; x2]))) =>
      qeqb x0 (23, 2 * 365) && qeqb x2 (13 * 3, 365) && (length tr =? 5)%nat &&
      zlist_eqb (mod_ids tr) [20; 21; 22] && zlist_eqb (src_ids tr) [10]
  | _ => false
  end = true.
Proof. vm_compute. reflexivity. Qed.

(* union over [1/4, 0]-source plus contributions 1/2 and 1/4: simulant 0: 1 - 3/4*1/2*3/4 = 23/32; simulant 2: 5/8 *)
Example ex_call_union :
  match snd (ex_step (fst (ex_run [] ex_ops)) (Call 2 (Some [0; 2], [], [(1, 7)]) false)) with
  | OCalled tr (Ok (One (Vec [x0; x2]))) => qeqb x0 (23, 32) && qeqb x2 (5, 8) && (length tr =? 4)%nat
  | _ => false
  end = true.
Proof. vm_compute. reflexivity. Qed.

(* modifiers registered for a value that nobody ever sources: the call is rejected and NO modifier is evaluated *)
Example ex_unsourced_with_modifiers :
  ex_step (fst (ex_run [] [RegisterModifier 3 20; GetValue 3; RegisterModifier 3 21])) (Call 3 (Some [0; 2], [], []) false) =
    (fst (ex_run [] [RegisterModifier 3 20; GetValue 3; RegisterModifier 3 21]), OCalled [] (Rejected EDynamicValue)) /\
  p_muts (get_pipe (fst (ex_run [] [RegisterModifier 3 20; GetValue 3; RegisterModifier 3 21])) 3) = [20; 21].
Proof. vm_compute. split; reflexivity. Qed.

(* pipeline 4's source is pipeline 1 itself (source id 101): pipeline 1's trace (source 10, modifiers 20 21 22, its rate
   post-processor) is embedded once, then pipeline 4's own modifier 21 *)
Example ex_nested :
  let r := fst (ex_run [] (ex_ops ++ [RegisterProducer 4 101 CReplace PNone; RegisterModifier 4 21])) in
  match cncall ex_env r 4 (Some [0; 2], [], []) false [day_ns; 3 * day_ns] (2 * day_ns) with
  | (tr, Ok (One (Vec [x0; x2]))) =>
      zlist_eqb (src_ids tr) [10] && zlist_eqb (mod_ids tr) [20; 21; 22; 21] && (length (post_ids tr) =? 1)%nat &&
      qeqb x0 (qadd (qmul (1, 2) (23, 2 * 365)) (3, 1))
  | _ => false
  end = true.
Proof. vm_compute. reflexivity. Qed.

(* a source callable whose truth value is False (first flag of source 12) is a source like any other *)
Definition ex_env_falsy : env :=
  {| e_srcs := [(12, (false, false, [NSc (1, 2)])); (13, (true, false, [NSc (1, 4)]))]; e_mods := []; e_posts := [] |}.
Example ex_falsy_source :
  let st := step carg catom (csrc ex_env_falsy) (cmodr ex_env_falsy) (cmodl ex_env_falsy) (cpost ex_env_falsy None [] 0) in
  let r1 := fst (st [] (RegisterProducer 1 12 CReplace PNone)) in
  st r1 (RegisterProducer 1 13 CReplace PNone) = (r1, ORejected EDynamicValue) /\
  snd (st r1 (Call 1 (None, [], []) false)) = OCalled [ESrc 12 (None, [], [])] (Ok (One (Sc (1, 2)))).
Proof. vm_compute. split; reflexivity. Qed.

Print Assumptions C14_registry_mutators.
Print Assumptions C14_registry.
Print Assumptions C14_second_source_rejected.
Print Assumptions C14_call_inert.
Print Assumptions C14_get_value_inert.
Print Assumptions C14_call_trace_replace.
Print Assumptions C14_call_trace_list.
Print Assumptions C14_exactly_once.
Print Assumptions C14_no_source.
Print Assumptions C14_source_first.
Print Assumptions C14_history_call_replace.
Print Assumptions C14_history_call_list.
Print Assumptions C14_history_call_unsourced.
Print Assumptions C14_nested_flat.
Print Assumptions C14_nested_replace.
Print Assumptions C14_nested_list.
Print Assumptions C14_nested_failure.
Print Assumptions C14_nested_exactly_once.
Print Assumptions C14_old_truthiness_second_source.
Print Assumptions C14_old_truthiness_call.
Print Assumptions C14_rescale.
Print Assumptions C14_union.
Print Assumptions C14_union_pointwise.
Print Assumptions C14_qeq_equivalence.
