(* C11 - A view update writes exactly what it was given, or nothing.  Statements only; proofs live in
   theories/PopulationProofs.v; the model (theories/Population.v) transcribes PopulationView.update and its helpers as
   they are after the F-D repair (commit cbcd0839: every column is validated before any is assigned).

   Reading guide: a table is [tn] rows labelled 0..tn-1 and a list of columns; [cell_at t c l] is the cell of column c
   at label l; [spec_cell t idx us c l] is what the property demands after a successful update with index [idx] and
   columns [us]: the supplied value where one was supplied for (l, c), the old cell everywhere else.  [ord] is the
   iteration order of the Python set of column names - ANY list; all statements quantify over it.              *)
From Viv Require Import Common Population PopulationProofs.
Local Open Scope Z_scope.

(* ---- success: exactly the addressed cells, exactly the supplied values; rows, columns and dtypes unchanged ---- *)
(* steady state (no creation in progress); any row subset in any order (a repeated label receives one of its values:
   the last one, or the first one in a `str` column), any column subset; no guard *)
Theorem C11_success_exact : forall t v f ord u t',
  wf t -> creating f = false -> adding f = false -> update t v f ord u = (t', Pass) ->
  exists idx us, update_checked t v f u = inl (idx, us) /\
    wf t' /\ tn t' = tn t /\ col_names t' = col_names t /\ (forall c, dtype_at t' c = dtype_at t c) /\
    (forall c l, cell_at t' c l = spec_cell t idx us c l).
Proof. exact update_exact_steady. Qed.

(* while simulants are being added: the same, cell values up to the int64/float64 representation, under the guard
   that every touched column is built LOSSLESSLY (PopulationProofs.lossless: no cast, or a cast that changes no value);
   exactly (dtypes too) when no column is cast.  The guard excludes precisely finding F-L. *)
Theorem C11_success_exact_adding : forall t v f ord u t',
  wf t -> creating f = false -> adding f = true -> update t v f ord u = (t', Pass) ->
  exists idx us, update_checked t v f u = inl (idx, us) /\
    wf t' /\ tn t' = tn t /\ col_names t' = col_names t /\
    ((forall u0 k, In u0 us -> find_col (tcols t) (uname u0) = Some k -> lossless k idx u0) ->
       forall c l, oval_eq (cell_at t' c l) (spec_cell t idx us c l)) /\
    (nocast t us -> (forall c, dtype_at t' c = dtype_at t c) /\ forall c l, cell_at t' c l = spec_cell t idx us c l).
Proof. exact update_exact_adding. Qed.

(* the guard is met by what a well-behaved initializer does: the column is in its promoted state (bool held as
   object, int64 as float64), the update has the column's own dtype and covers every cell that is still null *)
Theorem C11_guard_met_by_wellbehaved : forall k idx u d, (d = DBool \/ d = DInt) -> udt u = d -> cdt k = promote d ->
  (forall i, In i idx -> 0 <= i < Z.of_nat (length (ccells k))) ->
  (forall x, In x (ucells u) -> cell_has d x = true /\ (d = DInt -> exists z, x = Iv z /\ Z.abs z <= TWO53)) ->
  (forall m, (m < length (ccells k))%nat -> In (Z.of_nat m) idx \/ cell_has d (nth m (ccells k) Null) = true) ->
  (length idx <= length (ucells u))%nat ->
  lossless k idx u.
Proof. exact lossless_promoted. Qed.

(* without the guard the statement is false of the code (finding F-L, open): existing int64 [1,2,3], two new rows, a
   birth-time update of BOOLS for the new rows only is accepted and simulant 1's 2 becomes True *)
Definition fl_table : table := mktbl 5 [mkcol 1 DFloat [Fv 2; Fv 4; Fv 6; Null; Null]].
Definition fl_update : upd := USeries (Some 1) DBool [3; 4] [Bv true; Bv false].
Theorem C11_adding_cast_refuted : exists t v f ord u t',
  wf t /\ creating f = false /\ adding f = true /\ update t v f ord u = (t', Pass) /\
  exists idx us, update_checked t v f u = inl (idx, us) /\ ~ oval_eq (cell_at t' 1 1) (spec_cell t idx us 1 1).
Proof.
  exists fl_table, (mkview [1]), (mkflags false true), [1], fl_update,
         (mktbl 5 [mkcol 1 DBool [Bv true; Bv true; Bv true; Bv true; Bv false]]).
  split; [split; [repeat constructor; simpl; tauto | repeat constructor]|].
  repeat split; try reflexivity. exists [3; 4], [mkucol 1 DBool [Bv true; Bv false]]. split; [reflexivity|].
  vm_compute. discriminate.
Qed.

(* during the initial creation: the update's new columns are added with the supplied dtype and values, every existing
   column and every row stays as it was *)
Theorem C11_success_exact_creating : forall t v f ord u t',
  wf t -> creating f = true -> update t v f ord u = (t', Pass) ->
  exists idx us, update_checked t v f u = inl (idx, us) /\
    wf t' /\ tn t' = tn t /\
    (forall c, In c (col_names t') <-> In c (col_names t) \/ In c (unames us)) /\
    (exists u0, In u0 us /\ has_col t (uname u0) = false) /\
    (forall c l, has_col t c = true -> cell_at t' c l = cell_at t c l /\ dtype_at t' c = dtype_at t c) /\
    (forall c u0 l, has_col t c = false -> find_ucol us c = Some u0 -> has_label t l = true ->
       cell_at t' c l = Some (match last_pair l (combine idx (ucells u0)) None with Some x => x | None => Null end)
       /\ dtype_at t' c = Some (udt u0)).
Proof. exact update_exact_creating. Qed.

(* ---- the result does not depend on the iteration order of the column set (feeds C01) ---- *)
Theorem C11_perm_invariant : forall t v f ord1 ord2 u t1, wf t -> update t v f ord1 u = (t1, Pass) ->
  exists t2, update t v f ord2 u = (t2, Pass) /\ tn t2 = tn t1 /\
             (forall c, find_col (tcols t2) c = find_col (tcols t1) c) /\ (creating f = false -> t2 = t1).
Proof. exact update_perm_invariant. Qed.

Theorem C11_outcome_perm_invariant : forall t v f ord1 ord2 u, wf t ->
  is_pass (snd (update t v f ord1 u)) = is_pass (snd (update t v f ord2 u)).
Proof. exact update_outcome_perm_invariant. Qed.

(* ---- every rejection - structural or dtype, any flags, EVERY iteration order - leaves the table unchanged ---- *)
(* (was C11_rejected_unchanged_refuted before commit cbcd0839, see C11_interleaved_loop_refuted below) *)
Theorem C11_rejected_unchanged : forall t v f ord u t' o, update t v f ord u = (t', o) -> o <> Pass -> t' = t.
Proof. exact update_rejected_unchanged. Qed.

(* ---- what is rejected: a view cannot write columns it was not created with, rows that do not exist, new columns
        outside the initial creation, values of a different dtype; nor take an unnamed series unless it has exactly
        one column, a frame without columns, or a non-pandas object.  Each with the table returned unchanged. ---- *)
Theorem C11_structural_rejections : forall t v f ord, flags_ok f ->
  update t v f ord UNotPandas = (t, Fail WNotPandas) /\
  (forall dt idx vals, length (view_columns t v) <> 1%nat -> update t v f ord (USeries None dt idx vals) = (t, Fail WUnnamed)) /\
  (forall c dt idx vals, ~ In c (view_columns t v) -> update t v f ord (USeries (Some c) dt idx vals) = (t, Fail WExtraCols)) /\
  (forall idx cols c, In c (unames cols) -> ~ In c (view_columns t v) -> update t v f ord (UFrame idx cols) = (t, Fail WExtraCols)) /\
  (forall idx, update t v f ord (UFrame idx []) = (t, Fail WNoCols)) /\
  (forall u idx us l, coerce (view_columns t v) u = inl (idx, us) -> In l idx -> has_label t l = false ->
     update t v f ord u = (t, Fail WUnknownRows)) /\
  (forall u idx us u0, creating f = false -> coerce (view_columns t v) u = inl (idx, us) ->
     (forall l, In l idx -> has_label t l = true) -> In u0 us -> has_col t (uname u0) = false ->
     update t v f ord u = (t, Fail WNewCols)) /\
  (forall u idx us u0 k, creating f = false -> adding f = false -> update_checked t v f u = inl (idx, us) ->
     idx <> [] -> NoDup (unames us) -> In u0 us -> find_col (tcols t) (uname u0) = Some k -> udt u0 <> cdt k ->
     update t v f ord u = (t, Fail WDtype)).
Proof.
  intros t v f ord F. repeat split; intros.
  - now apply rej_not_pandas.
  - now apply rej_unnamed.
  - now apply rej_extra_series.
  - eapply rej_extra_frame; eassumption.
  - now apply rej_no_cols.
  - eapply rej_unknown_rows; eassumption.
  - eapply rej_new_cols; eassumption.
  - eapply rej_dtype; eassumption.
Qed.

(* ---- histories: for ALL interleavings of updates, rejected updates, reads and creations, the table is the one
        produced by the successful updates and the creations alone; a read changes nothing ---- *)
Theorem C11_history : forall ops, run init_pstate ops = run init_pstate (effective init_pstate ops).
Proof. intros ops. apply history_effective. intros _. reflexivity. Qed.

Theorem C11_history_from : forall st ops, flags_sane st -> run st ops = run st (effective st ops).
Proof. intros st ops S. now apply history_effective. Qed.

Theorem C11_history_effective_ops : forall st ops,
  Forall (fun o => match o with OpRead => False | _ => True end) (effective st ops).
Proof. intros st ops. apply effective_all. Qed.

Theorem C11_history_wf : forall ops, wf_state (run init_pstate ops).
Proof. intros ops. apply run_wf. apply init_wf. Qed.

(* ---- historical: the loop as it was before the repair (dtype check inside the per-column write loop) did apply a
        rejected update partially - kept as the witness that the full theorem was false of the old code ---- *)
Definition fd_table : table := mktbl 3 [mkcol 1 DFloat [Fv 2; Fv 4; Fv 6]; mkcol 2 DInt [Iv 1; Iv 2; Iv 3]].
Definition fd_update : upd := UFrame [1; 2] [mkucol 1 DFloat [Fv 19; Fv 19]; mkucol 2 DFloat [Fv 3; Fv 3]].
Theorem C11_interleaved_loop_refuted : exists t v f ord u,
  snd (update_interleaved t v f ord u) = Fail WDtype /\ fst (update_interleaved t v f ord u) <> t /\
  update t v f ord u = (t, Fail WDtype).
Proof.
  exists fd_table, (mkview [1; 2]), steady, [1; 2], fd_update. vm_compute. repeat split; try reflexivity. discriminate.
Qed.

(* ---- non-vacuity ---- *)
Definition ex_table : table :=
  mktbl 4 [mkcol 0 DBool [Bv true; Bv true; Bv false; Bv true]; mkcol 1 DInt [Iv 1; Iv 2; Iv 3; Iv 4];
           mkcol 2 DStr [Sv 0; Sv 1; Sv 2; Sv 3]; mkcol 3 DFloat [Fv 1; Null; Fv 5; Fv 7]].
Example ex_wf : wf ex_table.
Proof. split; [|repeat constructor]. repeat constructor; simpl; intuition discriminate. Qed.
(* rows out of order with a repeated label (int column: last wins; str column: first wins), a column subset *)
Example ex_update_pass :
  update ex_table (mkview [1; 2; 3]) steady [2; 1]
         (UFrame [3; 0; 3] [mkucol 1 DInt [Iv 30; Iv 10; Iv 31]; mkucol 2 DStr [Sv 7; Sv 8; Sv 9]])
  = (mktbl 4 [mkcol 0 DBool [Bv true; Bv true; Bv false; Bv true]; mkcol 1 DInt [Iv 10; Iv 2; Iv 3; Iv 31];
              mkcol 2 DStr [Sv 8; Sv 1; Sv 2; Sv 7]; mkcol 3 DFloat [Fv 1; Null; Fv 5; Fv 7]], Pass).
Proof. vm_compute. reflexivity. Qed.
(* wrong dtype in the SECOND of two columns (in either iteration order): rejected, nothing written *)
Example ex_update_rejected :
  update ex_table (mkview [1; 3]) steady [1; 3] (UFrame [1; 2] [mkucol 3 DFloat [Fv 19; Fv 19]; mkucol 1 DFloat [Fv 3; Fv 3]])
  = (ex_table, Fail WDtype) /\
  update ex_table (mkview [1; 3]) steady [3; 1] (UFrame [1; 2] [mkucol 3 DFloat [Fv 19; Fv 19]; mkucol 1 DFloat [Fv 3; Fv 3]])
  = (ex_table, Fail WDtype).
Proof. vm_compute. split; reflexivity. Qed.
Example ex_history :
  let ops := [OpCreate 2 1 0 24 [tracked_initializer];
              OpUpdate (mkview [0]) [0] (USeries None DBool [1] [Bv false]);
              OpUpdate (mkview [0]) [0] (USeries None DInt [1] [Iv 0]);          (* rejected: dtype *)
              OpRead;
              OpUpdate (mkview [0]) [0] (USeries (Some 0) DBool [5] [Bv false])] (* rejected: unknown row *) in
  cur_table (run init_pstate ops) = mktbl 2 [mkcol 0 DBool [Bv true; Bv false]] /\
  length (effective init_pstate ops) = 2%nat.
Proof. vm_compute. split; reflexivity. Qed.

Print Assumptions C11_success_exact.
Print Assumptions C11_success_exact_adding.
Print Assumptions C11_guard_met_by_wellbehaved.
Print Assumptions C11_adding_cast_refuted.
Print Assumptions C11_success_exact_creating.
Print Assumptions C11_perm_invariant.
Print Assumptions C11_outcome_perm_invariant.
Print Assumptions C11_rejected_unchanged.
Print Assumptions C11_structural_rejections.
Print Assumptions C11_history.
Print Assumptions C11_history_from.
Print Assumptions C11_history_effective_ops.
Print Assumptions C11_history_wf.
Print Assumptions C11_interleaved_loop_refuted.
