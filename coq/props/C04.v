(* C04 - Same identity, same randomness across scenarios.  Statements only; proofs in theories/IndexMapProofs.v.
   Model: theories/IndexMap.v.  [clean size m b t k] is the boolean form of the only exception the property permits:
   it is false iff the initial hash of k (under the clock salt t) meets a position taken before the batch or the
   initial hash of another key of the batch (C04_clean_iff).                                                     *)
From Viv Require Import Common IndexMap IndexMapProofs.
From Coq Require Import Permutation.
Local Open Scope Z_scope.

Theorem C04_clean_iff : forall size m b t k, NoDup (map snd b) ->
  (clean size m b t k = true <->
   In k (map snd b) /\ ~ In (h_clock size t k) (map e_pos m) /\
   forall k', In k' (map snd b) -> k' <> k -> h_clock size t k' <> h_clock size t k).
Proof.
  intros size m b t k Hn. split; [apply clean_spec|]. intros [H1 [H2 H3]]. now apply clean_complete.
Qed.

(* The position of a key that collides with nothing is a function of its attributes, the registration time and the
   block size ONLY: not of the simulant label s, not of the place in the batch, not of the other keys. *)
Theorem C04_position_is_hash : forall size m b t fuel m' s k,
  Inj m -> update size true m b t fuel = Ok m' -> In (s, k) b -> clean size m b t k = true ->
  In (s, k, hash size k (conv10 t)) m'.
Proof.
  intros size m b t fuel m' s k Hi U Hb Hc.
  assert (Hne : b <> []) by (intro E; subst; contradiction).
  destruct (update_ok_spec size m b t fuel m' Hne Hi U) as [_ [_ [_ [_ [_ [_ U6]]]]]]. exact (U6 s k Hb Hc).
Qed.

(* ... and it keeps that position through the whole rest of the simulation *)
Theorem C04_position_is_hash_history : forall size fuel h s k t m,
  registered_clean size fuel h s k t -> run size fuel [] h = Some m ->
  In (s, k, hash size k (conv10 t)) m /\ pos_of_key m k = Some (hash size k (conv10 t)).
Proof. exact clean_position_history. Qed.

(* Two simulations (any two registration histories over the same block size): a key registered in both at the same
   clock time, colliding with nothing registered with or before it in either, has the same position in both -
   whatever its simulant labels sA, sB, whatever the batches it arrived in and whatever else is registered. *)
Theorem C04_alignment : forall size fuel hA hB sA sB k t mA mB,
  registered_clean size fuel hA sA k t -> registered_clean size fuel hB sB k t ->
  run size fuel [] hA = Some mA -> run size fuel [] hB = Some mB ->
  exists p, In (sA, k, p) mA /\ In (sB, k, p) mB /\ pos_of_key mA k = Some p /\ pos_of_key mB k = Some p.
Proof.
  intros size fuel hA hB sA sB k t mA mB CA CB RA RB.
  destruct (clean_position_history _ _ _ _ _ _ _ CA RA) as [A1 A2].
  destruct (clean_position_history _ _ _ _ _ _ _ CB RB) as [B1 B2].
  exists (hash size k (conv10 t)). auto.
Qed.

(* ... hence the same draws at every decision point: a draw is the element of the seeded block at the simulant's
   position (C02_pointwise); [block] stands for SHA-1 + Mersenne twister, a function of the seed key (decision point,
   clock, seed) and the position, identical in both simulations because seed and block size are. *)
Section Draws.
  Variable D : Type.
  Variable block : Z -> Z -> D.
  Definition draw (seedkey : Z) (m : imap) (k : key) : option D := option_map (block seedkey) (pos_of_key m k).

  Theorem C04_same_draws : forall size fuel hA hB sA sB k t mA mB,
    registered_clean size fuel hA sA k t -> registered_clean size fuel hB sB k t ->
    run size fuel [] hA = Some mA -> run size fuel [] hB = Some mB ->
    forall seedkey, draw seedkey mA k = draw seedkey mB k /\ draw seedkey mA k <> None.
  Proof.
    intros size fuel hA hB sA sB k t mA mB CA CB RA RB seedkey.
    destruct (C04_alignment _ _ _ _ _ _ _ _ _ _ CA CB RA RB) as [p [_ [_ [PA PB]]]].
    unfold draw. rewrite PA, PB. simpl. split; [reflexivity | discriminate].
  Qed.
End Draws.

(* The exception predicate itself ignores batch order and labels: permuting / relabelling a batch does not change
   which keys are clean, nor whether the batch is accepted. *)
Theorem C04_clean_order_irrelevant : forall size m b b' t k, NoDup (map snd b) ->
  Permutation (map snd b) (map snd b') -> clean size m b t k = true -> clean size m b' t k = true.
Proof. exact clean_perm. Qed.

Theorem C04_rejection_order_irrelevant : forall size m b b' t fuel e,
  Permutation (map snd b) (map snd b') -> update size true m b t fuel = Rejected e ->
  exists e', update size true m b' t fuel = Rejected e'.
Proof. exact update_rejected_perm. Qed.

(* The state-table index plays no part at all - not even for colliding keys: two maps with the same key -> position
   content, offered the same keys under ANY simulant labels, end with the same key -> position content (and agree on
   acceptance / rejection / non-termination).  Lifted to whole histories: relabelling every batch arbitrarily changes
   no key's position.  (The row order of _map, which is sorted by label, is thereby shown to be irrelevant too.) *)
Theorem C04_labels_irrelevant : forall size m1 m2 b1 b2 t fuel,
  same_content m1 m2 -> Inj m1 -> map snd b1 = map snd b2 ->
  outcomes_agree (update size true m1 b1 t fuel) (update size true m2 b2 t fuel).
Proof. exact update_labels_irrelevant. Qed.

Theorem C04_labels_irrelevant_history : forall size fuel h1 h2 m1,
  same_keys h1 h2 -> run size fuel [] h1 = Some m1 ->
  exists m2, run size fuel [] h2 = Some m2 /\ forall k, pos_of_key m1 k = pos_of_key m2 k.
Proof. exact run_labels_irrelevant_pos. Qed.

(* RandomnessManager.register_simulants: the identity of a simulant is its KEY columns, found in the frame by label and
   taken in configuration order - the other columns of the state table and the frame's column order play no part. *)
Theorem C04_only_key_columns_matter : forall size kcols m labels f f' t fuel,
  (forall c, In c kcols -> zassoc c f = zassoc c f') ->
  register size kcols m labels f t fuel = register size kcols m labels f' t fuel.
Proof. exact register_key_columns_only. Qed.

Theorem C04_column_order_irrelevant : forall size kcols m labels f f' t fuel,
  NoDup (map fst f) -> Permutation f f' ->
  register size kcols m labels f t fuel = register size kcols m labels f' t fuel.
Proof. exact register_column_order_irrelevant. Qed.

(* ... nor does the ORDER in which the key columns are configured: the hash sums one term per column in wrapping
   arithmetic, so it is symmetric in the columns. *)
Theorem C04_key_column_order_irrelevant : forall size k k' salt10, Permutation k k' -> hash size k salt10 = hash size k' salt10.
Proof. exact hash_perm. Qed.

(* A datetime key column counts by its INSTANT, clipped to whole seconds: [KDate] carries nanoseconds since the epoch
   whatever unit the column is stored in (the code converts to ns first - commit 11362e66, finding F-AJ), so the
   storage unit cannot matter - by construction of the model's input; the correspondence feeds real maps the same
   instants in s / ms / us / ns and expects equal positions.  What does matter is the second the instant falls in. *)
Theorem C04_datetime_by_second : forall a b, a / 10 ^ 9 = b / 10 ^ 9 -> conv10 (KDate a) = conv10 (KDate b).
Proof. intros a b H. exact H. Qed.

(* An integer key column counts by its VALUE: [KInt] carries the mathematical value whatever width, signedness or
   nullable flavour the column is stored with (the code widens to int64 before multiplying), so the storage type
   cannot matter - by construction of the model's input; the correspondence feeds real maps the same values as
   int8..int64 / uint8..uint64 / Int8..UInt64 (and floats as float32/float64) and expects equal positions.  The one
   reinterpretation the code does perform - uint64 above 2^63 read as int64 - is invisible: *)
Theorem C04_int_value_mod_2_64 : forall v, conv10 (KInt (wrap64 v)) = conv10 (KInt v).
Proof. exact conv10_int_mod64. Qed.

(* The simulant attached to a key is the one that supplied it: the simulant index is joined back on the key
   levels, never positionally.  (A map that is injective but mis-aligned violates exactly this.) *)
Theorem C04_join_by_key : forall size crn m b t fuel m', Inj m -> update size crn m b t fuel = Ok m' ->
  forall s k p, In (s, k, p) m' -> In (s, k) (map fst m ++ b).
Proof. exact update_join_by_key. Qed.

Theorem C04_join_by_key_history : forall size fuel h m, run size fuel [] h = Some m ->
  forall s k p, In (s, k, p) m -> exists b t, In (b, t) h /\ In (s, k) b.
Proof.
  intros size fuel h m R s k p He.
  destruct (run_join_by_key size fuel h [] m (inv_nil size) R s k p He) as [[]|H]; exact H.
Qed.

(* ---- non-vacuity: baseline and counterfactual with different labels, batch order and extra simulants ---- *)
Definition hA : list (batch * cell) :=
  [([(0, [KInt 5]); (1, [KInt 15]); (2, [KInt 25]); (3, [KInt 3])], KInt 1); ([(4, [KInt 8])], KInt 2)].
Definition hB : list (batch * cell) :=
  [([(10, [KInt 3]); (11, [KInt 40]); (12, [KInt 15])], KInt 1); ([(13, [KInt 77]); (14, [KInt 8])], KInt 2)].
Example ex_runs :
  run 10 40 [] hA = Some [(0, [KInt 5], 7); (1, [KInt 15], 5); (2, [KInt 25], 8); (3, [KInt 3], 1); (4, [KInt 8], 6)] /\
  run 10 40 [] hB = Some [(10, [KInt 3], 1); (11, [KInt 40], 6); (12, [KInt 15], 5); (13, [KInt 77], 2); (14, [KInt 8], 7)].
Proof. vm_compute. auto. Qed.
Example ex_registered_clean_A : registered_clean 10 40 hA 1 [KInt 15] (KInt 1).
Proof.
  exists [], [(0, [KInt 5]); (1, [KInt 15]); (2, [KInt 25]); (3, [KInt 3])], [([(4, [KInt 8])], KInt 2)], [].
  eexists. repeat split; try reflexivity. simpl; auto.
Qed.
Example ex_registered_clean_B : registered_clean 10 40 hB 12 [KInt 15] (KInt 1).
Proof.
  exists [], [(10, [KInt 3]); (11, [KInt 40]); (12, [KInt 15])], [([(13, [KInt 77]); (14, [KInt 8])], KInt 2)], [].
  eexists. repeat split; try reflexivity. simpl; auto.
Qed.
(* keys 15 and 3 are clean in both and sit at 5 and 1 in both; key 8 hashes to 6 at time 2: free in A, taken by key 40
   in B - the permitted exception (6 in A, 7 in B).  Likewise key 25 collides with key 5 in A and sits at 8, alone it
   would sit at 7. *)
Example ex_exception : clean 10 [] [(0, [KInt 5]); (1, [KInt 15]); (2, [KInt 25]); (3, [KInt 3])] (KInt 1) [KInt 25] = false /\
  update 10 true [] [(0, [KInt 25])] (KInt 1) 40 = Ok [(0, [KInt 25], 7)].
Proof. vm_compute. auto. Qed.

Print Assumptions C04_clean_iff.
Print Assumptions C04_position_is_hash.
Print Assumptions C04_position_is_hash_history.
Print Assumptions C04_alignment.
Print Assumptions C04_same_draws.
Print Assumptions C04_clean_order_irrelevant.
Print Assumptions C04_rejection_order_irrelevant.
Print Assumptions C04_labels_irrelevant.
Print Assumptions C04_labels_irrelevant_history.
Print Assumptions C04_only_key_columns_matter.
Print Assumptions C04_column_order_irrelevant.
Print Assumptions C04_key_column_order_irrelevant.
Print Assumptions C04_datetime_by_second.
Print Assumptions C04_int_value_mod_2_64.
Print Assumptions C04_join_by_key.
Print Assumptions C04_join_by_key_history.
