(* C06 - The lifecycle only ever advances in the legal order.  Statements only; proofs live in
   theories/LifecycleProofs.v and theories/EngineProofs.v.  The engine-specific theorems (call atomicity, run = step^n,
   emissions in their own state, documented order) are stated over tables regenerated from the live code on every
   run: generated/EngineTable_C06.v.                                                                            *)
From Viv Require Import Common Lifecycle LifecycleProofs Engine EngineProofs.
Local Open Scope Z_scope.

(* For EVERY life cycle built by any sequence of add_phase attempts (any number of phases, states, loop flags,
   accepted or rejected): the links the code builds by mutation are exactly the declarative legal order. *)
Theorem C06_links_correct : forall l, reachable_lc l ->
  forall s s', valid_next l s s' = true <-> legal_succ (phs l) s s'.
Proof. exact links_correct. Qed.

(* For EVERY sequence of state-change requests: the states entered form a legal path. *)
Theorem C06_trace_legal : forall m rs, reachable_lc (lc m) ->
  exists new, entered (do_requests m rs) = rev new ++ entered m /\
              path (legal_succ (phs (lc m))) (cur m) new /\
              cur (do_requests m rs) = last new (cur m) /\ lc (do_requests m rs) = lc m.
Proof. exact trace_legal. Qed.

(* A request that is refused - unknown name or illegal successor - changes nothing at all. *)
Theorem C06_refused_inert : forall m s m' e, set_state m s = (m', Refused e) -> m' = m.
Proof. exact set_state_refused_inert. Qed.

Theorem C06_unknown_refused : forall m s, known (lc m) s = false -> set_state m s = (m, Refused EUnknownState).
Proof. exact set_state_unknown. Qed.

Theorem C06_illegal_refused : forall m s, reachable_lc (lc m) -> known (lc m) s = true ->
  ~ legal_succ (phs (lc m)) (cur m) s -> set_state m s = (m, Refused EInvalidTransition).
Proof.
  intros m s HR Hk Hn. apply set_state_illegal; [assumption|].
  destruct (valid_next (lc m) (cur m) s) eqn:E; [|reflexivity]. exfalso. apply Hn. now apply links_correct.
Qed.

(* ... hence refused requests can be deleted from any history: the legal continuation still works. *)
Theorem C06_legal_after_refusal : forall m rs, do_requests m rs = do_requests m (accepted_only m rs).
Proof. exact refusals_deletable. Qed.

(* A rejected add_phase (duplicate phase name, duplicate state, empty phase) leaves the manager untouched. *)
Theorem C06_add_phase_rejected_inert : forall m name sts lp m' e, m_add_phase m name sts lp = (m', Refused e) -> m' = m.
Proof. exact m_add_phase_refused. Qed.

(* Context calls are scripts of declarations; ANY sequence of ANY scripts enters states along legal paths only. *)
Theorem C06_calls_trace_legal : forall scs m, reachable_lc (lc m) -> extends m (do_calls m scs).
Proof. exact calls_trace_legal. Qed.

(* non-vacuity: the documented engine life cycle is reachable, its loop works, and illegal moves are refused *)
Definition doc_lc : lifecycle :=
  build_phases [(1, [1; 2; 3], false); (2, [4; 5; 6; 7], true); (3, [8; 9], false)] (init_lc 0 0).
Example doc_lc_reachable : reachable_lc doc_lc.
Proof. apply build_phases_reachable. apply init_lc_reachable. Qed.
Example doc_lc_table :
  map (fun s => filter (valid_next doc_lc s) [0;1;2;3;4;5;6;7;8;9]) [0;1;2;3;4;5;6;7;8;9]
  = [[1]; [2]; [3]; [4]; [5]; [6]; [7]; [4; 8]; [9]; []].
Proof. vm_compute. reflexivity. Qed.
Example doc_run_then_illegal :
  let m := do_requests (at_state doc_lc 0) [1; 2; 3; 4; 5; 6; 7; 4; 5; 9; 42; 6; 7; 8; 9] in
  cur m = 9 /\ rev (entered m) = [1; 2; 3; 4; 5; 6; 7; 4; 5; 6; 7; 8; 9].
Proof. vm_compute. auto. Qed.

Print Assumptions C06_links_correct.
Print Assumptions C06_trace_legal.
Print Assumptions C06_refused_inert.
Print Assumptions C06_unknown_refused.
Print Assumptions C06_illegal_refused.
Print Assumptions C06_legal_after_refusal.
Print Assumptions C06_add_phase_rejected_inert.
Print Assumptions C06_calls_trace_legal.
