(* C03 - The randomness index is injective, stable and in range.  Statements only; proofs in theories/IndexMapProofs.v.
   Model: theories/IndexMap.v (IndexMap.update with the wrapping-int64 hash, drop_duplicates keep-first, the salted
   re-hash loop, the join on the key levels).  [update size crn m b t fuel]: m = the map, b = the batch
   [(simulant, key)], t = the clock cell, fuel = bound on collision rounds (OutOfFuel = the real loop needs more, or
   never ends - liveness is not part of the property).  [run size fuel [] h] = the map after the registration history h
   (rejected batches leave the map as it was and the history goes on).                                           *)
From Viv Require Import Common IndexMap IndexMapProofs.
From Coq Require Import Permutation.
Local Open Scope Z_scope.

(* ---- in range: every position is in [0, size) - a fact about floor-mod of a wrapped (possibly negative) sum ---- *)
Theorem C03_hash_in_range : forall size k salt10, 0 < size -> 0 <= hash size k salt10 < size.
Proof. exact hash_range. Qed.

Theorem C03_in_range : forall size crn m b t fuel m', 0 < size -> Inj m -> InRange size m ->
  update size crn m b t fuel = Ok m' -> InRange size m'.
Proof. exact update_in_range. Qed.

Theorem C03_in_range_history : forall size fuel h m, 0 < size ->
  run size fuel [] h = Some m -> forall e, In e m -> 0 <= e_pos e < size.
Proof.
  intros size fuel h m Hs R. destruct (run_inv size fuel h [] m (inv_nil size) R) as [_ [_ H]]. exact (H Hs).
Qed.

(* ---- injective: no two simulants share a position ---- *)
Theorem C03_injective : forall size crn m b t fuel m', Inj m -> update size crn m b t fuel = Ok m' -> Inj m'.
Proof. exact update_injective. Qed.

Theorem C03_injective_history : forall size fuel h m, run size fuel [] h = Some m -> NoDup (map e_pos m).
Proof. intros size fuel h m R. now destruct (run_inv size fuel h [] m (inv_nil size) R) as [H _]. Qed.

(* the key of a registered simulant is unique as well, so "the position of a key" is well defined *)
Theorem C03_keys_unique_history : forall size fuel h m, run size fuel [] h = Some m -> NoDup (map e_key m).
Proof. intros size fuel h m R. now destruct (run_inv size fuel h [] m (inv_nil size) R) as [_ [H _]]. Qed.

(* ---- stable: a row (simulant, key, position) once in the map is in every later map ---- *)
Theorem C03_stable : forall size crn m b t fuel m', Inj m -> update size crn m b t fuel = Ok m' ->
  forall e, In e m -> In e m'.
Proof. exact update_stable. Qed.

Theorem C03_stable_history : forall size fuel h1 h2 m1 m2,
  run size fuel [] h1 = Some m1 -> run size fuel [] (h1 ++ h2) = Some m2 -> forall e, In e m1 -> In e m2.
Proof.
  intros size fuel h1 h2 m1 m2 R1 R2. rewrite run_app, R1 in R2.
  apply (run_stable size fuel h2 m1 m2); [|assumption]. apply (run_inv size fuel h1 [] m1 (inv_nil size) R1).
Qed.

(* ---- duplicates are rejected (and, update being a function of the old map, nothing is mapped) ---- *)
Theorem C03_dup_rejected : forall size m b t fuel, b <> [] -> ~ NoDup (map e_key m ++ map snd b) ->
  update size true m b t fuel = Rejected ERandomness.
Proof. exact update_dup_rejected. Qed.

(* the only refusals are RandomnessErrors; unique hashable keys are never refused *)
Theorem C03_only_randomness_errors : forall size crn m b t fuel e, update size crn m b t fuel = Rejected e -> e = ERandomness.
Proof. exact update_rejected_class. Qed.

Theorem C03_unique_accepted : forall size m b t fuel e,
  NoDup (map e_key m ++ map snd b) -> forallb key_ok (map snd b) && cell_ok t = true ->
  update size true m b t fuel <> Rejected e.
Proof. exact update_not_rejected. Qed.

(* a refused batch does not stop later registrations: the history simply continues from the old map *)
Theorem C03_rejected_inert : forall size fuel m b t e h, update size true m b t fuel = Rejected e ->
  run size fuel m ((b, t) :: h) = run size fuel m h.
Proof. intros size fuel m b t e h H. simpl. now rewrite H. Qed.

(* ---- complete: exactly the offered simulants are registered, each with the key it supplied ---- *)
Theorem C03_complete : forall size m b t fuel m', Inj m -> update size true m b t fuel = Ok m' ->
  Permutation (map fst m') (map fst m ++ b).
Proof. exact update_complete. Qed.

(* ---- CRN off / empty batch: nothing happens ---- *)
Theorem C03_noop : forall size m b t fuel, update size false m b t fuel = Ok m /\ update size true m [] t fuel = Ok m.
Proof. intros. split; [apply update_crn_off | apply update_nil]. Qed.

(* ---- the public lookup IndexMap[index] (what every randomness stream uses), over the same maps ---- *)
(* every registered simulant can be looked up and gets the position of its own row, in request order *)
Theorem C03_lookup_registered : forall m idx, NoDup (map e_sim m) ->
  (forall s, In s idx -> exists k p, In (s, k, p) m) -> idx <> [] ->
  exists ps, getitem_all true m idx = Ok ps /\ Forall2 (fun s p => exists k, In (s, k, p) m) idx ps.
Proof. exact getitem_all_spec. Qed.

(* distinct simulants are handed distinct positions *)
Theorem C03_lookup_injective : forall m idx ps, Inj m -> NoDup idx -> getitem_all true m idx = Ok ps -> NoDup ps.
Proof. exact getitem_all_injective. Qed.

(* an answer once given is given again after any later registration *)
Theorem C03_lookup_stable : forall size crn m b t fuel m' idx ps, Inj m -> NoDup (map e_sim m') ->
  update size crn m b t fuel = Ok m' -> getitem_all true m idx = Ok ps -> getitem_all true m' idx = Ok ps.
Proof. exact getitem_all_stable. Qed.

(* CRN off: the labels themselves; nothing registered yet: RandomnessError, whatever is asked *)
Theorem C03_lookup_edges : forall m idx, getitem_all false m idx = Ok idx /\ getitem_all true [] idx = Rejected ERandomness.
Proof. intros. split; reflexivity. Qed.

(* ---- RandomnessManager: the block has at least ten positions per initial simulant; a frame without a key column is
   refused before the map is touched ---- *)
Theorem C03_block_size_floor : forall cfg pop, 10 * pop <= manager_size cfg pop /\ cfg <= manager_size cfg pop.
Proof. exact manager_size_floor. Qed.

Theorem C03_missing_key_column_rejected : forall size kcols m labels f t fuel c,
  In c kcols -> zassoc c f = None -> register size kcols m labels f t fuel = Rejected ERandomness.
Proof. exact register_missing_column. Qed.

(* ---- liveness, PARTIAL: the collision loop finishes within W * |batch| rounds IF every key's salt walk visits
   every position in every window of W consecutive salts, and the map has room for the batch.  The coverage
   hypothesis is about the concrete hash; it holds e.g. for one key column and gcd(111111, size) = 1 (W = size) as
   long as the int64 sum does not wrap, and fails e.g. for size 7 (ex_no_liveness).  It is NOT proved here for the
   concrete hash (number theory of the wrapped sum); termination in general is false (DESIGN section 7, F-J). ---- *)
Theorem C03_fuel_partial : forall size W m b t fuel,
  (forall k s0 p, 0 <= p < size -> exists j, (j < W)%nat /\ h_salt size (s0 + Z.of_nat j) k = p) ->
  Inj m -> Z.of_nat (length m + length b) <= size -> (W * length b <= fuel)%nat ->
  update size true m b t fuel <> OutOfFuel.
Proof. exact update_terminates. Qed.

(* ... and the coverage hypothesis PROVED for the concrete hash in the one-column case: a batch of one-column keys in a
   block whose size is coprime to 111111 = 3*7*11*13*37 (the default 10^6 is) is registered within size * |batch|
   rounds.  [no_wrap c]: the int64 sum "prime-power product of the column + ten-digit salt" does not wrap for this key
   (true for all keys but those whose product lies in the top 10^10 values of the int64 range).  The last two
   hypotheses keep 111111 * salt below 2^63 and - unless the size divides 10^10 - below 10^10, where the ten-digit
   reduction of the salt restarts the walk.  Proof: the walk s -> (P + 111111 s) mod size is injective on a window of
   `size` salts (Gauss), hence onto.
   WHY NOT MORE: with n key columns the salt is added n times, the walk advances by n * 111111 and visits only
   size / gcd(n * 111111, size) residues: for the default 10^6 and two columns it stays in one parity class, so the
   coverage hypothesis is FALSE there (termination then depends on which residue classes have room - not a property
   of the hash alone); and a key whose sum wraps shifts its walk by 2^64 mod size once inside the window. *)
Theorem C03_fuel_single_column : forall size m b t fuel,
  0 < size -> Z.gcd 111111 size = 1 ->
  (forall k, In k (map snd b) -> exists c, k = [c] /\ no_wrap c) ->
  Inj m -> Z.of_nat (length m + length b) <= size ->
  111111 * (1 + size * Z.of_nat (length b)) <= 2 ^ 63 ->
  ((size | 10 ^ 10) \/ 111111 * (1 + size * Z.of_nat (length b)) <= 10 ^ 10) ->
  (Z.to_nat size * length b <= fuel)%nat ->
  update size true m b t fuel <> OutOfFuel.
Proof. exact update_terminates_single_column. Qed.

(* the salt walk of a one-column key, in closed form *)
Theorem C03_salt_walk_single_column : forall size c s, 0 <= 111111 * s < 2 ^ 63 -> no_wrap c ->
  h_salt size s [c] = (col_prod (conv10 c) primes 1 + (111111 * s) mod 10 ^ 10) mod size.
Proof. exact h_salt_single. Qed.

(* ---- the model's arithmetic is the arithmetic written in the code ---- *)
Theorem C03_wrap64_is_twos_complement : forall x, wrap64 x = (x + 2 ^ 63) mod 2 ^ 64 - 2 ^ 63.
Proof. exact wrap64_mod. Qed.

Theorem C03_digit_walk_is_digit : forall c10, col_prod c10 primes 1 = col_prod_spec c10 0 primes 1.
Proof. exact col_prod_is_spec. Qed.

(* ---- non-vacuity ---- *)
(* two colliding keys in a size-10 map: 5 and 25 both hash to 7; 25 is re-hashed (salt 1 -> 7 again, salt 2 -> 8) *)
Definition ex_b1 : batch := [(0, [KInt 5]); (1, [KInt 15]); (2, [KInt 25]); (3, [KInt 3])].
Example ex_collision :
  batch_hashes 10 (KInt 1) ex_b1 = [([KInt 5], 7); ([KInt 15], 5); ([KInt 25], 7); ([KInt 3], 1)] /\
  update 10 true [] ex_b1 (KInt 1) 40 = Ok [(0, [KInt 5], 7); (1, [KInt 15], 5); (2, [KInt 25], 8); (3, [KInt 3], 1)].
Proof. vm_compute. auto. Qed.
(* a history with an accepted, a second accepted, a rejected (key 5 again) and a further accepted batch *)
Example ex_history :
  run 10 40 [] [(ex_b1, KInt 1); ([(4, [KInt 7]); (5, [KInt 8])], KInt 2); ([(6, [KInt 5])], KInt 3); ([(7, [KInt 9])], KInt 3)]
  = Some [(0, [KInt 5], 7); (1, [KInt 15], 5); (2, [KInt 25], 8); (3, [KInt 3], 1); (4, [KInt 7], 2); (5, [KInt 8], 6); (7, [KInt 9], 9)].
Proof. vm_compute. reflexivity. Qed.
Example ex_dup_rejected : update 10 true [(0, [KInt 5], 7)] [(6, [KInt 5])] (KInt 3) 40 = Rejected ERandomness.
Proof. vm_compute. reflexivity. Qed.
(* the range theorem is about numpy's floor-mod: the wrapped sum can be negative, a C remainder (np.fmod) would not do *)
Example ex_floor_mod_matters :
  hash_raw [KInt 5; KFloat 3 1] 555555 = -1745910469906579567 /\
  hash 10 [KInt 5; KFloat 3 1] 555555 = 3 /\ hash_crem 10 [KInt 5; KFloat 3 1] 555555 = -7.
Proof. vm_compute. auto. Qed.
(* the float conversion rounds as binary64 does: 0.3 -> 3000000000 (exact arithmetic would give 2999999999) *)
Example ex_float_rounding : conv10 (KFloat 5404319552844595 54) = 3000000000 /\ conv10 (KInt (-1)) = 9999888889.
Proof. vm_compute. auto. Qed.
(* liveness is NOT claimed: with size 7 the salt never moves a key (111111 = 0 mod 7) and the loop cannot finish *)
Example ex_no_liveness :
  update 7 true [] [(0, [KInt 1]); (1, [KInt 2]); (2, [KInt 3]); (3, [KInt 4]); (4, [KInt 5])] (KInt 0) 40 = OutOfFuel.
Proof. vm_compute. reflexivity. Qed.

(* the coverage hypothesis of C03_fuel_partial, sampled: key 5 in a size-10 map visits all ten positions in salts 1..10 *)
Example ex_cover_sample : forall p, In p [0;1;2;3;4;5;6;7;8;9] ->
  existsb (fun j => h_salt 10 (1 + j) [KInt 5] =? p) [0;1;2;3;4;5;6;7;8;9] = true.
Proof. intros p H. repeat (destruct H as [<-|H]; [vm_compute; reflexivity|]). destruct H. Qed.

(* lookups on the map of ex_history: request order, a repeated label, an unknown label (6 was refused), no map yet *)
Example ex_lookups :
  let m := [(0, [KInt 5], 7); (1, [KInt 15], 5); (2, [KInt 25], 8); (3, [KInt 3], 1); (4, [KInt 7], 2); (5, [KInt 8], 6); (7, [KInt 9], 9)] in
  getitem_all true m [7; 0; 3; 0] = Ok [9; 7; 1; 7] /\ getitem_all true m [0; 6] = Rejected EOther /\
  getitem_all true m [] = Ok [] /\ getitem_all true [] [] = Rejected ERandomness.
Proof. vm_compute. auto. Qed.
(* a frame with the columns (30, 10, 20), key columns configured as (20, 10): rows are (col 20, col 10) *)
Example ex_register :
  register 10 [20; 10] [] [4; 5] [(30, [KBad; KBad]); (10, [KInt 1; KInt 2]); (20, [KInt 7; KInt 8])] (KInt 0) 40
  = update 10 true [] [(4, [KInt 7; KInt 1]); (5, [KInt 8; KInt 2])] (KInt 0) 40 /\
  register 10 [20; 11] [] [4; 5] [(30, [KBad; KBad]); (10, [KInt 1; KInt 2]); (20, [KInt 7; KInt 8])] (KInt 0) 40 = Rejected ERandomness /\
  manager_size 1000000 50 = 1000000 /\ manager_size 1 6 = 60.
Proof. vm_compute. auto. Qed.

(* C03_fuel_single_column is not vacuous: three one-column keys in the DEFAULT block of 10^6 positions, any clock *)
Example ex_default_block_terminates : forall t fuel, (Z.to_nat 1000000 * 3 <= fuel)%nat ->
  update 1000000 true [] [(0, [KInt 5]); (1, [KInt 15]); (2, [KFloat 3 1])] t fuel <> OutOfFuel.
Proof.
  intros t fuel Hf. apply C03_fuel_single_column.
  - reflexivity.
  - vm_compute. reflexivity.
  - intros k [<-|[<-|[<-|[]]]]; eexists; (split; [reflexivity | unfold no_wrap; vm_compute; reflexivity]).
  - constructor.
  - simpl. lia.
  - vm_compute. discriminate.
  - left. exists 10000. reflexivity.
  - exact Hf.
Qed.
(* ... and with two columns in an even block the walk really is confined to one parity class *)
Example ex_two_columns_parity :
  map (fun s => h_salt 10 s [KInt 5; KInt 7] mod 2) [1; 2; 3; 4; 5; 6; 7; 8; 9; 10] = [0; 0; 0; 0; 0; 0; 0; 0; 0; 0].
Proof. vm_compute. reflexivity. Qed.

Print Assumptions C03_hash_in_range.
Print Assumptions C03_in_range.
Print Assumptions C03_in_range_history.
Print Assumptions C03_injective.
Print Assumptions C03_injective_history.
Print Assumptions C03_keys_unique_history.
Print Assumptions C03_stable.
Print Assumptions C03_stable_history.
Print Assumptions C03_dup_rejected.
Print Assumptions C03_only_randomness_errors.
Print Assumptions C03_unique_accepted.
Print Assumptions C03_rejected_inert.
Print Assumptions C03_complete.
Print Assumptions C03_noop.
Print Assumptions C03_lookup_registered.
Print Assumptions C03_lookup_injective.
Print Assumptions C03_lookup_stable.
Print Assumptions C03_lookup_edges.
Print Assumptions C03_block_size_floor.
Print Assumptions C03_missing_key_column_rejected.
Print Assumptions C03_fuel_partial.
Print Assumptions C03_fuel_single_column.
Print Assumptions C03_salt_walk_single_column.
Print Assumptions C03_wrap64_is_twos_complement.
Print Assumptions C03_digit_walk_is_digit.
