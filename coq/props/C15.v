(* C15 - Lookup tables return each simulant's own row of data.
   Statements only; proofs live in theories/LookupProofs.v.  Model: theories/Lookup.v (scaled integers for the floats;
   DESIGN.md section 4).

   Precondition made visible: [wf k d = true] =
       every row has k bins                                   (a DataFrame has a cell in every column)
     & [valid k d]: the Boolean transcription of what the code validates when interpolation.validate is on
       (non-empty, at least one parameter, check_data_complete per key group: every combination of left edges present,
        every sub-table reaches the parameter's overall largest right edge, no duplicate / overlapping /
        non-contiguous bins).
   Since fix 1620b43e (finding F-AC) nothing beyond the code's own validation is assumed: "rows with the same left edge
   have the same right edge", formerly a separate conjunct of [wf], is the consequence C15_ends_agree.
   Missing attributes: [no_nan k s] = the simulant's key attributes are present and none of its k parameter attributes
   is NaN; [numeric k s] = none of them is a non-number (C15_non_numeric: those are rejected).  What the code does otherwise is transcribed in the model and stated by C15_nan_parameter / C15_missing_key
   (open finding F-AF in known_findings.json - listed, not repaired: a NaN parameter silently selects the LAST bin and is never rejected - not
   even with extrapolation off; a missing key silently yields a row of NaN).
   Requests are arbitrary label lists: a label may occur several times (each occurrence gets the simulant's row).
   Open finding F-N (known_findings.json): the `year` value is year + yday/365.25, which leaves the current calendar
   year on day-of-year 366: C15_year_current carries the exact guard [1 <= yday <= 365]; the excluded class is
   exhibited by C15_year_leap_dec31_refuted. *)
From Viv Require Import Common Lookup LookupProofs.
Local Open Scope Z_scope.

(* For well-formed data, a simulant whose key tuple occurs in the data and whose every parameter value lies in the
   covered range [first left edge, largest right edge) gets a row r of the data with r's keys = its keys and
   start_p r <= x_p < end_p r for EVERY parameter p - and r is the only such row (extrapolation on or off). *)
Theorem C15_bin_membership : forall ext d k s,
  wf k d = true -> no_nan k s -> numeric k s -> group d (skeys s) <> [] ->
  (forall p, (p < k)%nat -> in_range (group d (skeys s)) p (param p s)) ->
  exists r, lookup_row ext d k s = Ok (Some r) /\ In r d /\ rkeys r = skeys s /\
            (forall p, (p < k)%nat -> start p r <= param p s < stop p r) /\
            (forall r', In r' d -> rkeys r' = skeys s ->
                        (forall p, (p < k)%nat -> start p r' <= param p s < stop p r') -> r' = r).
Proof. exact bin_membership. Qed.

(* Extrapolation on: per parameter, below the range the FIRST bin, at or above the largest right edge the LAST bin,
   inside the range the containing bin - independently per parameter.
   Extrapolation off: any parameter outside the covered range => rejected (ValueError). *)
Theorem C15_extrapolate : forall d k s,
  wf k d = true -> no_nan k s -> numeric k s -> group d (skeys s) <> [] ->
  let G := group d (skeys s) in
  (exists r, lookup_row true d k s = Ok (Some r) /\ In r d /\ rkeys r = skeys s /\
     forall p, (p < k)%nat ->
       (param p s < low_edge G p -> start p r = low_edge G p) /\
       (max_right G p <= param p s -> start p r = last_edge G p) /\
       (in_range G p (param p s) -> start p r <= param p s < stop p r)) /\
  (forall p, (p < k)%nat -> ~ in_range G p (param p s) -> lookup_row false d k s = Rejected EConfig).
Proof. exact extrapolation. Qed.

(* a key tuple that does not occur in the data: rejected (KeyError), whatever the flags *)
Theorem C15_unknown_key : forall ext d k s, key_has_nan (skeys s) = false -> group d (skeys s) = [] ->
  lookup_row ext d k s = Rejected EPopulation.
Proof. exact lookup_row_unknown_key. Qed.

(* THE CODE AS IT IS (open finding F-AF; the headline theorems carry the guard [no_nan] that excludes this class).  A simulant whose attribute for parameter p is NaN is never rejected on
   account of p - also with extrapolation off - and silently receives the LAST bin of p (np.digitize(NaN) = len(bins));
   its numeric parameters are treated as usual. *)
Theorem C15_nan_parameter : forall ext d k s,
  wf k d = true -> key_has_nan (skeys s) = false -> numeric k s -> group d (skeys s) <> [] ->
  (ext = true \/ forall p, (p < k)%nat -> isnan p s = false -> in_range (group d (skeys s)) p (param p s)) ->
  exists r, lookup_row ext d k s = Ok (Some r) /\ In r d /\ rkeys r = skeys s /\
    forall p, (p < k)%nat ->
      (isnan p s = true -> start p r = last_edge (group d (skeys s)) p) /\
      (isnan p s = false -> in_range (group d (skeys s)) p (param p s) -> start p r <= param p s < stop p r).
Proof. exact nan_parameter. Qed.

(* a parameter attribute that is not a number (a string in an object column): rejected (TypeError) *)
Theorem C15_non_numeric : forall ext d k s, key_has_nan (skeys s) = false -> group d (skeys s) <> [] ->
  any_bad k s = true -> lookup_row ext d k s = Rejected EOther.
Proof. exact lookup_row_bad. Qed.

(* ... and a simulant with a missing KEY attribute belongs to no group: it silently gets a row of NaN, whatever the data
   and the flags (binned and categorical tables alike) *)
Theorem C15_missing_key : forall ext d k s, key_has_nan (skeys s) = true ->
  lookup_one ext d k s = Ok None /\ cat_one d s = Ok None.
Proof.
  intros ext d k s H. split; [now apply lookup_one_missing_key|]. unfold cat_one. now rewrite H.
Qed.

(* The classic off-by-one, stated on its own: a value equal to a bin's left edge belongs to that bin; a value equal to
   a (proper) bin's right edge belongs to the bin that STARTS there, not to the one that ends there. *)
Theorem C15_edges : forall ext d k s r,
  wf k d = true -> key_has_nan (skeys s) = false -> lookup_row ext d k s = Ok (Some r) ->
  forall p r0, (p < k)%nat -> isnan p s = false -> In r0 d -> rkeys r0 = skeys s ->
    (param p s = start p r0 -> start p r = param p s) /\
    (param p s = stop p r0 -> start p r0 < stop p r0 -> param p s < max_right (group d (skeys s)) p ->
       start p r = param p s /\ r <> r0).
Proof. exact edges_half_open. Qed.

(* Locality: the call on a request IS the per-simulant function mapped over the request, label by label, in request
   order - up to WHICH error is reported when several simulants fail ([agree]: equal frames, or both rejected).
   No well-formedness needed: this is how the code distributes a request over key groups and merges back. *)
Theorem C15_local : forall ext d k ypos yv pop idx,
  agree (table_call ext d k ypos yv pop idx)
        (match gather pop idx with
         | None => Rejected EPopulation
         | Some ss => map_res (lookup_one ext d k) (with_year_all ypos yv ss)
         end).
Proof. exact table_call_local. Qed.

(* Indexed exactly like the request; each simulant's cells are its own [lookup_one] - whoever else is requested. *)
Theorem C15_indexed_like_request : forall ext d k ypos yv pop idx fr,
  table_call ext d k ypos yv pop idx = Ok fr ->
  map fst fr = idx /\
  exists ss, gather pop idx = Some ss /\
             fr = map (fun s => (fst s, val (lookup_one ext d k (snd s)))) (with_year_all ypos yv ss) /\
             forall s, In s (with_year_all ypos yv ss) ->
                       lookup_one ext d k (snd s) = Ok (val (lookup_one ext d k (snd s))).
Proof. exact table_call_indexed. Qed.

(* The decision to reject is the only non-local part (the code tests the request's min / max): rejected iff SOME
   requested simulant is unknown or would be rejected on its own.  The model never runs out of fuel. *)
Theorem C15_rejected_iff : forall ext d k ypos yv pop idx,
  ((exists e, table_call ext d k ypos yv pop idx = Rejected e) <->
   (gather pop idx = None \/
    exists ss s e, gather pop idx = Some ss /\ In s (with_year_all ypos yv ss) /\
                   lookup_one ext d k (snd s) = Rejected e)) /\
  table_call ext d k ypos yv pop idx <> OutOfFuel.
Proof. exact table_call_rejected_iff. Qed.

(* scalar tables broadcast their value(s) to every requested label, in request order *)
Theorem C15_scalar : forall vs idx, scalar_call vs idx = map (fun i => (i, vs)) idx.
Proof. exact scalar_broadcast. Qed.

(* categorical tables (unique key tuples): per simulant THE data row with its key tuple; rejected iff some requested
   simulant has none; indexed like the request *)
Theorem C15_categorical : forall d pop idx, nodup_keys d = true ->
  agree (cat_call d pop idx)
        (match gather pop idx with None => Rejected EPopulation | Some ss => map_res (cat_one d) ss end) /\
  (forall fr, cat_call d pop idx = Ok fr ->
     map fst fr = idx /\
     exists ss, gather pop idx = Some ss /\ fr = map (fun s => (fst s, val (cat_one d (snd s)))) ss /\
                forall s, In s ss -> cat_one d (snd s) = Ok (val (cat_one d (snd s)))).
Proof.
  intros d pop idx Hnd. split; [now apply cat_call_local|]. intros fr E. now apply cat_call_indexed.
Qed.

Theorem C15_categorical_row : forall d s vs, key_has_nan (skeys s) = false -> cat_one d s = Ok vs ->
  exists r, vs = Some (rvals r) /\ In r d /\ rkeys r = skeys s /\ forall r', In r' d -> rkeys r' = skeys s -> r' = r.
Proof. exact cat_one_spec. Qed.

(* consequence of the validation (an assumption before fix 1620b43e): within a key group, rows that start at the same
   left edge of a parameter end at the same right edge - for every proper bin (start < end; a last bin whose right edge
   is not above its left edge is tolerated by the validation and never selected inside the covered range) *)
Theorem C15_ends_agree : forall k d r r' p,
  wf k d = true -> In r d -> In r' d -> rkeys r = rkeys r' -> (p < k)%nat ->
  start p r = start p r' -> start p r < stop p r -> stop p r = stop p r'.
Proof. exact valid_ends_agree. Qed.

(* the `year` parameter: the table overwrites exactly the year slot of every requested simulant with one value ... *)
Theorem C15_year_slot : forall p yv s, (p < length (sparams s))%nat ->
  param p (with_year (Some p) yv s) = yv /\ isnan p (with_year (Some p) yv s) = false /\
  skeys (with_year (Some p) yv s) = skeys s /\
  forall q, q <> p -> param q (with_year (Some p) yv s) = param q s.
Proof.
  intros p yv s H. destruct (with_year_param p yv s H) as [A [B C]]. repeat split; try assumption.
  apply with_year_not_nan.
Qed.

(* ... which lies in the current simulation year [y, y+1) - GUARD: day-of-year 1..365 (finding F-N excluded) *)
Theorem C15_year_current : forall D y yday, 0 < D -> 1 <= yday <= 365 ->
  D * 1461 * y <= year_value D y yday < D * 1461 * (y + 1).
Proof. exact year_value_current. Qed.

(* F-N: on day-of-year 366 the value is in the NEXT year (366/365.25 > 1) *)
Theorem C15_year_leap_dec31_refuted : exists D y yday, 0 < D /\ 1 <= yday <= 366 /\
  ~ (year_value D y yday < D * 1461 * (y + 1)).
Proof.
  exists 1, 2004, 366. split; [lia|]. split; [lia|]. pose proof (year_value_leap_dec31 1 2004 ltac:(lia)). lia.
Qed.

(* the evaluation order of the running model (edges computed once per group) is the specification's *)
Theorem C15_model_sharing : forall G k s, chosen_from 0 (all_edges G k) s = chosen G k s.
Proof. exact chosen_from_all. Qed.

(* ---- non-vacuity: two key tuples, two parameters with irregular edges (scaled integers), complete grids ---- *)
Definition ex_d : list row :=
  [mkRow [0] [(0, 5); (10, 12)] [100]; mkRow [0] [(5, 13); (10, 12)] [101];
   mkRow [0] [(0, 5); (12, 40)] [102]; mkRow [0] [(5, 13); (12, 40)] [103];
   mkRow [1] [(-8, 0); (10, 11)] [110]; mkRow [1] [(0, 1); (10, 11)] [111]].
Definition ex_pop : list (Z * simulant) :=
  [(0, mkSim [0] [5; 12] [] []);      (* exactly on two left edges *)
   (1, mkSim [0] [4; 39] [] []);      (* interior / just below the last right edge *)
   (2, mkSim [1] [-9; 10] [] []);     (* below the range of the first parameter *)
   (3, mkSim [1] [1; 10] [] []);      (* exactly on the largest right edge: outside *)
   (4, mkSim [2] [0; 10] [] [])].     (* key tuple without data *)

Example ex_wf : wf 2 ex_d = true.
Proof. vm_compute. reflexivity. Qed.
Example ex_range : forall p, (p < 2)%nat -> in_range (group ex_d [0]) p (param p (mkSim [0] [5; 12] [] [])).
Proof. intros [|[|p]] H; try lia; vm_compute; split; congruence. Qed.
Example ex_inside : table_call false ex_d 2 None 0 ex_pop [1; 0] = Ok [(1, Some [102]); (0, Some [103])].
Proof. vm_compute. reflexivity. Qed.
Example ex_outside_rejected : table_call false ex_d 2 None 0 ex_pop [1; 2] = Rejected EConfig.
Proof. vm_compute. reflexivity. Qed.
Example ex_extrapolated : table_call true ex_d 2 None 0 ex_pop [3; 2; 0] = Ok [(3, Some [111]); (2, Some [110]); (0, Some [103])].
Proof. vm_compute. reflexivity. Qed.
Example ex_duplicates : table_call false ex_d 2 None 0 ex_pop [1; 0; 1; 1] =
  Ok [(1, Some [102]); (0, Some [103]); (1, Some [102]); (1, Some [102])].
Proof. vm_compute. reflexivity. Qed.
(* simulant 5: attribute of parameter 0 is NaN -> the last bin [5,13) of that parameter, also with extrapolation off;
   simulant 6: missing key -> a row of NaN *)
Example ex_missing : table_call false ex_d 2 None 0
    (ex_pop ++ [(5, mkSim [0] [0; 11] [0] []); (6, mkSim [-1] [1; 11] [] [])]) [5; 6; 1] =
  Ok [(5, Some [101]); (6, None); (1, Some [102])].
Proof. vm_compute. reflexivity. Qed.
(* a last bin whose right edge is not above its left edge ([5,2)) passes the validation; every in-range value still gets
   a row that contains it (C15_bin_membership), values at or above the largest right edge (5) are out of range *)
Example ex_degenerate_last_bin :
  let d := [mkRow [] [(0, 5)] [1]; mkRow [] [(5, 2)] [2]] in
  wf 1 d = true /\ max_right d 0 = 5 /\
  lookup_row false d 1 (mkSim [] [4] [] []) = Ok (Some (mkRow [] [(0, 5)] [1])) /\
  lookup_row false d 1 (mkSim [] [5] [] []) = Rejected EConfig /\
  lookup_row true d 1 (mkSim [] [7] [] []) = Ok (Some (mkRow [] [(5, 2)] [2])).
Proof. vm_compute. repeat split; reflexivity. Qed.
Example ex_unknown_key : table_call true ex_d 2 None 0 ex_pop [0; 4] = Rejected EPopulation.
Proof. vm_compute. reflexivity. Qed.
(* finding F-AC: the last right edge differs between sub-tables ([5,10) where p1 = 0, [5,12) where p1 = 1).  The
   validation REJECTS such data since fix 1620b43e; before it the data was accepted and, with extrapolation off, x = 11
   was not rejected and received the row of the bin [5,10) that does not contain it (what the look-up itself still
   does on such data when the validation is switched off). *)
Example ex_ends_disagree :
  let d := [mkRow [] [(0, 5); (0, 1)] [1]; mkRow [] [(5, 10); (0, 1)] [2];
            mkRow [] [(0, 5); (1, 2)] [3]; mkRow [] [(5, 12); (1, 2)] [4]] in
  valid 2 d = false /\ wf 2 d = false /\
  lookup_row false d 2 (mkSim [] [11; 0] [] []) = Ok (Some (mkRow [] [(5, 10); (0, 1)] [2])).
Proof. vm_compute. repeat split; reflexivity. Qed.
(* the same grid with equal last right edges is accepted, and 11 is then inside [5,12) *)
Example ex_ends_agree :
  let d := [mkRow [] [(0, 5); (0, 1)] [1]; mkRow [] [(5, 12); (0, 1)] [2];
            mkRow [] [(0, 5); (1, 2)] [3]; mkRow [] [(5, 12); (1, 2)] [4]] in
  wf 2 d = true /\ lookup_row false d 2 (mkSim [] [11; 0] [] []) = Ok (Some (mkRow [] [(5, 12); (0, 1)] [2])).
Proof. vm_compute. split; reflexivity. Qed.

Print Assumptions C15_bin_membership.
Print Assumptions C15_extrapolate.
Print Assumptions C15_unknown_key.
Print Assumptions C15_nan_parameter.
Print Assumptions C15_missing_key.
Print Assumptions C15_non_numeric.
Print Assumptions C15_edges.
Print Assumptions C15_local.
Print Assumptions C15_indexed_like_request.
Print Assumptions C15_rejected_iff.
Print Assumptions C15_scalar.
Print Assumptions C15_categorical.
Print Assumptions C15_categorical_row.
Print Assumptions C15_ends_agree.
Print Assumptions C15_year_slot.
Print Assumptions C15_year_current.
Print Assumptions C15_year_leap_dec31_refuted.
Print Assumptions C15_model_sharing.
