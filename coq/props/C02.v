(* C02 - A simulant's draw depends only on identity, time and decision point.  Statements only; proofs live in
   theories/StreamProofs.v.

   Reading guide.  [block k p] (a Section variable, universally quantified in every theorem below) is element p of the
   Mersenne-Twister block seeded with SHA-1 of the seed string k; draws are numerators over 2^53.  [pos im l] is the
   position the index map gives label l ([IndexMap.__getitem__], then numpy indexing).  The theorems are about
   ordinary streams ([crn_init = false]); streams created with initializes_crn_attributes=True are positional by
   documented design (C02_crn_init_positional), used only before a simulant has an identity.

   PARTIAL: "changing decision point / time / additional key / seed yields an UNRELATED set of draws" is a
   statistical statement about SHA-1 and MT19937, which are not modelled.  What is proved is that such a change
   always changes the string that reaches SHA-1 (C02_seedkey_single_change) and when two arbitrary seed keys can alias
   (C02_seedkey_injective_partial, C02_manager_seed_injective_guarded - the exact guard excluding open finding F-O -
   and the two _refuted witnesses); the check adds the at-most-2-of-48 coincidence test on the real streams.                                                                                     *)
From Viv Require Import Common Stream StreamProofs.
From Coq Require Import Permutation.
Local Open Scope Z_scope.

Section C02.
  Variable K : Type.
  Variable block : K -> Z -> Z.
  Notation get_draw := (get_draw K block).

  (* every draw of every successful request is the block element at the simulant's own mapped position *)
  Theorem C02_pointwise : forall im k idx ds, get_draw false im k idx = Ok ds ->
    length ds = length idx /\
    forall j, (j < length idx)%nat -> exists p, pos im (nth j idx 0) = Ok p /\ nth j ds 0 = block k p.
  Proof. exact (pointwise K block). Qed.

  (* ... hence it is the draw of the single-simulant request, whatever else is in the request *)
  Theorem C02_single : forall im k idx ds, get_draw false im k idx = Ok ds ->
    forall l d, In (l, d) (combine idx ds) -> get_draw false im k [l] = Ok [d].
  Proof. exact (single K block). Qed.

  (* any sub-request (any subset, with or without repetitions, in any order) succeeds and attaches the same draws *)
  Theorem C02_subset_invariant : forall im k idx idx' ds, incl idx' idx -> get_draw false im k idx = Ok ds ->
    exists ds', get_draw false im k idx' = Ok ds' /\ incl (combine idx' ds') (combine idx ds).
  Proof. exact (subset_invariant K block). Qed.

  Theorem C02_perm_invariant : forall im k idx idx' ds, Permutation idx idx' -> get_draw false im k idx = Ok ds ->
    exists ds', get_draw false im k idx' = Ok ds' /\ Permutation (combine idx ds) (combine idx' ds').
  Proof. exact (perm_invariant K block). Qed.

  (* one label, one draw - for repeated labels inside a request and across any two requests *)
  Theorem C02_repeat_invariant : forall im k idx idx' ds ds' l d d',
    get_draw false im k idx = Ok ds -> get_draw false im k idx' = Ok ds' ->
    In (l, d) (combine idx ds) -> In (l, d') (combine idx' ds') -> d = d'.
  Proof. exact (repeat_invariant K block). Qed.

  (* ANY history of earlier calls (get_draw / filter / choice / sample, any stream, any arguments) and of
     registrations of new simulants leaves every later answer unchanged, provided registrations never move an
     existing simulant (stable_history: the conclusion of C03_stable) *)
  Theorem C02_history_invariant : forall c w h k idx ds, stable_history K w h ->
    get_draw c w k idx = Ok ds -> get_draw c (run K w h) k idx = Ok ds.
  Proof. exact (history_invariant K block). Qed.

  Theorem C02_calls_inert : forall h w, Forall (is_call K) h -> run K w h = w.
  Proof. exact (calls_inert K). Qed.

  (* sample_from_distribution is ppf of ONE get_draw: a simulant's sample is ppf of its own draw, so it inherits every
     invariance above (ppf: any function; scipy's quantile functions are external) *)
  Theorem C02_sample_from_distribution : forall ppf im k idx ds, get_draw false im k idx = Ok ds ->
    sample_from K block ppf false im k idx = Ok (map ppf ds) /\
    forall l d, In (l, d) (combine idx ds) -> sample_from K block ppf false im k [l] = Ok [ppf d].
  Proof. exact (sample_single K block). Qed.

  (* under numpy's contract for random_sample (validated on every draw the check sees) *)
  Theorem C02_unit_interval : (forall k p, 0 <= block k p < two53) ->
    forall c im k idx ds, get_draw c im k idx = Ok ds -> Forall (fun d => 0 <= d < two53) ds.
  Proof. exact (unit_interval K block). Qed.

  (* characterisation of the documented opt-out: positional, labels irrelevant *)
  Theorem C02_crn_init_positional : forall im k idx ds, get_draw true im k idx = Ok ds ->
    ds = map (block k) (zseq 0 (length idx)) /\
    forall idx', length idx' = length idx -> get_draw true im k idx' = Ok ds.
  Proof.
    intros im k idx ds H. split; [exact (crn_init_positional K block im k idx ds H)|].
    intros idx' HL. now rewrite (crn_init_labels_irrelevant K block im k idx' idx HL).
  Qed.
End C02.

(* distinct simulants use distinct positions of the block.  Without CRN: labels are positions (simulant labels are
   non-negative; a label >= size is Rejected - the IndexError of raw_draws[draw_index]).  With CRN: from an injective
   in-range map, which is what C03_injective / C03_in_range establish for every registration history. *)
Theorem C02_distinct_positions :
  (forall size l1 l2 p1 p2, 0 <= l1 -> 0 <= l2 -> l1 <> l2 ->
     pos (NoCRN size) l1 = Ok p1 -> pos (NoCRN size) l2 = Ok p2 -> p1 <> p2) /\
  (forall size m l1 l2 p1 p2, NoDup (map snd m) -> (forall l p, In (l, p) m -> 0 <= p < size) -> l1 <> l2 ->
     pos (CRN size (Some m)) l1 = Ok p1 -> pos (CRN size (Some m)) l2 = Ok p2 -> p1 <> p2).
Proof. split; [exact distinct_positions_nocrn | exact distinct_positions_crn]. Qed.

(* the correspondence checks [map_wf] on every registered map it sees (initial map and after every registration):
   such maps give distinct simulants distinct block elements *)
Theorem C02_checked_maps_distinct : forall size m l1 l2 p1 p2, map_wf size m = true -> l1 <> l2 ->
  pos (CRN size (Some m)) l1 = Ok p1 -> pos (CRN size (Some m)) l2 = Ok p2 -> p1 <> p2.
Proof. exact map_wf_distinct. Qed.

(* changing EXACTLY ONE of decision point, clock, additional key, seed changes the seed string - no guard *)
Theorem C02_seedkey_single_change : forall a b, differ_in_one a b = true -> seed_string a <> seed_string b.
Proof. exact single_change. Qed.

(* PARTIAL: for two arbitrary seed keys the "_"-join is injective only if "_" occurs in none of decision point,
   str(clock), str(additional key).  Missing: the unguarded statement - which is false, see the next theorem. *)
Theorem C02_seedkey_injective_partial : forall a b,
  ~ In underscore (sk_key a) -> ~ In underscore (sk_clock a) -> ~ In underscore (sk_addl a) ->
  ~ In underscore (sk_key b) -> ~ In underscore (sk_clock b) -> ~ In underscore (sk_addl b) ->
  seed_string a = seed_string b -> a = b.
Proof. exact seedkey_injective. Qed.

(* "a_b" at clock "c"  vs  "a" at clock "b_c" *)
Theorem C02_seedkey_alias_refuted : exists a b, a <> b /\ seed_string a = seed_string b.
Proof.
  exists {| sk_key := [97; 95; 98]; sk_clock := [99]; sk_addl := [78]; sk_seed := [48] |},
         {| sk_key := [97]; sk_clock := [98; 95; 99]; sk_addl := [78]; sk_seed := [48] |}.
  split; [discriminate | reflexivity].
Qed.

(* finding F-O (open): the manager concatenates str(random_seed) and str(additional_seed) without a separator.
   The concatenation IS injective on configurations whose random seeds have equally long strings - the exact guard
   that excludes the finding class - and two configurations can alias only if one random seed's string is a proper
   prefix of the other's (None and "" are the same additional seed). *)
Theorem C02_manager_seed_injective_guarded : forall r1 a1 r2 a2, length r1 = length r2 ->
  manager_seed r1 a1 = manager_seed r2 a2 -> r1 = r2 /\ optstr a1 = optstr a2.
Proof. exact manager_seed_injective_guarded. Qed.

Theorem C02_manager_seed_alias_is_prefix : forall r1 a1 r2 a2,
  manager_seed r1 a1 = manager_seed r2 a2 -> (length r1 <= length r2)%nat ->
  exists t, r2 = r1 ++ t /\ optstr a1 = t ++ optstr a2.
Proof. exact manager_seed_alias_prefix. Qed.

(* ... and the unguarded statement is false: (random_seed, additional_seed) = (1, 23) and (12, 3) carry the same
   seed "123" - identical draws everywhere *)
Theorem C02_seed_concat_alias_refuted : exists r1 a1 r2 a2,
  (r1, a1) <> (r2, a2) /\ manager_seed r1 (Some a1) = manager_seed r2 (Some a2).
Proof. exists [49], [50; 51], [49; 50], [51]. split; [discriminate | reflexivity]. Qed.

(* ---------------------------------------------------------------------------------------------------------------
   the manager layer (RandomnessManager): a registry of decision points sharing ONE seed string and ONE index map.
   [mk dp ca seed] is the block key built from the decision point, the call's (clock, additional key) and the seed;
   theorems hold for every [mk] and [block] and for ALL request histories.
   --------------------------------------------------------------------------------------------------------------- *)
Section C02_manager.
  Variable K : Type.
  Variable C : Type.
  Variable mk : Z -> C -> str -> K.
  Variable block : K -> Z -> Z.
  Notation mstep := (mstep K C mk block).
  Notation mrun := (mrun K C mk block).
  Notation mgr_draw := (mgr_draw K C mk block).

  (* each decision point has at most one stream, whatever was requested *)
  Theorem C02_mgr_one_stream_per_decision_point : forall rs g,
    NoDup (map fst (g_dps g)) -> NoDup (map fst (g_dps (mrun g rs))).
  Proof. exact (mrun_nodup K C mk block). Qed.

  (* a second request for a decision point is refused and changes nothing; a first one hands out the manager's seed *)
  Theorem C02_mgr_duplicate_rejected : forall g dp c,
    (forall c', zassoc dp (g_dps g) = Some c -> mstep g (RGet dp c') = (g, ORefused ERandomness)) /\
    (zassoc dp (g_dps g) = None -> snd (mstep g (RGet dp c)) = OStream (g_seed g) /\
                                   zassoc dp (g_dps (fst (mstep g (RGet dp c)))) = Some c).
  Proof.
    intros g dp c. split.
    - intros c' H. exact (mstep_duplicate K C mk block g dp c c' H).
    - intros H. rewrite (mstep_new K C mk block g dp c H). simpl. now rewrite Z.eqb_refl.
  Qed.

  (* all streams of a manager share the seed (and, by construction of [mgr_draw], the index map), for ever; a stream
     keeps the kind it was created with *)
  Theorem C02_mgr_shared_seed : forall rs g,
    g_seed (mrun g rs) = g_seed g /\
    forall dp c, zassoc dp (g_dps g) = Some c -> zassoc dp (g_dps (mrun g rs)) = Some c.
  Proof. intros rs g. split; [apply mrun_seed | intros dp c; apply mrun_flag_stable]. Qed.

  (* a stream's draws do not depend on which other streams exist ... *)
  Theorem C02_mgr_other_streams_irrelevant : forall g h1 h2 dp ca idx, g_dps g = [] -> zassoc dp h1 = zassoc dp h2 ->
    mgr_draw (mrun g (creations C h1)) dp ca idx = mgr_draw (mrun g (creations C h2)) dp ca idx.
  Proof. exact (creations_irrelevant K C mk block). Qed.

  (* ... nor on the order in which the streams were created *)
  Theorem C02_mgr_creation_order_irrelevant : forall g h1 h2 dp ca idx, g_dps g = [] -> NoDup (map fst h1) ->
    Permutation h1 h2 ->
    mgr_draw (mrun g (creations C h1)) dp ca idx = mgr_draw (mrun g (creations C h2)) dp ca idx.
  Proof. exact (creation_order_irrelevant K C mk block). Qed.

  (* ... nor on anything that happens later: creations, refused duplicates, draws on any stream, registrations that
     move no registered simulant *)
  Theorem C02_mgr_history_invariant : forall g rs dp ca idx ds, stable_history K (g_map g) (map_ops K C rs) ->
    mgr_draw g dp ca idx = Ok ds -> mgr_draw (mrun g rs) dp ca idx = Ok ds.
  Proof. exact (mgr_history_invariant K C mk block). Qed.
End C02_manager.

(* ---- non-vacuity ---- *)
Definition demo_block (k p : Z) : Z := (k * 1000 + p * 7 + 3) mod two53.
Example demo_crn :
  let im := CRN 100 (Some [(0, 43); (1, 83); (2, 53); (3, 37)]) in
  get_draw Z demo_block false im 5 [3; 1; 1; 0] = Ok [5262; 5584; 5584; 5304] /\
  get_draw Z demo_block false im 5 [1] = Ok [5584] /\
  get_draw Z demo_block false im 5 [0; 7] = Rejected EOther /\
  get_draw Z demo_block false (CRN 100 None) 5 [0] = Rejected ERandomness /\
  get_draw Z demo_block false (CRN 100 None) 5 [] = Ok [] /\
  get_draw Z demo_block true im 5 [3; 1; 1] = Ok [5003; 5010; 5017].
Proof. vm_compute. repeat split. Qed.
Example demo_nocrn :
  get_draw Z demo_block false (NoCRN 50) 5 [3; 49; -1] = Ok [5024; 5346; 5346] /\      (* numpy wraps -1 to 49 *)
  get_draw Z demo_block false (NoCRN 50) 5 [50] = Rejected EOther.
Proof. vm_compute. split; reflexivity. Qed.
Example demo_history :
  let w := CRN 100 (Some [(0, 43); (1, 83)]) in
  let h := [OCall false 5 [0; 1]; ORegister [(0, 43); (1, 83); (2, 53)]; OCall true 6 [2; 2]; OCall false 5 [2]] in
  stable_history Z w h /\ get_draw Z demo_block false (run Z w h) 5 [1; 0] = get_draw Z demo_block false w 5 [1; 0].
Proof.
  split; [|vm_compute; reflexivity]. simpl. repeat split; auto.
  intros l p H. cbn [zassoc] in *. destruct (0 =? l); [assumption|]. destruct (1 =? l); [assumption | discriminate H].
Qed.
Example demo_seed_guard :
  manager_seed [49; 50] (Some [51]) = [49; 50; 51] /\ manager_seed [57; 57] None = [57; 57] /\
  manager_seed [49; 50] (Some [51]) <> manager_seed [57; 57] (Some [51]).
Proof. repeat split. discriminate. Qed.
Example demo_manager :
  let g0 := {| g_seed := [49; 50; 51]; g_map := NoCRN 50; g_dps := [] |} in
  let mk := fun (dp : Z) (ca : Z) (_ : str) => dp * 100 + ca in
  let g := mrun Z Z mk demo_block g0 [RGet 7 false; RGet 8 true; RGet 7 true; RDraw 7 1 [3]; RGet 9 false] in
  map fst (g_dps g) = [9; 8; 7] /\ zassoc 7 (g_dps g) = Some false /\
  snd (mstep Z Z mk demo_block g (RGet 8 false)) = ORefused ERandomness /\
  mgr_draw Z Z mk demo_block g 7 1 [3; 49] = Ok [701024; 701346] /\
  mgr_draw Z Z mk demo_block g 8 1 [3; 49] = Ok [801003; 801010] /\
  mgr_draw Z Z mk demo_block g 5 1 [3] = Rejected EOther.
Proof. vm_compute. repeat split. Qed.
Example demo_single_change :
  differ_in_one {| sk_key := [97]; sk_clock := [99]; sk_addl := [78]; sk_seed := [48] |}
                {| sk_key := [97]; sk_clock := [99]; sk_addl := [49]; sk_seed := [48] |} = true.
Proof. reflexivity. Qed.

Print Assumptions C02_pointwise.
Print Assumptions C02_single.
Print Assumptions C02_subset_invariant.
Print Assumptions C02_perm_invariant.
Print Assumptions C02_repeat_invariant.
Print Assumptions C02_history_invariant.
Print Assumptions C02_calls_inert.
Print Assumptions C02_sample_from_distribution.
Print Assumptions C02_unit_interval.
Print Assumptions C02_crn_init_positional.
Print Assumptions C02_distinct_positions.
Print Assumptions C02_checked_maps_distinct.
Print Assumptions C02_seedkey_single_change.
Print Assumptions C02_seedkey_injective_partial.
Print Assumptions C02_seedkey_alias_refuted.
Print Assumptions C02_manager_seed_injective_guarded.
Print Assumptions C02_manager_seed_alias_is_prefix.
Print Assumptions C02_seed_concat_alias_refuted.
Print Assumptions C02_mgr_one_stream_per_decision_point.
Print Assumptions C02_mgr_duplicate_rejected.
Print Assumptions C02_mgr_shared_seed.
Print Assumptions C02_mgr_other_streams_irrelevant.
Print Assumptions C02_mgr_creation_order_irrelevant.
Print Assumptions C02_mgr_history_invariant.
