(* C13 - Creating simulants adds fresh rows and disturbs nobody.  Statements only; proofs live in
   theories/PopulationProofs.v; the model (theories/Population.v) transcribes PopulationManager._create_simulants
   ([create]: reindex to range(len+count), flags, every initializer called with the same SimulantData, flags cleared
   - not in a `finally`) and the creation-time rules of PopulationView.update.

   An initializer is ANY function from (SimulantData, table at entry) to a strategy tree of view updates, each next
   update chosen knowing the table and the outcomes so far ([istrat]); a history is ANY list of updates, reads and
   creations ([op]).  [created st ops] lists the label sets of the creations of a history.                    *)
From Viv Require Import Common Population PopulationProofs.
Local Open Scope Z_scope.

(* ---- labels ---- *)
(* one creation: exactly [count] rows are added and exactly their labels n .. n+count-1 are returned (count = 0
   included); if an initializer's exception propagates the rows stay and nothing is returned *)
Theorem C13_labels_one : forall st count user clock stp inits st' r log,
  create st count user clock stp inits = (st', r, log) ->
  nrows st' = (nrows st + count)%nat /\
  (forall l, r = Ok l -> l = new_labels (nrows st) count /\ pflags st' = steady) /\
  (r = Ok (new_labels (nrows st) count) \/ exists e, r = Rejected e).
Proof. intros. apply create_props in H. tauto. Qed.

(* over ANY history: the labels handed out by all creations are consecutive from the row count at the start, hence
   fresh (not below it: every label in use before is below it), pairwise distinct and never reused; updates and reads
   never add or remove a row *)
Theorem C13_labels : forall st ops,
  concat (created st ops) = new_labels (nrows st) (nrows (run st ops) - nrows st) /\
  NoDup (concat (created st ops)) /\
  (forall l, In l (concat (created st ops)) -> Z.of_nat (nrows st) <= l < Z.of_nat (nrows (run st ops))).
Proof.
  intros st ops. destruct (created_consecutive ops st) as [E L]. rewrite E. split; [reflexivity|].
  split; [apply new_labels_NoDup|]. intros l H. apply new_labels_spec in H. lia.
Qed.

Theorem C13_rows : forall st o,
  nrows (fst (step st o)) = match o with OpCreate count _ _ _ _ => (nrows st + count)%nat | _ => nrows st end.
Proof. exact step_rows. Qed.

(* ---- existing simulants ---- *)
(* the re-indexing itself: every cell of every existing simulant keeps its value (an int64 column is held as float64
   until its initializer has filled the new rows - hence "value", and hence the guard [ints_exact]: |z| <= 2^53);
   the new rows start out null *)
Theorem C13_existing_untouched_reindex : forall t count c l, wf t -> ints_exact t ->
  (0 <= l < Z.of_nat (tn t) -> oval_eq (cell_at (reindex t count) c l) (cell_at t c l)) /\
  (forall k, find_col (tcols t) c = Some k -> Z.of_nat (tn t) <= l < Z.of_nat (tn t + count) ->
     cell_at (reindex t count) c l = Some Null) /\
  tn (reindex t count) = (tn t + count)%nat /\ col_names (reindex t count) = col_names t.
Proof.
  intros t count c l W IE. split; [intros; now apply reindex_old_cells|].
  split; [intros; eapply reindex_new_cells; eassumption|]. split; [apply reindex_rows | apply reindex_names].
Qed.

(* one accepted birth-time update that addresses only rows >= n0 and casts no column lossily ([benign]) leaves the
   first n0 rows as they were *)
Theorem C13_existing_untouched_update : forall n0 t v f ord u t', wf t -> creating f = false -> adding f = true ->
  update t v f ord u = (t', Pass) -> benign n0 t v f u ->
  forall c l, 0 <= l < Z.of_nat n0 -> oval_eq (cell_at t' c l) (cell_at t c l).
Proof. exact benign_update_old_cells. Qed.

(* a whole creation: whatever the initializers do - as long as each update they get ACCEPTED is benign (confined to
   the new labels, lossless; [wb_inits] follows the actual execution) - no cell of an existing simulant changes *)
Theorem C13_existing_untouched : forall st count user clock stp inits st' r log,
  wf_state st -> ptbl st <> None -> creating (pflags st) = false -> ints_exact (cur_table st) ->
  wb_inits (mkflags false true) (nrows st) (reindex (cur_table st) count)
           (mksimdata (new_labels (nrows st) count) user clock stp) inits ->
  create st count user clock stp inits = (st', r, log) ->
  forall c l, 0 <= l < Z.of_nat (nrows st) -> oval_eq (cell_at (cur_table st') c l) (cell_at (cur_table st) c l).
Proof. exact create_old_cells. Qed.

(* the two guards are needed.  (1) finding F-L (open): an initializer confined to the new rows, but with the wrong
   dtype, changes an existing simulant: int64 [1,2,3], one birth, bools for the new row -> simulant 1's 2 is True *)
Definition fl_state : pstate := mkpstate (Some (mktbl 3 [mkcol 1 DInt [Iv 1; Iv 2; Iv 3]])) steady.
Definition fl_init : initializer :=
  fun sd _ => of_list [mkuaction (mkview [1]) [1] (USeries (Some 1) DBool (sd_index sd) (map (fun _ => Bv false) (sd_index sd))) false].
Theorem C13_wrong_dtype_refuted : exists st count inits st' r log,
  create st count 0 0 24 inits = (st', r, log) /\ r = Ok [3] /\
  cell_at (cur_table st) 1 1 = Some (Iv 2) /\ cell_at (cur_table st') 1 1 = Some (Bv true).
Proof. exists fl_state, 1%nat, [fl_init]. eexists. eexists. eexists. vm_compute. repeat split; reflexivity. Qed.

(* (2) finding F-Z (open): an int64 cell beyond 2^53 does not survive the
   float64 round trip of reindex + a perfectly well-behaved initializer: 2^53+1 comes back as 2^53 *)
Definition big_state : pstate := mkpstate (Some (mktbl 1 [mkcol 1 DInt [Iv 9007199254740993]])) steady.
Definition good_int_init : initializer :=
  fun sd _ => of_list [mkuaction (mkview [1]) [1] (USeries (Some 1) DInt (sd_index sd) (map (fun _ => Iv 7) (sd_index sd))) false].
Theorem C13_bigint_refuted : exists st count inits st' r log,
  create st count 0 0 24 inits = (st', r, log) /\ r = Ok [1] /\
  cell_at (cur_table st) 1 0 = Some (Iv 9007199254740993) /\ cell_at (cur_table st') 1 0 = Some (Iv 9007199254740992).
Proof. exists big_state, 1%nat, [good_int_init]. eexists. eexists. eexists. vm_compute. repeat split; reflexivity. Qed.

(* ---- abandoned creations ---- *)
(* whatever makes a creation fail (an exception escaping an initializer; the life cycle refusing the manager's own
   update when the creation is requested from a post_setup / simulation_end listener): the rows have been added,
   nothing is returned and BOTH FLAGS STAY SET - they are not cleared in a `finally`.  The model says so because the
   code does; see the Example below for what that means for later updates (the F-L tolerance stays switched on). *)
Theorem C13_abandoned_creation : forall st count user clock stp inits st' e log,
  create st count user clock stp inits = (st', Rejected e, log) ->
  nrows st' = (nrows st + count)%nat /\
  pflags st' = mkflags ((match ptbl st with None => true | Some _ => false end) || creating (pflags st)) true /\
  ptbl st' <> None.
Proof. exact create_abandoned. Qed.

(* the first initializer's first update raises uncaught (the refused creation of the correspondence is the instance
   [refused_action]): exactly the re-indexed table is left, no other initializer is called *)
Theorem C13_refused_creation : forall st count user clock stp a k rest,
  let f := mkflags ((match ptbl st with None => true | Some _ => false end) || creating (pflags st)) true in
  let t1 := reindex (cur_table st) count in
  snd (update t1 (a_view a) f (a_ord a) (a_upd a)) <> Pass -> a_propagate a = true ->
  create st count user clock stp ((fun _ _ => IAct a k) :: rest) =
  (mkpstate (Some t1) f, Rejected EOther, [mksimdata (new_labels (nrows st) count) user clock stp]).
Proof. exact create_first_raises. Qed.

(* non-vacuity, and the consequence: creation of 2 refused at simulation_end on int64 [1,2,3]; the rows are there,
   the values are kept (as float64), `adding` stays set - so a later update of BOOLS for the new rows is accepted and
   turns simulant 1's 2 into True (finding F-L reached after a refused creation) *)
Example ex_refused :
  let st := mkpstate (Some (mktbl 3 [mkcol 1 DInt [Iv 1; Iv 2; Iv 3]])) steady in
  let '(st', r, log) := create st 2 0 0 24 [fun _ _ => IAct refused_action (fun _ _ => IDone); good_int_init] in
  r = Rejected EOther /\ log = [mksimdata [3; 4] 0 0 24] /\ pflags st' = mkflags false true /\
  cur_table st' = mktbl 5 [mkcol 1 DFloat [Fv 2; Fv 4; Fv 6; Null; Null]] /\
  fst (step st' (OpUpdate (mkview [1]) [1] (USeries (Some 1) DBool [3; 4] [Bv true; Bv false]))) =
  mkpstate (Some (mktbl 5 [mkcol 1 DBool [Bv true; Bv true; Bv true; Bv true; Bv false]])) (mkflags false true).
Proof. vm_compute. repeat split; reflexivity. Qed.

(* ---- what the initializers receive ---- *)
(* every initializer that is called is called with the same SimulantData: the new labels, the user data, the clock
   and the step size of the moment - once each, all of them unless an exception propagates *)
Theorem C13_initializer_args : forall st count user clock stp inits st' r log,
  create st count user clock stp inits = (st', r, log) ->
  exists n, log = repeat (mksimdata (new_labels (nrows st) count) user clock stp) n /\ (n <= length inits)%nat /\
            (forall l, r = Ok l -> n = length inits).
Proof. intros. apply create_props in H. tauto. Qed.

(* ---- columns only during the initial creation ---- *)
(* outside the initial creation no update changes the column set, whatever it is and whether it is accepted ... *)
Theorem C13_update_keeps_columns : forall t v f ord u, creating f = false ->
  col_names (fst (update t v f ord u)) = col_names t.
Proof. exact update_names. Qed.
(* ... an update naming a column the table lacks is refused outright ... *)
Theorem C13_new_column_rejected : forall t v f ord u idx us u0, creating f = false ->
  coerce (view_columns t v) u = inl (idx, us) -> (forall l, In l idx -> has_label t l = true) ->
  In u0 us -> has_col t (uname u0) = false -> update t v f ord u = (t, Fail WNewCols).
Proof. intros. eapply rej_new_cols; eassumption. Qed.
(* ... and once a creation has completed, the column set is fixed for the rest of ANY history (later creations and
   their initializers included) *)
Theorem C13_new_columns_only_initially : forall st count user clock stp inits st' l log ops,
  create st count user clock stp inits = (st', Ok l, log) ->
  established (run st' ops) /\ col_names (cur_table (run st' ops)) = col_names (cur_table st').
Proof. intros. apply established_columns_fixed. eapply create_establishes; eassumption. Qed.

(* ---- conflicting initial values ---- *)
(* initial creation: a second writer of a column whose series is not identical (index, dtype, values) is refused;
   an identical one is accepted only together with a new column and leaves the existing column as it was
   (C11_success_exact_creating) *)
Theorem C13_conflict_rejected : forall t v f ord u idx us u0, creating f = true -> adding f = true ->
  coerce (view_columns t v) u = inl (idx, us) -> (forall l, In l idx -> has_label t l = true) ->
  (forall l, In l (labels t) -> In l idx) -> In u0 us -> has_col t (uname u0) = true ->
  series_equals_col t idx u0 = false ->
  exists w, update t v f ord u = (t, Fail w) /\ (w = WInitConflict \/ w = WNoNewCols).
Proof. intros. eapply rej_init_conflict; eassumption. Qed.
(* births: values already present for the addressed rows must be repeated exactly, else the update is refused *)
Theorem C13_birth_conflict_rejected : forall t v f ord u idx us u0, creating f = false -> adding f = true ->
  coerce (view_columns t v) u = inl (idx, us) -> (forall l, In l idx -> has_label t l = true) ->
  (forall x, In x us -> has_col t (uname x) = true) -> In u0 us -> add_conflict t idx u0 = true ->
  update t v f ord u = (t, Fail WAddConflict).
Proof. intros. eapply rej_add_conflict; eassumption. Qed.

(* ---- non-vacuity: initial creation of 2 with two components (the second repeats the first's column with equal
        values next to its own new column; a third contradicts it and is refused), a birth of 2 with well-behaved
        initializers (the int64 column goes through float64 and comes back), untracking, a birth of 0 ---- *)
Definition init_a : initializer := fun sd t =>
  of_list [mkuaction (mkview [1]) [1]
             (USeries (Some 1) DInt (sd_index sd) (map (fun l => Iv (10 + l)) (sd_index sd))) false].
Definition init_b : initializer := fun sd t =>
  if has_col t 2 then
    of_list [mkuaction (mkview [2]) [2] (USeries None DBool (sd_index sd) (map (fun _ => Bv false) (sd_index sd))) false]
  else
    of_list [mkuaction (mkview [1; 2]) [2; 1]
               (UFrame (sd_index sd) [mkucol 1 DInt (map (fun l => Iv (10 + l)) (sd_index sd));
                                      mkucol 2 DBool (map (fun _ => Bv false) (sd_index sd))]) false;
             mkuaction (mkview [1; 3]) [3; 1]
               (UFrame (sd_index sd) [mkucol 1 DInt (map (fun _ => Iv 0) (sd_index sd));
                                      mkucol 3 DBool (map (fun _ => Bv false) (sd_index sd))]) false].
Definition ex_inits := [tracked_initializer; init_a; init_b].
Definition ex_ops : list op :=
  [OpCreate 2 1 (-24) 24 ex_inits;
   OpUpdate (mkview [0]) [0] (USeries None DBool [0] [Bv false]);
   OpCreate 2 10 0 24 ex_inits;
   OpCreate 0 0 24 24 ex_inits;
   OpUpdate (mkview [1; 9]) [9] (USeries (Some 9) DInt [0] [Iv 1])].
Example ex_history_table :
  cur_table (run init_pstate ex_ops) =
  mktbl 4 [mkcol 0 DBool [Bv false; Bv true; Bv true; Bv true]; mkcol 1 DInt [Iv 10; Iv 11; Iv 12; Iv 13];
           mkcol 2 DBool [Bv false; Bv false; Bv false; Bv false]].
Proof. vm_compute. reflexivity. Qed.
Example ex_history_labels : created init_pstate ex_ops = [[0; 1]; [2; 3]; []].
Proof. vm_compute. reflexivity. Qed.
Example ex_history_responses :
  match responses init_pstate ex_ops with
  | [RCreate (Ok [0; 1]) log0; RUpdate Pass; RCreate (Ok [2; 3]) log1; RCreate (Ok []) _; RUpdate (Fail WNewCols)] =>
      log0 = repeat (mksimdata [0; 1] 1 (-24) 24) 3 /\ log1 = repeat (mksimdata [2; 3] 10 0 24) 3
  | _ => False
  end.
Proof. vm_compute. split; reflexivity. Qed.
(* the guard of C13_existing_untouched holds for the second creation of this history *)
Example ex_wb :
  let st := run init_pstate (firstn 2 ex_ops) in
  wb_inits (mkflags false true) (nrows st) (reindex (cur_table st) 2) (mksimdata (new_labels (nrows st) 2) 10 0 24) ex_inits.
Proof. cbv zeta. apply wb_inits_b_sound. vm_compute. reflexivity. Qed.
(* ... and the wrong-dtype initializer of C13_wrong_dtype_refuted is exactly what it excludes *)
Example ex_wb_excludes_FL :
  wb_inits_b (mkflags false true) 3 (reindex (cur_table fl_state) 1) (mksimdata [3] 0 0 24) [fl_init] = false.
Proof. vm_compute. reflexivity. Qed.

Print Assumptions C13_labels_one.
Print Assumptions C13_labels.
Print Assumptions C13_rows.
Print Assumptions C13_existing_untouched_reindex.
Print Assumptions C13_existing_untouched_update.
Print Assumptions C13_existing_untouched.
Print Assumptions C13_wrong_dtype_refuted.
Print Assumptions C13_bigint_refuted.
Print Assumptions C13_abandoned_creation.
Print Assumptions C13_refused_creation.
Print Assumptions C13_initializer_args.
Print Assumptions C13_update_keeps_columns.
Print Assumptions C13_new_column_rejected.
Print Assumptions C13_new_columns_only_initially.
Print Assumptions C13_conflict_rejected.
Print Assumptions C13_birth_conflict_rejected.
