(* C17 - State machines move each simulant along its own declared transition.  Statements only; proofs live in
   theories/StateMachineProofs.v.  Model: theories/StateMachine.v (state_machine.py after fix 192fe8c2 - finding F-E,
   triggered transitions - and stream._choice), exact arithmetic: probabilities are numerators over [m_den m], draws
   numerators over [b].  All statements quantify over EVERY machine (any states, transition graphs, self-transition
   flags, transient states, triggered transitions with any active sets), all per-simulant probability functions, all
   draws, all state assignments, tracked flags and request sets - no bounds.  [fuel] bounds chains of transient states
   only; the conclusions are about calls that end normally ([Done]), so they hold for whatever fuel made them end.   *)
From Viv Require Import Common StateMachine StateMachineProofs.
Local Open Scope Z_scope.

(* The closed form.  After a successful Machine.transition EVERY simulant stands where [own_destination] says: a
   simulant of the request that is tracked and whose state the machine knows stands where its own walk (its own row of
   probabilities and its own draws, followed through transient states) leads; everybody else - outside the request,
   untracked, in an unknown state - keeps its state.  The model writes nothing but the state column. *)
Theorem C17_closed_form : forall fuel m b draw tracked col idx col',
  NoDup (map s_id (m_states m)) ->
  transition fuel m b draw tracked col idx = (col', Done) ->
  forall l, col' l = own_destination fuel m b draw tracked col idx l.
Proof. intros fuel m b draw tracked col idx col' Hnd H. exact (proj1 (transition_closed_form _ _ _ _ _ _ _ _ Hnd H)). Qed.

(* Every simulant ends in exactly one state (col' is a function): the target of a declared transition out of its
   current state followed through transient states ([reach]), or its own state - which requires that the state allows
   self transitions (or has no transitions at all), unless a declared path leads back to it; simulants outside the
   tracked request are unchanged. *)
Theorem C17_one_declared_step : forall fuel m b draw tracked col idx col',
  NoDup (map s_id (m_states m)) ->
  transition fuel m b draw tracked col idx = (col', Done) ->
  forall l,
    (In l idx -> tracked l = true -> forall s, find_state (col l) (m_states m) = Some s ->
       reach m s (col' l) \/ (col' l = col l /\ (s_null s = true \/ s_trans s = []))) /\
    (~ In l idx \/ tracked l = false \/ find_state (col l) (m_states m) = None -> col' l = col l).
Proof.
  intros fuel m b draw tracked col idx col' Hnd H l.
  destruct (transition_closed_form _ _ _ _ _ _ _ _ Hnd H) as [Hcf Htot]. rewrite (Hcf l). unfold own_destination. split.
  - intros Hl Ht s Hs. rewrite (proj2 (zmem_In l idx) Hl), Ht, Hs. simpl.
    destruct (Htot l s Hl Ht Hs) as [r Hr]. rewrite Hr. destruct r as [t|].
    + left. now apply (walk_reach m b draw fuel s l).
    + right. split; [reflexivity|]. destruct (walk_stays m b draw fuel s l Hr); auto.
  - intros [Hn|[Hn|Hn]].
    + destruct (zmem l idx) eqn:E; [apply zmem_In in E; contradiction|reflexivity].
    + rewrite Hn, andb_false_r. reflexivity.
    + rewrite Hn. now destruct (zmem l idx && tracked l).
Qed.

(* The population is split ONCE: a simulant whose transition set decides for a non-transient state B ends in B,
   whatever transitions B has and whoever else is processed in the same call. *)
Theorem C17_split_once : forall fuel m b draw tracked col idx col' l s k t st,
  NoDup (map s_id (m_states m)) ->
  transition fuel m b draw tracked col idx = (col', Done) ->
  In l idx -> tracked l = true -> find_state (col l) (m_states m) = Some s ->
  decide (m_den m) b draw s l = Ok k -> nth_error (outputs s) k = Some (OState t) ->
  find_state t (m_states m) = Some st -> s_transient st = false ->
  col' l = t.
Proof.
  intros fuel m b draw tracked col idx col' l s k t st Hnd H Hl Ht Hs Hd Ho Hf Htr.
  destruct (transition_closed_form _ _ _ _ _ _ _ _ Hnd H) as [Hcf Htot]. rewrite (Hcf l). unfold own_destination.
  rewrite (proj2 (zmem_In l idx) Hl), Ht, Hs. simpl. destruct (Htot l s Hl Ht Hs) as [r Hr]. rewrite Hr.
  now rewrite (walk_stops_at_plain m b draw fuel s l r k t st Hr Hd Ho Hf Htr).
Qed.

(* Locality: the call restricted to one simulant of the request IS the call on that simulant alone - the decision is
   a function of its own state, probability row and draws, independent of who else is processed with it. *)
Theorem C17_local : forall fuel m b draw tracked col idx col' l,
  NoDup (map s_id (m_states m)) ->
  transition fuel m b draw tracked col idx = (col', Done) -> In l idx ->
  exists col1, transition fuel m b draw tracked col [l] = (col1, Done) /\ col1 l = col' l.
Proof.
  intros fuel m b draw tracked col idx col' l Hnd H Hl.
  destruct (transition_closed_form _ _ _ _ _ _ _ _ Hnd H) as [Hcf Htot].
  assert (Hex : exists col1, transition fuel m b draw tracked col [l] = (col1, Done)).
  { destruct (find_state (col l) (m_states m)) as [s|] eqn:Ef.
    - destruct (tracked l) eqn:Et.
      + destruct (Htot l s Hl Et Ef) as [r Hr].
        apply (transition_single fuel m b draw tracked col l s r Hnd); [intros _ _; exact Hr|intros _ _; exact Ef].
      + apply (transition_single fuel m b draw tracked col l s None Hnd); intros Ht; congruence.
    - pose (s0 := {| s_id := 0; s_null := false; s_transient := false; s_rank := 0; s_trans := [] |}).
      apply (transition_single fuel m b draw tracked col l s0 None Hnd); intros Ht Hf; congruence. }
  destruct Hex as [col1 H1]. exists col1. split; [assumption|].
  rewrite (proj1 (transition_closed_form _ _ _ _ _ _ _ _ Hnd H1) l), (Hcf l). unfold own_destination.
  rewrite (proj2 (zmem_In l idx) Hl). simpl. now rewrite Z.eqb_refl.
Qed.

(* ... and the closed form only reads the simulant's own data: two calls on ANY two request sets agree on every simulant
   they share. *)
Theorem C17_local_any_company : forall fuel m b draw tracked col idx1 idx2 col1 col2 l,
  NoDup (map s_id (m_states m)) ->
  transition fuel m b draw tracked col idx1 = (col1, Done) ->
  transition fuel m b draw tracked col idx2 = (col2, Done) ->
  In l idx1 -> In l idx2 -> col1 l = col2 l.
Proof.
  intros fuel m b draw tracked col idx1 idx2 col1 col2 l Hnd H1 H2 Hl1 Hl2.
  rewrite (proj1 (transition_closed_form _ _ _ _ _ _ _ _ Hnd H1) l), (proj1 (transition_closed_form _ _ _ _ _ _ _ _ Hnd H2) l).
  unfold own_destination. now rewrite (proj2 (zmem_In l idx1) Hl1), (proj2 (zmem_In l idx2) Hl2).
Qed.

(* A transition whose probability for the simulant is 0 is never taken, under the exact guard that excludes open
   finding F-G (a draw of exactly 0.0 takes option 0 even when its weight is 0): the draw is positive or the first
   transition has positive probability. *)
Theorem C17_zero_never : forall D b draw s i k tr, 0 < D -> valid_draw b draw -> nonneg (row s i) ->
  decide D b draw s i = Ok k -> nth_error (s_trans s) k = Some tr ->
  (0 < draw (s_id s) i \/ 0 < nth 0 (row s i) 0) -> 0 < eff tr i.
Proof. exact zero_never. Qed.

(* in particular an inactive triggered transition: its effective probability is 0 *)
Theorem C17_inactive_is_zero : forall t i act, t_trigger t = Some act -> ~ In i act -> eff t i = 0.
Proof. exact eff_inactive. Qed.

(* the decision always designates an existing output (no IndexError) for a draw in [0, 1) *)
Theorem C17_decision_in_range : forall D b draw s i k, 0 < D -> valid_draw b draw -> nonneg (row s i) ->
  outputs s <> [] -> decide D b draw s i = Ok k -> (k < length (outputs s))%nat.
Proof. exact decide_in_range. Qed.

(* A row (0, ..., 1, ..., 0) always takes that transition (same guard: positive draw, or it is the first one). *)
Theorem C17_sole_one_always : forall D b draw s i j, 0 < D -> valid_draw b draw -> (j < length (s_trans s))%nat ->
  nth j (row s i) 0 = D -> (forall k, k <> j -> nth k (row s i) 0 = 0) ->
  (0 < draw (s_id s) i \/ j = O) -> decide D b draw s i = Ok j.
Proof. exact sole_one_always. Qed.

(* Rows that cannot be normalised are rejected: two probabilities equal to 1; total 0 without self transition; total
   above 1 + 1e-08 with self transition (and no sole 1 to renormalise by). *)
Theorem C17_unnormalisable_rejected : forall D r,
  ((1 < count_ones D r)%nat -> forall null, weights D null r = Rejected EOther) /\
  (count_ones D r = O -> sumL r = 0 -> weights D false r = Rejected EOther) /\
  (count_ones D r <> 1%nat -> tol_den * sumL r > tol_num * D -> weights D true r = Rejected EOther).
Proof.
  intros D r. split; [intros H null; now apply weights_two_ones|]. split; [apply weights_zero_total|apply weights_over].
Qed.

(* ... the group that contains such a simulant is refused before anything is written ... *)
Theorem C17_rejected_group_unchanged : forall fuel m b draw s idx col i e,
  s_trans s <> [] -> In i idx -> weights (m_den m) (s_null s) (row s i) = Rejected e ->
  next_state (S fuel) m b draw s idx col = (col, Fail EOther).
Proof. exact next_state_rejected. Qed.

(* ... and a Machine.transition whose request contains one does not end normally. *)
Theorem C17_rejected_call : forall fuel m b draw tracked col idx l s e,
  NoDup (map s_id (m_states m)) -> In l idx -> tracked l = true -> find_state (col l) (m_states m) = Some s ->
  s_trans s <> [] -> weights (m_den m) (s_null s) (row s l) = Rejected e ->
  snd (transition fuel m b draw tracked col idx) <> Done.
Proof.
  intros fuel m b draw tracked col idx l s e Hnd Hl Ht Hs Hne Hw Hdone.
  destruct (transition fuel m b draw tracked col idx) as [col' o] eqn:E. simpl in Hdone. subst o.
  destruct (proj2 (transition_closed_form _ _ _ _ _ _ _ _ Hnd E) l s Hl Ht Hs) as [r Hr].
  exact (walk_rejected_row m b draw fuel s l e Hne Hw r Hr).
Qed.

(* Hooks.  [transition_w] is the same call threading a log of State.transition_side_effect invocations (state, group,
   state column of the group at that moment).  It projects onto [transition] whatever the outcome ... *)
Theorem C17_hooks_projection : forall fuel m b draw tracked col idx w' o,
  transition_w fuel m b draw tracked col idx = (w', o) -> transition fuel m b draw tracked col idx = (fst w', o).
Proof. intros fuel m b draw tracked col idx w' o H. exact (proj1 (transition_sim _ _ _ _ _ _ _ _ _ H)). Qed.

(* ... and when the call ends normally its log is the function [transition_effects] of the request; every hook is
   invoked AFTER the state write (it sees its whole group already in the new state), with a non-empty group made of
   tracked simulants of the request only. *)
Theorem C17_hooks_after_write : forall fuel m b draw tracked col idx col' log,
  transition_w fuel m b draw tracked col idx = ((col', log), Done) ->
  transition fuel m b draw tracked col idx = (col', Done) /\
  log = transition_effects fuel m b draw tracked col idx /\
  forall e, In e log -> e_members e <> [] /\ e_seen e = map (fun _ => e_state e) (e_members e) /\
                        forall l, In l (e_members e) -> In l idx /\ tracked l = true.
Proof. exact hooks_after_write. Qed.

(* Exactly once per move: the hooks that see a simulant are, in order, exactly the states it is written into ([own_trail]:
   the declared transition it takes, then the transient states it passes through).  A simulant that is not moved (outside
   the tracked request, unknown state, null transition, no transitions) is seen by NO hook; a moved one is seen last by
   the hook of the state it ends in.  Requests may repeat labels. *)
Theorem C17_hooks_exactly_once : forall fuel m b draw tracked col idx col',
  NoDup (map s_id (m_states m)) ->
  transition fuel m b draw tracked col idx = (col', Done) ->
  forall l, seen_by l (transition_effects fuel m b draw tracked col idx) = own_trail fuel m b draw tracked col idx l /\
            (own_trail fuel m b draw tracked col idx l = [] -> col' l = col l) /\
            (own_trail fuel m b draw tracked col idx l <> [] ->
               last (own_trail fuel m b draw tracked col idx l) 0 = col' l).
Proof. exact hooks_exactly_once. Qed.

(* Machine.cleanup hands every tracked requested simulant to the cleanup hook of exactly the state it is in, once, and
   nobody else to any hook. *)
Theorem C17_cleanup_once : forall m tracked col idx l, NoDup (map s_id (m_states m)) ->
  map fst (filter (fun c => zmem l (snd c)) (cleanup_calls m tracked col idx)) =
  if zmem l idx && tracked l
  then match find_state (col l) (m_states m) with Some s => [s_id s] | None => [] end
  else [].
Proof. exact cleanup_seen. Qed.

(* Fuel is only a device of the model: when the transient states form acyclic chains (a measure [d] that strictly
   decreases along every transition into a transient state) and the fuel exceeds it, the call never runs out of fuel -
   it ends normally or with a refusal.  (A cycle of transient states recurses without bound in the real code: F-K.) *)
Theorem C17_enough_fuel : forall m b draw d tracked col idx fuel, transient_depth m d ->
  (forall s, In s (m_states m) -> (d s < fuel)%nat) -> snd (transition fuel m b draw tracked col idx) <> OOF.
Proof. intros m b draw d tracked col idx fuel. apply transition_enough_fuel. Qed.

(* ---------------------------------------------------------------------------------------------------------------
   non-vacuity: a machine with a transient state, a triggered transition and self transitions; denominators 16
   --------------------------------------------------------------------------------------------------------------- *)
Definition ex_states : list sspec :=
  [ (0, true,  false, 0, [ (1, [(0, 4); (1, 16); (2, 0); (3, 8)], None);                     (* a -> b (transient) *)
                            (2, [(0, 4); (1, 0);  (2, 8); (3, 8)], Some [(true, [0; 3]); (false, [3])]) ]);   (* a -> c, triggered, active {0} *)
    (1, false, true,  0, [ (2, [(0, 16); (1, 16); (2, 16); (3, 16)], None) ]);                (* b -> c with probability 1 *)
    (2, false, false, 0, [ (0, [(0, 16); (1, 16); (2, 16); (3, 16); (4, 16)], None) ]) ].              (* c -> a with probability 1 *)
Definition ex_m : machine := {| m_den := 16; m_null_rank := 1; m_states := map mk_state ex_states |}.
Definition ex_draw : sid -> label -> Z :=
  fun s l => dtbl [(0, [(0, 3); (1, 9); (2, 15); (3, 9)]); (1, [(0, 1); (1, 1); (2, 1); (3, 1)]);
                   (2, [(0, 5); (1, 5); (2, 5); (3, 5); (4, 5)])] s l mod 16.
Definition ex_col : column := tbl [(0, 0); (1, 0); (2, 0); (3, 0); (4, 2); (5, 0)].
Definition ex_tracked : label -> bool := fun l => negb (l =? 5).

Example ex_ids_nodup : NoDup (map s_id (m_states ex_m)).
Proof. vm_compute. repeat constructor; simpl; intuition discriminate. Qed.
(* draws over 16.  0: row (4,4) null 8, draw 3/16 -> a->b, transient, on to c.  1: sole 1 -> b -> c.  2: triggered
   inactive: row (0,0), stays.  3: set_inactive removed it: row (8,0) null 8, draw 9/16 -> null, stays.  4: in c, c -> a;
   NOT moved again although a has transitions.  5: untracked.  6: not requested *)
Example ex_run :
  let '(col', o) := transition 4 ex_m 16 ex_draw ex_tracked ex_col [4; 3; 2; 1; 0; 5] in
  (o, map col' [0; 1; 2; 3; 4; 5; 6]) = (Done, [2; 2; 0; 0; 0; 0; 0]).
Proof. vm_compute. reflexivity. Qed.
(* hooks of the same call: b then c for simulants 0 and 1 (group order = request order), c -> a for simulant 4 *)
Example ex_hooks :
  let '((_, log), o) := transition_w 4 ex_m 16 ex_draw ex_tracked ex_col [4; 3; 2; 1; 0; 5] in
  (o, map (fun e => (e_state e, e_members e, e_seen e)) log) =
  (Done, [(1, [1; 0], [1; 1]); (2, [1; 0], [2; 2]); (0, [4], [0])]) /\
  map (fun l => seen_by l log) [0; 1; 2; 3; 4; 5] = [[1; 2]; [1; 2]; []; []; [0]; []].
Proof. vm_compute. auto. Qed.
Example ex_dup_request :
  let '((col', log), o) := transition_w 4 ex_m 16 ex_draw ex_tracked ex_col [1; 4; 1] in
  (o, map col' [1; 4], map (fun e => (e_state e, e_members e)) log) = (Done, [2; 0], [(1, [1; 1]); (2, [1; 1]); (0, [4])]).
Proof. vm_compute. reflexivity. Qed.
Example ex_cleanup : cleanup_calls ex_m ex_tracked ex_col [4; 3; 0; 5; 6] = [(0, [3; 0; 6]); (2, [4])].
Proof. vm_compute. reflexivity. Qed.
Example ex_own : map (own_destination 4 ex_m 16 ex_draw ex_tracked ex_col [4; 3; 2; 1; 0; 5]) [0; 1; 2; 3; 4; 5; 6]
                 = [2; 2; 0; 0; 0; 0; 0].
Proof. vm_compute. reflexivity. Qed.
Example ex_depth : transient_depth ex_m (fun s => if s_id s =? 0 then 1%nat else 0%nat).
Proof.
  intros s tr st Hs Htr Hf Ht. simpl in Hs.
  destruct Hs as [<-|[<-|[<-|[]]]]; simpl in Htr;
    repeat (destruct Htr as [<-|Htr]; [vm_compute in Hf; inversion Hf; subst st; vm_compute in Ht; try discriminate; vm_compute; lia|]);
    contradiction.
Qed.
Example ex_valid : valid_draw 16 ex_draw.
Proof. split; [lia|]. intros s i. unfold ex_draw. apply Z.mod_pos_bound. lia. Qed.
(* refusals and the F-G corner, concretely *)
Example ex_weights :
  weights 16 true [4; 4] = Ok [4; 4; 8] /\ weights 16 false [4; 4] = Ok [4; 4] /\ weights 16 true [16; 8] = Ok [16; 8; 0] /\
  weights 16 true [16; 16] = Rejected EOther /\ weights 16 false [0; 0] = Rejected EOther /\
  weights 16 true [12; 8] = Rejected EOther /\ weights 16 true [0; 0] = Ok [0; 0; 16].
Proof. vm_compute. repeat split. Qed.
Example ex_choice : (choice 4 16 [4; 4; 8], choice 5 16 [4; 4; 8], choice 8 16 [4; 4; 8], choice 15 16 [4; 4; 8]) = (0, 1, 1, 2)%nat
                    /\ choice 0 16 [0; 16] = 0%nat (* F-G: weight 0 taken at draw 0 *) /\ choice 1 16 [0; 16] = 1%nat.
Proof. vm_compute. auto. Qed.

Print Assumptions C17_closed_form.
Print Assumptions C17_one_declared_step.
Print Assumptions C17_split_once.
Print Assumptions C17_local.
Print Assumptions C17_local_any_company.
Print Assumptions C17_zero_never.
Print Assumptions C17_inactive_is_zero.
Print Assumptions C17_decision_in_range.
Print Assumptions C17_sole_one_always.
Print Assumptions C17_unnormalisable_rejected.
Print Assumptions C17_rejected_group_unchanged.
Print Assumptions C17_rejected_call.
Print Assumptions C17_enough_fuel.
Print Assumptions C17_hooks_projection.
Print Assumptions C17_hooks_after_write.
Print Assumptions C17_hooks_exactly_once.
Print Assumptions C17_cleanup_once.
