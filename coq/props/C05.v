(* C05 - Decisions are monotone functions of the common draw.  Statements only; proofs live in
   theories/DecideProofs.v.

   Reading guide.  Every number is an integer numerator over one common denominator D (DESIGN.md section 4): a draw
   d stands for d/D with 0 <= d < D, a probability of 1 is D, `draw < p` is [d < p].  A population is the list of its
   rows (label, content) in order; [ds] are the rows' common draws (what get_draw returns at the same time and
   additional key - C02 says they are a function of the simulant).  Weights are [Wt w] or the placeholder [Residual];
   [fill U row] is the row with the placeholder replaced by U - sum(others) (U: the weights' own denominator); [cum ws k] = w_0 + ... + w_k.
   Float rounding (p / p.sum, cumsum, 1 - exp) is outside these theorems: the correspondence uses inputs on which
   binary64 is exact or that stay 2^-40 away from every decision boundary.                                        *)
From Viv Require Import Common Decide DecideProofs.
Local Open Scope Z_scope.

(* ---------------------------------------------------------------------------------------------------------------
   filter_for_probability
   --------------------------------------------------------------------------------------------------------------- *)
(* the result is: zip rows with their draw and their probability, keep the rows with draw < probability, in order *)
Theorem C05_filter_spec : forall (A : Type) (pop : list (label * A)) ds p ps,
  expand_p (map fst pop) p = Ok ps ->
  filter_p pop ds p = Ok (map fst (filter keep_row (combine pop (combine ds ps)))).
Proof. intros A pop ds p ps H. rewrite (filter_p_expand pop ds p ps H). now rewrite mask_filter_spec. Qed.

(* ... i.e. for per-simulant probabilities pr (given as list/array, as identically labelled Series, or a scalar):
   exactly the rows whose own draw is below their own probability *)
Theorem C05_filter_keeps_exactly : forall (A : Type) (pop : list (label * A)) (draw pr : label -> Z),
  filter_p pop (map (fun r => draw (fst r)) pop) (PArray (map pr (map fst pop)))
    = Ok (filter (fun r => draw (fst r) <? pr (fst r)) pop) /\
  filter_p pop (map (fun r => draw (fst r)) pop) (PSeries (map fst pop) (map pr (map fst pop)))
    = Ok (filter (fun r => draw (fst r) <? pr (fst r)) pop) /\
  forall x, filter_p pop (map (fun r => draw (fst r)) pop) (PScalar x)
    = Ok (filter (fun r => draw (fst r) <? x) pop).
Proof. exact @filter_p_exact. Qed.

(* type and order of the input: the result is an order-preserving sub-list of the very same rows *)
Theorem C05_filter_type_and_order : forall (A : Type) (pop : list (label * A)) ds p sel,
  filter_p pop ds p = Ok sel -> sublist sel pop.
Proof. exact @filter_p_sublist. Qed.

(* raising probabilities (pointwise, whatever the shapes of the two arguments) never removes a simulant *)
Theorem C05_filter_monotone : forall (A : Type) (pop : list (label * A)) ds p p' ps ps' s s',
  expand_p (map fst pop) p = Ok ps -> expand_p (map fst pop) p' = Ok ps' -> Forall2 Z.le ps ps' ->
  filter_p pop ds p = Ok s -> filter_p pop ds p' = Ok s' -> sublist s s'.
Proof. exact @filter_p_monotone. Qed.

(* probability 0 (or less) selects nobody; probability 1 (= D) or more selects everybody - draws lie in [0,1) *)
Theorem C05_filter_zero : forall (A : Type) (pop : list (label * A)) ds p ps, Forall (fun d => 0 <= d) ds ->
  expand_p (map fst pop) p = Ok ps -> Forall (fun q => q <= 0) ps -> filter_p pop ds p = Ok [].
Proof. exact @filter_p_zero. Qed.

Theorem C05_filter_one : forall (A : Type) D (pop : list (label * A)) ds p ps, length ds = length pop ->
  Forall (fun d => d < D) ds -> expand_p (map fst pop) p = Ok ps -> Forall (fun q => D <= q) ps ->
  filter_p pop ds p = Ok pop.
Proof. exact @filter_p_one. Qed.

Theorem C05_filter_scalar_zero_one : forall (A : Type) D (pop : list (label * A)) ds x, length ds = length pop ->
  Forall (fun d => 0 <= d) ds -> Forall (fun d => d < D) ds ->
  (x <= 0 -> filter_p pop ds (PScalar x) = Ok []) /\ (D <= x -> filter_p pop ds (PScalar x) = Ok pop).
Proof.
  intros A D pop ds x L H0 H1. split; intros Hx.
  - apply (filter_p_zero pop ds (PScalar x) _ H0 (expand_p_scalar _ x)). now apply Forall_const.
  - apply (filter_p_one D pop ds (PScalar x) _ L H1 (expand_p_scalar _ x)). now apply Forall_const.
Qed.

(* a malformed probability argument (wrong length, differently labelled Series) is refused for a non-empty
   population; an empty population is returned as it is, before anything else is looked at *)
Theorem C05_filter_rejects : forall (A : Type) (pop : list (label * A)) ds p e, pop <> [] ->
  expand_p (map fst pop) p = Rejected e -> filter_p pop ds p = Rejected e.
Proof. exact @filter_p_rejected. Qed.

(* ---------------------------------------------------------------------------------------------------------------
   filter_for_rate.  exp is external: any antitone [expneg] (r |-> exp(-r)) with exp(-0) = 1.
   --------------------------------------------------------------------------------------------------------------- *)
Theorem C05_rate_is_probability : forall (A : Type) D cap expneg (pop : list (label * A)) ds r,
  filter_rate D cap expneg pop ds r = filter_p pop ds (r2p_spec D cap expneg r).
Proof. reflexivity. Qed.

Theorem C05_rate_monotone : forall D cap (expneg : Z -> Z), (forall r r', r <= r' -> expneg r' <= expneg r) ->
  (forall r r', r <= r' -> r2p D cap expneg r <= r2p D cap expneg r') /\
  (expneg 0 = D -> 0 <= cap -> r2p D cap expneg 0 = 0) /\
  (forall r, cap <= r -> r2p D cap expneg r = r2p D cap expneg cap) /\
  forall (A : Type) (pop : list (label * A)) ds r r' rs rs' s s',
    expand_p (map fst pop) r = Ok rs -> expand_p (map fst pop) r' = Ok rs' -> Forall2 Z.le rs rs' ->
    filter_rate D cap expneg pop ds r = Ok s -> filter_rate D cap expneg pop ds r' = Ok s' -> sublist s s'.
Proof.
  intros D cap expneg Hexp. repeat split.
  - now apply r2p_monotone.
  - apply r2p_zero.
  - apply r2p_capped.
  - intros A pop ds r r' rs rs' s s' E E' Hle H H'. unfold filter_rate in *.
    apply (filter_p_monotone pop ds (r2p_spec D cap expneg r) (r2p_spec D cap expneg r')
             (map (r2p D cap expneg) rs) (map (r2p D cap expneg) rs') s s'); try assumption.
    + apply expand_r2p_spec, E.
    + apply expand_r2p_spec, E'.
    + apply Forall2_map_mono; [now apply r2p_monotone | assumption].
Qed.

(* ---------------------------------------------------------------------------------------------------------------
   choice
   --------------------------------------------------------------------------------------------------------------- *)
(* option k is chosen  <=>  cum_{k-1}/W < draw <= cum_k/W   (every earlier bound is strictly below the draw) *)
Theorem C05_choice_interval : forall D d ws k, 0 <= D -> nonneg ws -> (k < length ws)%nat ->
  (choice_row D d ws = k <->
   d * sumZ ws <= cum ws k * D /\ forall j, (j < k)%nat -> cum ws j * D < d * sumZ ws).
Proof. exact choice_row_interval. Qed.

(* a successful call decides simulant i from simulant i's draw and weight row alone, returns one option per
   simulant, every option exists, and no weight row sums to 0 *)
Theorem C05_choice_local : forall D U draws c p ks, choice D U draws c p = Ok ks ->
  length ks = length draws /\
  forall i, (i < length draws)%nat ->
    nth i ks O = choice_row D (nth i draws 0) (fill U (row_of c p i)) /\
    (nth i ks O < c)%nat /\ sumZ (fill U (row_of c p i)) <> 0.
Proof. exact choice_ok. Qed.

Theorem C05_choice_in_range : forall D d ws, 0 <= D -> d <= D -> nonneg ws -> 0 < sumZ ws ->
  (choice_row D d ws < length ws)%nat.
Proof. exact choice_row_in_range. Qed.

(* rescaling: by an integer factor, and between any two proportional rows (a rational factor a/b) *)
Theorem C05_choice_scale : forall D d ws,
  (forall c, 0 < c -> choice_row D d (map (Z.mul c) ws) = choice_row D d ws) /\
  (forall a b ws', 0 < a -> 0 < b -> map (Z.mul a) ws = map (Z.mul b) ws' -> choice_row D d ws = choice_row D d ws').
Proof.
  intros D d ws. split.
  - intros c Hc. now apply choice_row_scale.
  - intros a b ws' Ha Hb E. exact (choice_row_proportional a b D d ws ws' Ha Hb E).
Qed.

(* the placeholder is the explicit residual: its row sums to 1, and spelling it out changes nothing *)
Theorem C05_choice_residual : forall D U draws c,
  (forall row, count_res row = 1%nat -> sumZ (fill U row) = U) /\
  (forall row, count_res row = 1%nat -> 0 <= U - others row ->
     choice D U draws c (W1 row) = choice D U draws c (W1 (map Wt (fill U row)))) /\
  (forall p rows, set_residual U (initial_rows (length draws) c p) = Ok rows ->
     choice D U draws c p = choice D U draws c (W2 (map (map Wt) rows))).
Proof.
  intros D U draws c. repeat split.
  - intros row H. now apply sum_fill_residual.
  - intros row H1 H2. now apply choice_residual_1d.
  - intros p rows H. now apply choice_residual.
Qed.

(* ONE weight row given as a 2-d matrix is broadcast to every simulant: the same as 1-d weights; and p=None is the
   uniform row of ones *)
Theorem C05_choice_one_row_broadcast : forall D U draws c row, draws <> [] ->
  choice D U draws c (W2 [row]) = choice D U draws c (W1 row).
Proof. exact choice_one_row. Qed.

Theorem C05_choice_none_is_uniform : forall D U draws c,
  choice D U draws c WNone = choice D U draws c (W1 (repeat (Wt 1) c)).
Proof. reflexivity. Qed.

(* a zero-weight option is never picked - under the guard that excludes finding F-G exactly *)
Theorem C05_choice_nonzero : forall D d ws, 0 <= D -> 0 <= d <= D -> nonneg ws -> 0 < sumZ ws ->
  (0 < d \/ 0 < nth 0 ws 0) -> nth (choice_row D d ws) ws 0 <> 0.
Proof. exact choice_row_nonzero. Qed.

(* ... for every simulant of every successful call *)
Theorem C05_choice_nonzero_all : forall D U draws c p ks, 0 <= D -> choice D U draws c p = Ok ks ->
  forall i, (i < length draws)%nat -> let ws := fill U (row_of c p i) in
  nonneg ws -> 0 <= nth i draws 0 <= D -> (0 < nth i draws 0 \/ 0 < nth 0 ws 0) ->
  nth (nth i ks O) ws 0 <> 0.
Proof.
  intros D U draws c p ks HD H i Hi ws Hn Hd Hg. destruct (choice_ok D U draws c p ks H) as [_ R].
  destruct (R i Hi) as [-> [_ Hs]]. apply choice_row_nonzero; auto.
  pose proof (sumZ_nonneg _ Hn). fold ws in Hs. lia.
Qed.

(* finding F-G: the guard is exact.  A draw of exactly 0 returns option 0 whatever its weight ... *)
Theorem C05_choice_zero_draw_picks_first : forall D ws, 0 <= D -> nonneg ws -> choice_row D 0 ws = O.
Proof. exact choice_row_zero_draw. Qed.

(* ... so the unguarded statement is false: draw 0, weights [0; 1] -> option 0 (weight 0) *)
Theorem C05_choice_zero_draw_refuted : exists D d ws, 0 < D /\ 0 <= d < D /\ nonneg ws /\ 0 < sumZ ws /\
  nth (choice_row D d ws) ws 0 = 0.
Proof.
  exists 8, 0, [0; 1]. repeat split; try lia; try reflexivity.
  repeat constructor; lia.
Qed.

(* ---------------------------------------------------------------------------------------------------------------
   the non-finite corner (what the current code does): nan / +inf / -inf probabilities, rates and weights, negative
   rates and weights.  The result is always a deterministic function of (draws, inputs).
   --------------------------------------------------------------------------------------------------------------- *)
(* for draws in [0,1) a nan or -inf probability behaves exactly as probability 0 and +inf as probability 1: all the
   filter theorems above (order, content, monotone, zero, one) carry over through [clamp_spec] *)
Theorem C05_nonfinite_probability_is_clamped : forall (A : Type) D (pop : list (label * A)) ds p, in_range D ds ->
  filter_px pop ds p = filter_p pop ds (clamp_spec D p).
Proof. exact @filter_px_clamp. Qed.

(* ... in particular a simulant whose probability is nan (or -inf) is NEVER selected, one with +inf always *)
Theorem C05_nan_never_selects : forall (A : Type) (pop : list (label * A)) (draw : label -> Z) (pr : label -> xnum),
  exists res, filter_px pop (map (fun r => draw (fst r)) pop) (XArray (map pr (map fst pop))) = Ok res /\
    (forall r, In r res -> pr (fst r) <> XNaN /\ pr (fst r) <> XNInf) /\
    (forall r, In r pop -> pr (fst r) = XPInf -> In r res).
Proof.
  intros A pop draw pr. exists (filter (fun r => x_lt (draw (fst r)) (pr (fst r))) pop).
  split; [apply filter_px_exact|]. split.
  - intros r Hr. apply filter_In in Hr as [_ Hr]. split; intros E; rewrite E in Hr; discriminate.
  - intros r Hr E. apply filter_In. split; [assumption|]. now rewrite E.
Qed.

(* rates: a nan rate gives a nan probability (never selects), -inf gives -inf (never selects), +inf behaves as the
   250 cap (as every rate at or above it), and a rate <= 0 gives a probability <= 0 (never selects) *)
Theorem C05_nonfinite_rate : forall D cap (expneg : Z -> Z),
  r2p_x D cap expneg XNaN = XNaN /\ r2p_x D cap expneg XNInf = XNInf /\
  (forall z, cap <= z -> r2p_x D cap expneg XPInf = r2p_x D cap expneg (Fin z)) /\
  ((forall r r', r <= r' -> expneg r' <= expneg r) -> expneg 0 = D -> 0 <= cap ->
     forall r d, r <= 0 -> 0 <= d -> x_lt d (r2p_x D cap expneg (Fin r)) = false).
Proof.
  intros D cap expneg. repeat split.
  - intros z Hz. now apply r2p_x_pinf.
  - intros Hexp H0 Hc r d Hr Hd. simpl. apply Z.ltb_ge.
    pose proof (r2p_nonpositive D cap expneg Hexp H0 Hc r Hr). lia.
Qed.

Theorem C05_rate_x_is_probability : forall (A : Type) D cap expneg (pop : list (label * A)) ds r,
  filter_rate_x D cap expneg pop ds r = filter_px pop ds (r2p_xspec D cap expneg r).
Proof. reflexivity. Qed.

(* weights: with finite weights the extended choice is the finite one; a row containing nan yields option 0 whatever
   the draw (and disturbs no other row); an infinite weight is refused *)
Theorem C05_choice_x_finite : forall D U draws c p, finite_spec p -> choice_x D U draws c p = choice D U draws c p.
Proof. exact choice_x_finite. Qed.

Theorem C05_choice_nan_row : forall D U draws c p ks, choice_x D U draws c p = Ok ks ->
  length ks = length draws /\
  forall i, (i < length draws)%nat ->
    (existsb is_nan (row_of c p i) = true -> nth i ks O = O) /\
    (existsb is_nan (row_of c p i) = false -> nth i ks O = choice_row D (nth i draws 0) (fill U (row_of c p i))).
Proof. exact choice_x_ok. Qed.

Theorem C05_choice_inf_refused : forall D U draws c p r, In r (initial_rows (length draws) c p) ->
  existsb is_nan r = false -> existsb is_inf r = true -> choice_x D U draws c p = Rejected EOther.
Proof. exact choice_x_inf. Qed.

(* negative weights: only the normalised weights matter - a negative total decides as the negated row *)
Theorem C05_choice_negative_total : forall D d ws, sumZ ws < 0 -> choice_row D d ws = choice_row D d (map Z.opp ws).
Proof. exact choice_row_negative_total. Qed.

(* ---- non-vacuity ---- *)
Example demo_filter :
  (* rows 5,3,9,1 with contents; draws 1/8, 7/8, 3/8, 4/8 over D = 8 *)
  let pop := [(5, 10); (3, 20); (9, 30); (1, 40)] in
  let ds := [1; 7; 3; 4] in
  filter_p pop ds (PScalar 4) = Ok [(5, 10); (9, 30)] /\                         (* 4/8 < 4/8 is false *)
  filter_p pop ds (PArray [1; 8; 4; 5]) = Ok [(3, 20); (9, 30); (1, 40)] /\      (* p = own draw: not selected *)
  filter_p pop ds (PSeries [5; 3; 9; 1] [2; 0; 3; 8]) = Ok [(5, 10); (1, 40)] /\
  filter_p pop ds (PSeries [3; 5; 9; 1] [2; 0; 3; 8]) = Rejected EOther /\
  filter_p pop ds (PArray [1; 8; 4]) = Rejected EOther /\
  filter_p ([] : list (label * Z)) [] (PArray [1; 8; 4]) = Ok [] /\
  filter_p pop ds (PScalar 0) = Ok [] /\ filter_p pop ds (PScalar 8) = Ok pop.
Proof. vm_compute. repeat split. Qed.

Example demo_rate :
  (* D = 16; rates over denominator 1; exp(-r) ~ 16, 6, 2, 0 for r = 0, 1, 2, 250 *)
  let expneg := tbl_expneg [(0, 16); (1, 6); (2, 2); (250, 0)] in
  let pop := [(0, 0); (1, 0); (2, 0)] in
  filter_rate 16 250 expneg pop [3; 9; 15] (PArray [0; 1; 1000]) = Ok [(1, 0); (2, 0)] /\
  filter_rate 16 250 expneg pop [3; 9; 15] (PScalar 2) = Ok [(0, 0); (1, 0)] /\
  filter_rate 16 250 expneg pop [3; 9; 15] (PSeries [2; 1; 0] [0; 1; 1000]) = Ok [(1, 0); (2, 0)].
Proof. vm_compute. repeat split. Qed.

Example demo_choice :
  (* D = 8; weights 2/8, 2/8, 4/8: bounds 2/8, 4/8, 8/8 - closed on the right *)
  choice 8 8 [0; 2; 3; 4; 5; 7] 3 (W1 [Wt 2; Wt 2; Wt 4]) = Ok [0; 0; 1; 1; 2; 2]%nat /\
  choice 8 8 [0; 2; 3; 4; 5; 7] 3 (W1 [Wt 2; Residual; Wt 4]) = Ok [0; 0; 1; 1; 2; 2]%nat /\
  choice 8 8 [0; 2; 3; 4; 5; 7] 3 (W1 [Wt 6; Wt 6; Wt 12]) = Ok [0; 0; 1; 1; 2; 2]%nat /\
  choice 8 8 [0; 2; 3; 4; 5; 7] 3 WNone = Ok [0; 0; 1; 1; 1; 2]%nat /\
  choice 8 8 [3; 3] 3 (W2 [[Wt 8; Wt 0; Wt 0]; [Wt 0; Wt 0; Residual]]) = Rejected ERandomness /\
  choice 8 8 [3; 3] 3 (W2 [[Wt 8; Residual; Wt 0]; [Wt 0; Wt 0; Residual]]) = Ok [0; 2]%nat /\
  choice 8 8 [3; 3] 3 (W1 [Residual; Residual; Wt 1]) = Rejected ERandomness /\
  choice 8 8 [3; 3] 3 (W1 [Wt 6; Residual; Wt 4]) = Rejected ERandomness /\
  choice 8 8 [3; 3] 3 (W1 [Wt 0; Wt 0; Wt 0]) = Rejected EOther /\
  choice 8 8 [3; 7] 3 (W1 [Wt 2; Wt 2; Wt 2; Wt 2]) = Rejected EOther /\
  choice 8 8 [3; 3] 3 (W2 [[Wt 1; Wt 0; Wt 0]; [Wt 0; Wt 0; Wt 1]; [Wt 0; Wt 0; Wt 1]]) = Rejected EOther /\
  choice 8 8 [] 3 (W1 [Residual; Residual; Wt 1]) = Ok [] /\
  choice 8 8 [3; 0] 2 (W1 [Wt 0; Wt 1]) = Ok [1; 0]%nat.          (* the F-G corner: draw 0 picks the weight-0 option *)
Proof. vm_compute. repeat split. Qed.

Example demo_guard_met : nonneg [0; 3; 0; 5] /\ 0 < sumZ [0; 3; 0; 5] /\
  nth (choice_row 8 3 [0; 3; 0; 5]) [0; 3; 0; 5] 0 = 3 /\ nth (choice_row 8 4 [0; 3; 0; 5]) [0; 3; 0; 5] 0 = 5.
Proof. split; [repeat constructor; lia | vm_compute; repeat split]. Qed.

Example demo_nonfinite :
  let pop := [(5, 10); (3, 20); (9, 30); (1, 40)] in
  let ds := [1; 7; 3; 4] in
  filter_px pop ds (XArray [XNaN; XPInf; XNInf; Fin 5]) = Ok [(3, 20); (1, 40)] /\
  filter_px pop ds (XScalar XNaN) = Ok [] /\ filter_px pop ds (XScalar XPInf) = Ok pop /\
  (let expneg := tbl_expneg [(0, 16); (1, 6); (250, 0); (-1, 43)] in
   filter_rate_x 16 250 expneg [(0, 0); (1, 0); (2, 0); (3, 0)] [3; 9; 15; 0] (XArray [XNaN; XPInf; Fin (-1); XNInf])
   = Ok [(1, 0)]) /\
  choice_x 8 8 [3; 7; 5] 3 (W2 [[Wt 0; WNaN; Wt 1]; [Wt 2; Wt 2; Wt 4]; [Wt 4; Wt (-2); Wt 6]]) = Ok [0; 2; 2]%nat /\
  choice_x 8 8 [3; 7] 3 (W1 [Wt 1; WInf; Wt 1]) = Rejected EOther /\
  choice_x 8 8 [3; 7] 3 (W1 [WNaN; Residual; Wt 1]) = Rejected EOther /\
  choice_x 8 8 [1; 3; 5; 7] 3 (W1 [Wt (-1); Wt (-1); Wt (-2)]) = choice 8 8 [1; 3; 5; 7] 3 (W1 [Wt 1; Wt 1; Wt 2]).
Proof. vm_compute. repeat split. Qed.

Print Assumptions C05_filter_spec.
Print Assumptions C05_filter_keeps_exactly.
Print Assumptions C05_filter_type_and_order.
Print Assumptions C05_filter_monotone.
Print Assumptions C05_filter_zero.
Print Assumptions C05_filter_one.
Print Assumptions C05_filter_scalar_zero_one.
Print Assumptions C05_filter_rejects.
Print Assumptions C05_rate_is_probability.
Print Assumptions C05_rate_monotone.
Print Assumptions C05_choice_interval.
Print Assumptions C05_choice_local.
Print Assumptions C05_choice_in_range.
Print Assumptions C05_choice_scale.
Print Assumptions C05_choice_residual.
Print Assumptions C05_choice_one_row_broadcast.
Print Assumptions C05_choice_none_is_uniform.
Print Assumptions C05_choice_nonzero.
Print Assumptions C05_choice_nonzero_all.
Print Assumptions C05_choice_zero_draw_picks_first.
Print Assumptions C05_choice_zero_draw_refuted.
Print Assumptions C05_nonfinite_probability_is_clamped.
Print Assumptions C05_nan_never_selects.
Print Assumptions C05_nonfinite_rate.
Print Assumptions C05_rate_x_is_probability.
Print Assumptions C05_choice_x_finite.
Print Assumptions C05_choice_nan_row.
Print Assumptions C05_choice_inf_refused.
Print Assumptions C05_choice_negative_total.
