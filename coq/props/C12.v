(* C12 - A view read returns exactly the requested, filtered rows and columns.
   Statements only; the model is theories/PopRead.v (get / subview / _get_view as they are in /repo/src today, i.e.
   with fix 394c1d50: the default `tracked == True` filter is applied to the WHOLE user query - before that commit
   C12_tracked_default was refuted by a query with a top-level `or` (F-P) - and with fix 8679fa8f: only a reference to
   the tracked COLUMN counts as "the query mentions tracked" - before that commit the model's syntactic
   `mentions_tracked` did not describe the code for names such as tracked_by, constants 'tracked' and comments (F-W)),
   the proofs are in theories/PopReadProofs.v.
   "The returned frame is a copy" cannot be expressed over Gallina values: it is TESTED by the correspondence driver
   (harness/props/c12.py, copy probe), not proved.                                                                  *)
From Viv Require Import Common PopRead PopReadProofs.
Local Open Scope Z_scope.

(* For EVERY table, view, request (any labels in any order, repeated, empty) and extra query: a read that returns a
   frame returns (columns) exactly the view's columns - all current columns for a full view -, (rows) exactly the
   requested labels that satisfy the view's query and the extra query on the table's current cells, in request order
   with multiplicity, and (cells) the table's current cells of those simulants and columns. *)
Theorem C12_get_spec : forall t v idx q cols rows, get t v idx q = Ok (cols, rows) ->
  cols = view_columns t v /\
  map fst rows = filter (fun l => sat t (vquery v) l && sat t q l) idx /\
  Forall (fun lr => exists r, zassoc (fst lr) (trows t) = Some r /\
                              snd lr = map (cell_of (colnames t) r) cols) rows.
Proof. exact get_spec. Qed.

(* ... and a read returns a frame exactly when every requested label exists, every column the two queries name
   exists (pandas does not look at the queries for an empty request) and every view column exists. *)
Theorem C12_get_succeeds_iff : forall t v idx q, (exists f, get t v idx q = Ok f) <->
  (forall i, In i idx -> zassoc i (trows t) <> None) /\
  (idx = [] \/ incl (qcols (vquery v) ++ qcols q) (colnames t)) /\
  incl (view_columns t v) (colnames t).
Proof. exact get_ok_iff. Qed.

Theorem C12_unknown_label : forall t v idx q i, In i idx -> zassoc i (trows t) = None ->
  get t v idx q = Rejected EOther.
Proof. exact get_unknown_label. Qed.

(* The default filter.  A view made by get_view(cols, q) with columns, without `tracked`, whose query does not speak
   about `tracked`: only tracked simulants, and among them exactly those satisfying q and the extra query ... *)
Theorem C12_tracked_default : forall t cols q idx q' c rows,
  cols <> [] -> ~ In TRACKED cols -> mentions_tracked q = false ->
  get t (mk_view cols q) idx q' = Ok (c, rows) ->
  c = cols /\
  map fst rows = filter (fun l => sat t q l && is_tracked t l && sat t q' l) idx /\
  (forall l, In l (map fst rows) -> is_tracked t l = true).
Proof. exact tracked_default_applies. Qed.

(* ... while a full view, a view that includes `tracked`, or a query that itself speaks about `tracked` (the code's
   documented refinement, see DESIGN.md C12 interpretive note) gets no added filter: untracked simulants that satisfy
   the queries ARE returned. *)
Theorem C12_tracked_default_absent : forall t cols q idx q' c rows,
  cols = [] \/ In TRACKED cols \/ mentions_tracked q = true ->
  get t (mk_view cols q) idx q' = Ok (c, rows) ->
  map fst rows = filter (fun l => sat t q l && sat t q' l) idx.
Proof. exact tracked_default_absent. Qed.

(* Sub-views: accepted exactly for a non-empty subset of the parent's columns; the result is what get_view would
   build from the parent's query for the new columns. *)
Theorem C12_subview : forall t v cols,
  (cols <> [] /\ incl cols (view_columns t v) -> subview t v cols = Ok (mk_view cols (vquery v))) /\
  (cols = [] \/ ~ incl cols (view_columns t v) -> subview t v cols = Rejected EPopulation).
Proof.
  intros t v cols. split.
  - intros [A B]. now apply subview_accepts.
  - apply subview_rejects.
Qed.

(* Sub-views at ANY depth (two levels is an instance), created while the table changes arbitrarily: the query of a
   view derived from get_view(_, q0) is q0 or q0-and-tracked; it is q0-and-tracked as soon as the view has columns
   but not `tracked` (unless q0 speaks about tracked: then it is q0 for ever). *)
Theorem C12_subview_query : forall q0 v, derived q0 v ->
  (mentions_tracked q0 = true -> vquery v = q0) /\
  (mentions_tracked q0 = false ->
     (vquery v = q0 \/ vquery v = with_default q0) /\
     (vcols v <> [] -> ~ In TRACKED (vcols v) -> vquery v = with_default q0)).
Proof. exact derived_query. Qed.

(* ... hence for reads through any derived view: never a simulant the root query excludes, and tracked simulants
   only under the same condition as for root views. *)
Theorem C12_subview_read : forall t q0 v idx q' c rows, derived q0 v -> get t v idx q' = Ok (c, rows) ->
  (forall l, In l (map fst rows) -> sat t q0 l = true /\ sat t q' l = true) /\
  (mentions_tracked q0 = true -> map fst rows = filter (fun l => sat t q0 l && sat t q' l) idx) /\
  (mentions_tracked q0 = false -> vcols v <> [] -> ~ In TRACKED (vcols v) ->
     map fst rows = filter (fun l => sat t q0 l && is_tracked t l && sat t q' l) idx).
Proof. exact derived_read. Qed.

(* A view column that the table does not (yet) have is an error, never a silently narrower frame. *)
Theorem C12_missing_column : forall t v idx q c, In c (view_columns t v) -> ~ In c (colnames t) ->
  (exists e, get t v idx q = Rejected e) /\
  ((forall i, In i idx -> zassoc i (trows t) <> None) ->
   (idx = [] \/ incl (qcols (vquery v) ++ qcols q) (colnames t)) ->
   get t v idx q = Rejected EPopulation).
Proof. exact get_missing_column. Qed.

(* `column in [k1; ...]` is the disjunction of the equalities. *)
Theorem C12_in_is_disjunction : forall cs r c ks, eval cs r (QIn c ks) = eval cs r (in_as_or c ks).
Proof. exact eval_in_as_or. Qed.

(* Arithmetic comparisons are decided on exact fractions: denominators stay positive (so cross-multiplication is
   faithful), and on a bare column against a constant they are the plain comparison. *)
Theorem C12_term_denominator_positive : forall cs r t n d, tval cs r t = Some (n, d) -> 0 < d.
Proof. exact tval_den_pos. Qed.

Theorem C12_term_atom : forall cs r c o k, (exists y, num k = Some y) -> (forall z, cell_of cs r c <> Sv z) ->
  eval cs r (QCmpT (TCol c) o (TConst k)) = eval cs r (QCmp c o k).
Proof. exact cmpt_atom. Qed.

(* get_population (population/manager.py): with untracked=True the whole table; with untracked=False exactly the rows
   whose tracked cell is True, in table order - with unique labels the same simulants as a full view with the query
   `tracked` returns for the whole index; a table that has no tracked column yet is returned whole. *)
Theorem C12_population : forall t,
  population t true = (colnames t, trows t) /\
  (In TRACKED (colnames t) ->
     fst (population t false) = colnames t /\
     snd (population t false) = filter (fun lr => eval (colnames t) (snd lr) (QCol TRACKED)) (trows t) /\
     (NoDup (map fst (trows t)) ->
      map fst (snd (population t false)) = filter (sat t (QCol TRACKED)) (map fst (trows t)))) /\
  (~ In TRACKED (colnames t) -> population t false = (colnames t, trows t)).
Proof.
  intros t. split; [apply population_untracked|]. split; [apply population_tracked | apply population_no_tracked_column].
Qed.

Theorem C12_population_vs_full_view : forall t c rows, In TRACKED (colnames t) -> NoDup (map fst (trows t)) ->
  get t (mk_view [] (QCol TRACKED)) (map fst (trows t)) QTrue = Ok (c, rows) ->
  map fst rows = map fst (snd (population t false)).
Proof. exact population_vs_full_view. Qed.

(* History.  After ANY sequence of updates (accepted ones are applied, refused ones leave the table alone), a read
   filters on, and returns, the CURRENT cells: the value of the last accepted update that addressed the cell, the
   original value if none did. *)
Theorem C12_after_history : forall t ws v idx q cols rows,
  get (do_wrs t ws) v idx q = Ok (cols, rows) ->
  map fst rows = filter (fun l => sat (do_wrs t ws) (vquery v) l && sat (do_wrs t ws) q l) idx /\
  Forall (fun lr => exists r0, zassoc (fst lr) (trows t) = Some r0 /\
                    snd lr = map (fun c => current t ws (fst lr) c (cell_of (colnames t) r0 c)) cols) rows.
Proof. exact read_after_history. Qed.

Theorem C12_current_cell : forall ws t l c,
  cell_at (do_wrs t ws) l c
  = match cell_at t l c with None => None | Some old => Some (current t ws l c old) end.
Proof. intros. apply cell_at_do_wrs. apply same_shape_refl. Qed.

Theorem C12_last_write_wins : forall t ws w l c o v,
  wr_ok t w = true -> fst w = c -> last_hit (snd w) l = Some v -> current t (ws ++ [w]) l c o = v.
Proof. exact current_last. Qed.

Theorem C12_untouched_cell_kept : forall t ws l c o,
  (forall w, In w ws -> wr_ok t w = true -> fst w = c -> last_hit (snd w) l = None) -> current t ws l c o = o.
Proof. exact current_untouched. Qed.

(* ---- non-vacuity: a table with an untracked simulant, views of every kind, reads that return rows ---- *)
(* columns: 0 tracked (bool), 1 age (int64), 3 sex (str); simulant 1 is untracked *)
Definition ex_t : table :=
  mkT [(0, 0); (1, 1); (3, 3)]
      [(0, [Bv true; Iv 2; Sv 0]); (1, [Bv false; Iv 5; Sv 1]); (2, [Bv true; Iv (-1); Sv 0]); (3, [Bv true; Iv 0; Sv 2])].
Definition ex_or : qexpr := QOr (QCmp 1 CGt (Iv 1)) (QCmp 1 CLt (Iv 0)).       (* age > 1 or age < 0 *)

Example ex_default_with_or :       (* F-P's witness: the untracked simulant 1 (age 5) must not come back *)
  get ex_t (mk_view [1] ex_or) [3; 2; 1; 0; 2] QTrue = Ok ([1], [(2, [Iv (-1)]); (0, [Iv 2]); (2, [Iv (-1)])]).
Proof. vm_compute. reflexivity. Qed.
Example ex_tracked_in_columns :    (* the view includes tracked: simulant 1 is returned *)
  get ex_t (mk_view [1; 0] ex_or) [0; 1; 2; 3] QTrue
  = Ok ([1; 0], [(0, [Iv 2; Bv true]); (1, [Iv 5; Bv false]); (2, [Iv (-1); Bv true])]).
Proof. vm_compute. reflexivity. Qed.
Example ex_query_mentions_tracked :
  get ex_t (mk_view [3] (QCmp 0 CEq (Bv false))) [0; 1; 2; 3] QTrue = Ok ([3], [(1, [Sv 1])]).
Proof. vm_compute. reflexivity. Qed.
(* F-W's witnesses: column 9 = tracked_by, string 5 = 'tracked'; neither refers to column 0, so the default applies *)
Definition ex_t2 : table :=
  mkT [(0, 0); (1, 1); (9, 1); (3, 3)]
      [(0, [Bv true; Iv 1; Iv 0; Sv 5]); (1, [Bv false; Iv 2; Iv 1; Sv 0]); (2, [Bv true; Iv 3; Iv 2; Sv 6])].
Example ex_longer_name : get ex_t2 (mk_view [1] (QCmp 9 CGe (Iv 0))) [0; 1; 2] QTrue = Ok ([1], [(0, [Iv 1]); (2, [Iv 3])]).
Proof. vm_compute. reflexivity. Qed.
Example ex_string_constant : get ex_t2 (mk_view [1] (QCmp 3 CNe (Sv 5))) [0; 1; 2] QTrue = Ok ([1], [(2, [Iv 3])]).
Proof. vm_compute. reflexivity. Qed.
Example ex_in_and_column_vs_column :
  get ex_t2 (mk_view [1; 0] (QOr (QIn 3 [Sv 5; Sv 0]) (QCmpC 9 CGt 1))) [2; 1; 0] (QNot (QIn 1 [Fv 4; Iv 7]))
  = Ok ([1; 0], [(1, [Iv 2; Bv false])]).
Proof. vm_compute. reflexivity. Qed.
Example ex_arithmetic_and_string_order :     (* age * 2 - 1 > tracked_by + 2.5   and   sex >= 'x'  (string 0 < 5 < 6) *)
  get ex_t2 (mk_view [1; 0] (QCmpT (TSub (TMul (TCol 1) (TConst (Iv 2))) (TConst (Iv 1))) CGt (TAdd (TCol 9) (TConst (Fv 10)))))
      [0; 1; 2] (QCmp 3 CGe (Sv 5))
  = Ok ([1; 0], [(2, [Iv 3; Bv true])]).
Proof. vm_compute. reflexivity. Qed.
Example ex_population : population ex_t2 false = ([0; 1; 9; 3], [(0, [Bv true; Iv 1; Iv 0; Sv 5]); (2, [Bv true; Iv 3; Iv 2; Sv 6])])
                        /\ snd (population ex_t2 true) = trows ex_t2.
Proof. vm_compute. auto. Qed.
Example ex_full_view : get ex_t (mk_view [] QTrue) [1] (QCmp 3 CNe (Sv 0)) = Ok ([0; 1; 3], [(1, [Bv false; Iv 5; Sv 1])]).
Proof. vm_compute. reflexivity. Qed.
Example ex_two_levels :            (* full view -> [tracked; age; sex] -> [sex]: the default appears at the second level *)
  match subview ex_t (mk_view [] ex_or) [0; 1; 3] with
  | Ok v1 => match subview ex_t v1 [3] with
             | Ok v2 => (get ex_t v1 [0; 1; 2; 3] QTrue, get ex_t v2 [0; 1; 2; 3] QTrue)
             | _ => (Rejected EOther, Rejected EOther) end
  | _ => (Rejected EOther, Rejected EOther) end
  = (Ok ([0; 1; 3], [(0, [Bv true; Iv 2; Sv 0]); (1, [Bv false; Iv 5; Sv 1]); (2, [Bv true; Iv (-1); Sv 0])]),
     Ok ([3], [(0, [Sv 0]); (2, [Sv 0])])).
Proof. vm_compute. reflexivity. Qed.
Example ex_subview_refused : subview ex_t (mk_view [1] QTrue) [] = Rejected EPopulation
                             /\ subview ex_t (mk_view [1] QTrue) [1; 3] = Rejected EPopulation.
Proof. vm_compute. auto. Qed.
Example ex_missing_column : get ex_t (mk_view [1; 7] QTrue) [0] QTrue = Rejected EPopulation
                            /\ get ex_t (mk_view [1; 7] QTrue) [] QTrue = Rejected EPopulation.
Proof. vm_compute. auto. Qed.
Example ex_unknown_label : get ex_t (mk_view [1; 7] QTrue) [0; 9] QTrue = Rejected EOther.
Proof. vm_compute. reflexivity. Qed.
Example ex_history :               (* untrack 0, a refused update (str into the int column), re-age 3 twice *)
  let ws := [mk_wr 0 [(0, Bv false)]; mk_wr 1 [(2, Sv 1)]; mk_wr 1 [(3, Iv 7); (3, Iv 9)]] in
  map (wr_ok ex_t) ws = [true; false; true] /\
  get (do_wrs ex_t ws) (mk_view [1] QTrue) [0; 1; 2; 3] QTrue = Ok ([1], [(2, [Iv (-1)]); (3, [Iv 9])]).
Proof. vm_compute. auto. Qed.

(* the correspondence check is not vacuous: it accepts the model's own prediction and refuses a frame that lets the
   untracked simulant through, a wrong order, a wrong cell, a swallowed error and a wrong sub-view verdict *)
Definition ex_case (code : Z) (f : frame) : case :=
  mk_case [([1], ex_or)] [mk_seg ex_t [OSub 0 [1] 0 [1]; OWrite (mk_wr 1 [(3, Iv 9)]); ORead 1 [3; 1; 0] QTrue code f]].
Example ex_check_accepts : check_hist (ex_case 0 (mk_frame [1] [(3, [Iv 9]); (0, [Iv 2])])) = true.
Proof. vm_compute. reflexivity. Qed.
Example ex_check_refuses :
  map check_hist [ex_case 0 (mk_frame [1] [(3, [Iv 9]); (1, [Iv 5]); (0, [Iv 2])]);
                  ex_case 0 (mk_frame [1] [(0, [Iv 2]); (3, [Iv 9])]);
                  ex_case 0 (mk_frame [1] [(3, [Iv 0]); (0, [Iv 2])]);
                  ex_case 1 (mk_frame [] []);
                  mk_case [([1], ex_or)] [mk_seg ex_t [OSub 0 [3] 0 [3]]];
                  mk_case [([1; 7], QTrue)] [mk_seg ex_t [ORead 0 [0] QTrue 0 (mk_frame [1] [(0, [Iv 2])])]]]
  = [false; false; false; false; false; false].
Proof. vm_compute. reflexivity. Qed.

Print Assumptions C12_get_spec.
Print Assumptions C12_get_succeeds_iff.
Print Assumptions C12_unknown_label.
Print Assumptions C12_tracked_default.
Print Assumptions C12_tracked_default_absent.
Print Assumptions C12_subview.
Print Assumptions C12_subview_query.
Print Assumptions C12_subview_read.
Print Assumptions C12_missing_column.
Print Assumptions C12_in_is_disjunction.
Print Assumptions C12_term_denominator_positive.
Print Assumptions C12_term_atom.
Print Assumptions C12_population.
Print Assumptions C12_population_vs_full_view.
Print Assumptions C12_after_history.
Print Assumptions C12_current_cell.
Print Assumptions C12_last_write_wins.
Print Assumptions C12_untouched_cell_kept.
