(* C20 - Every component is set up once; user configuration always wins.  Statements only; models are
   theories/Components.v (ComponentManager, context construction / setup) and theories/Config.v (the configuration
   object, layered_config_tree); proofs in ComponentsProofs.v and ConfigProofs.v.  The layer list and the layer every
   writer uses are read off a live context on every run (generated/ConfigLayers_C20.v), where C20_layers_ok is
   re-proved and C20_user_wins is instantiated on today's table.                                                   *)
From Viv Require Import Common Config ConfigProofs Components ComponentsProofs.
From Coq Require Import Permutation.
Local Open Scope Z_scope.

(* The explicit-stack loop of ComponentManager._flatten IS the pre-order traversal, for EVERY forest - any depth, any
   fan-out, nested lists / tuples anywhere: with fuel = number of nodes it terminates with exactly the pre-order list,
   so every component appears exactly once (length = number of components) ... *)
Theorem C20_flatten_is_preorder : forall is,
  flatten_stack (size_all is) is [] = Some (pre_all is) /\
  (forall fuel, (size_all is <= fuel)%nat -> flatten_stack fuel is [] = Some (pre_all is)) /\
  length (pre_all is) = list_sum (map ncomp is).
Proof.
  intros is. split; [apply flatten_top|]. split.
  - intros fuel H. now rewrite flatten_is_preorder.
  - unfold pre_all. rewrite length_flat_map. f_equal. apply map_ext. intros i. apply pre_length.
Qed.

(* ... after its parent (for every parent -> child edge, through nested lists), siblings in the order given. *)
Theorem C20_parent_first : forall is p c, In (p, c) (edges_all is) ->
  exists l1 l2 l3, map fst (pre_all is) = l1 ++ p :: l2 ++ c :: l3.
Proof. exact parent_first. Qed.
Theorem C20_siblings_in_order : forall a b, pre_all (a ++ b) = pre_all a ++ pre_all b.
Proof. exact pre_all_app. Qed.

(* Two nodes with one name ANYWHERE in the forest (any depth, any distance): the add is rejected. *)
Theorem C20_duplicates_rejected : forall layers l t is, ~ NoDup (map fst (pre_all is)) ->
  exists e, add_items layers l t [] is = Rejected e.
Proof. exact duplicates_rejected. Qed.

(* ... hence no context is built from such a forest, whatever else is supplied. *)
Theorem C20_context_rejects_duplicates : forall layers lu lm lc ls lo mgrs user spec over is,
  ~ NoDup (map fst (pre_all is)) -> exists e, build_context layers lu lm lc ls lo mgrs user spec over is = Rejected e.
Proof.
  intros layers lu lm lc ls lo mgrs user spec over is Hd.
  destruct (build_context layers lu lm lc ls lo mgrs user spec over is) as [ctx|e|] eqn:Hb; [|eauto|].
  - exfalso. apply Hd. apply (build_context_ok layers _ _ _ _ _ _ _ _ _ _ _ Hb).
  - exfalso. eapply build_context_not_oof; eauto.
Qed.

(* add_components does not roll a refused batch back: what stays registered is exactly a prefix of the pre-order list
   (the components before the offending one) - all of it when the batch is accepted. *)
Theorem C20_partial_add_registers_prefix : forall layers l t nms cs,
  (exists k, add_flat_prefix layers l t nms cs = nms ++ map fst (firstn k cs)) /\
  (forall t' nms', add_flat layers l t nms cs = Ok (t', nms') -> add_flat_prefix layers l t nms cs = nms').
Proof.
  intros layers l t nms cs. split; [apply add_flat_prefix_spec | intros t' nms'; apply add_flat_prefix_ok].
Qed.

(* A context that builds and sets up: the set-up order is the managers (in the order added) followed by the pre-order
   of the forest - each exactly once (NoDup), every component after every manager and after its parent; the log
   checker used by the correspondence accepts it; a component named like a manager is rejected when set-up begins. *)
Theorem C20_setup_once_after_managers : forall layers lu lm lc ls lo mgrs user spec over is ctx t order,
  build_context layers lu lm lc ls lo mgrs user spec over is = Ok ctx -> setup_context ctx = Ok (t, order) ->
  order = map fst mgrs ++ map fst (pre_all is) /\ NoDup order /\
  (forall p c, In (p, c) (edges_all is) -> occurs_before p c (map fst (pre_all is))) /\
  log_ok (map fst mgrs) is order = true /\ t = freeze (c_cfg ctx).
Proof. exact setup_once_after_managers. Qed.

Theorem C20_manager_name_clash_rejected : forall layers lu lm lc ls lo mgrs user spec over is ctx n,
  build_context layers lu lm lc ls lo mgrs user spec over is = Ok ctx ->
  In n (map fst mgrs) -> In n (map fst (pre_all is)) -> setup_context ctx = Rejected EConfig.
Proof. exact manager_name_clash_rejected. Qed.

(* USER CONFIGURATION WINS.  For every layer list in which the defaults' layers lie strictly below BOTH user layers
   (model specification, keyword arguments), for ALL forests, ALL defaults / specification values / keyword arguments
   over shared key paths: once the context builds, a key path the user gave a value for reads as a value the user gave
   - the keyword argument if only that is given or if its layer is the higher one, the model-specification value if
   only that is given or if its layer is the higher one - never as a default; and a key path no user value is given
   for reads as the default of the (one) manager / component that sets it. *)
Theorem C20_user_wins : forall layers lu lm lc ls lo, NoDup layers ->
  below layers lu ls -> below layers lu lo ->
  below layers lc ls -> below layers lc lo -> below layers lm ls -> below layers lm lo ->
  forall mgrs user spec over is ctx p,
  wf_data (DDict user) -> wf_data (DDict spec) -> wf_data (DDict over) -> wf_entries mgrs -> wf_entries (pre_all is) ->
  build_context layers lu lm lc ls lo mgrs user spec over is = Ok ctx ->
  (forall v, dleaf (DDict over) p = Some v -> dleaf (DDict spec) p = None \/ below layers ls lo ->
             get layers (c_cfg ctx) p = LVal v) /\
  (forall v, dleaf (DDict spec) p = Some v -> dleaf (DDict over) p = None \/ below layers lo ls ->
             get layers (c_cfg ctx) p = LVal v) /\
  (forall vo vs, dleaf (DDict over) p = Some vo -> dleaf (DDict spec) p = Some vs ->
             get layers (c_cfg ctx) p = LVal vo \/ get layers (c_cfg ctx) p = LVal vs) /\
  (forall X d l n Y v, dleaf (DDict over) p = None -> dleaf (DDict spec) p = None ->
     dleaf (DDict user) p = None \/ below layers lu l ->
     default_updates lm lc mgrs is = X ++ (d, l, n) :: Y -> dleaf (DDict d) p = Some v ->
     (forall d' l' n', In (d', l', n') (X ++ Y) -> dleaf (DDict d') p = None) ->
     get layers (c_cfg ctx) p = LVal v) /\
  (* the ~/vivarium.yaml layer (below both user layers): read where nobody else sets the key *)
  (forall v, dleaf (DDict over) p = None -> dleaf (DDict spec) p = None ->
     (forall d' l' n', In (d', l', n') (default_updates lm lc mgrs is) -> dleaf (DDict d') p = None) ->
     dleaf (DDict user) p = Some v -> get layers (c_cfg ctx) p = LVal v).
Proof. exact user_wins. Qed.

(* ... whatever the order in which the components are supplied: a permuted list is accepted too and every key path reads
   the same. *)
Theorem C20_order_irrelevant : forall layers l t cs cs' t1 n1, unfrozen (Some t) -> In l layers ->
  (forall e, In e cs -> wf_data (DDict (snd e))) -> Permutation cs cs' ->
  add_flat layers l t [] cs = Ok (t1, n1) ->
  exists t2, add_flat layers l t [] cs' = Ok (t2, map fst cs') /\ forall p, get layers t2 p = get layers t1 p.
Proof.
  intros layers l t cs cs' t1 n1 Hu Hl Hw HP H.
  destruct (order_irrelevant layers l t cs cs' t1 n1 Hu Hl Hw HP H) as [t2 [H1 [_ H2]]]. eauto.
Qed.

(* Two managers / components defaulting the same key path (at one layer) are rejected - wherever they stand. *)
Theorem C20_default_clash_rejected : forall layers lu lm lc ls lo,
  below layers lu ls ->
  below layers lc ls -> below layers lc lo -> below layers lm ls -> below layers lm lo ->
  forall mgrs user spec over is X Y Z d1 d2 l n1 n2 p v1 v2,
  wf_data (DDict user) -> wf_data (DDict spec) -> wf_data (DDict over) -> wf_entries mgrs -> wf_entries (pre_all is) ->
  default_updates lm lc mgrs is = X ++ (d1, l, n1) :: Y ++ (d2, l, n2) :: Z ->
  dleaf (DDict d1) p = Some v1 -> dleaf (DDict d2) p = Some v2 ->
  exists e, build_context layers lu lm lc ls lo mgrs user spec over is = Rejected e.
Proof. exact default_clash_rejected. Qed.

(* FROZEN: once set-up has begun every key path still reads the same, and every update of / item assignment to the
   configuration or any sub-tree of it is refused (the only "accepted" update is the empty one, which writes nothing).
   GUARD (open finding F-AA): the statement covers update and assignment - the operations [update] models - and NOT
   deletion: layered_config_tree's __delitem__ / __delattr__ ignore the frozen flag ([delete_key]), see
   C20_frozen_deletion_refuted below. *)
Theorem C20_frozen : forall layers ctx t order, setup_context ctx = Ok (t, order) ->
  (forall p, get layers t p = get layers (c_cfg ctx) p) /\
  (forall p f ch k dk r layer src, tfind t p = Some (Tree f ch) ->
     update layers (Tree f ch) ((k, dk) :: r) layer src = CErr CFrozen) /\
  (forall p sub items layer src, tfind t p = Some sub ->
     match update layers sub items layer src with
     | COk sub' => items = [] /\ sub' = sub
     | CErr e => e = CFrozen \/ e = CStruct
     end).
Proof. exact frozen_after_setup. Qed.

(* F-AA: "the configuration cannot be modified once setup has begun" is FALSE of deletion - on a frozen configuration
   `del configuration[k]` succeeds and the key path no longer reads (faithful model of the library as it is). *)
Theorem C20_frozen_deletion_refuted : exists layers t0 k p,
  let t := freeze t0 in
  update layers t [(k, DVal 9)] None 0 = CErr CFrozen /\            (* assignment is refused ... *)
  get layers t p = LVal 5 /\ get layers (delete_key t k) p = LMissing.   (* ... deletion is not *)
Proof.
  exists [0], (Tree false [(1, Leaf false [(0, (0, 5))]); (2, Tree false [(3, Leaf false [(0, (0, 6))])])]), 1, [1].
  vm_compute. repeat split; reflexivity.
Qed.

(* the layer-table check used on the generated table is sound *)
Theorem C20_layers_okb_sound : forall layers lu lm lc ls lo, layers_okb layers lu lm lc ls lo = true ->
  NoDup layers /\ below layers lc ls /\ below layers lc lo /\ below layers lm ls /\ below layers lm lo /\
  below layers lu ls /\ below layers lu lo.
Proof. exact layers_okb_sound. Qed.

(* ---- non-vacuity ---- *)
Definition demo_layers : list Z := [0; 1; 2; 3; 4].      (* base, user_configs, component_configs, model_override, override *)
Definition demo_forest : list item :=
  [Comp 10 [(1, DDict [(2, DVal 100)])] [Comp 11 [] [Comp 12 [(3, DVal 7)] []]; Group [Comp 13 [] []]];
   Group [Comp 14 [(1, DDict [(4, DVal 5)])] []; Group [Comp 15 [] [Comp 16 [] []]]]].
Example demo_flatten : option_map (map fst) (flatten_stack (size_all demo_forest) demo_forest []) = Some [10; 11; 12; 13; 14; 15; 16].
Proof. vm_compute. reflexivity. Qed.
Example demo_layers_ok : layers_okb demo_layers 1 2 2 3 4 = true.
Proof. vm_compute. reflexivity. Qed.
Example demo_context :
  match build_context demo_layers 1 2 2 3 4 [(90, [(5, DDict [(6, DVal 1)])])]
                      [(1, DDict [(2, DVal 300); (4, DVal 301)]); (9, DVal 302)] (* ~/vivarium.yaml *)
                      [(1, DDict [(2, DVal 200)])] [(3, DVal 8)] demo_forest with
  | Ok ctx => match setup_context ctx with
              | Ok (t, order) => order = [90; 10; 11; 12; 13; 14; 15; 16] /\
                                 get demo_layers t [1; 2] = LVal 200 (* specification beats the default 100 *) /\
                                 get demo_layers t [3] = LVal 8 (* keyword argument beats the default 7 *) /\
                                 get demo_layers t [1; 4] = LVal 5 (* default beats ~/vivarium.yaml's 301 *) /\ get demo_layers t [5; 6] = LVal 1 /\
                                 get demo_layers t [9] = LVal 302 (* only ~/vivarium.yaml sets it *) /\
                                 update demo_layers t [(3, DVal 9)] (Some 4) 0 = CErr CFrozen
              | _ => False
              end
  | _ => False
  end.
Proof. vm_compute. repeat split; reflexivity. Qed.
Example demo_duplicate_deep :
  add_items demo_layers 2 empty_tree [] [Comp 1 [] [Comp 2 [] [Group [Comp 3 [] []]]]; Group [Comp 4 [] [Comp 3 [] []]]] = Rejected EConfig.
Proof. vm_compute. reflexivity. Qed.
Example demo_clash :
  add_items demo_layers 2 empty_tree [] [Comp 1 [(7, DVal 1)] []; Comp 2 [] [Comp 3 [(7, DVal 1)] []]] = Rejected EConfig.
Proof. vm_compute. reflexivity. Qed.

Print Assumptions C20_flatten_is_preorder.
Print Assumptions C20_parent_first.
Print Assumptions C20_siblings_in_order.
Print Assumptions C20_duplicates_rejected.
Print Assumptions C20_context_rejects_duplicates.
Print Assumptions C20_partial_add_registers_prefix.
Print Assumptions C20_setup_once_after_managers.
Print Assumptions C20_manager_name_clash_rejected.
Print Assumptions C20_user_wins.
Print Assumptions C20_order_irrelevant.
Print Assumptions C20_default_clash_rejected.
Print Assumptions C20_frozen.
Print Assumptions C20_frozen_deletion_refuted.
Print Assumptions C20_layers_okb_sound.
