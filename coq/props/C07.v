(* C07 - Framework services are available exactly in the states that make sense.  Statements only; proofs live in
   theories/ConstraintsProofs.v.  The service x state matrix itself (C07_matrix, C07_table_complete,
   C07_installed_as_modelled, C07_named_services_all_histories) is stated over the table regenerated from the live code
   on every run: generated/ConstraintTable_C07.v.                                                                      *)
From Coq Require Import Permutation.
From Viv Require Import Common Lifecycle LifecycleProofs Constraints ConstraintsProofs.
Local Open Scope Z_scope.

(* restrict_during=R over ANY state set S: the permitted states are exactly the states of S not in R. *)
Theorem C07_restrict_is_complement : forall S R A, permitted S [] R = Ok A ->
  forall s, In s S -> (In s A <-> ~ In s R).
Proof. intros S R A H s Hs. rewrite (restrict_is_complement S R A H s). tauto. Qed.

(* ... and nothing outside S is ever permitted by a restrict list (a state added to the life cycle later is refused). *)
Theorem C07_restrict_within_known : forall S R A, permitted S [] R = Ok A -> forall s, In s A -> In s S /\ ~ In s R.
Proof. intros S R A H s. now apply restrict_is_complement. Qed.

(* allow_during=L: the permitted states are L itself, all known. *)
Theorem C07_allow_is_identity : forall S L A, permitted S L [] = Ok A -> A = L /\ L <> [] /\ incl L S.
Proof. exact allow_is_identity. Qed.

(* exactly one of the two lists: accepted => exactly one is non-empty; both or neither => ValueError, whatever else. *)
Theorem C07_exactly_one_list : forall S al re,
  ((exists A, permitted S al re = Ok A) -> (al = [] /\ re <> []) \/ (al <> [] /\ re = [])) /\
  ((al <> [] /\ re <> []) \/ (al = [] /\ re = []) -> permitted S al re = Rejected EConfig).
Proof. intros S al re. split; [apply exactly_one_list | apply both_or_neither_rejected]. Qed.

(* a state name the life cycle does not know, in either list, is rejected (LifeCycleError); accepted => all known. *)
Theorem C07_unknown_state_rejected : forall S al re s,
  ((al = [] /\ re <> []) \/ (al <> [] /\ re = [])) -> In s (al ++ re) -> ~ In s S ->
  permitted S al re = Rejected EUnknownState.
Proof. exact unknown_state_rejected. Qed.

Theorem C07_accepted_states_known : forall S al re A, permitted S al re = Ok A -> incl (al ++ re) S /\ incl A S.
Proof. exact accepted_states_known. Qed.

(* _state_names is a python set: the outcome does not depend on its iteration order. *)
Theorem C07_state_set_order_irrelevant : forall S S' al re, Permutation S S' ->
  match permitted S al re, permitted S' al re with
  | Ok A, Ok A' => Permutation A A'
  | Rejected e, Rejected e' => e = e'
  | _, _ => False
  end.
Proof. exact permitted_perm. Qed.

(* For EVERY history (life-cycle moves, phases added, other constraints accepted or refused, handles taken, other calls)
   starting from a fresh manager: once add_constraint on m was accepted with permitted list A, a later call - through a
   handle taken at any later moment (the k-th captured one) or by attribute look-up - passes iff the state current AT
   THAT CALL is in A.  No caching, no dependence on when the handle was obtained. *)
Theorem C07_checked_every_call : forall m0 reg pre m al re mid post rest A,
  let w := new_world m0 reg in
  snd (step (run w pre) (EConstrain m al re)) = OConstrain (Ok A) ->
  let evs1 := pre ++ EConstrain m al re :: mid in
  let k := length (held (run w evs1)) in
  let evs2 := evs1 ++ ECapture m :: post in
  let now := cur (mgr (run w evs2)) in
  nth_error (outs w (evs2 ++ ECallHandle k :: rest)) (length evs2) = Some (OCall (guarded A now)) /\
  nth_error (outs w (evs2 ++ ECallAttr m :: rest)) (length evs2) = Some (OCall (guarded A now)) /\
  (guarded A now = Ok tt <-> In now A) /\ (guarded A now = Rejected EConstraint <-> ~ In now A).
Proof.
  intros m0 reg pre m al re mid post rest A w HC evs1 k evs2 now.
  destruct (history_checked_every_call w pre m al re mid post rest A (inv_new m0 reg) HC) as [H1 H2].
  repeat split; try assumption; try apply guarded_ok; try apply guarded_refused.
Qed.

(* same fact, state form: from any world satisfying the invariant (every reachable world does) *)
Theorem C07_checked_every_call_state : forall w pre post m A, Inv w -> wrapper (run w pre) m = Some A ->
  call_attr (run w (pre ++ post)) m = guarded A (cur (mgr (run w (pre ++ post)))).
Proof. exact checked_every_call. Qed.

Theorem C07_reachable_invariant : forall m0 reg evs, Inv (run (new_world m0 reg) evs).
Proof. intros. apply run_inv. apply inv_new. Qed.

(* a method can be constrained once: later attempts on the same guid are refused and change nothing, so the first
   permitted list stays in force for ever *)
Theorem C07_constrained_once : forall w m al re post m' al' re',
  Inv w ->
  (exists A, snd (step w (EConstrain m al re)) = OConstrain (Ok A)) ->
  gid_in (names w) m' = gid_in (names w) m ->
  let w2 := run (fst (step w (EConstrain m al re))) post in
  exists e, step w2 (EConstrain m' al' re') = (w2, OConstrain (Rejected e)) /\
    (kind_in (names w) m' = 0 -> (exists A', permitted (states_of (lc (mgr w2))) al' re' = Ok A') -> e = EConstraint).
Proof. exact constrained_once. Qed.

Theorem C07_wrapper_never_replaced : forall evs w m A, Inv w -> wrapper w m = Some A -> wrapper (run w evs) m = Some A.
Proof. exact wrapper_stable. Qed.

Theorem C07_rejected_constraint_inert : forall w m al re w' e, add_constraint w m al re = (w', Rejected e) -> w' = w.
Proof. exact add_constraint_rejected_inert. Qed.

(* The matrix, generically: for any table that passes the (computable) matrix check, every named service whose wrapper
   holds a listed permitted list is available, after EVERY history, exactly where the property says.  Instantiated on the
   table read off the live code in generated/ConstraintTable_C07.v. *)
Theorem C07_matrix_generic : forall states t, matrix_okb states t = true ->
  forall key svc A k, In (key, svc, A) t -> kind_of svc = Some k ->
  forall w m, Inv w -> wrapper w m = Some A ->
  forall post, In (cur (mgr (run w post))) states ->
    (call_attr (run w post) m = Ok tt <-> spec k (cur (mgr (run w post))) = true) /\
    (call_attr (run w post) m = Rejected EConstraint <-> spec k (cur (mgr (run w post))) = false).
Proof. exact service_available_exactly. Qed.

(* ---- non-vacuity: the documented engine life cycle, real allow/restrict lists, a real-looking history ---- *)
Definition doc_mgr : manager :=
  {| lc := build_phases [(1, [1; 2; 3], false); (2, [4; 5; 6; 7], true); (3, [8; 9], false)] (init_lc 0 0);
     cur := 0; entered := [] |}.
Example states_are_documented : states_of (lc doc_mgr) = documented_states.
Proof. vm_compute. reflexivity. Qed.

(* the three shapes of list used by the 16 named services give exactly the three rows of the property *)
Example registration_row : permitted documented_states [1] [] = Ok [1]
  /\ map (spec Registration) documented_states = map (fun s => zmem s [1]) documented_states.
Proof. vm_compute. auto. Qed.
Example read_row : permitted documented_states [] [0; 1; 2] = Ok [3; 4; 5; 6; 7; 8; 9]
  /\ map (spec Read) documented_states = map (fun s => zmem s [3; 4; 5; 6; 7; 8; 9]) documented_states.
Proof. vm_compute. auto. Qed.
Example mutate_row : permitted documented_states [] [0; 1; 2; 8; 9] = Ok [3; 4; 5; 6; 7]
  /\ map (spec Mutate) documented_states = map (fun s => zmem s [3; 4; 5; 6; 7]) documented_states.
Proof. vm_compute. auto. Qed.
Example bad_arguments :
  permitted documented_states [1] [2] = Rejected EConfig /\ permitted documented_states [] [] = Rejected EConfig /\
  permitted documented_states [1; 42] [] = Rejected EUnknownState /\ permitted documented_states [] [42] = Rejected EUnknownState /\
  permitted documented_states [42] [43] = Rejected EConfig.
Proof. vm_compute. auto 6. Qed.

(* a view: constrained during setup (method 7 = view.update, method 8 = another object's method carrying the same guid 70,
   method 9 = a dunder), handle taken at once, called in setup (refused), population_creation (passes), time_step (passes),
   simulation_end (refused); the second constraint attempts are refused; the handle of method 8, never wrapped, passes *)
Example a_history :
  let reg := [(7, (70, 0)); (8, (70, 0)); (9, (90, 2))] in
  let evs := [EMove 1; EConstrain 7 [] [0; 1; 2; 8; 9]; ECapture 7; ECallHandle 0; ECallAttr 7;
              EConstrain 7 [1] []; EConstrain 8 [1] []; EConstrain 9 [1] []; ECapture 8;
              EMove 2; ECallAttr 7; EMove 3; ECallHandle 0; ECallAttr 7;
              EMove 4; EMove 5; ECallHandle 0; EMove 6; EMove 7; EMove 4; ECallAttr 7; EMove 5; EMove 6; EMove 7;
              EMove 8; ECallHandle 0; ECallAttr 7; ECallHandle 1; ECallAttr 8; EMove 3] in
  map (fun o => match o with OCall r => code_of_res r | OConstrain r => 10 + code_of_res r | OLife Accepted => 20
                           | OLife (Refused _) => 21 | OCaptured => 30 end)
      (outs (new_world doc_mgr reg) evs)
  = [20; 10; 30; 1; 1;  11; 11; 13; 30;  20; 1; 20; 0; 0;  20; 20; 0; 20; 20; 20; 0; 20; 20; 20;  20; 1; 1; 0; 0; 21].
Proof. vm_compute. reflexivity. Qed.

Print Assumptions C07_restrict_is_complement.
Print Assumptions C07_restrict_within_known.
Print Assumptions C07_allow_is_identity.
Print Assumptions C07_exactly_one_list.
Print Assumptions C07_unknown_state_rejected.
Print Assumptions C07_accepted_states_known.
Print Assumptions C07_state_set_order_irrelevant.
Print Assumptions C07_checked_every_call.
Print Assumptions C07_checked_every_call_state.
Print Assumptions C07_reachable_invariant.
Print Assumptions C07_constrained_once.
Print Assumptions C07_wrapper_never_replaced.
Print Assumptions C07_rejected_constraint_inert.
Print Assumptions C07_matrix_generic.
