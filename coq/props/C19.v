(* C19 - The artifact's keys, file and contents always agree.  Statements only; the model is theories/Artifact.v
   (Artifact / Keys / hdf as the code stands now), proofs in theories/ArtifactProofs.v.

   History.  The `_refuted` theorems planned in DESIGN.md for F-F1, F-F2 (replace / write lose data on unwritable
   values) and the triage of F-F3 (reserved key removable) are obsolete since the fix commits 18714332, f8d5c251,
   7b352a55.  Building this check found two further defect classes - keys `t.m` / `t.m.x` share an HDF subtree
   (a frame put on, a remove of, a replace of `t.m` destroyed `t.m.x`), and frames on which HDFStore.put fails although
   check_writable passed (replace lost the key, write left an empty group), and empty groups left behind blocking a
   later JSON write of the two-part key - repaired by 4bbd9e87, 4cf26c03, 29349355, d4f70230.
   The model keeps the HDF layer's behaviour that made those fixes necessary (recursive remove, put deletes the group
   first, a failing put happens after that); the theorems below are UNGUARDED: they hold for every key, every data
   value and every operation sequence.

   [rt] is what the UNFILTERED hdf.load gives back for a stored content (json.load o json.dumps; read_hdf); [view f]
   is what a handle opened with filter [f] (row terms + draw column filter) makes of a table content - every theorem
   holds for all such functions.  [Reopen f] opens a new handle with filter [f] on the same file: a history may switch
   between differently filtered handles at will.  [abs] is the content as an unfiltered reader sees it.        *)
From Viv Require Import Common Artifact ArtifactProofs.
Local Open Scope Z_scope.

Section C19.
Variable rt : bool -> Z -> Z.
Variable view : Z -> Z -> Z.
Notation Inv := (Inv rt view).      (* Inv T s: T = the keys of which a LOADED object may have been changed in place *)
Notation step := (step rt view).
Notation run := (run rt view).
Notation load := (load rt view).
Notation outs := (outs rt view).

(* The invariant: the open object's key list = the persisted key list, duplicate-free, all keys well formed, no key a
   dotted prefix of another, = the reserved key + exactly the nodes of the file (no orphan nodes), and every cached
   value is what the file holds.  It holds initially and is preserved by EVERY operation - accepted or rejected -
   hence holds after every operation sequence. *)
Theorem C19_inv : Inv Nobody init /\
  (forall T s o, Inv T s -> (forall k j, o = Mutate k j -> T k) -> Inv T (fst (step s o))) /\
  (forall ops, Inv Any (run init ops)) /\
  (* ... with the cache coherent for every key of which the caller changed no loaded object in place (F-AL) *)
  (forall (T : key -> Prop) ops, (forall k j, In (Mutate k j) ops -> T k) -> Inv T (run init ops)).
Proof.
  split; [apply inv_init|]. split; [exact (step_inv rt view)|]. split.
  - intros ops. apply run_inv; [apply inv_init | apply muts_ok_any].
  - intros T ops H. apply run_inv; [apply inv_init | now apply muts_ok_intro].
Qed.

(* Refinement: after ANY operation sequence the artifact holds, under every key, exactly what the plain finite map
   holds after the same sequence (write = insert if the key is well formed, not reserved, absent, overlaps no present
   key and the data can be stored; remove = delete if present; replace = overwrite if present and the data can be
   stored; everything else - and every operation that is not accepted - the identity), and the next operation is
   rejected exactly when the map operation is not applicable. *)
Theorem C19_refines_map : forall ops,
  (forall k, find k (file_of (run init ops)) = find k (spec_run [] ops)) /\
  (forall k, abs rt (run init ops) k = option_map (back rt) (find k (spec_run [] ops))) /\
  (forall o, is_rej (snd (step (run init ops) o)) = negb (snd (spec_step (spec_run [] ops) o))).
Proof.
  intros ops. pose proof (run_refines rt view Any ops init [] (inv_init rt view Any) (muts_ok_any ops) (fun k => eq_refl)) as HR.
  split; [exact HR|]. split; [apply (R_abs rt _ _ HR)|].
  intros o. apply (step_refines rt view Any _ _ o (run_inv rt view Any ops init (inv_init rt view Any) (muts_ok_any ops)) HR).
Qed.

(* The handles' filters never reach the file: two histories that differ only in the filters their artifacts were opened
   with leave the same stored content under every key, the same key set, and accept / reject the same next operation.
   Together with C19_refines_map: no operation through a filtered handle changes the unfiltered content except by the
   data it was given; with C19_rejected_unchanged: a rejected operation through any handle leaves it as it was. *)
Theorem C19_filters_never_reach_the_file : forall ops ops', map erase ops = map erase ops' ->
  (forall k, find k (file_of (run init ops)) = find k (file_of (run init ops'))) /\
  (forall k, In k (keys (run init ops)) <-> In k (keys (run init ops'))) /\
  (forall o, is_rej (snd (step (run init ops) o)) = is_rej (snd (step (run init ops') o))).
Proof. intros ops ops'. apply (filter_independent rt view Any); apply muts_ok_any. Qed.

(* ... hence the keys the artifact reports are exactly the keys that can be loaded (= reserved key + domain of the map),
   they are what a freshly opened artifact on the same file reports, and loading returns the map's value. *)
Theorem C19_keys_loadable_reopen : forall ops,
  let s := run init ops in
  (forall k, In k (keys s) <-> k = ks_key \/ abs rt s k <> None) /\
  (forall k, In k (keys s) <-> is_rej (snd (load s k)) = false) /\
  (forall f, keys (fst (step s (Reopen f))) = keys s) /\
  (* a load through the handle returns the stored content seen through the handle's filter; the content itself is whole.
     GUARD (open finding F-AL): the caller changed in place no object that a load of this key returned *)
  (forall k v, k <> ks_key -> (forall j, ~ In (Mutate k j) ops) ->
     (snd (load s k) = Loaded v <->
      exists n, find k (file_of s) = Some n /\ v = seen rt view (filt s) n /\ abs rt s k = Some (back rt n))).
Proof.
  intros ops.
  set (T := fun k => exists j, In (Mutate k j) ops).
  assert (I : Inv T (run init ops)).
  { apply run_inv; [apply inv_init|]. apply muts_ok_intro. intros k j H. exists j. exact H. }
  destruct (keys_loadable_reopen rt view T _ I) as [H1 [H2 [H3 H4]]].
  split; [exact H1|]. split; [exact H2|]. split; [exact H3|].
  intros k v Hks Hnm. apply (H4 k v Hks). intros [j Hj]. exact (Hnm j Hj).
Qed.

(* Loading a key returns the roundtrip of the data last written under it: after an accepted write / replace of [d]
   under [k] and ANY further operations none of which writes, removes or replaces [k] *)
Theorem C19_load_last_written : forall pre o0 k d n post,
  (o0 = Write k d \/ o0 = Replace k d) -> node_of d = Some n ->
  snd (step (run init pre) o0) = Done -> (forall o, In o post -> touches k o = false) ->
  (* GUARD (open finding F-AL): after the write, the caller changes in place no object that a load of k returned *)
  (forall j, ~ In (Mutate k j) post) ->
  let s := run init (pre ++ o0 :: post) in
  find k (file_of s) = Some n /\                                      (* the file holds exactly what was given ... *)
  abs rt s k = Some (back rt n) /\                                     (* ... an unfiltered reader gets its roundtrip ... *)
  snd (step s (Load k)) = Loaded (seen rt view (filt s) n).            (* ... the handle gets it through its filter *)
Proof.
  intros pre o0 k d n post Ho Hn Hd Hp Hm.
  assert (Happ : forall a b s, run s (a ++ b) = run (run s a) b).
  { induction a as [|x a IH]; intros b s; simpl; [reflexivity | apply IH]. }
  cbv zeta. rewrite Happ.
  destruct (load_last_written rt view (run init pre) o0 k d n post
              (run_inv rt view Any pre init (inv_init rt view Any) (muts_ok_any pre)) Ho Hn Hd Hp Hm) as [H1 H2].
  split; [exact H1|]. split; [unfold abs; now rewrite H1 | exact H2].
Qed.

(* F-AL: the guard is needed - Artifact.load returns the cached object itself, so after the caller changed a loaded object
   in place the next load through the same handle returns the changed value, not what was written (the file, and an
   unfiltered reader, still hold it). *)
Theorem C19_load_last_written_refuted : exists k d n post,
  let rt0 := fun (_ : bool) (i : Z) => i in let view0 := fun (_ i : Z) => i in
  node_of d = Some n /\ snd (Artifact.step rt0 view0 init (Write k d)) = Done /\
  (forall o, In o post -> touches k o = false) /\
  snd (Artifact.step rt0 view0 (Artifact.run rt0 view0 init (Write k d :: post)) (Load k)) <> Loaded (Artifact.back rt0 n) /\
  Artifact.abs rt0 (Artifact.run rt0 view0 init (Write k d :: post)) k = Some (Artifact.back rt0 n).
Proof.
  exists [5; 6], (DJson 10), (NJson 10), [Load [5; 6]; Mutate [5; 6] 99].
  destruct load_last_written_refuted as [H1 [H2 [H3 H4]]]. cbv zeta. repeat split; try assumption.
  rewrite H3. discriminate.
Qed.

(* An operation the artifact rejects - whatever the reason - leaves the artifact as it was: the same key list, the
   same persisted key list, the same content under every key, no new cache entry; literally the same object / file /
   cache state unless it is a replace whose data turned out unstorable only inside HDFStore.put (then the old node has
   been rewritten and the key's cache entry dropped); and in every case NO later operation sequence can tell that the
   rejected operation was attempted.  (was refuted before commits 18714332, f8d5c251, 4cf26c03, 29349355) *)
Theorem C19_rejected_unchanged : forall T s o e, Inv T s -> snd (step s o) = Rej e ->
  sim s (fst (step s o)) /\
  (forall k i, find k (cache (fst (step s o))) = Some i -> find k (cache s) = Some i) /\
  (bad_replace o = false -> fst (step s o) = s).
Proof. intros T s o e I H. apply (rejected_unchanged rt view T s o e I H). Qed.

(* ... and NO later operation sequence can tell that the rejected operation was attempted.  GUARD (F-AL): as long as the
   caller changes no loaded object in place (a rejected put-failing replace drops the key's cache entry - with it a
   changed loaded object the cache was still handing out). *)
Theorem C19_rejected_indistinguishable : forall s o e ops, Inv Nobody s -> no_mutation ops -> snd (step s o) = Rej e ->
  outs (fst (step s o)) ops = outs s ops.
Proof.
  intros s o e ops I Hm H. apply (rejected_indistinguishable rt view Nobody s o e ops (fun k F => F) (muts_ok_nobody ops Hm) I H).
Qed.

(* ... and the reasons the property lists are indeed rejected (in every reachable state) *)
Theorem C19_listed_rejections : forall T s k d, Inv T s ->
  (In k (keys s) -> is_rej (snd (step s (Write k d))) = true) /\
  (~ In k (keys s) -> is_rej (snd (step s (Remove k))) = true /\ is_rej (snd (step s (Replace k d))) = true /\
                      is_rej (snd (step s (Load k))) = true) /\
  (node_of d = None (* None, unserialisable, unstorable *) ->
     is_rej (snd (step s (Write k d))) = true /\ is_rej (snd (step s (Replace k d))) = true) /\
  (valid_key k = false -> is_rej (snd (step s (Write k d))) = true) /\
  (forall k', In k' (keys s) -> overlaps k k' = true -> is_rej (snd (step s (Write k d))) = true) /\
  is_rej (snd (step s (Remove ks_key))) = true.
Proof.
  intros T s k d I. simpl. repeat split.
  - intros H. now rewrite (duplicate_write_rejected s k d H).
  - destruct (missing_rejected rt view s k d H) as [H1 _]. now rewrite H1.
  - destruct (missing_rejected rt view s k d H) as [_ [H1 _]]. now rewrite H1.
  - destruct (missing_rejected rt view s k d H) as [_ [_ H1]]. now rewrite H1.
  - apply (not_storable_rejected rt view T s k d I H).
  - apply (not_storable_rejected rt view T s k d I H).
  - intros H. apply (malformed_key_rejected rt view T s k d I H).
  - intros k' Hk Ho. apply (overlapping_key_rejected s k d k' Hk Ho).
  - now rewrite (reserved_remove_rejected rt view T s I).
Qed.

(* Filter terms the constructor refuses (two draw terms; a draw comparison other than =, ==, in - encoded as a negative
   filter id): Artifact(path, terms) raises before anything is touched, the handle in use stays as it is. *)
Theorem C19_refused_constructor : forall s f, f < 0 -> step s (Reopen f) = (s, Rej EOther).
Proof. intros s f H. simpl. apply Z.ltb_lt in H. now rewrite H. Qed.

(* Clearing the cache and re-opening the file change neither the keys nor any content, and no later operation
   sequence can tell the difference (same outcomes, same loaded values). *)
Theorem C19_clear_reopen_neutral : forall s o ops, Inv Nobody s -> no_mutation ops (* GUARD, F-AL: clearing the cache also
  drops loaded objects the caller changed in place *) -> (o = ClearCache \/ o = Reopen (filt s)) ->
  (forall k, abs rt (fst (step s o)) k = abs rt s k) /\ keys (fst (step s o)) = keys s /\
  outs (fst (step s o)) ops = outs s ops.
Proof.
  intros s o ops I Hm Ho. apply (clear_reopen_neutral rt view Nobody s o ops (fun k F => F) (muts_ok_nobody ops Hm) I Ho).
Qed.

End C19.

(* Filter terms only ever restrict the rows returned: the rows loaded are a sub-sequence of the rows stored - exactly
   those on which every term over queryable columns holds; a term over an absent column is dropped; no terms, all
   rows; one more term, a sub-sequence again. *)
Theorem C19_filter_restricts : forall cols ts rows,
  sublist (load_filtered cols ts rows) rows /\
  (forall r, In r (load_filtered cols ts rows) <->
             In r rows /\ forall t, In t ts -> term_valid cols t = true -> term_eval cols r t = true) /\
  (forall t, sublist (load_filtered cols (t :: ts) rows) (load_filtered cols ts rows)) /\
  load_filtered cols [] rows = rows.
Proof.
  intros cols ts rows. split; [apply filter_restricts|]. split; [intros r; apply filter_spec|].
  split; [intros t; apply filter_monotone | apply filter_none].
Qed.

Theorem C19_filter_absent_dropped : forall cols ts1 t ts2 rows, term_valid cols t = false ->
  load_filtered cols (ts1 ++ t :: ts2) rows = load_filtered cols (ts1 ++ ts2) rows.
Proof. exact filter_absent_dropped. Qed.

(* The draw filter selects columns and never touches rows: the columns returned are a sub-sequence of the stored ones -
   exactly the stored ones among those requested; (the term itself, being over the non-column `draw`, is dropped from the
   row filter by C19_filter_absent_dropped). *)
Theorem C19_draw_filter_columns : forall stored request,
  sublist (select_columns stored request) stored /\ select_columns stored None = stored /\
  forall cols c, In c (select_columns stored (Some cols)) <-> In c stored /\ In c cols.
Proof.
  intros stored request. split; [apply select_columns_sublist|]. split; [reflexivity|]. intros cols c. apply select_columns_spec.
Qed.

(* ---- non-vacuity: a history with accepted and rejected operations of every kind ends in the expected state, with the
   expected outcomes; the two repaired defect classes are exercised (overlapping keys, put-failing frame) ---- *)
Definition rt_id (b : bool) (i : Z) : Z := i.
(* filter 7 keeps half of every table (content i -> 1000 + i), filter 0 and all others nothing special *)
Definition view_demo (f i : Z) : Z := if f =? 7 then 1000 + i else i.
Definition demo_ops : list op :=
  [Write [5; 6] (DFrame 10); Write [5; 7; 8] (DJson 11); Write [5; 6] (DJson 12) (* duplicate *);
   Load [5; 6]; Replace [5; 6] DNone (* rejected *); Replace [5; 6] DUnwritable (* rejected *);
   Write [5; 0] (DJson 1) (* malformed *); Remove [9; 9] (* missing *); Remove ks_key (* reserved *);
   Write [5; 6; 9] (DJson 14) (* extends 5.6 *); Write [5; 7] (DFrame 15) (* prefix of 5.7.8 *);
   Write [1; 2; 3] (DJson 1) (* below the reserved node *);
   Replace [5; 6] DBadFrame (* rejected, restored *); Load [5; 6]; Write [7; 7] DBadFrame (* rejected *);
   Replace [5; 6] (DJson 13); ClearCache; Load [5; 6]; Remove [5; 7; 8]; Reopen 0; Load [5; 7; 8] (* missing *)].
Example demo_outs : map is_rej (outs rt_id view_demo init demo_ops) =
  [false; false; true; false; true; true; true; true; true; true; true; true; true; false; true;
   false; false; false; false; false; true].
Proof. vm_compute. reflexivity. Qed.
Example demo_final :
  let s := run rt_id view_demo init demo_ops in
  keys s = [ks_key; [5; 6]] /\ keyspace s = keys s /\ file_of s = [([5; 6], NJson 13)] /\
  snd (step rt_id view_demo s (Load [5; 6])) = Loaded 13 /\ spec_run [] demo_ops = [([5; 6], NJson 13)].
Proof. vm_compute. auto. Qed.
(* a rejected replace with a put-failing frame: same keys in the same order, same content, cache entry dropped *)
Example demo_restore :
  let s := run rt_id view_demo init [Write [5; 6] (DFrame 10); Write [5; 7] (DJson 11); Load [5; 6]] in
  let s' := fst (step rt_id view_demo s (Replace [5; 6] DBadFrame)) in
  keys s' = keys s /\ keyspace s' = keyspace s /\ abs rt_id s' [5; 6] = Some 10 /\ abs rt_id s' [5; 7] = Some 11 /\
  cache s = [([5; 6], 10)] /\ cache s' = [] /\ snd (step rt_id view_demo s' (Load [5; 6])) = Loaded 10.
Proof. vm_compute. repeat split; reflexivity. Qed.
(* a handle with a restricting filter: loads are filtered, the file is not - not even by a replace that is refused inside
   HDFStore.put and restored (the roll-back copy is read unfiltered), nor by clear_cache / replace with good data *)
Example demo_filtered_handle :
  let s := run rt_id view_demo init [Write [5; 6] (DFrame 10); Reopen 7; Load [5; 6]; Replace [5; 6] DBadFrame; ClearCache] in
  snd (step rt_id view_demo s (Load [5; 6])) = Loaded 1010 /\ abs rt_id s [5; 6] = Some 10 /\
  abs rt_id (fst (step rt_id view_demo s (Replace [5; 6] (DFrame 20)))) [5; 6] = Some 20 /\
  snd (step rt_id view_demo (fst (step rt_id view_demo s (Reopen 0))) (Load [5; 6])) = Loaded 10.
Proof. vm_compute. repeat split; reflexivity. Qed.
Example demo_filter :
  load_filtered [1; 2] [TAtom 1 CGt 0; TAtom 9 CEq 5 (* absent column: dropped *); TOr (TAtom 2 CEq 7) (TAtom 2 CEq 8)]
                [[0; 7]; [1; 7]; [2; 8]; [3; 9]] = [[1; 7]; [2; 8]].
Proof. vm_compute. reflexivity. Qed.

Print Assumptions C19_inv.
Print Assumptions C19_refines_map.
Print Assumptions C19_filters_never_reach_the_file.
Print Assumptions C19_keys_loadable_reopen.
Print Assumptions C19_load_last_written.
Print Assumptions C19_load_last_written_refuted.
Print Assumptions C19_rejected_indistinguishable.
Print Assumptions C19_rejected_unchanged.
Print Assumptions C19_listed_rejections.
Print Assumptions C19_refused_constructor.
Print Assumptions C19_clear_reopen_neutral.
Print Assumptions C19_filter_restricts.
Print Assumptions C19_filter_absent_dropped.
Print Assumptions C19_draw_filter_columns.
