(* C19 - The artifact's keys, file and contents always agree.  Statements only; the model is theories/Artifact.v
   (Artifact / Keys / hdf as the code stands now), proofs in theories/ArtifactProofs.v.

   History.  The `_refuted` theorems planned in DESIGN.md for F-F1, F-F2 (replace / write lose data on unwritable
   values) and the triage of F-F3 (reserved key removable) are obsolete since the fix commits 18714332, f8d5c251,
   7b352a55.  Building this check found two further defect classes - keys `t.m` / `t.m.x` share an HDF subtree
   (a frame put on, a remove of, a replace of `t.m` destroyed `t.m.x`), and frames on which HDFStore.put fails although
   check_writable passed (replace lost the key, write left an empty group), and empty groups left behind blocking a
   later JSON write of the two-part key - repaired by 4bbd9e87, 4cf26c03, 29349355, d4f70230.
   The model keeps the HDF layer's behaviour that made those fixes necessary (recursive remove, put deletes the group
   first, a failing put happens after that); the theorems below are UNGUARDED: they hold for every key, every data
   value and every operation sequence.

   [rt] is what hdf.load gives back for a stored content (json.load o json.dumps; read_hdf under the artifact's
   filter terms) - every theorem holds for every such function.                                                   *)
From Viv Require Import Common Artifact ArtifactProofs.
Local Open Scope Z_scope.

Section C19.
Variable rt : bool -> Z -> Z.

(* The invariant: the open object's key list = the persisted key list, duplicate-free, all keys well formed, no key a
   dotted prefix of another, = the reserved key + exactly the nodes of the file (no orphan nodes), and every cached
   value is what the file holds.  It holds initially and is preserved by EVERY operation - accepted or rejected -
   hence holds after every operation sequence. *)
Theorem C19_inv : Inv rt init /\ (forall s o, Inv rt s -> Inv rt (fst (step rt s o))) /\
                  forall ops, Inv rt (run rt init ops).
Proof.
  split; [apply inv_init|]. split; [exact (step_inv rt)|]. intros ops. apply run_inv. apply inv_init.
Qed.

(* Refinement: after ANY operation sequence the artifact holds, under every key, exactly what the plain finite map
   holds after the same sequence (write = insert if the key is well formed, not reserved, absent, overlaps no present
   key and the data can be stored; remove = delete if present; replace = overwrite if present and the data can be
   stored; everything else - and every operation that is not accepted - the identity), and the next operation is
   rejected exactly when the map operation is not applicable. *)
Theorem C19_refines_map : forall ops,
  (forall k, abs rt (run rt init ops) k = find k (spec_run rt [] ops)) /\
  (forall o, is_rej (snd (step rt (run rt init ops) o)) = negb (snd (spec_step rt (spec_run rt [] ops) o))).
Proof.
  intros ops. pose proof (run_refines rt ops init [] (inv_init rt) (R_init rt)) as HR. split; [exact HR|].
  intros o. apply (step_refines rt _ _ o (run_inv rt ops init (inv_init rt)) HR).
Qed.

(* ... hence the keys the artifact reports are exactly the keys that can be loaded (= reserved key + domain of the map),
   they are what a freshly opened artifact on the same file reports, and loading returns the map's value. *)
Theorem C19_keys_loadable_reopen : forall ops,
  let s := run rt init ops in
  (forall k, In k (keys s) <-> k = ks_key \/ abs rt s k <> None) /\
  (forall k, In k (keys s) <-> is_rej (snd (load rt s k)) = false) /\
  keys (fst (step rt s Reopen)) = keys s /\
  (forall k v, k <> ks_key -> (snd (load rt s k) = Loaded v <-> abs rt s k = Some v)).
Proof. intros ops. apply keys_loadable_reopen. apply run_inv. apply inv_init. Qed.

(* Loading a key returns the roundtrip of the data last written under it: after an accepted write / replace of [d]
   under [k] and ANY further operations none of which writes, removes or replaces [k] *)
Theorem C19_load_last_written : forall pre o0 k d n post,
  (o0 = Write k d \/ o0 = Replace k d) -> node_of d = Some n ->
  snd (step rt (run rt init pre) o0) = Done -> (forall o, In o post -> touches k o = false) ->
  snd (step rt (run rt init (pre ++ o0 :: post)) (Load k)) = Loaded (back rt n).
Proof.
  intros pre o0 k d n post Ho Hn Hd Hp.
  assert (Happ : forall a b s, run rt s (a ++ b) = run rt (run rt s a) b).
  { induction a as [|x a IH]; intros b s; simpl; [reflexivity | apply IH]. }
  rewrite Happ. apply (load_last_written rt _ o0 k d n post); try assumption. apply run_inv. apply inv_init.
Qed.

(* An operation the artifact rejects - whatever the reason - leaves the artifact as it was: the same key list, the
   same persisted key list, the same content under every key, no new cache entry; literally the same object / file /
   cache state unless it is a replace whose data turned out unstorable only inside HDFStore.put (then the old node has
   been rewritten and the key's cache entry dropped); and in every case NO later operation sequence can tell that the
   rejected operation was attempted.  (was refuted before commits 18714332, f8d5c251, 4cf26c03, 29349355) *)
Theorem C19_rejected_unchanged : forall s o e, Inv rt s -> snd (step rt s o) = Rej e ->
  (sim s (fst (step rt s o)) /\
   (forall k i, find k (cache (fst (step rt s o))) = Some i -> find k (cache s) = Some i) /\
   (bad_replace o = false -> fst (step rt s o) = s)) /\
  forall ops, outs rt (fst (step rt s o)) ops = outs rt s ops.
Proof.
  intros s o e I H. split; [apply (rejected_unchanged rt s o e I H) | intros ops; apply (rejected_indistinguishable rt s o e ops I H)].
Qed.

(* ... and the reasons the property lists are indeed rejected (in every reachable state) *)
Theorem C19_listed_rejections : forall s k d, Inv rt s ->
  (In k (keys s) -> is_rej (snd (step rt s (Write k d))) = true) /\
  (~ In k (keys s) -> is_rej (snd (step rt s (Remove k))) = true /\ is_rej (snd (step rt s (Replace k d))) = true /\
                      is_rej (snd (step rt s (Load k))) = true) /\
  (node_of d = None (* None, unserialisable, unstorable *) ->
     is_rej (snd (step rt s (Write k d))) = true /\ is_rej (snd (step rt s (Replace k d))) = true) /\
  (valid_key k = false -> is_rej (snd (step rt s (Write k d))) = true) /\
  (forall k', In k' (keys s) -> overlaps k k' = true -> is_rej (snd (step rt s (Write k d))) = true) /\
  is_rej (snd (step rt s (Remove ks_key))) = true.
Proof.
  intros s k d I. simpl. repeat split.
  - intros H. now rewrite (duplicate_write_rejected s k d H).
  - destruct (missing_rejected rt s k d H) as [H1 _]. now rewrite H1.
  - destruct (missing_rejected rt s k d H) as [_ [H1 _]]. now rewrite H1.
  - destruct (missing_rejected rt s k d H) as [_ [_ H1]]. now rewrite H1.
  - apply (not_storable_rejected rt s k d I H).
  - apply (not_storable_rejected rt s k d I H).
  - intros H. apply (malformed_key_rejected rt s k d I H).
  - intros k' Hk Ho. apply (overlapping_key_rejected s k d k' Hk Ho).
  - now rewrite (reserved_remove_rejected rt s I).
Qed.

(* Clearing the cache and re-opening the file change neither the keys nor any content, and no later operation
   sequence can tell the difference (same outcomes, same loaded values). *)
Theorem C19_clear_reopen_neutral : forall s o ops, Inv rt s -> (o = ClearCache \/ o = Reopen) ->
  (forall k, abs rt (fst (step rt s o)) k = abs rt s k) /\ keys (fst (step rt s o)) = keys s /\
  outs rt (fst (step rt s o)) ops = outs rt s ops.
Proof. exact (clear_reopen_neutral rt). Qed.

End C19.

(* Filter terms only ever restrict the rows returned: the rows loaded are a sub-sequence of the rows stored - exactly
   those on which every term over queryable columns holds; a term over an absent column is dropped; no terms, all
   rows; one more term, a sub-sequence again. *)
Theorem C19_filter_restricts : forall cols ts rows,
  sublist (load_filtered cols ts rows) rows /\
  (forall r, In r (load_filtered cols ts rows) <->
             In r rows /\ forall t, In t ts -> term_valid cols t = true -> term_eval cols r t = true) /\
  (forall t, sublist (load_filtered cols (t :: ts) rows) (load_filtered cols ts rows)) /\
  load_filtered cols [] rows = rows.
Proof.
  intros cols ts rows. split; [apply filter_restricts|]. split; [intros r; apply filter_spec|].
  split; [intros t; apply filter_monotone | apply filter_none].
Qed.

Theorem C19_filter_absent_dropped : forall cols ts1 t ts2 rows, term_valid cols t = false ->
  load_filtered cols (ts1 ++ t :: ts2) rows = load_filtered cols (ts1 ++ ts2) rows.
Proof. exact filter_absent_dropped. Qed.

(* The draw filter selects columns and never touches rows: the columns returned are a sub-sequence of the stored ones -
   exactly the stored ones among those requested; (the term itself, being over the non-column `draw`, is dropped from the
   row filter by C19_filter_absent_dropped). *)
Theorem C19_draw_filter_columns : forall stored request,
  sublist (select_columns stored request) stored /\ select_columns stored None = stored /\
  forall cols c, In c (select_columns stored (Some cols)) <-> In c stored /\ In c cols.
Proof.
  intros stored request. split; [apply select_columns_sublist|]. split; [reflexivity|]. intros cols c. apply select_columns_spec.
Qed.

(* ---- non-vacuity: a history with accepted and rejected operations of every kind ends in the expected state, with the
   expected outcomes; the two repaired defect classes are exercised (overlapping keys, put-failing frame) ---- *)
Definition rt_id (b : bool) (i : Z) : Z := i.
Definition demo_ops : list op :=
  [Write [5; 6] (DFrame 10); Write [5; 7; 8] (DJson 11); Write [5; 6] (DJson 12) (* duplicate *);
   Load [5; 6]; Replace [5; 6] DNone (* rejected *); Replace [5; 6] DUnwritable (* rejected *);
   Write [5; 0] (DJson 1) (* malformed *); Remove [9; 9] (* missing *); Remove ks_key (* reserved *);
   Write [5; 6; 9] (DJson 14) (* extends 5.6 *); Write [5; 7] (DFrame 15) (* prefix of 5.7.8 *);
   Write [1; 2; 3] (DJson 1) (* below the reserved node *);
   Replace [5; 6] DBadFrame (* rejected, restored *); Load [5; 6]; Write [7; 7] DBadFrame (* rejected *);
   Replace [5; 6] (DJson 13); ClearCache; Load [5; 6]; Remove [5; 7; 8]; Reopen; Load [5; 7; 8] (* missing *)].
Example demo_outs : map is_rej (outs rt_id init demo_ops) =
  [false; false; true; false; true; true; true; true; true; true; true; true; true; false; true;
   false; false; false; false; false; true].
Proof. vm_compute. reflexivity. Qed.
Example demo_final :
  let s := run rt_id init demo_ops in
  keys s = [ks_key; [5; 6]] /\ keyspace s = keys s /\ file_of s = [([5; 6], NJson 13)] /\
  snd (step rt_id s (Load [5; 6])) = Loaded 13 /\ spec_run rt_id [] demo_ops = [([5; 6], 13)].
Proof. vm_compute. auto. Qed.
(* a rejected replace with a put-failing frame: same keys in the same order, same content, cache entry dropped *)
Example demo_restore :
  let s := run rt_id init [Write [5; 6] (DFrame 10); Write [5; 7] (DJson 11); Load [5; 6]] in
  let s' := fst (step rt_id s (Replace [5; 6] DBadFrame)) in
  keys s' = keys s /\ keyspace s' = keyspace s /\ abs rt_id s' [5; 6] = Some 10 /\ abs rt_id s' [5; 7] = Some 11 /\
  cache s = [([5; 6], 10)] /\ cache s' = [] /\ snd (step rt_id s' (Load [5; 6])) = Loaded 10.
Proof. vm_compute. repeat split; reflexivity. Qed.
Example demo_filter :
  load_filtered [1; 2] [TAtom 1 CGt 0; TAtom 9 CEq 5 (* absent column: dropped *); TOr (TAtom 2 CEq 7) (TAtom 2 CEq 8)]
                [[0; 7]; [1; 7]; [2; 8]; [3; 9]] = [[1; 7]; [2; 8]].
Proof. vm_compute. reflexivity. Qed.

Print Assumptions C19_inv.
Print Assumptions C19_refines_map.
Print Assumptions C19_keys_loadable_reopen.
Print Assumptions C19_load_last_written.
Print Assumptions C19_rejected_unchanged.
Print Assumptions C19_listed_rejections.
Print Assumptions C19_clear_reopen_neutral.
Print Assumptions C19_filter_restricts.
Print Assumptions C19_filter_absent_dropped.
Print Assumptions C19_draw_filter_columns.
