(* C09 - Simulant initializers run in dependency order or not at all.
   Statements only; lemmas are in theories/KahnProofs.v and theories/ResourcesProofs.v.

   Model: theories/Resources.v.  `init_order kc ds` is the list `PopulationManager._create_simulants` iterates for the
   builder calls `ds` (made in that order during setup; kc = configuration.randomness.key_columns), or the refusal.
   Specification (ResourcesProofs.v, section E):
     needs kc ds v c       pipeline v needs column c: a column required by its source or by one of its modifiers, or
                           needed by a value they require, or a CRN key column if they require a registered stream, or
                           needed by the pipeline that IS the source / modifier
     init_req kc ds creates rc rv rs c
                           the initializer registered with (creates, requires_columns rc, requires_values rv,
                           requires_streams rs) requires column c: c in rc; `tracked` unless it creates it; needed by a
                           value in rv; a CRN key column if a stream in rs is registered
     order_ok kc ds o      o is a permutation of the registered initializers and each initializer is called strictly
                           after every creator of every column it requires.                                        *)
From Coq Require Import Permutation Relation_Operators.
From Viv Require Import Common Kahn KahnProofs Resources ResourcesProofs.
Local Open Scope Z_scope.

(* ---------------------------------------------------------------------------------------------------------------- *)
(* the sort (networkx.topological_sort as a FIFO Kahn loop), for any node type, any graph                           *)
(* ---------------------------------------------------------------------------------------------------------------- *)
Theorem C09_kahn_sound :
  forall (node : Type) (eqb : node -> node -> bool), (forall a b, eqb a b = true <-> a = b) ->
  forall (nodes : list node) (edges : list (node * node)),
    (forall u v, In (u, v) edges -> In u nodes /\ In v nodes) -> NoDup nodes ->
  forall o, kahn eqb nodes edges = Ok o ->
    Permutation o nodes /\
    (* every edge, and therefore every path, goes forward in o *)
    (forall l1 v l2, o = l1 ++ v :: l2 -> forall u, In (u, v) edges -> In u l1) /\
    (forall u v, path edges u v -> forall l1 l2, o = l1 ++ v :: l2 -> In u l1).
Proof.
  intros node eqb He nodes edges Hc Hn o Hk. destruct (kahn_sound eqb He nodes edges Hc Hn o Hk) as [Hp Hr].
  split; [exact Hp|]. split; [exact Hr|]. intros u v Hpath. now apply (respects_paths edges o Hr).
Qed.

Theorem C09_kahn_refuses_cycles :
  forall (node : Type) (eqb : node -> node -> bool), (forall a b, eqb a b = true <-> a = b) ->
  forall (nodes : list node) (edges : list (node * node)),
    (forall u v, In (u, v) edges -> In u nodes /\ In v nodes) -> NoDup nodes ->
  forall u, path edges u u -> kahn eqb nodes edges = Rejected EResource.
Proof. exact @kahn_refuses_any_cycle. Qed.

Theorem C09_kahn_complete :
  forall (node : Type) (eqb : node -> node -> bool), (forall a b, eqb a b = true <-> a = b) ->
  forall (nodes : list node) (edges : list (node * node)),
    (forall u v, In (u, v) edges -> In u nodes /\ In v nodes) -> NoDup nodes ->
  (forall u, ~ path edges u u) -> exists o, kahn eqb nodes edges = Ok o.
Proof. exact @kahn_complete. Qed.

Theorem C09_kahn_never_out_of_fuel :
  forall (node : Type) (eqb : node -> node -> bool), (forall a b, eqb a b = true <-> a = b) ->
  forall (nodes : list node) (edges : list (node * node)),
    (forall u v, In (u, v) edges -> In u nodes /\ In v nodes) -> NoDup nodes ->
  kahn eqb nodes edges <> OutOfFuel.
Proof. exact @kahn_never_out_of_fuel. Qed.

(* ---------------------------------------------------------------------------------------------------------------- *)
(* the order of the initializers                                                                                    *)
(* ---------------------------------------------------------------------------------------------------------------- *)
(* whenever an order is produced, every registered initializer is in it exactly once and runs after the creators of
   every column it requires - directly, through value pipelines (their sources and all their modifiers, recursively,
   pipelines used as sources of pipelines included) and through randomness streams (the CRN key columns) *)
Theorem C09_order_respects_requirements :
  forall kc ds o, init_order kc ds = Ok o ->
    Permutation o (registered_inits ds) /\
    forall comp creates rc rv rs c j,
      In (DInit comp creates rc rv rs) ds -> init_req kc ds creates rc rv rs c -> In j (creators ds c) ->
      exists l1 l2, o = l1 ++ comp :: l2 /\ In j l1.
Proof. exact order_respects. Qed.

(* ... whatever order the declarations (hence the components) were supplied in *)
Theorem C09_order_invariant_under_supply_order :
  forall kc ds ds' o', Permutation ds ds' -> init_order kc ds' = Ok o' -> order_ok kc ds o'.
Proof. exact order_invariant_under_supply_order. Qed.

(* ---------------------------------------------------------------------------------------------------------------- *)
(* ... or not at all                                                                                                *)
(* ---------------------------------------------------------------------------------------------------------------- *)
(* two initializers of one component / for one column, two sources of one pipeline, one stream requested twice, two
   direct registrations of one resource: wherever the two calls stand among the others, no order is produced *)
Theorem C09_refusal_duplicates :
  forall kc l1 d1 l2 d2 l3, conflict d1 d2 -> exists e, init_order kc (l1 ++ d1 :: l2 ++ d2 :: l3) = Rejected e.
Proof. exact duplicates_refused. Qed.

(* in whatever is accepted, every resource name has exactly one producer *)
Theorem C09_accepted_one_producer :
  forall kc ds gs, build kc ds = Ok gs -> NoDup (flat_map g_names gs).
Proof. exact accepted_one_producer. Qed.

(* a cycle anywhere in the resource graph (among pipelines only, self-dependency, ...) is refused with ResourceError *)
Theorem C09_refusal_cycle :
  forall kc ds gs u, build kc ds = Ok gs -> path (edges_of gs) u u -> init_order kc ds = Rejected EResource.
Proof. exact cycle_refused. Qed.

(* a cycle among the initializer declarations, each step of which may go through columns, values, modifiers, streams *)
Theorem C09_refusal_initializer_cycle :
  forall kc ds d, clos_trans decl (dep_on kc ds) d d -> exists e, init_order kc ds = Rejected e.
Proof. exact init_cycle_refused. Qed.

(* a refusal is one of the four error classes the code raises; the model's fuel is never exhausted *)
Theorem C09_refusal_classes :
  forall kc ds, init_order kc ds <> OutOfFuel /\
    forall e, init_order kc ds = Rejected e -> e = EPopulation \/ e = EDynamicValue \/ e = ERandomness \/ e = EResource.
Proof. intros kc ds. split; [apply init_order_fuel|apply init_order_error]. Qed.

(* no false refusal: once the registrations are accepted, a refusal means there IS a cycle *)
Theorem C09_refused_iff_cycle :
  forall kc ds gs, build kc ds = Ok gs ->
    ((exists e, init_order kc ds = Rejected e) <-> exists u, path (edges_of gs) u u).
Proof. exact refused_iff_cycle. Qed.

(* an unmet requirement (a dependency nobody produces) only warns: dropping it changes neither the nodes, nor the
   edges, nor the outcome of the sort; the edges are exactly the known dependencies *)
Theorem C09_unmet_only_warn :
  forall gs1 n p deps1 d deps2 gs2,
    let gs  := gs1 ++ mkgroup n p (deps1 ++ d :: deps2) :: gs2 in
    let gs' := gs1 ++ mkgroup n p (deps1 ++ deps2) :: gs2 in
    owner gs d = None ->
    nodes_of gs = nodes_of gs' /\ edges_of gs = edges_of gs' /\ sort_groups gs = sort_groups gs'.
Proof. exact unmet_only_warn. Qed.

Theorem C09_edges_characterised :
  forall gs u v, In (u, v) (edges_of gs) <->
    exists g d, In g gs /\ In d (g_deps g) /\ owner gs d = Some u /\ v = key g.
Proof. exact edges_characterised. Qed.

(* ---------------------------------------------------------------------------------------------------------------- *)
(* the checker the correspondence runs on the OBSERVED call orders is sound for the specification                   *)
(* ---------------------------------------------------------------------------------------------------------------- *)
Theorem C09_checker_sound :
  forall kc ds o, respects kc ds o = true -> order_ok kc ds o.
Proof. exact respects_sound. Qed.

Theorem C09_correspondence_meaning :
  forall kc ds ogs oes calls o, check_case (kc, ds, ObsOk ogs oes calls) = true -> In o calls -> order_ok kc ds o.
Proof. exact check_case_observed. Qed.

Theorem C09_correspondence_meaning_order_only :
  forall kc ds calls o, check_case (kc, ds, ObsOrder calls) = true -> In o calls -> order_ok kc ds o.
Proof. exact check_case_observed_order. Qed.

(* ... and the implementation's resource graph forces the same initializer groups to precede the same initializer
   groups as the model's graph (the comparison function `same_constraints` decides exactly that) *)
Theorem C09_correspondence_constraints :
  forall kc ds ogs oes calls, check_case (kc, ds, ObsOk ogs oes calls) = true ->
  exists gs, build kc ds = Ok gs /\
    forall a b, In a (filter is_init (nodes_of gs)) -> In b (filter is_init (nodes_of gs)) ->
                (path (edges_of gs) a b <-> path oes a b).
Proof. exact check_case_constraints. Qed.

Theorem C09_reachability_exact :
  forall es u v, In v (descendants es u) <-> path es u v.
Proof. exact descendants_spec. Qed.

(* ---------------------------------------------------------------------------------------------------------------- *)
(* refusal does not depend on how nodes are named (null-group counters and modifier indices depend on the supply  *)
(* order): under ANY injective renaming of the nodes the sort refuses the renamed graph iff it refuses the original *)
(* ---------------------------------------------------------------------------------------------------------------- *)
Theorem C09_refusal_invariant_under_renaming :
  forall (node node' : Type) (f : node -> node'), (forall a b, f a = f b -> a = b) ->
  forall (eqb : node -> node -> bool) (eqb' : node' -> node' -> bool),
    (forall a b, eqb a b = true <-> a = b) -> (forall a b, eqb' a b = true <-> a = b) ->
  forall nodes edges, (forall u v, In (u, v) edges -> In u nodes /\ In v nodes) -> NoDup nodes ->
    ((exists e, kahn eqb nodes edges = Rejected e) <->
     (exists e, kahn eqb' (map f nodes) (map (fun e => (f (fst e), f (snd e))) edges) = Rejected e)).
Proof. exact @kahn_refusal_invariant_under_renaming. Qed.

(* ---------------------------------------------------------------------------------------------------------------- *)
(* asking again: the order is a function of the registrations.  However often it is requested (print the order,       *)
(* create simulants, iterate the manager) a fresh manager gives every request the answer of the first - a refusal is  *)
(* refused again, an accepted order is the same order - and a refused request changes nothing                         *)
(* ---------------------------------------------------------------------------------------------------------------- *)
Theorem C09_requests_all_equal :
  forall gs n r, In r (requests n (mkmanager gs None)) -> r = sort_groups gs.
Proof. intros gs n r H. apply (requests_all_equal n (mkmanager gs None)); [now left|exact H]. Qed.

Theorem C09_refused_request_inert :
  forall m e, snd (request m) = Rejected e -> fst (request m) = m.
Proof. exact refused_request_inert. Qed.

(* ---------------------------------------------------------------------------------------------------------------- *)
(* non-vacuity                                                                                                      *)
(* ---------------------------------------------------------------------------------------------------------------- *)
(* what every real context declares before the user's components: the population manager's `tracked`, the clock's
   step-size pipeline and its two columns *)
Definition ambient : list decl := [DInit 100 [0] [] [] []; DProducer 50 SFun [] [] []; DInit 101 [1; 2] [] [] []].
(* the F-Q shape: A sources pipeline 60 from pipeline 61 before 61's producer is registered; C requires value 60, whose
   modifier requires stream 70 (key column 14); B creates 11 (needed by 61's source) and requires 13; D creates 14, 13 *)
Definition compA := [DGetValue 61; DProducer 60 (SPipe 61) [] [] []].
Definition compB := [DProducer 61 SFun [11] [] []; DInit 2 [11] [13] [] []].
Definition compC := [DGetValue 60; DStream 70 false; DModifier 60 (UFun 1) [] [] [70]; DInit 3 [12] [] [60] []].
Definition compD := [DInit 4 [14] [] [] []; DInit 5 [13] [14] [] []].

Example ex_order_1 : init_order [14] (ambient ++ compA ++ compB ++ compC ++ compD) = Ok [100; 101; 4; 5; 2; 3].
Proof. vm_compute. reflexivity. Qed.
Example ex_order_2 : init_order [14] (ambient ++ compC ++ compD ++ compB ++ compA) = Ok [100; 101; 4; 5; 2; 3].
Proof. vm_compute. reflexivity. Qed.
(* initializer 3 requires column 11 (through value 60 -> pipeline 61 -> its source) and column 14 (through value 60 ->
   its modifier -> stream 70 -> the key column): the hypotheses of C09_order_respects_requirements are met *)
Example ex_requires_via_pipelines : init_req [14] (ambient ++ compA ++ compB ++ compC ++ compD) [12] [] [60] [] 11.
Proof.
  apply IR_val with (v := 60); [simpl; auto|].
  apply N_pipe with (d := DProducer 60 (SPipe 61) [] [] []) (p := 61) (rc := []) (rv := []) (rs := []);
    [simpl; tauto|reflexivity|].
  apply N_col with (d := DProducer 61 SFun [11] [] []) (rc := [11]) (rv := []) (rs := []); [simpl; tauto|reflexivity|simpl; auto].
Qed.
Example ex_requires_via_stream : init_req [14] (ambient ++ compA ++ compB ++ compC ++ compD) [12] [] [60] [] 14.
Proof.
  apply IR_val with (v := 60); [simpl; auto|].
  apply N_str with (d := DModifier 60 (UFun 1) [] [] [70]) (rc := []) (rv := []) (rs := [70]) (s := 70);
    [simpl; tauto|reflexivity|simpl; auto|unfold stream_declared; simpl; tauto|simpl; auto].
Qed.
(* the checker accepts another valid order and rejects an invalid one *)
Example ex_checker_accepts : respects [14] (ambient ++ compA ++ compB ++ compC ++ compD) [100; 4; 5; 101; 2; 3] = true.
Proof. vm_compute. reflexivity. Qed.
Example ex_checker_rejects : respects [14] (ambient ++ compA ++ compB ++ compC ++ compD) [100; 101; 4; 2; 5; 3] = false.
Proof. vm_compute. reflexivity. Qed.
(* a cycle initializer -> value -> modifier -> stream -> key column -> the same initializer *)
Definition cyc := ambient ++ [DInit 1 [10] [] [60] []; DProducer 60 SFun [] [] []; DModifier 60 (UFun 1) [] [] [70]; DStream 70 false].
Example ex_cycle_refused : init_order [10] cyc = Rejected EResource.
Proof. vm_compute. reflexivity. Qed.
Example ex_no_cycle_other_key : init_order [11] cyc = Ok [100; 101; 1].       (* column 11: unmet, only warns *)
Proof. vm_compute. reflexivity. Qed.
Example ex_duplicate_refused : init_order [] (ambient ++ [DInit 1 [10] [] [] []; DInit 2 [10] [] [] []]) = Rejected EPopulation.
Proof. vm_compute. reflexivity. Qed.

(* the reachability function on the example graph: column 14's group reaches initializer 3's group (12), not conversely *)
Example ex_descendants :
  match build [14] (ambient ++ compA ++ compB ++ compC ++ compD) with
  | Ok gs => (rmem (RCol 12) (descendants (edges_of gs) (RCol 14)), rmem (RCol 14) (descendants (edges_of gs) (RCol 12)))
  | _ => (false, false) end = (true, false).
Proof. vm_compute. reflexivity. Qed.

Example ex_requests_refused : match build [10] cyc with Ok gs => requests 3 (mkmanager gs None) | _ => [] end
  = [Rejected EResource; Rejected EResource; Rejected EResource].
Proof. vm_compute. reflexivity. Qed.

Print Assumptions C09_kahn_sound.
Print Assumptions C09_requests_all_equal.
Print Assumptions C09_refused_request_inert.
Print Assumptions C09_kahn_refuses_cycles.
Print Assumptions C09_kahn_complete.
Print Assumptions C09_kahn_never_out_of_fuel.
Print Assumptions C09_order_respects_requirements.
Print Assumptions C09_order_invariant_under_supply_order.
Print Assumptions C09_refusal_duplicates.
Print Assumptions C09_accepted_one_producer.
Print Assumptions C09_refusal_cycle.
Print Assumptions C09_refusal_initializer_cycle.
Print Assumptions C09_refusal_classes.
Print Assumptions C09_refused_iff_cycle.
Print Assumptions C09_unmet_only_warn.
Print Assumptions C09_edges_characterised.
Print Assumptions C09_checker_sound.
Print Assumptions C09_correspondence_meaning.
Print Assumptions C09_correspondence_meaning_order_only.
Print Assumptions C09_correspondence_constraints.
Print Assumptions C09_reachability_exact.
Print Assumptions C09_refusal_invariant_under_renaming.
