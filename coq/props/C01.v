(* C01 - Seeded runs are reproducible, whatever the process state.   PARTIAL BY DESIGN (DESIGN.md section 5 C01, section 9).

   Statements only; proofs live in theories/SimProofs.v.  What these theorems cover: the schedule (clock, global step,
   event times, event indexes, per-simulant clock table, tracked flags, row count) under the three ways of driving a
   run, for ARBITRARY component behaviour ([react], [req]); and the set-iteration-order channels that can be stated
   self-containedly.  What they do NOT cover: that the list of channels is complete, and anything about process
   state (global generators, hash seed, earlier contexts) - that is decided by the environment differential and the
   static census of harness/props/c01.py on the implementation.                                                   *)
From Viv Require Import Common Sim SimProofs.
From Coq Require Import Permutation.
Local Open Scope Z_scope.

(* One step: InteractiveContext.step() = a manual SimulationContext.step() = the step inside run() - same next state
   and same four events (time, step size, index), whatever the components do.
   (was refuted before commits 58535de7 [F-B] and a70d8de6 [F-C]; see the _needs_ lemmas below) *)
Theorem C01_driver_step_eq : forall react req s,
  step_interactive react req current s = step_manual react req current s /\
  step_manual react req current s = step_run react req current s.
Proof. exact driver_step_eq. Qed.

(* Any number of steps: final state and the whole schedule agree under the three drivers. *)
Theorem C01_driver_equiv : forall react req n s,
  steps (step_interactive react req current) n s = steps (step_manual react req current) n s /\
  steps (step_manual react req current) n s = steps (step_run react req current) n s.
Proof. exact driver_equiv. Qed.

(* run() IS n steps: exactly those taken while the clock is before the stop time, and then it stops. *)
Theorem C01_run_is_n_steps : forall f fuel s s' evs, run_loop f fuel s = Ok (s', evs) ->
  exists n, (n <= fuel)%nat /\ steps f n s = Ok (s', evs) /\ running f n s /\ E s' <= T s'.
Proof. exact run_loop_sound. Qed.

Theorem C01_n_steps_is_run : forall f n s s' evs fuel, steps f n s = Ok (s', evs) -> running f n s ->
  E s' <= T s' -> (n <= fuel)%nat -> run_loop f fuel s = Ok (s', evs).
Proof. exact run_loop_complete. Qed.

(* InteractiveContext.run() / run_until(stop_time) is the same loop as SimulationContext.run(): same final state and
   schedule for EVERY component behaviour, per-simulant clocks included.
   (was refuted before commit 98b7435f [F-AB]: the iteration count was computed once from the current global step) *)
Theorem C01_run_until_eq_run : forall react req fuel s,
  run_interactive react req current fuel s = run_loop (step_run react req current) fuel s.
Proof. exact run_until_eq_run. Qed.

(* run_for(d) is run_until(clock + d); and run_until(e), for any end time e, is exactly some number of steps of the
   common step function, stopping at the first step boundary with e <= clock *)
Theorem C01_run_for_is_run_until : forall react req d fuel s,
  run_for react req current d fuel s = run_until react req current (T s + d) fuel s.
Proof. exact run_for_is_run_until. Qed.
Theorem C01_run_until_is_n_steps : forall react req e fuel s s' evs,
  run_until react req current e fuel s = Ok (s', evs) ->
  exists n, (n <= fuel)%nat /\ steps (step_interactive react req current) n s = Ok (s', evs) /\ e <= T s'.
Proof. intros react req e. exact (loop_until_sound (step_interactive react req current) e). Qed.

(* the pre-98b7435f run_until (kept as run_until_old in Sim.v) really differed from run() with per-simulant clocks *)
Theorem C01_run_until_needs_FAB_fix :
  exists react req s,
    res_T (run_loop (step_run react req current) 10 s) = Some 4 /\
    res_T (run_interactive_old react req current s) = Some 5 /\
    res_events (run_loop (step_run react req current) 10 s) = Some 12%nat /\
    res_events (run_interactive_old react req current s) = Some 16%nat.
Proof. exact run_until_old_variable_step_differs. Qed.

(* ---- tracked / untracked bookkeeping, initialisation, the whole life of a run ---- *)
(* The engine builds every event index (and the clock update) from the WHOLE table - untracked simulants included -
   whatever the class of the context, although the two classes' default get_population differ. *)
Theorem C01_engine_population_is_full : forall c s, pop_index current c s = labels (rows s).
Proof. exact pop_index_full. Qed.
Theorem C01_default_population_differs_by_class :
  exists s, get_population Plain None s <> get_population Interactive None s.
Proof. exact default_population_differs. Qed.
(* untracking removes a simulant from no event index *)
Theorem C01_untracked_stay_in_event_index : forall c s ls t,
  active_at (untrack s ls) (pop_index current c (untrack s ls)) t = active_at s (pop_index current c s) t.
Proof. exact untracked_stay_in_index. Qed.
(* initialize_simulants does the same under both context classes (was refuted before a70d8de6) *)
Theorem C01_initialize_class_irrelevant : forall req n s,
  initialize req current Interactive n s = initialize req current Plain n s.
Proof. intros. apply initialize_class. reflexivity. Qed.
Theorem C01_initialize_needs_FC_fix :
  exists req s, initialize req before_FC Plain 1 s <> initialize req before_FC Interactive 1 s.
Proof. exact initialize_class_refuted_before_FC. Qed.
(* InteractiveContext.setup + run()  =  initialize_simulants + SimulationContext.run(): same final state, same schedule *)
Theorem C01_whole_run_equiv : forall react req n fuel s,
  match initialize req current Interactive n s with
  | Ok s0 => run_interactive react req current fuel s0 | Rejected e => Rejected e | OutOfFuel => OutOfFuel end
  = match initialize req current Plain n s with
    | Ok s0 => run_loop (step_run react req current) fuel s0 | Rejected e => Rejected e | OutOfFuel => OutOfFuel end.
Proof. exact whole_run_equiv. Qed.

(* The two repaired defects really were violations of step equality (the theorem is breakable). *)
Theorem C01_step_eq_needs_FB_fix :
  exists react req s, step_interactive react req before_FB s <> step_manual react req before_FB s.
Proof. exact step_eq_refuted_before_FB. Qed.
Theorem C01_step_eq_needs_FC_fix :
  exists react req s, step_interactive react req before_FC s <> step_manual react req before_FC s.
Proof. exact step_eq_refuted_before_FC. Qed.

(* The number of contexts created earlier in the process determines the context's NAME only: in the model the name is
   carried along and read by nothing, so the run (final state and schedule) is the same whatever was created before.
   (Trivial by construction - its content is that Sim.v needed no such input to match the observed schedules.) *)
Theorem C01_name_only : forall react req n created1 created2 s,
  outcome (ctx_steps react req n (new_context created1 s)) = outcome (ctx_steps react req n (new_context created2 s)).
Proof. exact name_only. Qed.

(* ---- set-iteration-order channels ---- *)
(* population_view.update, steady state: verdict and resulting table are the same for every iteration order of
   set(update) & set(table). *)
Theorem C01_update_order_irrelevant : forall ok newcol o1 o2 t,
  Permutation o1 o2 -> (forall c, In c o1 -> In c (map fst t)) ->
  update_cols ok newcol o1 t = update_cols ok newcol o2 t.
Proof. exact update_cols_perm. Qed.

(* columns added in set order (initial creation; ResultsManager._prepare_population): the same map name -> column *)
Theorem C01_new_column_order_irrelevant : forall (data : Z -> list Z) o1 o2 (t : table),
  Permutation o1 o2 -> forall k, zassoc k (add_cols data o1 t) = zassoc k (add_cols data o2 t).
Proof. exact add_cols_map_perm. Qed.

(* tuple(sorted(list(set))) does not depend on the set's iteration order; it is the sorted arrangement of the set *)
Theorem C01_stratification_order_irrelevant : forall o1 o2,
  NoDup o1 -> NoDup o2 -> (forall x, In x o1 <-> In x o2) -> strat_tuple o1 = strat_tuple o2.
Proof. exact strat_tuple_perm. Qed.
Theorem C01_stratification_tuple_sorted : forall o,
  Sorted.Sorted Z.le (strat_tuple o) /\ Permutation (strat_tuple o) o.
Proof. intro o. split; [apply isort_sorted | apply isort_perm]. Qed.

(* non-vacuity *)
Example C01_three_drivers_agree_example :
  steps (step_interactive react_birth req_23 current) 4 wit_FB = steps (step_run react_birth req_23 current) 4 wit_FB /\
  res_T (steps (step_run react_birth req_23 current) 4 wit_FB) = Some 5 /\
  res_rows (steps (step_run react_birth req_23 current) 4 wit_FB) = Some 4%nat /\
  res_events (steps (step_run react_birth req_23 current) 4 wit_FB) = Some 16%nat.
Proof. exact three_drivers_agree. Qed.
Example C01_update_example :
  update_cols (fun _ => true) (fun c old => map (Z.add c) old) [2; 1] [(1, [10; 20]); (2, [30]); (3, [7])]
  = Ok [(1, [11; 21]); (2, [32]); (3, [7])] /\
  update_cols (fun c => negb (c =? 2)) (fun c old => old) [2; 1] [(1, [10]); (2, [30])] = Rejected EPopulation /\
  strat_tuple [3; 1; 2] = [1; 2; 3].
Proof. vm_compute. repeat split; reflexivity. Qed.

Print Assumptions C01_driver_step_eq.
Print Assumptions C01_driver_equiv.
Print Assumptions C01_run_is_n_steps.
Print Assumptions C01_n_steps_is_run.
Print Assumptions C01_run_until_eq_run.
Print Assumptions C01_run_for_is_run_until.
Print Assumptions C01_run_until_is_n_steps.
Print Assumptions C01_run_until_needs_FAB_fix.
Print Assumptions C01_engine_population_is_full.
Print Assumptions C01_default_population_differs_by_class.
Print Assumptions C01_untracked_stay_in_event_index.
Print Assumptions C01_initialize_class_irrelevant.
Print Assumptions C01_initialize_needs_FC_fix.
Print Assumptions C01_whole_run_equiv.
Print Assumptions C01_step_eq_needs_FB_fix.
Print Assumptions C01_step_eq_needs_FC_fix.
Print Assumptions C01_name_only.
Print Assumptions C01_update_order_irrelevant.
Print Assumptions C01_new_column_order_irrelevant.
Print Assumptions C01_stratification_order_irrelevant.
Print Assumptions C01_stratification_tuple_sorted.
