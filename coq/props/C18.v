(* C18 - Resuming from a backup continues the same simulation.   PARTIAL BY DESIGN (DESIGN.md section 5 C18, section 9).

   These are THIN theorems: their content is that the model's step function reads nothing but [sim_state] (no counter of
   earlier draws, no object identity, no process global), so stopping after k steps and continuing from the state
   reached - or from any faithful encoding of it - is the uninterrupted run.  That dill IS a faithful encoding of a
   real SimulationContext (closures over the clock, re-bound constrained methods, cached resource graphs, the
   RESIDUAL_CHOICE sentinel, component state) cannot be proved here; it is decided by the exhaustive
   interruption-point differential of harness/props/c18.py on the implementation.                                 *)
From Viv Require Import Common Sim SimProofs.
Local Open Scope Z_scope.

(* run n (run k s) = run (k+n) s : state and schedule (the events of the first k steps followed by the rest) *)
Theorem C18_resume : forall f k n s sk e1, steps f k s = Ok (sk, e1) ->
  steps f (k + n) s = prepend e1 (steps f n sk).
Proof. exact steps_add. Qed.

(* ... through any codec with dec (enc s) = s *)
Theorem C18_resume_codec : forall (B : Type) (enc : sim_state -> B) (dec : B -> sim_state),
  (forall s, dec (enc s) = s) ->
  forall f k n s sk e1, steps f k s = Ok (sk, e1) ->
  prepend e1 (steps f n (dec (enc sk))) = steps f (k + n) s.
Proof. exact resume_codec. Qed.

(* interrupt the run() loop at ANY step boundary k it passes through, restore, let the loop run to the end:
   the same final state and the same schedule as the uninterrupted loop *)
Theorem C18_resume_run_to_end : forall f k s sk e1 fuel s' e2,
  steps f k s = Ok (sk, e1) -> running f k s -> run_loop f fuel sk = Ok (s', e2) ->
  run_loop f (k + fuel) s = Ok (s', e1 ++ e2).
Proof. exact resume_run_to_end. Qed.

(* ... and the same when the restored context is finished through InteractiveContext.run() / run_until(stop) *)
Theorem C18_resume_run_interactive : forall react req k s sk e1 fuel s' e2,
  steps (step_run react req current) k s = Ok (sk, e1) -> running (step_run react req current) k s ->
  run_interactive react req current fuel sk = Ok (s', e2) ->
  run_loop (step_run react req current) (k + fuel) s = Ok (s', e1 ++ e2).
Proof.
  intros react req k s sk e1 fuel s' e2 Hk Hrun Hi. rewrite run_until_eq_run in Hi.
  eapply resume_run_to_end; eauto.
Qed.

(* non-vacuity: interrupt a 2-simulant run with a birth after 2 of its steps *)
Definition ex_f := step_run react_birth req_23 current.
Definition ex_mid : sim_state :=
  match steps ex_f 2 wit_FB with Ok (sk, _) => sk | _ => wit_FB end.
Example C18_resume_example :
  res_T (steps ex_f 2 wit_FB) = Some 3 /\ res_rows (steps ex_f 2 wit_FB) = Some 4%nat /\
  running ex_f 2 wit_FB /\
  res_T (run_loop ex_f 20 ex_mid) = Some 10 /\
  run_loop ex_f 22 wit_FB = prepend (match steps ex_f 2 wit_FB with Ok (_, e) => e | _ => [] end) (run_loop ex_f 20 ex_mid).
Proof. vm_compute. repeat split; reflexivity. Qed.

Print Assumptions C18_resume.
Print Assumptions C18_resume_codec.
Print Assumptions C18_resume_run_to_end.
Print Assumptions C18_resume_run_interactive.
