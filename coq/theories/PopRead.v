(* C12 - A view read returns exactly the requested, filtered rows and columns.

   Self-contained executable model of the READ side of the population views of /repo/src (vivarium 3.0.10 + the
   `fix:` commits; in particular 394c1d50 (F-P): the default `tracked == True` filter is applied to the WHOLE user
   query).  Transcribed from

     population/manager.py          PopulationManager._get_view   (lines 248-262)    -> mk_view
     population/population_view.py  PopulationView.columns        (lines 73-84)      -> view_columns
                                    PopulationView.subview        (lines 86-124)     -> subview
                                    PopulationView.get            (lines 126-178)    -> get
     pandas (modelled, validated by the correspondence): DataFrame.loc[labels] = rows by label in request order,
     repeated labels repeat the row, a missing label raises KeyError; DataFrame.query = row filter that keeps order
     (NaN compares false except under !=); an unknown name in a query raises (UndefinedVariableError);
     loc[:, columns] = projection in the order given.

   Identifiers are Z: column ids (0 = "tracked"), labels, string ids.  A float cell `Fv z` denotes z/4 (the
   correspondence only uses quarter-valued floats), so every comparison is exact integer arithmetic.
   Writes (`do_wr`) are the minimal model of a SUCCESSFUL PopulationView.update needed to state the history part of
   the property (a read returns the CURRENT cells); the update protocol itself is C11's subject (Population.v) and is
   deliberately not imported here.                                                                                   *)
From Viv Require Import Common.
Local Open Scope Z_scope.

Definition cid := Z.
Definition TRACKED : cid := 0.

(* ---------------------------------------------------------------------------------------------------------------- *)
(* cells, tables                                                                                                    *)
(* ---------------------------------------------------------------------------------------------------------------- *)
Inductive cell : Set := Null | Bv (b : bool) | Iv (z : Z) | Fv (z : Z) | Sv (z : Z).

Definition cell_eqb (a b : cell) : bool :=
  match a, b with
  | Null, Null => true
  | Bv x, Bv y => Bool.eqb x y
  | Iv x, Iv y | Fv x, Fv y | Sv x, Sv y => x =? y
  | _, _ => false
  end.

Definition cells_eqb := list_eqb cell_eqb.

(* dtype tags: 0 bool | 1 int64 | 2 float64 | 3 str | 4 object (a reindexed bool column: True/False/NaN) *)
Definition dtype := Z.

Definition row := list cell.                 (* aligned with the table's column list; short rows read as Null *)
Record table : Set := mkT { tcols : list (cid * dtype); trows : list (Z * row) }.   (* rows in label order *)

Definition colnames (t : table) : list cid := map fst (tcols t).

(* the cell of column c in a row laid out along cs (first column named c; Null when absent) *)
Fixpoint cell_of (cs : list cid) (r : row) (c : cid) : cell :=
  match cs, r with
  | k :: cs', v :: r' => if k =? c then v else cell_of cs' r' c
  | _, _ => Null
  end.

Definition cell_at (t : table) (l : Z) (c : cid) : option cell :=
  match zassoc l (trows t) with
  | Some r => Some (cell_of (colnames t) r c)
  | None => None
  end.

Definition is_nil {A} (l : list A) : bool := match l with [] => true | _ => false end.
Definition subset (a b : list Z) : bool := forallb (fun x => zmem x b) a.

(* ---------------------------------------------------------------------------------------------------------------- *)
(* the query language (what the generated query strings parse to under pandas' DataFrame.query)                     *)
(* ---------------------------------------------------------------------------------------------------------------- *)
Inductive cmp : Set := CEq | CNe | CLt | CLe | CGt | CGe.

(* arithmetic terms: `age + 1`, `age * 2`, `bmi - age` *)
Inductive term : Set :=
  | TCol (c : cid)
  | TConst (k : cell)
  | TAdd (a b : term)
  | TSub (a b : term)
  | TMul (a b : term).

Inductive qexpr : Set :=
  | QTrue                                   (* the empty query string *)
  | QCol (c : cid)                          (* a bare boolean column:  `tracked` *)
  | QCmp (c : cid) (o : cmp) (k : cell)     (* column OP constant:     `age >= 3`, `sex == 'x'`, `tracked == False` *)
  | QCmpC (c : cid) (o : cmp) (c' : cid)    (* column OP column:       `age > kids`, `sex != note` *)
  | QIn (c : cid) (ks : list cell)          (* membership:             `age in [1, 3]`, `sex == ['x', 'y']` *)
  | QCmpT (a : term) (o : cmp) (b : term)   (* arithmetic comparison:  `age + 1 > 3`, `age * 2 == kids` *)
  | QAnd (a b : qexpr)                      (* `and`, `&` *)
  | QOr (a b : qexpr)                       (* `or`, `|` *)
  | QNot (a : qexpr).                       (* `not`, `~` *)

(* numeric value in quarters; numpy compares bools as 0/1 *)
Definition num (v : cell) : option Z :=
  match v with
  | Iv z => Some (4 * z)
  | Fv z => Some z
  | Bv b => Some (if b then 4 else 0)
  | _ => None
  end.

Definition cmp_z (o : cmp) (x y : Z) : bool :=
  match o with
  | CEq => x =? y | CNe => negb (x =? y) | CLt => x <? y | CLe => x <=? y | CGt => y <? x | CGe => y <=? x
  end.

(* NaN / None: every comparison false except `!=`; strings compare by their ids (the correspondence numbers the
   strings in Python's string order, so that `<` on ids is `<` on strings) *)
Definition eval_cmp (o : cmp) (v k : cell) : bool :=
  match num v, num k with
  | Some x, Some y => cmp_z o x y
  | _, _ =>
      match v, k, o with
      | Sv a, Sv b, _ => cmp_z o a b
      | _, _, CNe => true
      | _, _, _ => false
      end
  end.

(* exact value of a numeric cell / term as a fraction (numerator, positive denominator); None = NaN or not a number *)
Definition frac (v : cell) : option (Z * Z) :=
  match v with
  | Iv z => Some (z, 1)
  | Fv z => Some (z, 4)
  | Bv b => Some (if b then 1 else 0, 1)
  | _ => None
  end.

Fixpoint tval (cs : list cid) (r : row) (t : term) : option (Z * Z) :=
  match t with
  | TCol c => frac (cell_of cs r c)
  | TConst k => frac k
  | TAdd a b => match tval cs r a, tval cs r b with
                | Some (n1, d1), Some (n2, d2) => Some (n1 * d2 + n2 * d1, d1 * d2) | _, _ => None end
  | TSub a b => match tval cs r a, tval cs r b with
                | Some (n1, d1), Some (n2, d2) => Some (n1 * d2 - n2 * d1, d1 * d2) | _, _ => None end
  | TMul a b => match tval cs r a, tval cs r b with
                | Some (n1, d1), Some (n2, d2) => Some (n1 * n2, d1 * d2) | _, _ => None end
  end.

Definition eval_cmp_frac (o : cmp) (x y : option (Z * Z)) : bool :=
  match x, y with
  | Some (n1, d1), Some (n2, d2) => cmp_z o (n1 * d2) (n2 * d1)
  | _, _ => match o with CNe => true | _ => false end
  end.

Fixpoint term_cols (t : term) : list cid :=
  match t with
  | TCol c => [c]
  | TConst _ => []
  | TAdd a b | TSub a b | TMul a b => term_cols a ++ term_cols b
  end.

Fixpoint eval (cs : list cid) (r : row) (q : qexpr) : bool :=
  match q with
  | QTrue => true
  | QCol c => match cell_of cs r c with Bv b => b | _ => false end
  | QCmp c o k => eval_cmp o (cell_of cs r c) k
  | QCmpC c o c' => eval_cmp o (cell_of cs r c) (cell_of cs r c')
  | QIn c ks => existsb (eval_cmp CEq (cell_of cs r c)) ks
  | QCmpT a o b => eval_cmp_frac o (tval cs r a) (tval cs r b)
  | QAnd a b => eval cs r a && eval cs r b
  | QOr a b => eval cs r a || eval cs r b
  | QNot a => negb (eval cs r a)
  end.

(* columns a query names (an unknown one makes pandas raise) *)
Fixpoint qcols (q : qexpr) : list cid :=
  match q with
  | QTrue => []
  | QCol c => [c]
  | QCmp c _ _ => [c]
  | QCmpC c _ c' => [c; c']
  | QIn c _ => [c]
  | QCmpT a _ b => term_cols a ++ term_cols b
  | QAnd a b | QOr a b => qcols a ++ qcols b
  | QNot a => qcols a
  end.

(* manager.py:253-263 (as repaired by 8679fa8f, F-W): comments are dropped, then `\btracked\b` is searched outside
   string constants - i.e. on the parsed expression: some atom names the tracked column.  Longer names (tracked_by),
   string constants ('tracked') and comments (# tracked == True) do NOT count; the correspondence generates all three.
   (Before 8679fa8f the test was `"tracked" not in query` on the raw text and all three escaped the default filter.) *)
Definition mentions_tracked (q : qexpr) : bool := zmem TRACKED (qcols q).

Definition tracked_true : qexpr := QCmp TRACKED CEq (Bv true).

(* manager.py:253-268 (as repaired by 394c1d50): empty (or comment-only) query -> the default alone; otherwise the user's query -
   parenthesised when it has a top-level `or` - `and tracked == True` *)
Definition with_default (q : qexpr) : qexpr :=
  match q with
  | QTrue => tracked_true
  | _ => QAnd q tracked_true
  end.

(* ---------------------------------------------------------------------------------------------------------------- *)
(* views                                                                                                            *)
(* ---------------------------------------------------------------------------------------------------------------- *)
Record view : Set := mkV { vcols : list cid (* [] = every column of the table *); vquery : qexpr }.

(* manager.py:248-262 _get_view *)
Definition needs_default (cols : list cid) (q : qexpr) : bool :=
  negb (is_nil cols) && negb (zmem TRACKED cols) && negb (mentions_tracked q).

Definition mk_view (cols : list cid) (q : qexpr) : view :=
  mkV cols (if needs_default cols q then with_default q else q).

(* population_view.py:73-84 *)
Definition view_columns (t : table) (v : view) : list cid :=
  if is_nil (vcols v) then colnames t else vcols v.

(* population_view.py:114-124: non-empty subset of the parent's columns; inherits the parent's query through
   _get_view, i.e. the default rule is applied again for the new column set *)
Definition subview (t : table) (v : view) (cols : list cid) : result view :=
  if is_nil cols || negb (subset cols (view_columns t v)) then Rejected EPopulation
  else Ok (mk_view cols (vquery v)).

(* ---------------------------------------------------------------------------------------------------------------- *)
(* get                                                                                                              *)
(* ---------------------------------------------------------------------------------------------------------------- *)
Definition frame : Set := (list cid * list (Z * row))%type.    (* columns, rows (label, cells along the columns) *)

(* DataFrame.loc[index]: by label, request order, repeats kept; a missing label -> KeyError (None) *)
Fixpoint loc (rows : list (Z * row)) (idx : list Z) : option (list (Z * row)) :=
  match idx with
  | [] => Some []
  | i :: rest =>
      match zassoc i rows, loc rows rest with
      | Some r, Some l => Some ((i, r) :: l)
      | _, _ => None
      end
  end.

Definition project (cs vc : list cid) (rows : list (Z * row)) : list (Z * row) :=
  map (fun lr => (fst lr, map (cell_of cs (snd lr)) vc)) rows.

(* population_view.py:158-178.  Error classes: KeyError and pandas' UndefinedVariableError -> EOther;
   PopulationError -> EPopulation.  Order of the checks as in the code: loc, (only for a non-empty request) the
   view's query then the extra query, then the missing-column check, then the projection. *)
Definition get (t : table) (v : view) (idx : list Z) (q : qexpr) : result frame :=
  let cs := colnames t in
  match loc (trows t) idx with
  | None => Rejected EOther
  | Some rows =>
      if negb (is_nil idx) && negb (subset (qcols (vquery v) ++ qcols q) cs) then Rejected EOther
      else
        let kept := filter (fun lr => eval cs (snd lr) q)
                      (filter (fun lr => eval cs (snd lr) (vquery v)) rows) in
        let vc := view_columns t v in
        if negb (subset vc cs) then Rejected EPopulation
        else Ok (vc, project cs vc kept)
  end.

(* manager.py:362-377 get_population(untracked): a copy of the whole table, or - when the table has a tracked column -
   of the rows whose tracked cell is True (boolean mask `pop[pop.tracked]`: order kept) *)
Definition population (t : table) (untracked : bool) : frame :=
  let cs := colnames t in
  (cs, if untracked || negb (zmem TRACKED cs) then trows t
       else filter (fun lr => eval cs (snd lr) (QCol TRACKED)) (trows t)).

(* does simulant l satisfy q on the table's current cells? (false for a label that is not in the table) *)
Definition sat (t : table) (q : qexpr) (l : Z) : bool :=
  match zassoc l (trows t) with
  | Some r => eval (colnames t) r q
  | None => false
  end.

Definition is_tracked (t : table) (l : Z) : bool := sat t tracked_true l.

(* ---------------------------------------------------------------------------------------------------------------- *)
(* successful writes (minimal: what a read must see afterwards)                                                     *)
(* ---------------------------------------------------------------------------------------------------------------- *)
Definition wr : Set := (cid * list (Z * cell))%type.     (* column, [(label, new value)] - later entries win *)

Fixpoint set_cell (cs : list cid) (r : row) (c : cid) (v : cell) : row :=
  match cs with
  | [] => r
  | k :: cs' =>
      match r with
      | x :: r' => if k =? c then v :: r' else x :: set_cell cs' r' c v
      | [] => if k =? c then [v] else Null :: set_cell cs' [] c v
      end
  end.

Definition write1 (t : table) (c : cid) (l : Z) (v : cell) : table :=
  mkT (tcols t) (map (fun lr => if fst lr =? l then (fst lr, set_cell (colnames t) (snd lr) c v) else lr) (trows t)).

Definition apply_wr (t : table) (w : wr) : table :=
  fold_left (fun t lv => write1 t (fst w) (fst lv) (snd lv)) (snd w) t.

Definition fits (d : dtype) (v : cell) : bool :=
  match v with
  | Bv _ => (d =? 0) || (d =? 4)
  | Iv _ => d =? 1
  | Fv _ => d =? 2
  | Sv _ => d =? 3
  | Null => (d =? 2) || (d =? 3) || (d =? 4)
  end.

(* the update is accepted: existing column, known simulants, values of the column's dtype *)
Definition wr_ok (t : table) (w : wr) : bool :=
  match zassoc (fst w) (tcols t) with
  | Some d => forallb (fun lv => zmem (fst lv) (map fst (trows t)) && fits d (snd lv)) (snd w)
  | None => false
  end.

(* an update either succeeds entirely or leaves the table alone (C11, as repaired by cbcd0839) *)
Definition do_wr (t : table) (w : wr) : table := if wr_ok t w then apply_wr t w else t.

Definition do_wrs (t : table) (ws : list wr) : table := fold_left do_wr ws t.

(* the value the LAST entry for label l in an update list carries *)
Fixpoint last_hit (us : list (Z * cell)) (l : Z) : option cell :=
  match us with
  | [] => None
  | (l', v) :: rest =>
      match last_hit rest l with
      | Some v' => Some v'
      | None => if l' =? l then Some v else None
      end
  end.

(* current value of (l, c) after the history ws started from t: the last successful write that addressed the cell,
   else the original cell *)
Fixpoint current (t : table) (ws : list wr) (l : Z) (c : cid) (orig : cell) : cell :=
  match ws with
  | [] => orig
  | w :: rest =>
      let now := if wr_ok t w && (fst w =? c) then
                   match last_hit (snd w) l with Some v => v | None => orig end
                 else orig in
      current t rest l c now
  end.

(* ---------------------------------------------------------------------------------------------------------------- *)
(* correspondence: histories of view creations, writes and reads on real PopulationViews                            *)
(* ---------------------------------------------------------------------------------------------------------------- *)
Inductive op : Set :=
  | OSub (parent : nat) (cols : list cid) (code : Z) (ocols : list cid)
      (* parent.subview(cols) observed: 0 = view returned (with these .columns), 1 = PopulationError, 2 = other *)
  | OWrite (w : wr)                               (* an update the implementation accepted *)
  | OPop (untracked : bool) (f : frame)          (* get_population(untracked) observed *)
  | ORead (v : nat) (idx : list Z) (q : qexpr) (code : Z) (f : frame).
      (* views[v].get(idx, q) observed: 0 = frame f, 1 = PopulationError, 2 = any other exception *)

(* a segment: the table as the implementation shows it (get_population(untracked=True)), then operations on it *)
Definition segment : Set := (table * list op)%type.
(* root views (columns, query) handed to get_view, then the segments in chronological order; views persist *)
Definition case : Set := (list (list cid * qexpr) * list segment)%type.

Definition same_set (a b : list Z) : bool := subset a b && subset b a && (length a =? length b)%nat.

(* observed frame = model frame; for a full view (no promised column order) up to the order of the columns *)
Definition frame_agree (full : bool) (m o : frame) : bool :=
  let '(mc, mrows) := m in
  let '(oc, orows) := o in
  (if full then same_set mc oc else zlist_eqb mc oc)
  && zlist_eqb (map fst mrows) (map fst orows)
  && list_eqb (fun mr or_ => cells_eqb (map (cell_of mc (snd mr)) oc) (snd or_)) mrows orows.

Definition code_of {A} (r : result A) : Z :=
  match r with Ok _ => 0 | Rejected EPopulation => 1 | _ => 2 end.

Fixpoint run_ops (t : table) (views : list (option view)) (ops : list op) : option (list (option view)) :=
  match ops with
  | [] => Some views
  | OSub p cols code oc :: rest =>
      match nth p views None with
      | None => None
      | Some v =>
          match subview t v cols with
          | Ok v' => if (code =? 0) && zlist_eqb (view_columns t v') oc
                     then run_ops t (views ++ [Some v']) rest else None
          | r => if code =? code_of r then run_ops t (views ++ [None]) rest else None
          end
      end
  | OWrite w :: rest => if wr_ok t w then run_ops (apply_wr t w) views rest else None
  | OPop u f :: rest => if frame_agree true (population t u) f then run_ops t views rest else None
  | ORead k idx q code f :: rest =>
      match nth k views None with
      | None => None
      | Some v =>
          match get t v idx q with
          | Ok f' => if (code =? 0) && frame_agree (is_nil (vcols v)) f' f then run_ops t views rest else None
          | r => if code =? code_of r then run_ops t views rest else None
          end
      end
  end.

Fixpoint run_segments (views : list (option view)) (segs : list segment) : bool :=
  match segs with
  | [] => true
  | (t, ops) :: rest =>
      match run_ops t views ops with
      | Some views' => run_segments views' rest
      | None => false
      end
  end.

Definition check_hist (c : case) : bool :=
  run_segments (map (fun cq => Some (mk_view (fst cq) (snd cq))) (fst c)) (snd c).

(* typed constructors for the generated case files (so that `[]` needs no annotation there) *)
Definition mk_frame (cols : list cid) (rows : list (Z * row)) : frame := (cols, rows).
Definition mk_wr (c : cid) (us : list (Z * cell)) : wr := (c, us).
Definition mk_seg (t : table) (ops : list op) : segment := (t, ops).
Definition mk_case (roots : list (list cid * qexpr)) (segs : list segment) : case := (roots, segs).
