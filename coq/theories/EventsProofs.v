(* Lemmas about Viv.Events and Viv.Stepper (DESIGN.md C08). *)
From Coq Require Import Permutation Sorted Arith.
From Viv Require Import Common Events Stepper.
Local Open Scope Z_scope.

(* ------------------------------------------------------------------------------------------------------------
   buckets
   ------------------------------------------------------------------------------------------------------------ *)
Lemma add_at_length n l b : length (add_at n l b) = length b.
Proof. revert n. induction b as [|x r IH]; intros [|n]; simpl; auto. Qed.

Lemma add_at_nth n l b : (n < length b)%nat ->
  forall q, nth q (add_at n l b) [] = if Nat.eqb q n then nth q b [] ++ [l] else nth q b [].
Proof.
  revert n. induction b as [|x r IH]; intros n Hn q; simpl in *; [lia|].
  destruct n as [|n]; destruct q as [|q]; simpl; auto. apply IH. lia.
Qed.

Lemma bucket_index_lt p n : bucket_index p = Some n -> (n < nbuckets)%nat.
Proof.
  unfold bucket_index, nbuckets. intros H.
  destruct ((0 <=? p) && (p <? 10)) eqn:E1.
  - inversion H; subst. apply andb_true_iff in E1 as [A B]. apply Z.leb_le in A. apply Z.ltb_lt in B. lia.
  - destruct ((-10 <=? p) && (p <? 0)) eqn:E2; [|discriminate].
    inversion H; subst. apply andb_true_iff in E2 as [A B]. apply Z.leb_le in A. apply Z.ltb_lt in B. lia.
Qed.

(* priorities 0..9 are their own bucket *)
Lemma bucket_index_priority p : 0 <= p < 10 -> bucket_index p = Some (Z.to_nat p).
Proof.
  intros [A B]. unfold bucket_index.
  assert (E : (0 <=? p) && (p <? 10) = true).
  { apply andb_true_iff. split; [now apply Z.leb_le | now apply Z.ltb_lt]. }
  now rewrite E.
Qed.

(* the manager state after a registration sequence: every channel has 10 buckets and bucket n holds, in order, the
   listeners whose registration landed there *)
Definition bspec (m : chans) (rs : list reg) : Prop :=
  forall c, length (m c) = nbuckets /\ forall n, (n < nbuckets)%nat -> nth n (m c) [] = of_bucket c n rs.

Lemma bspec_empty : bspec no_listeners [].
Proof.
  intros c. split; [reflexivity|]. intros n Hn. unfold no_listeners, empty_buckets, nbuckets in *.
  do 10 (destruct n as [|n]; [reflexivity|]). lia.
Qed.

Lemma of_bucket_app c n a b : of_bucket c n (a ++ b) = of_bucket c n a ++ of_bucket c n b.
Proof. unfold of_bucket. now rewrite filter_app, map_app. Qed.

Lemma lands_eq c n c' p l :
  lands c n (c', p, l) = (c' =? c) && match bucket_index p with Some k => Nat.eqb k n | None => false end.
Proof. reflexivity. Qed.

Lemma of_bucket_single c n r : of_bucket c n [r] = if lands c n r then [snd r] else [].
Proof. unfold of_bucket. cbn [filter]. destruct (lands c n r); reflexivity. Qed.

Lemma register_spec m rs r : bspec m rs ->
  match register m r with
  | Ok m' => bspec m' (rs ++ [r])
  | Rejected _ => bspec m (rs ++ [r])
  | OutOfFuel => False
  end.
Proof.
  intros H. destruct r as [[c p] l]. unfold register. destruct (bucket_index p) as [k|] eqn:Ek.
  - pose proof (bucket_index_lt _ _ Ek) as Hk. intros c'. destruct (H c') as [Hl Hn].
    destruct (Z.eqb_spec c' c) as [->|Hne].
    + split; [now rewrite add_at_length|]. intros n Hlt. rewrite add_at_nth by (rewrite Hl; exact Hk).
      rewrite of_bucket_app, Hn, of_bucket_single, lands_eq, Ek, Z.eqb_refl by assumption. cbn [andb snd].
      rewrite (Nat.eqb_sym k n). destruct (Nat.eqb n k); [reflexivity | now rewrite app_nil_r].
    + split; [assumption|]. intros n Hlt. rewrite of_bucket_app, Hn, of_bucket_single, lands_eq by assumption.
      apply Z.eqb_neq in Hne. rewrite Z.eqb_sym in Hne. rewrite Hne. cbn [andb]. now rewrite app_nil_r.
  - intros c'. destruct (H c') as [Hl Hn]. split; [assumption|]. intros n Hlt.
    rewrite of_bucket_app, Hn, of_bucket_single, lands_eq, Ek, andb_false_r by assumption. now rewrite app_nil_r.
Qed.

Lemma register_all_spec rs : forall m rs0, bspec m rs0 -> bspec (register_all m rs) (rs0 ++ rs).
Proof.
  induction rs as [|r rs IH]; intros m rs0 H; simpl.
  - now rewrite app_nil_r.
  - pose proof (register_spec m rs0 r H) as Hr.
    replace (rs0 ++ r :: rs) with ((rs0 ++ [r]) ++ rs) by (now rewrite <- app_assoc).
    destruct (register m r); [now apply IH | now apply IH | contradiction].
Qed.

Lemma registered_spec rs : bspec (register_all no_listeners rs) rs.
Proof. apply (register_all_spec rs no_listeners []). apply bspec_empty. Qed.

(* a registration that raises (priority outside -10..9) changes nothing *)
Lemma register_rejected_inert m c p l : bucket_index p = None -> register m (c, p, l) = Rejected EOther.
Proof. intros H. unfold register. now rewrite H. Qed.

(* ---- emit = the specification ---- *)
Lemma flat_nth_shift {A} (x : list A) r n : forall s,
  flat_map (fun q => nth q (x :: r) []) (seq (S s) n) = flat_map (fun q => nth q r []) (seq s n).
Proof. induction n as [|n IH]; intros s; simpl; [reflexivity|]. now rewrite IH. Qed.

Lemma concat_nth_seq {A} (b : list (list A)) : concat b = flat_map (fun q => nth q b []) (seq 0 (length b)).
Proof.
  induction b as [|x r IH]; [reflexivity|]. cbn [length concat seq flat_map].
  change (nth 0 (x :: r) []) with x. f_equal. rewrite flat_nth_shift. exact IH.
Qed.

Theorem emit_is_spec rs c : emit (register_all no_listeners rs) c = emit_spec c rs.
Proof.
  destruct (registered_spec rs c) as [Hl Hn]. unfold emit, emit_spec. rewrite concat_nth_seq, Hl.
  rewrite !flat_map_concat_map. f_equal. apply map_ext_in. intros q Hq. apply in_seq in Hq. apply Hn. lia.
Qed.

Lemma tag_nth_shift {A} (x : list A) r s n : forall a,
  flat_map (fun q => map (pair (s + q)%nat) (nth q (x :: r) [])) (seq (S a) n)
  = flat_map (fun q => map (pair (S s + q)%nat) (nth q r [])) (seq a n).
Proof.
  induction n as [|n IH]; intros a; [reflexivity|]. cbn [seq flat_map]. rewrite IH. f_equal.
  cbn [nth]. now rewrite Nat.add_succ_r.
Qed.

Lemma tag_from_nth b : forall s,
  tag_from s b = flat_map (fun q => map (pair (s + q)%nat) (nth q b [])) (seq 0 (length b)).
Proof.
  induction b as [|x r IH]; intros s; [reflexivity|]. cbn [tag_from length seq flat_map].
  change (nth 0 (x :: r) []) with x. rewrite Nat.add_0_r. f_equal. rewrite tag_nth_shift. apply IH.
Qed.

Theorem emit_tagged_is_spec rs c : emit_tagged (register_all no_listeners rs) c = emit_tagged_spec c rs.
Proof.
  destruct (registered_spec rs c) as [Hl Hn]. unfold emit_tagged, emit_tagged_spec. rewrite tag_from_nth, Hl.
  rewrite !flat_map_concat_map. f_equal. apply map_ext_in. intros q Hq. apply in_seq in Hq. cbn [Nat.add].
  rewrite Hn by lia. reflexivity.
Qed.

Lemma tag_from_snd b : forall s, map snd (tag_from s b) = concat b.
Proof.
  induction b as [|x r IH]; intros s; [reflexivity|]. cbn [tag_from concat]. rewrite map_app, IH, map_map. cbn [snd].
  now rewrite map_id.
Qed.

(* the tags are ghost information: forgetting them gives exactly the call sequence *)
Lemma emit_tagged_snd m c : map snd (emit_tagged m c) = emit m c.
Proof. apply tag_from_snd. Qed.

(* ---- non-decreasing priority ---- *)
Lemma tag_from_ge b : forall s, Forall (fun t => (s <= fst t)%nat) (tag_from s b).
Proof.
  induction b as [|x r IH]; intros s; [constructor|]. cbn [tag_from]. apply Forall_app. split.
  - apply Forall_forall. intros t Ht. apply in_map_iff in Ht as [l [<- _]]. cbn. lia.
  - eapply Forall_impl; [|apply (IH (S s))]. cbn. intros t Ht. lia.
Qed.

Lemma sorted_app (l1 l2 : list nat) : StronglySorted le l1 -> StronglySorted le l2 ->
  (forall a b, In a l1 -> In b l2 -> (a <= b)%nat) -> StronglySorted le (l1 ++ l2).
Proof.
  induction l1 as [|a l1 IH]; intros H1 H2 H; [assumption|]. cbn [app]. inversion H1 as [|? ? S1 F1]; subst.
  constructor.
  - apply IH; auto. intros x y Hx Hy. apply H; [now right | assumption].
  - apply Forall_app. split; [assumption|]. apply Forall_forall. intros y Hy. apply H; [now left | assumption].
Qed.

Lemma tag_from_sorted b : forall s, StronglySorted le (map fst (tag_from s b)).
Proof.
  induction b as [|x r IH]; intros s; [constructor|]. cbn [tag_from]. rewrite map_app. apply sorted_app.
  - rewrite map_map. cbn [fst]. induction x as [|y x IHx]; [constructor|]. cbn [map]. constructor; [assumption|].
    apply Forall_forall. intros z Hz. apply in_map_iff in Hz as [? [<- _]]. lia.
  - apply IH.
  - intros a b0 Ha Hb. rewrite map_map in Ha. cbn [fst] in Ha. apply in_map_iff in Ha as [? [<- _]].
    apply in_map_iff in Hb as [t [<- Ht]]. pose proof (tag_from_ge r (S s)) as F. rewrite Forall_forall in F.
    specialize (F t Ht). lia.
Qed.

Theorem emit_priority_sorted m c : StronglySorted le (map fst (emit_tagged m c)).
Proof. apply tag_from_sorted. Qed.

(* ---- registration order inside a bucket ---- *)
Lemma filter_map_pair_same {A} (n : nat) (l : list A) : filter (fun t : nat * A => Nat.eqb (fst t) n) (map (pair n) l) = map (pair n) l.
Proof. induction l as [|x l IH]; [reflexivity|]. cbn. rewrite Nat.eqb_refl. now f_equal. Qed.
Lemma filter_map_pair_other {A} (n k : nat) (l : list A) : n <> k ->
  filter (fun t : nat * A => Nat.eqb (fst t) n) (map (pair k) l) = [].
Proof.
  intros H. induction l as [|x l IH]; [reflexivity|]. cbn. destruct (Nat.eqb_spec k n); [congruence | exact IH].
Qed.

Lemma filter_tagged_spec c rs n ns : NoDup ns ->
  map snd (filter (fun t => Nat.eqb (fst t) n) (flat_map (fun k => map (pair k) (of_bucket c k rs)) ns))
  = if existsb (Nat.eqb n) ns then of_bucket c n rs else [].
Proof.
  induction ns as [|k ns IH]; intros Hnd; [reflexivity|]. inversion Hnd as [|? ? Hk Hnd']; subst.
  cbn [flat_map existsb]. rewrite filter_app, map_app, IH by assumption.
  destruct (Nat.eqb_spec n k) as [->|Hne].
  - rewrite filter_map_pair_same, map_map. cbn [snd orb]. rewrite map_id.
    assert (E : existsb (Nat.eqb k) ns = false).
    { apply not_true_is_false. intros E. apply existsb_exists in E as [x [Hx Ex]]. apply Nat.eqb_eq in Ex. now subst. }
    rewrite E. now rewrite app_nil_r.
  - rewrite filter_map_pair_other by assumption. reflexivity.
Qed.

Theorem emit_stable rs c n : (n < nbuckets)%nat ->
  map snd (filter (fun t => Nat.eqb (fst t) n) (emit_tagged (register_all no_listeners rs) c)) = of_bucket c n rs.
Proof.
  intros Hn. rewrite emit_tagged_is_spec. unfold emit_tagged_spec. rewrite filter_tagged_spec by apply seq_NoDup.
  assert (E : existsb (Nat.eqb n) (seq 0 nbuckets) = true).
  { apply existsb_exists. exists n. split; [apply in_seq; lia | apply Nat.eqb_refl]. }
  now rewrite E.
Qed.

(* ---- exactly the registered listeners, with multiplicity ---- *)
Lemma flat_map_insert {A} (f : nat -> list A) k a ns : NoDup ns -> In k ns ->
  Permutation (flat_map (fun n => if Nat.eqb n k then a :: f n else f n) ns) (a :: flat_map f ns).
Proof.
  induction ns as [|x ns IH]; intros Hnd Hin; [contradiction|]. inversion Hnd as [|? ? Hx Hnd']; subst.
  cbn [flat_map]. destruct (Nat.eqb_spec x k) as [->|Hne].
  - cbn [app]. constructor. apply Permutation_app_head.
    assert (E : flat_map (fun n => if Nat.eqb n k then a :: f n else f n) ns = flat_map f ns).
    { rewrite !flat_map_concat_map. f_equal. apply map_ext_in. intros n Hn0.
      destruct (Nat.eqb_spec n k); [subst; contradiction | reflexivity]. }
    now rewrite E.
  - destruct Hin as [->|Hin]; [contradiction|]. eapply Permutation_trans.
    + apply Permutation_app_head. apply IH; assumption.
    + apply Permutation_sym, Permutation_middle.
Qed.

Lemma lands_accepted c r : accepted_on c r = true -> exists k, (k < nbuckets)%nat /\ forall n, lands c n r = Nat.eqb k n.
Proof.
  destruct r as [[c' p] l]. unfold accepted_on, lands. destruct (c' =? c); [|discriminate]. cbn [andb].
  destruct (bucket_index p) as [k|] eqn:E; [|discriminate]. intros _. exists k. split; [eapply bucket_index_lt; eassumption | reflexivity].
Qed.
Lemma lands_not_accepted c r : accepted_on c r = false -> forall n, lands c n r = false.
Proof.
  destruct r as [[c' p] l]. unfold accepted_on, lands. destruct (c' =? c); [|reflexivity]. cbn [andb].
  destruct (bucket_index p); [discriminate | reflexivity].
Qed.

Theorem emit_spec_permutation c rs : Permutation (emit_spec c rs) (map snd (filter (accepted_on c) rs)).
Proof.
  induction rs as [|r rs IH]; cbn [filter].
  - unfold emit_spec, of_bucket. cbn [filter map]. induction (seq 0 nbuckets); [constructor | assumption].
  - destruct (accepted_on c r) eqn:E.
    + destruct (lands_accepted c r E) as [k [Hk Hl]]. cbn [map].
      eapply Permutation_trans; [|apply perm_skip, IH]. unfold emit_spec.
      assert (X : flat_map (fun n => of_bucket c n (r :: rs)) (seq 0 nbuckets)
                  = flat_map (fun n => if Nat.eqb n k then snd r :: of_bucket c n rs else of_bucket c n rs) (seq 0 nbuckets)).
      { apply flat_map_ext. intros n. unfold of_bucket. cbn [filter]. rewrite Hl, (Nat.eqb_sym k n).
        destruct (Nat.eqb n k); reflexivity. }
      rewrite X. apply flat_map_insert; [apply seq_NoDup | apply in_seq; lia].
    + assert (X : emit_spec c (r :: rs) = emit_spec c rs).
      { unfold emit_spec. apply flat_map_ext. intros n. unfold of_bucket. cbn [filter].
        now rewrite (lands_not_accepted c r E n). }
      rewrite X. exact IH.
Qed.

(* the headline statement about one emission, for EVERY registration sequence *)
Theorem emit_order rs c :
  let m := register_all no_listeners rs in
  Permutation (emit m c) (map snd (filter (accepted_on c) rs))                   (* exactly the registered ones, as often *)
  /\ StronglySorted le (map fst (emit_tagged m c))                                 (* non-decreasing priority *)
  /\ map snd (emit_tagged m c) = emit m c
  /\ (forall n, (n < nbuckets)%nat ->                                             (* registration order within a priority *)
        map snd (filter (fun t => Nat.eqb (fst t) n) (emit_tagged m c)) = of_bucket c n rs).
Proof.
  cbv zeta. repeat split.
  - rewrite emit_is_spec. apply emit_spec_permutation.
  - apply emit_priority_sorted.
  - apply emit_tagged_snd.
  - intros n Hn. now apply emit_stable.
Qed.

(* ------------------------------------------------------------------------------------------------------------
   the stepper
   ------------------------------------------------------------------------------------------------------------ *)
Definition step_tcalls (m : chans) (t st : Z) : list tcall := flat_map (emission_tcalls m t st) step_channels.

Lemma emission_tcalls_plain m t st c : map snd (emission_tcalls m t st c) = emission_calls m t st c.
Proof.
  unfold emission_tcalls, emission_calls. rewrite map_map. cbn [snd]. rewrite <- emit_tagged_snd, map_map. reflexivity.
Qed.

(* one step: the four channels once each, in order; every event carries time = clock + step, step_size = step; then the
   clock advances by exactly the step *)
Theorem step_trace nxt s :
  calls (step nxt s) = calls s ++ step_tcalls (lst s) (clock s) (stepsz s)
  /\ clock (step nxt s) = clock s + stepsz s
  /\ stepsz (step nxt s) = nxt (clock s + stepsz s) (stepsz s)
  /\ stop (step nxt s) = stop s /\ lst (step nxt s) = lst s /\ inits (step nxt s) = inits s
  /\ icalls (step nxt s) = icalls s /\ nsteps (step nxt s) = nsteps s + 1.
Proof.
  unfold step, step_tcalls, step_channels. cbn. rewrite <- !app_assoc, app_nil_r. repeat split; reflexivity.
Qed.

Lemma step_fixed_stepsz s : stepsz (step fixed s) = stepsz s.
Proof. reflexivity. Qed.

(* n steps with a fixed step size *)
Fixpoint steps_tcalls (m : chans) (t st : Z) (n : nat) : list tcall :=
  match n with O => [] | S k => step_tcalls m t st ++ steps_tcalls m (t + st) st k end.

Lemma take_steps_fixed n : forall s,
  let s' := take_steps n fixed s in
  calls s' = calls s ++ steps_tcalls (lst s) (clock s) (stepsz s) n
  /\ clock s' = clock s + Z.of_nat n * stepsz s /\ stepsz s' = stepsz s /\ stop s' = stop s /\ lst s' = lst s
  /\ inits s' = inits s /\ icalls s' = icalls s /\ nsteps s' = nsteps s + Z.of_nat n.
Proof.
  induction n as [|n IH]; intros s; cbv zeta.
  - cbn [take_steps steps_tcalls]. rewrite app_nil_r. repeat split; try reflexivity; lia.
  - cbn [take_steps steps_tcalls]. specialize (IH (step fixed s)). cbv zeta in IH.
    pose proof (step_trace fixed s) as (C & K & Z1 & P & L & I & IC & N). change (fixed (clock s + stepsz s) (stepsz s)) with (stepsz s) in Z1.
    destruct IH as (C' & K' & Z' & P' & L' & I' & IC' & N').
    rewrite C', K', Z', P', L', I', IC', N', C, K, Z1, P, L, I, IC, N. rewrite <- app_assoc.
    repeat split; try reflexivity; lia.
Qed.

Lemma flat_map_seq_shift {A} (f : nat -> list A) n : forall a,
  flat_map f (seq (S a) n) = flat_map (fun i => f (S i)) (seq a n).
Proof. induction n as [|n IH]; intros a; [reflexivity|]. cbn [seq flat_map]. now rewrite IH. Qed.

(* the call log of n fixed steps, step by step: step i happens at clock start + i*step *)
Lemma steps_tcalls_nth m st n : forall t,
  steps_tcalls m t st n = flat_map (fun i => step_tcalls m (t + Z.of_nat i * st) st) (seq 0 n).
Proof.
  induction n as [|n IH]; intros t; [reflexivity|]. cbn [steps_tcalls seq flat_map]. f_equal.
  - f_equal. lia.
  - rewrite IH, flat_map_seq_shift. apply flat_map_ext. intros i. f_equal. lia.
Qed.

Lemma steps_needed_pos start stop_ st : 0 < st -> start < stop_ -> 1 <= steps_needed start stop_ st.
Proof.
  intros Hs Hl. unfold steps_needed. destruct (Z.ltb_spec start stop_); [|lia]. apply Z.div_le_lower_bound; lia.
Qed.

Lemma steps_needed_succ start stop_ st : 0 < st -> start < stop_ ->
  steps_needed start stop_ st = 1 + steps_needed (start + st) stop_ st.
Proof.
  intros Hs Hl. unfold steps_needed. destruct (Z.ltb_spec start stop_); [|lia].
  replace (stop_ - start + st - 1) with (1 * st + (stop_ - (start + st) + st - 1)) by lia. rewrite Z.div_add_l by lia.
  destruct (Z.ltb_spec (start + st) stop_) as [H2|H2]; [reflexivity|].
  rewrite (Z.div_small (stop_ - (start + st) + st - 1)) by lia. reflexivity.
Qed.

Lemma steps_needed_nonneg start stop_ st : 0 < st -> 0 <= steps_needed start stop_ st.
Proof.
  intros Hs. unfold steps_needed. destruct (Z.ltb_spec start stop_); [|lia]. apply Z.div_pos; lia.
Qed.

(* run(): exactly ceil((stop - start) / step) steps, whatever the fuel (as long as there is enough) *)
Theorem run_count fuel : forall s, 0 < stepsz s ->
  steps_needed (clock s) (stop s) (stepsz s) <= Z.of_nat fuel ->
  run_loop fuel fixed s = Ok (take_steps (Z.to_nat (steps_needed (clock s) (stop s) (stepsz s))) fixed s).
Proof.
  induction fuel as [|f IH]; intros s Hs Hf.
  - cbn [run_loop]. destruct (Z.ltb_spec (clock s) (stop s)) as [Hl|Hg].
    + pose proof (steps_needed_pos _ _ _ Hs Hl). lia.
    + unfold steps_needed. destruct (Z.ltb_spec (clock s) (stop s)); [lia|]. reflexivity.
  - cbn [run_loop]. destruct (Z.ltb_spec (clock s) (stop s)) as [Hl|Hg].
    + destruct (step_trace fixed s) as (_ & K & Z1 & P & _). change (fixed (clock s + stepsz s) (stepsz s)) with (stepsz s) in Z1.
      rewrite IH; rewrite ?Z1, ?K, ?P; try assumption.
      * rewrite (steps_needed_succ (clock s)) by assumption.
        pose proof (steps_needed_nonneg (clock s + stepsz s) (stop s) (stepsz s) Hs) as Hn.
        rewrite Z2Nat.inj_add by lia. cbn [Z.to_nat Pos.to_nat Pos.iter_op Nat.add take_steps]. reflexivity.
      * rewrite (steps_needed_succ (clock s)) in Hf by assumption. lia.
    + unfold steps_needed. destruct (Z.ltb_spec (clock s) (stop s)); [lia|]. reflexivity.
Qed.

(* too little fuel is reported as such, never as a shorter run *)
Theorem run_out_of_fuel fuel : forall s, 0 < stepsz s ->
  Z.of_nat fuel < steps_needed (clock s) (stop s) (stepsz s) -> run_loop fuel fixed s = OutOfFuel.
Proof.
  induction fuel as [|f IH]; intros s Hs Hf; cbn [run_loop].
  - destruct (Z.ltb_spec (clock s) (stop s)) as [Hl|Hg]; [reflexivity|].
    unfold steps_needed in Hf. destruct (Z.ltb_spec (clock s) (stop s)); lia.
  - destruct (Z.ltb_spec (clock s) (stop s)) as [Hl|Hg].
    + destruct (step_trace fixed s) as (_ & K & Z1 & P & _). change (fixed (clock s + stepsz s) (stepsz s)) with (stepsz s) in Z1.
      apply IH; rewrite ?Z1, ?K, ?P; [assumption|]. rewrite (steps_needed_succ (clock s)) in Hf by assumption. lia.
    + unfold steps_needed in Hf. destruct (Z.ltb_spec (clock s) (stop s)); lia.
Qed.

(* where the clock stands afterwards: the first grid point at or after the stop time *)
Lemma ceil_bounds d st : 0 < st -> 0 < d -> d <= st * ((d + st - 1) / st) < d + st.
Proof.
  intros Hs Hd. pose proof (Z.mul_div_le (d + st - 1) st Hs). pose proof (Z.mul_succ_div_gt (d + st - 1) st Hs). lia.
Qed.

Theorem run_final s fuel : 0 < stepsz s ->
  steps_needed (clock s) (stop s) (stepsz s) <= Z.of_nat fuel ->
  exists s', run_loop fuel fixed s = Ok s'
    /\ nsteps s' = nsteps s + steps_needed (clock s) (stop s) (stepsz s)
    /\ clock s' = clock s + steps_needed (clock s) (stop s) (stepsz s) * stepsz s
    /\ stepsz s' = stepsz s
    /\ calls s' = calls s ++ steps_tcalls (lst s) (clock s) (stepsz s) (Z.to_nat (steps_needed (clock s) (stop s) (stepsz s)))
    /\ icalls s' = icalls s /\ lst s' = lst s /\ stop s' = stop s
    /\ (clock s < stop s -> stop s <= clock s' < stop s + stepsz s)
    /\ (stop s <= clock s -> s' = s).
Proof.
  intros Hs Hf. eexists. split; [apply run_count; assumption|].
  pose proof (steps_needed_nonneg (clock s) (stop s) (stepsz s) Hs) as Hn.
  destruct (take_steps_fixed (Z.to_nat (steps_needed (clock s) (stop s) (stepsz s))) s) as (C & K & Z1 & P & L & I & IC & N).
  rewrite Z2Nat.id in K, N by assumption. repeat split; try assumption.
  - rewrite K. unfold steps_needed. destruct (Z.ltb_spec (clock s) (stop s)); [|lia].
    pose proof (ceil_bounds (stop s - clock s) (stepsz s) Hs). lia.
  - rewrite K. unfold steps_needed. destruct (Z.ltb_spec (clock s) (stop s)); [|lia].
    pose proof (ceil_bounds (stop s - clock s) (stepsz s) Hs). lia.
  - intros Hge. unfold steps_needed. destruct (Z.ltb_spec (clock s) (stop s)); [lia|]. reflexivity.
Qed.

(* fuel independence: any two sufficient amounts of fuel give the same result *)
Corollary run_fuel_independent s f1 f2 : 0 < stepsz s ->
  steps_needed (clock s) (stop s) (stepsz s) <= Z.of_nat f1 -> steps_needed (clock s) (stop s) (stepsz s) <= Z.of_nat f2 ->
  run_loop f1 fixed s = run_loop f2 fixed s.
Proof. intros Hs H1 H2. now rewrite !run_count. Qed.

(* ---- the creation fencepost ---- *)
Theorem fencepost nxt s :
  let s' := initialize nxt s in
  icalls s' = icalls s ++ map (fun i => (i, clock s - stepsz s, stepsz s, clock s - stepsz s)) (inits s)
  /\ clock s' = clock s /\ stepsz s' = nxt (clock s) (stepsz s) /\ calls s' = calls s /\ lst s' = lst s
  /\ stop s' = stop s /\ nsteps s' = nsteps s.
Proof.
  cbv zeta. unfold initialize, step_forward, create, step_backward. cbn.
  replace (clock s - stepsz s + stepsz s) with (clock s) by lia. repeat split; reflexivity.
Qed.

(* ---- InteractiveContext.run = SimulationContext.run ---- *)
Lemma cdiv_steps_needed t e st : 0 < st -> t < e -> cdiv (e - t) st = steps_needed t e st.
Proof.
  intros Hs Hl. unfold cdiv, steps_needed. destruct (Z.ltb_spec t e); [|lia].
  set (d := e - t). assert (Hd : 0 < d) by (unfold d; lia).
  pose proof (Z.div_mod (d + st - 1) st ltac:(lia)) as E1. pose proof (Z.mod_pos_bound (d + st - 1) st Hs) as B1.
  pose proof (Z.div_mod (- d) st ltac:(lia)) as E2. pose proof (Z.mod_pos_bound (- d) st Hs) as B2.
  nia.
Qed.

Lemma cdiv_nonpos a st : 0 < st -> a <= 0 -> cdiv a st <= 0.
Proof. intros Hs Ha. unfold cdiv. assert (0 <= (- a) / st) by (apply Z.div_pos; lia). lia. Qed.

(* step() never touches the stop time *)
Lemma step_stop nxt s : stop (step nxt s) = stop s.
Proof. reflexivity. Qed.

(* InteractiveContext.run is SimulationContext.run - for EVERY step-size rule, every state, every fuel *)
Theorem interactive_run_agrees fuel : forall nxt s, interactive_run fuel nxt s = run_loop fuel nxt s.
Proof.
  unfold interactive_run. induction fuel as [|f IH]; intros nxt s; cbn [run_until run_loop].
  - reflexivity.
  - destruct (clock s <? stop s); [|reflexivity]. rewrite <- IH, step_stop. reflexivity.
Qed.

(* run_until to an arbitrary end time with a fixed step: exactly ceil((end - clock)/step) steps, none when end <= clock *)
Theorem run_until_count fuel : forall s e, 0 < stepsz s ->
  steps_needed (clock s) e (stepsz s) <= Z.of_nat fuel ->
  run_until fuel fixed e s = Ok (take_steps (Z.to_nat (steps_needed (clock s) e (stepsz s))) fixed s).
Proof.
  induction fuel as [|f IH]; intros s e Hs Hf.
  - cbn [run_until]. destruct (Z.ltb_spec (clock s) e) as [Hl|Hg].
    + pose proof (steps_needed_pos _ _ _ Hs Hl). lia.
    + unfold steps_needed. destruct (Z.ltb_spec (clock s) e); [lia|]. reflexivity.
  - cbn [run_until]. destruct (Z.ltb_spec (clock s) e) as [Hl|Hg].
    + destruct (step_trace fixed s) as (_ & K & Z1 & _). change (fixed (clock s + stepsz s) (stepsz s)) with (stepsz s) in Z1.
      rewrite IH; rewrite ?Z1, ?K; try assumption.
      * rewrite (steps_needed_succ (clock s)) by assumption.
        pose proof (steps_needed_nonneg (clock s + stepsz s) e (stepsz s) Hs) as Hn.
        rewrite Z2Nat.inj_add by lia. cbn [Z.to_nat Pos.to_nat Pos.iter_op Nat.add take_steps]. reflexivity.
      * rewrite (steps_needed_succ (clock s)) in Hf by assumption. lia.
    + unfold steps_needed. destruct (Z.ltb_spec (clock s) e); [lia|]. reflexivity.
Qed.

Theorem run_until_final s e fuel : 0 < stepsz s -> steps_needed (clock s) e (stepsz s) <= Z.of_nat fuel ->
  exists s', run_until fuel fixed e s = Ok s'
    /\ nsteps s' = nsteps s + steps_needed (clock s) e (stepsz s)
    /\ clock s' = clock s + steps_needed (clock s) e (stepsz s) * stepsz s
    /\ (clock s < e -> e <= clock s' < e + stepsz s)
    /\ (e <= clock s -> s' = s).
Proof.
  intros Hs Hf. eexists. split; [apply run_until_count; assumption|].
  pose proof (steps_needed_nonneg (clock s) e (stepsz s) Hs) as Hn.
  destruct (take_steps_fixed (Z.to_nat (steps_needed (clock s) e (stepsz s))) s) as (_ & K & _ & _ & _ & _ & _ & N).
  rewrite Z2Nat.id in K, N by assumption. repeat split; try assumption.
  - rewrite K. unfold steps_needed. destruct (Z.ltb_spec (clock s) e); [|lia].
    pose proof (ceil_bounds (e - clock s) (stepsz s) Hs). lia.
  - rewrite K. unfold steps_needed. destruct (Z.ltb_spec (clock s) e); [|lia].
    pose proof (ceil_bounds (e - clock s) (stepsz s) Hs). lia.
  - intros Hge. unfold steps_needed. destruct (Z.ltb_spec (clock s) e); [lia|]. reflexivity.
Qed.

(* for ANY step-size rule: run_until stops exactly when the end time is reached - it ends with the clock at or after the
   end, and (if it stepped at all) the clock before its last step was still before the end *)
Theorem run_until_stops_at_end fuel : forall nxt e s s', run_until fuel nxt e s = Ok s' ->
  e <= clock s' /\ (clock s < e -> exists s1, clock s1 < e /\ s' = step nxt s1).
Proof.
  induction fuel as [|f IH]; intros nxt e s s' H; cbn [run_until] in H.
  - destruct (Z.ltb_spec (clock s) e); [discriminate|]. inversion H; subst. split; [assumption | lia].
  - destruct (Z.ltb_spec (clock s) e) as [Hl|Hg].
    + destruct (IH _ _ _ _ H) as [A B]. split; [assumption|]. intros _.
      destruct (Z.ltb_spec (clock (step nxt s)) e) as [Hl2|Hg2].
      * exact (B Hl2).
      * exists s. split; [assumption|]. destruct f; cbn [run_until] in H;
          destruct (Z.ltb_spec (clock (step nxt s)) e); try lia; now inversion H.
    + inversion H; subst. split; [assumption | lia].
Qed.

(* ---- a whole simulation ---- *)
Theorem simulation_trace start stop_ st cs fuel : 0 < st -> start < stop_ -> steps_needed start stop_ st <= Z.of_nat fuel ->
  let s0 := mk_sim start stop_ st cs in
  let n := steps_needed start stop_ st in
  exists s, run_simulation fuel fixed s0 = Ok s
    /\ nsteps s = n /\ clock s = start + n * st
    /\ calls s = emission_tcalls (lst s0) start st ch_post_setup
                 ++ steps_tcalls (lst s0) start st (Z.to_nat n)
                 ++ emission_tcalls (lst s0) (start + n * st) st ch_end
                 ++ emission_tcalls (lst s0) (start + n * st) st ch_report
    /\ icalls s = map (fun i => (i, start - st, st, start - st)) (all_initializers cs).
Proof.
  intros Hs Hlt Hf s0 n. unfold run_simulation.
  pose (s1 := initialize fixed (do_setup s0)).
  assert (K : clock s1 = start) by (cbn; lia).
  assert (Z1 : stepsz s1 = st) by reflexivity.
  assert (P : stop s1 = stop_) by reflexivity.
  assert (L : lst s1 = lst s0) by reflexivity.
  assert (C : calls s1 = emission_tcalls (lst s0) start st ch_post_setup) by reflexivity.
  assert (IC : icalls s1 = map (fun i => (i, start - st, st, start - st)) (all_initializers cs)) by reflexivity.
  assert (N : nsteps s1 = 0) by reflexivity.
  assert (Hs1 : 0 < stepsz s1) by (rewrite Z1; exact Hs).
  assert (Hf1 : steps_needed (clock s1) (stop s1) (stepsz s1) <= Z.of_nat fuel) by (rewrite K, P, Z1; exact Hf).
  destruct (run_final s1 fuel Hs1 Hf1) as (s2 & R & N2 & K2 & Z2 & C2 & IC2 & L2 & P2 & _).
  fold s1. rewrite R.
  rewrite K, P, Z1 in N2, K2, C2. fold n in N2, K2, C2. rewrite N in N2. rewrite L in C2. rewrite C in C2.
  pose proof (steps_needed_pos start stop_ st Hs Hlt) as Hn1. fold n in Hn1.
  unfold finish, finalize. destruct (Z.eqb_spec (nsteps s2) 0) as [E0|_]; [lia|].
  eexists. split; [reflexivity|].
  unfold report, do_emit, with_calls. cbn [nsteps clock calls icalls lst stepsz].
  rewrite L2, L, K2, Z2, Z1, C2, IC2, IC, N2.
  repeat split; try reflexivity; try lia.
  rewrite <- !app_assoc. reflexivity.
Qed.

(* a run of length zero (start >= stop): run() makes no step and leaves everything as it is - and finalize is then refused
   by the life cycle: simulation_end is NOT emitted, run_simulation raises InvalidTransitionError *)
Theorem zero_length_run start stop_ st cs fuel : stop_ <= start ->
  let s0 := mk_sim start stop_ st cs in
  run_only fuel fixed s0 = Ok (initialize fixed (do_setup s0))
  /\ nsteps (initialize fixed (do_setup s0)) = 0
  /\ run_simulation fuel fixed s0 = Rejected EInvalidTransition.
Proof.
  intros Hle s0. unfold run_simulation, run_only.
  assert (R : run_loop fuel fixed (initialize fixed (do_setup s0)) = Ok (initialize fixed (do_setup s0))).
  { assert (Hc : clock (initialize fixed (do_setup s0)) = start) by (cbn; lia).
    assert (Hp : stop (initialize fixed (do_setup s0)) = stop_) by reflexivity.
    remember (initialize fixed (do_setup s0)) as s1 eqn:E1. clear E1.
    destruct fuel; cbn [run_loop]; rewrite Hc, Hp; destruct (Z.ltb_spec start stop_); try lia; reflexivity. }
  rewrite R. repeat split; reflexivity.
Qed.

(* ------------------------------------------------------------------------------------------------------------
   the comparison used by the correspondence means what it says: an observed call sequence accepted by
   [same_up_to_buckets] consists of exactly the model's listeners (with multiplicity), bucket by bucket
   ------------------------------------------------------------------------------------------------------------ *)
Lemma ins_group_perm x acc : Permutation (ins_group x acc) (x :: acc).
Proof.
  induction acc as [|y r IH]; cbn [ins_group]; [reflexivity|].
  destruct (Nat.eqb (fst x) (fst y) && (snd y <? snd x)); [|reflexivity].
  eapply Permutation_trans; [apply perm_skip, IH | apply perm_swap].
Qed.

Lemma canon_tagged_perm l : Permutation (canon_tagged l) l.
Proof.
  induction l as [|x l IH]; [constructor|]. cbn [canon_tagged fold_right].
  eapply Permutation_trans; [apply ins_group_perm | apply perm_skip, IH].
Qed.

Lemma ins_group_tags x acc : map fst (ins_group x acc) = fst x :: map fst acc.
Proof.
  induction acc as [|y r IH]; cbn [ins_group]; [reflexivity|].
  destruct (Nat.eqb (fst x) (fst y) && (snd y <? snd x)) eqn:E; [|reflexivity].
  apply andb_true_iff in E as [E _]. apply Nat.eqb_eq in E. cbn [map]. rewrite IH, E. reflexivity.
Qed.

Lemma canon_tagged_tags l : map fst (canon_tagged l) = map fst l.
Proof.
  induction l as [|x l IH]; [reflexivity|]. cbn [canon_tagged fold_right]. rewrite ins_group_tags. cbn [map]. f_equal. exact IH.
Qed.

Lemma tagged_eqb_eq a b : tagged_eqb a b = true <-> a = b.
Proof.
  destruct a as [n x], b as [k y]. unfold tagged_eqb. cbn [fst snd]. rewrite andb_true_iff, Nat.eqb_eq, Z.eqb_eq.
  split; [intros [-> ->]; reflexivity | intros E; inversion E; auto].
Qed.

Lemma combine_snd {A B} (a : list A) (b : list B) : length b = length a -> map snd (combine a b) = b.
Proof.
  revert b. induction a as [|x a IH]; intros [|y b] H; try discriminate; [reflexivity|]. cbn. f_equal. apply IH.
  now inversion H.
Qed.

Theorem same_up_to_buckets_sound expected obs : same_up_to_buckets expected obs = true ->
  Permutation obs (map snd expected)
  /\ forall n, Permutation (filter (fun t => Nat.eqb (fst t) n) (combine (map fst expected) obs))
                           (filter (fun t => Nat.eqb (fst t) n) expected).
Proof.
  unfold same_up_to_buckets. rewrite andb_true_iff, Nat.eqb_eq. intros [Hl He].
  apply (list_eqb_eq tagged_eqb tagged_eqb_eq) in He.
  assert (P : Permutation (combine (map fst expected) obs) expected).
  { eapply Permutation_trans; [apply Permutation_sym, canon_tagged_perm|]. rewrite He. apply canon_tagged_perm. }
  split.
  - rewrite <- (combine_snd (map fst expected) obs) at 1 by (now rewrite map_length). now apply Permutation_map.
  - intros n. clear -P. induction P; cbn [filter].
    + constructor.
    + destruct (Nat.eqb (fst x) n); [now constructor | assumption].
    + destruct (Nat.eqb (fst x) n), (Nat.eqb (fst y) n); try apply perm_swap; try reflexivity.
    + eapply Permutation_trans; eassumption.
Qed.

(* ------------------------------------------------------------------------------------------------------------
   listeners that raise
   ------------------------------------------------------------------------------------------------------------ *)
Lemma call_until_raised bad l m : call_until bad l = (m, true) ->
  exists pre x post, l = pre ++ x :: post /\ m = pre ++ [x] /\ bad x = true /\ Forall (fun y => bad y = false) pre.
Proof.
  revert m. induction l as [|a l IH]; intros m H; cbn [call_until] in H; [discriminate|].
  destruct (bad a) eqn:Ea.
  - inversion H; subst. exists [], a, l. repeat split; auto.
  - destruct (call_until bad l) as [m' b] eqn:E. inversion H; subst.
    destruct (IH m' eq_refl) as (pre & x & post & -> & -> & Hx & Hp). exists (a :: pre), x, post. repeat split; auto.
Qed.

Lemma call_until_clean bad l m : call_until bad l = (m, false) -> m = l /\ Forall (fun y => bad y = false) l.
Proof.
  revert m. induction l as [|a l IH]; intros m H; cbn [call_until] in H.
  - inversion H. auto.
  - destruct (bad a) eqn:Ea; [discriminate|]. destruct (call_until bad l) as [m' b] eqn:E. inversion H; subst.
    destruct (IH m' eq_refl) as [-> Hf]. auto.
Qed.

Lemma call_until_all_clean bad l : Forall (fun y => bad y = false) l -> call_until bad l = (l, false).
Proof.
  induction 1 as [|a l Ha Hl IH]; [reflexivity|]. cbn [call_until]. now rewrite Ha, IH.
Qed.

(* what the frame of an emission leaves alone *)
Definition same_frame (s s' : sim) : Prop :=
  clock s' = clock s /\ stepsz s' = stepsz s /\ stop s' = stop s /\ lst s' = lst s /\ inits s' = inits s
  /\ icalls s' = icalls s /\ nsteps s' = nsteps s.

Lemma emit_r_clean bad s c s' : emit_r bad s c = (s', false) ->
  s' = do_emit s c /\ Forall (fun y => bad y = false) (emission_tcalls (lst s) (clock s) (stepsz s) c).
Proof.
  unfold emit_r. destruct (call_until bad _) as [m b] eqn:E. intros H. inversion H; subst.
  destruct (call_until_clean _ _ _ E) as [-> Hf]. auto.
Qed.

Lemma emits_r_clean bad cs : forall s s', emits_r bad s cs = (s', false) ->
  s' = fold_left do_emit cs s
  /\ Forall (fun y => bad y = false) (flat_map (emission_tcalls (lst s) (clock s) (stepsz s)) cs).
Proof.
  induction cs as [|c cs IH]; intros s s' H; cbn [emits_r] in H.
  - inversion H. split; [reflexivity | constructor].
  - destruct (emit_r bad s c) as [s1 b] eqn:E. destruct b; [discriminate|].
    destruct (emit_r_clean _ _ _ _ E) as [-> Hf]. destruct (IH _ _ H) as [-> Hf2]. split; [reflexivity|].
    cbn [flat_map]. apply Forall_app. split; assumption.
Qed.

Lemma emits_r_raised bad cs : forall s s', emits_r bad s cs = (s', true) ->
  same_frame s s' /\
  exists pre x post, flat_map (emission_tcalls (lst s) (clock s) (stepsz s)) cs = pre ++ x :: post
    /\ calls s' = calls s ++ pre ++ [x] /\ bad x = true /\ Forall (fun y => bad y = false) pre.
Proof.
  induction cs as [|c cs IH]; intros s s' H; cbn [emits_r] in H; [discriminate|].
  destruct (emit_r bad s c) as [s1 b] eqn:E. destruct b.
  - inversion H; subst. unfold emit_r in E. destruct (call_until bad _) as [m b] eqn:Ec. inversion E; subst.
    destruct (call_until_raised _ _ _ Ec) as (pre & x & post & El & -> & Hx & Hp).
    split; [repeat split|]. exists pre, x, (post ++ flat_map (emission_tcalls (lst s) (clock s) (stepsz s)) cs).
    cbn [flat_map]. rewrite El. repeat split; auto. now rewrite <- app_assoc.
  - destruct (emit_r_clean _ _ _ _ E) as [-> Hf]. destruct (IH _ _ H) as [Fr (pre & x & post & El & Ec & Hx & Hp)].
    cbn in El, Ec. split.
    + destruct Fr as (A & B & C & D & F & G & I). repeat split; assumption.
    + exists (emission_tcalls (lst s) (clock s) (stepsz s) c ++ pre), x, post. cbn [flat_map]. rewrite El.
      repeat split; auto.
      * now rewrite <- app_assoc.
      * rewrite Ec. now rewrite <- !app_assoc.
      * apply Forall_app. split; assumption.
Qed.

(* THE statement: a raising listener never causes a later listener or a later event of that step to be called, nor the
   clock (or the step size, or the step count) to move *)
Theorem raising_listener_abandons_step bad nxt s s' : step_r bad nxt s = (s', true) ->
  clock s' = clock s /\ stepsz s' = stepsz s /\ nsteps s' = nsteps s /\ icalls s' = icalls s /\ lst s' = lst s /\
  exists pre x post, step_tcalls (lst s) (clock s) (stepsz s) = pre ++ x :: post
    /\ calls s' = calls s ++ pre ++ [x] /\ bad x = true /\ Forall (fun y => bad y = false) pre.
Proof.
  unfold step_r. destruct (emits_r bad s step_channels) as [s1 b] eqn:E. destruct b; [|discriminate].
  intros H. inversion H; subst. destruct (emits_r_raised _ _ _ _ E) as [(A & B & _ & D & _ & G & I) X].
  repeat split; assumption.
Qed.

(* ... and if nothing raises, the step is the ordinary step *)
Theorem step_r_clean bad nxt s s' : step_r bad nxt s = (s', false) ->
  s' = step nxt s /\ Forall (fun y => bad y = false) (step_tcalls (lst s) (clock s) (stepsz s)).
Proof.
  unfold step_r. destruct (emits_r bad s step_channels) as [s1 b] eqn:E. destruct b; [discriminate|].
  intros H. inversion H; subst. destruct (emits_r_clean _ _ _ _ E) as [-> Hf]. split; [reflexivity | exact Hf].
Qed.

Lemma emits_r_never cs : forall s, emits_r (fun _ => false) s cs = (fold_left do_emit cs s, false).
Proof.
  induction cs as [|c cs IH]; intros s; [reflexivity|]. cbn [emits_r fold_left]. unfold emit_r.
  rewrite call_until_all_clean by (apply Forall_forall; reflexivity). apply IH.
Qed.

Theorem step_r_never nxt s : step_r (fun _ => false) nxt s = (step nxt s, false).
Proof. unfold step_r. rewrite emits_r_never. reflexivity. Qed.

(* without raising listeners the model with exceptions IS the model without *)
Theorem run_loop_r_never fuel : forall nxt s,
  run_loop_r fuel (fun _ => false) nxt s
  = match run_loop fuel nxt s with Ok s' => Ok (s', false) | Rejected e => Rejected e | OutOfFuel => OutOfFuel end.
Proof.
  induction fuel as [|f IH]; intros nxt s; cbn [run_loop_r run_loop]; destruct (clock s <? stop s); try reflexivity.
  rewrite step_r_never. apply IH.
Qed.

(* a run abandoned by a raising listener stands where that step began: before the stop time *)
Theorem run_loop_r_raised fuel : forall bad nxt s s', run_loop_r fuel bad nxt s = Ok (s', true) ->
  clock s' < stop s'.
Proof.
  induction fuel as [|f IH]; intros bad nxt s s' H; cbn [run_loop_r] in H;
    destruct (Z.ltb_spec (clock s) (stop s)) as [Hl|Hg]; try discriminate.
  destruct (step_r bad nxt s) as [s1 b] eqn:E. destruct b.
  - inversion H; subst. unfold step_r in E. destruct (emits_r bad s step_channels) as [s2 b2] eqn:E2.
    destruct b2; [|discriminate]. inversion E; subst.
    destruct (emits_r_raised _ _ _ _ E2) as [(A & _ & C & _) _]. rewrite A, C. exact Hl.
  - eapply IH. exact H.
Qed.

(* ------------------------------------------------------------------------------------------------------------
   refused driver calls are inert
   ------------------------------------------------------------------------------------------------------------ *)
Lemma refused_step_inert fuel nxt s : do_sop fuel nxt ORefused s = Ok s.
Proof. reflexivity. Qed.

(* any number of refused calls, anywhere in a session, can be deleted without changing anything that follows *)
Theorem refused_calls_deletable fuel nxt ops : forall s,
  run_sops fuel nxt ops s = run_sops fuel nxt (filter (fun o => negb (is_refused o)) ops) s.
Proof.
  induction ops as [|o ops IH]; intros s; [reflexivity|]. destruct o as [e|n|]; cbn [filter is_refused negb run_sops].
  - destruct (do_sop fuel nxt (OUntil e) s); [apply IH | reflexivity | reflexivity].
  - destruct (do_sop fuel nxt (OTake n) s); [apply IH | reflexivity | reflexivity].
  - cbn [do_sop]. apply IH.
Qed.
