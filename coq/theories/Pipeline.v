(* Model of vivarium/framework/values.py (DESIGN.md C14): the pipeline registry of ValuesManager, Pipeline._call with
   its two combiners, and the two built-in post-processors.  Names of pipelines and callables are numbers (the harness
   interns them).

   values.py anchors (line numbers of /repo/src/vivarium/framework/values.py):
     replace_combiner 34-56, list_combiner 59-82            -> [combine]
     rescale_post_processor 85-115 (+ utilities.from_yearly)-> [rescale_q], [rescale_vec], [cpost]
     union_post_processor 118-160                           -> [union_q], [union_atoms]
     Pipeline._call 229-244                                 -> [call], [apply_muts]
     ValuesManager.register_value_producer 298-330,
       _register_value_producer 332-352                     -> [register_producer]
     ValuesManager.register_value_modifier 354-397          -> [register_modifier]
     ValuesManager.get_value 399-419                        -> [get_value]  (since fix 74bd7d49 it also sets
                                                               pipeline.name - the name is not part of this model)

   Part 1 is generic: callables are Section variables (pure functions) and evaluation LOGS every call of a callable
   together with the arguments it received, so that "exactly once", "in registration order", "previous stage's output
   as last argument" are statements about the emitted trace.
   Part 2 is the exact arithmetic of the two built-in post-processors over rationals written as (numerator,
   denominator) pairs of integers with an explicit cross-multiplication equality (no Coq Q, no floats).
   Part 3 instantiates part 1 with the harness' probe callables (v -> a*v + b, tagged list contributions) and defines
   the boolean check used by the correspondence.

   Faithful details (the code that exists):
     * "has a source" is `pipeline.source is not None` (since fix e7ddbc13, finding F-Y; before it the code tested the
       TRUTHINESS of the source callable - that old behaviour is kept as [OldTruthiness] at the end of Part 1, with the
       two witnesses of what was wrong with it).  The recorded truth value of a probe source (first component of an
       [e_srcs] entry) is therefore ignored by the model.
     * "has a post-processor" is `self.post_processor is not None` (since fix 8d240cc5, finding F-AD; before it a
       post-processor callable whose truth value is False was silently never applied): PNone stands for None.
     * keyword arguments of Pipeline.__call__ are handed to the source and to every modifier unchanged: they are part of
       the argument type ([carg] carries them).
     * list_combiner on a value that is not a list: `value.append` raises AttributeError before the mutator is
       evaluated; rescale_post_processor on a list: `hasattr(list, "index")` holds, `list.mul` raises AttributeError. *)
From Viv Require Import Common.
From Coq Require Import Permutation.
Local Open Scope Z_scope.

(* ================================================================================================================ *)
(* Part 1 - registry and call, generic in the argument type, the value type and the callables                       *)
(* ================================================================================================================ *)
Inductive combiner := CReplace | CList.
Inductive postk := PNone | PRescale | PUnion | PCustom (k : Z).

Definition combiner_eqb (a b : combiner) : bool :=
  match a, b with CReplace, CReplace | CList, CList => true | _, _ => false end.
Definition postk_eqb (a b : postk) : bool :=
  match a, b with
  | PNone, PNone | PRescale, PRescale | PUnion, PUnion => true
  | PCustom x, PCustom y => x =? y
  | _, _ => false
  end.

(* Pipeline.__init__: source None, mutators [], combiner None, post_processor None.  The combiner of an unsourced
   pipeline is never consulted (the no-source check comes first), CReplace stands for None. *)
Record pipe := { p_source : option Z; p_muts : list Z; p_comb : combiner; p_post : postk }.
Definition empty_pipe : pipe := {| p_source := None; p_muts := []; p_comb := CReplace; p_post := PNone |}.

(* ValuesManager._pipelines : defaultdict(Pipeline), in insertion order *)
Definition registry := list (Z * pipe).

Definition get_pipe (r : registry) (n : Z) : pipe :=
  match zassoc n r with Some p => p | None => empty_pipe end.

Fixpoint set_pipe (r : registry) (n : Z) (p : pipe) : registry :=
  match r with
  | [] => [(n, p)]
  | (k, x) :: t => if k =? n then (k, p) :: t else (k, x) :: set_pipe t n p
  end.

(* `self._pipelines[name]` creates an empty pipeline when the name is new *)
Definition touch (r : registry) (n : Z) : registry :=
  match zassoc n r with Some _ => r | None => set_pipe r n empty_pipe end.

Inductive pv (atom : Type) : Type :=
  | One (a : atom)                (* a replace-pipeline value: scalar / Series *)
  | Many (l : list atom).         (* a list-pipeline value: python list of scalars / Series *)
Arguments One {atom} a.
Arguments Many {atom} l.

Inductive ev (arg atom : Type) : Type :=
  | ESrc (s : Z) (a : arg)                          (* source s called as s( *a) *)
  | EMod (m : Z) (a : arg) (last : option (pv atom))(* modifier m called as m( *a, v) [Some v] or m( *a) [None] *)
  | EPost (k : postk) (v : pv atom).                (* post-processor k called on v *)
Arguments ESrc {arg atom} s a.
Arguments EMod {arg atom} m a last.
Arguments EPost {arg atom} k v.

Inductive op (arg : Type) : Type :=
  | RegisterProducer (n s : Z) (c : combiner) (k : postk)
  | RegisterModifier (n m : Z)
  | GetValue (n : Z)
  | Call (n : Z) (a : arg) (skip : bool).
Arguments RegisterProducer {arg} n s c k.
Arguments RegisterModifier {arg} n m.
Arguments GetValue {arg} n.
Arguments Call {arg} n a skip.

Inductive out (arg atom : Type) : Type :=
  | ODone                                           (* registration accepted / get_value returned the pipeline *)
  | ORejected (e : err)                             (* registration raised *)
  | OCalled (tr : list (ev arg atom)) (rv : result (pv atom)).   (* what was evaluated, and the value or the error *)
Arguments ODone {arg atom}.
Arguments ORejected {arg atom} e.
Arguments OCalled {arg atom} tr rv.

Section Generic.
  Variables arg atom : Type.
  Variable src : Z -> arg -> pv atom.                     (* source callables *)
  Variable modr : Z -> arg -> pv atom -> pv atom.         (* modifier called with the previous value as LAST argument *)
  Variable modl : Z -> arg -> atom.                       (* modifier called with the caller's arguments only *)
  Variable post : postk -> pv atom -> result (pv atom).   (* post-processors (may raise on a value of the wrong shape) *)

  (* register_value_producer -> _register_value_producer, then resources.add_resources("value_source", [name], ...) *)
  Definition register_producer (r : registry) (n s : Z) (c : combiner) (k : postk) : registry * out arg atom :=
    let p := get_pipe r n in
    let p' := {| p_source := Some s; p_muts := p_muts p; p_comb := c; p_post := k |} in
    match p_source p with
    | None => (set_pipe r n p', ODone)
    | Some _ => (r, ORejected EDynamicValue)                             (* values.py 342-346: `is not None` *)
    end.

  (* register_value_modifier: `pipeline = self._pipelines[value_name]; pipeline.mutators.append(modifier)` *)
  Definition register_modifier (r : registry) (n m : Z) : registry * out arg atom :=
    let p := get_pipe r n in
    (set_pipe r n {| p_source := p_source p; p_muts := p_muts p ++ [m]; p_comb := p_comb p; p_post := p_post p |},
     ODone).

  Definition get_value (r : registry) (n : Z) : registry * out arg atom := (touch r n, ODone).

  (* one application of the combiner: (what was logged, new value or error) *)
  Definition combine (c : combiner) (v : pv atom) (m : Z) (a : arg) : list (ev arg atom) * result (pv atom) :=
    match c with
    | CReplace => ([EMod m a (Some v)], Ok (modr m a v))
    | CList => match v with
               | Many l => ([EMod m a None], Ok (Many (l ++ [modl m a])))
               | One _ => ([], Rejected EOther)
               end
    end.

  (* `for mutator in self.mutators: value = self.combiner(value, mutator, *args)` *)
  Fixpoint apply_muts (c : combiner) (ms : list Z) (a : arg) (tr : list (ev arg atom)) (v : pv atom)
    : list (ev arg atom) * result (pv atom) :=
    match ms with
    | [] => (tr, Ok v)
    | m :: rest =>
        match combine c v m a with
        | (t, Ok v') => apply_muts c rest a (tr ++ t) v'
        | (t, bad) => (tr ++ t, bad)
        end
    end.

  (* does the post-processor run?  `if self.post_processor and not skip_post_processor` *)
  Definition post_applies (p : pipe) (skip : bool) : bool :=
    match p_post p with PNone => false | _ => negb skip end.

  (* Pipeline._call *)
  Definition call (p : pipe) (a : arg) (skip : bool) : list (ev arg atom) * result (pv atom) :=
    match p_source p with
    | None => ([], Rejected EDynamicValue)
    | Some s =>
        match apply_muts (p_comb p) (p_muts p) a [ESrc s a] (src s a) with
        | (tr, Ok v) => if post_applies p skip then (tr ++ [EPost (p_post p) v], post (p_post p) v) else (tr, Ok v)
        | (tr, bad) => (tr, bad)
        end
    end.

  (* ---- a pipeline whose source is another pipeline (`register_value_producer(name, source=other_pipeline)`):
     `self.source( *args, **kwargs)` is then the inner Pipeline.__call__ - source, modifiers AND post-processor of the
     inner pipeline (skip_post_processor is not forwarded) - evaluated where an ordinary source callable would be.
     [nested s] = the pipeline that source id s denotes, if any.  Fuel bounds the nesting depth (a cycle of
     pipelines recurses without bound in the real code). *)
  Variable nested : Z -> option Z.

  Fixpoint ncall (fuel : nat) (r : registry) (n : Z) (a : arg) (skip : bool) : list (ev arg atom) * result (pv atom) :=
    match fuel with
    | O => ([], OutOfFuel)
    | S f =>
        let p := get_pipe r n in
        match p_source p with
        | None => ([], Rejected EDynamicValue)
        | Some s =>
            let inner := match nested s with
                         | Some m => ncall f r m a false
                         | None => ([ESrc s a], Ok (src s a))
                         end in
            match snd inner with
            | Ok v0 =>
                match apply_muts (p_comb p) (p_muts p) a (fst inner) v0 with
                | (tr, Ok v) => if post_applies p skip then (tr ++ [EPost (p_post p) v], post (p_post p) v) else (tr, Ok v)
                | (tr, bad) => (tr, bad)
                end
            | bad => (fst inner, bad)
            end
        end
    end.

  (* what a (nested) call is expected to evaluate: the modifiers / post-processors of the chain, innermost first *)
  Fixpoint chain_mods (fuel : nat) (r : registry) (n : Z) : list Z :=
    match fuel with
    | O => []
    | S f => let p := get_pipe r n in
             match p_source p with
             | None => []
             | Some s => match nested s with Some m => chain_mods f r m | None => [] end ++ p_muts p
             end
    end.
  Fixpoint chain_posts (fuel : nat) (r : registry) (n : Z) (skip : bool) : list postk :=
    match fuel with
    | O => []
    | S f => let p := get_pipe r n in
             match p_source p with
             | None => []
             | Some s => match nested s with Some m => chain_posts f r m false | None => [] end ++
                         (if post_applies p skip then [p_post p] else [])
             end
    end.

  Definition step (r : registry) (o : op arg) : registry * out arg atom :=
    match o with
    | RegisterProducer n s c k => register_producer r n s c k
    | RegisterModifier n m => register_modifier r n m
    | GetValue n => get_value r n
    | Call n a skip => let '(tr, rv) := call (get_pipe r n) a skip in (r, OCalled tr rv)
    end.

  Fixpoint run (r : registry) (ops : list (op arg)) : registry * list (out arg atom) :=
    match ops with
    | [] => (r, [])
    | o :: rest => let '(r1, x) := step r o in let '(r2, xs) := run r1 rest in (r2, x :: xs)
    end.

  (* ---- declarative readings of a registration history ---- *)
  Fixpoint mods_of (n : Z) (ops : list (op arg)) : list Z :=
    match ops with
    | [] => []
    | RegisterModifier n' m :: t => if n' =? n then m :: mods_of n t else mods_of n t
    | _ :: t => mods_of n t
    end.

  Fixpoint first_producer (n : Z) (ops : list (op arg)) : option (Z * combiner * postk) :=
    match ops with
    | [] => None
    | RegisterProducer n' s c k :: t => if n' =? n then Some (s, c, k) else first_producer n t
    | _ :: t => first_producer n t
    end.

  (* what a replace pipeline logs for its modifiers, starting from value v *)
  Fixpoint replace_trace (a : arg) (ms : list Z) (v : pv atom) : list (ev arg atom) :=
    match ms with
    | [] => []
    | m :: rest => EMod m a (Some v) :: replace_trace a rest (modr m a v)
    end.

  (* projections of a trace used by the exactly-once statements *)
  Definition src_ids (tr : list (ev arg atom)) : list Z :=
    flat_map (fun e => match e with ESrc s _ => [s] | _ => [] end) tr.
  Definition mod_ids (tr : list (ev arg atom)) : list Z :=
    flat_map (fun e => match e with EMod m _ _ => [m] | _ => [] end) tr.
  Definition post_ids (tr : list (ev arg atom)) : list postk :=
    flat_map (fun e => match e with EPost k _ => [k] | _ => [] end) tr.
End Generic.

(* `pipeline.source is not None` *)
Definition has_source (p : pipe) : bool := match p_source p with Some _ => true | None => false end.

Arguments first_producer {arg} n ops.
Arguments mods_of {arg} n ops.
Arguments src_ids {arg atom} tr.
Arguments mod_ids {arg atom} tr.
Arguments post_ids {arg atom} tr.

(* ---- the code BEFORE fix e7ddbc13 (finding F-Y), kept only to state what was wrong with it ---- *)
Module OldTruthiness.
  Section Old.
    Variable truthy : Z -> bool.                            (* bool(source callable) *)
    (* `if pipeline.source: raise ...` else overwrite, then resources.add_resources raises on the duplicate name *)
    Definition old_register_producer (r : registry) (n s : Z) (c : combiner) (k : postk) : registry * option err :=
      let p := get_pipe r n in
      let p' := {| p_source := Some s; p_muts := p_muts p; p_comb := c; p_post := k |} in
      match p_source p with
      | None => (set_pipe r n p', None)
      | Some s0 => if truthy s0 then (r, Some EDynamicValue) else (set_pipe r n p', Some EResource)
      end.
    (* `if not self.source: raise DynamicValueError` *)
    Definition old_call_refused (p : pipe) : bool :=
      match p_source p with Some s => negb (truthy s) | None => true end.
  End Old.
End OldTruthiness.

(* ================================================================================================================ *)
(* Part 2 - exact arithmetic of the built-in post-processors                                                        *)
(* ================================================================================================================ *)
(* A rational is a pair (numerator, denominator); every value the model builds has a positive denominator
   ([qpos], preserved by all operations below); equality of values is cross-multiplication ([qeq]). *)
Definition q := (Z * Z)%type.
Definition qpos (x : q) : Prop := 0 < snd x.
Definition qeq (x y : q) : Prop := fst x * snd y = fst y * snd x.
Definition qle (x y : q) : Prop := fst x * snd y <= fst y * snd x.
Definition qeqb (x y : q) : bool := fst x * snd y =? fst y * snd x.
Definition qzero : q := (0, 1).
Definition qone : q := (1, 1).
Definition qadd (x y : q) : q := (fst x * snd y + fst y * snd x, snd x * snd y).
Definition qmul (x y : q) : q := (fst x * fst y, snd x * snd y).
Definition qcompl (x : q) : q := (snd x - fst x, snd x).                   (* 1 - x *)
Definition qint (z : Z) : q := (z, 1).

(* utilities.from_yearly / rescale_post_processor: seconds-per-year 60*60*24*365.0; durations are integer ns *)
Definition year_ns : Z := 31536000000000000.

(* rate * step / year *)
Definition rescale_q (v : q) (step_ns : Z) : q := (fst v * step_ns, snd v * year_ns).

(* `value.mul(step_sizes_in_years, axis=0)`: the value's own index is used to fetch the steps, so the two are aligned
   position by position *)
Fixpoint rescale_vec (vs : list q) (steps : list Z) : list q :=
  match vs, steps with
  | v :: vr, s :: sr => rescale_q v s :: rescale_vec vr sr
  | _, _ => []
  end.

(* union_post_processor on numbers:
     if len(values) == 1: return values[0]
     product = 1; for v in values: product = product * (1 - v); return 1 - product                              *)
Definition compl_product (l : list q) : q := fold_left (fun p v => qmul p (qcompl v)) l qone.
Definition union_q (l : list q) : q :=
  match l with
  | [v] => v
  | _ => qcompl (compl_product l)
  end.

(* ================================================================================================================ *)
(* Part 3 - the probe callables of the correspondence, and the check                                                *)
(* ================================================================================================================ *)
(* concrete values: a scalar or a Series over the index the pipeline was called with (position by position) *)
Inductive catom := Sc (x : q) | Vec (xs : list q).
Definition cpv := pv catom.
(* concrete arguments: pipeline(pd.Index(idx), *extra, **kw) or pipeline( *extra, **kw); keyword arguments as
   (name id, value) pairs sorted by name *)
Definition carg := (option (list Z) * list Z * list (Z * Z))%type.
Definition carg_idx (a : carg) : option (list Z) := fst (fst a).

Definition affine (a b x : q) : q := qadd (qmul a x) b.
Definition affine_atom (a b : q) (x : catom) : catom :=
  match x with Sc v => Sc (affine a b v) | Vec vs => Vec (map (affine a b) vs) end.
(* the probe modifier / custom post-processor: a*v + b on a number or Series, element by element on a list *)
Definition affine_pv (a b : q) (v : cpv) : cpv :=
  match v with One x => One (affine_atom a b x) | Many l => Many (map (affine_atom a b) l) end.

(* a probe "entry": a constant scalar, or a per-simulant table looked up on the requested index *)
Inductive entry := NSc (x : q) | NTbl (t : list (Z * q)).
Definition tbl_get (t : list (Z * q)) (i : Z) : q := match zassoc i t with Some x => x | None => qzero end.
Definition eval_entry (a : carg) (e : entry) : catom :=
  match e with
  | NSc x => Sc x
  | NTbl t => Vec (map (tbl_get t) (match carg_idx a with Some idx => idx | None => [] end))
  end.

Record env := {
  e_srcs : list (Z * (bool * bool * list entry));   (* source id -> (bool(callable), returns a list?, entries) *)
  e_mods : list (Z * (q * q * entry));              (* modifier id -> a, b (as m( *args, v) = a*v+b) and its entry (as m( *args)) *)
  e_posts : list (Z * (q * q))                      (* custom post-processor id -> c, d (c*v + d) *)
}.

Definition csrc (e : env) (s : Z) (a : carg) : cpv :=
  match zassoc s (e_srcs e) with
  | Some (_, true, es) => Many (map (eval_entry a) es)
  | Some (_, false, es) => One (eval_entry a (hd (NSc qzero) es))
  | None => One (Sc qzero)
  end.
Definition cmodr (e : env) (m : Z) (a : carg) (v : cpv) : cpv :=
  match zassoc m (e_mods e) with Some (x, y, _) => affine_pv x y v | None => v end.
Definition cmodl (e : env) (m : Z) (a : carg) : catom :=
  match zassoc m (e_mods e) with Some (_, _, en) => eval_entry a en | None => Sc qzero end.

(* element i of an atom, scalars broadcast *)
Definition atom_at (i : nat) (x : catom) : q := match x with Sc v => v | Vec vs => nth i vs qzero end.
Fixpoint first_len (l : list catom) : option nat :=
  match l with [] => None | Vec vs :: _ => Some (length vs) | Sc _ :: t => first_len t end.
(* union_post_processor on scalars / Series: Series arithmetic is element-wise (equal indexes), scalars broadcast *)
Definition union_atoms (l : list catom) : catom :=
  match l with
  | [x] => x
  | _ => match first_len l with
         | None => Sc (union_q (map (atom_at 0) l))
         | Some n => Vec (map (fun i => union_q (map (atom_at i) l)) (seq 0 n))
         end
  end.

(* the post-processors on concrete values; [idx] = the index the pipeline was called with, [steps] =
   simulant_step_sizes(value.index) in ns, [gstep] = step_size() in ns, both read by the harness at the moment of the
   call.  union_post_processor on a bare Series (a replace pipeline with the union post-processor) treats the Series
   as the list of its elements: `len(values) == 1 -> values[0]` is a LABEL look-up of 0 (KeyError unless the single
   requested simulant is simulant 0), otherwise 1 - prod(1 - v) over the simulants - one number. *)
Definition cpost (e : env) (idx : option (list Z)) (steps : list Z) (gstep : Z) (k : postk) (v : cpv) : result cpv :=
  match k with
  | PNone => Ok v
  | PRescale => match v with
                | One (Sc x) => Ok (One (Sc (rescale_q x gstep)))
                | One (Vec xs) => Ok (One (Vec (rescale_vec xs steps)))
                | Many _ => Rejected EOther
                end
  | PUnion => match v with
              | Many l => Ok (One (union_atoms l))
              | One (Sc _) => Rejected EOther
              | One (Vec [x]) => match idx with
                                 | Some [i] => if i =? 0 then Ok (One (Sc x)) else Rejected EOther
                                 | _ => Rejected EOther
                                 end
              | One (Vec xs) => Ok (One (Sc (union_q xs)))
              end
  | PCustom c => match zassoc c (e_posts e) with Some (x, y) => Ok (affine_pv x y v) | None => Ok v end
  end.

(* ---- observations ---- *)
Inductive cop :=
  | XOp (o : op carg)                                     (* registration / get_value *)
  | XCall (n : Z) (a : carg) (skip : bool) (steps : list Z) (gstep : Z).

(* a binary64 as mantissa * 2^exponent (|mantissa| in [2^52, 2^53) or 0), so that one ulp is 2^exponent *)
Definition fl := (Z * Z)%type.
Definition fl_q (f : fl) : q := if 0 <=? snd f then (fst f * 2 ^ snd f, 1) else (fst f, 2 ^ (- snd f)).
Definition fl_ulp (f : fl) : q := if 0 <=? snd f then (2 ^ snd f, 1) else (1, 2 ^ (- snd f)).

Inductive oval :=
  | OV (v : cpv)                                          (* exact (dyadic inputs, exact binary64 arithmetic) *)
  | OF (scalar : bool) (fs : list fl).                    (* rescaled rates: the floats the implementation returned *)

Definition snapshot := list (Z * (option Z * list Z * combiner * postk)).
Inductive cobs :=
  | BReg (code : Z) (snap : snapshot)                     (* outcome class + every pipeline of the registry afterwards *)
  | BCall (code : Z) (tr : list (ev carg catom)) (v : option oval).
Definition ccase := (env * list (cop * cobs))%type.

(* outcome classes: 0 fine, 1 DynamicValueError, 2 ResourceError, 3 anything else *)
Definition code_of_err (e : err) : Z := match e with EDynamicValue => 1 | EResource => 2 | _ => 3 end.

Definition qlist_eqb := list_eqb qeqb.
Definition atom_eqb (x y : catom) : bool :=
  match x, y with Sc a, Sc b => qeqb a b | Vec a, Vec b => qlist_eqb a b | _, _ => false end.
Definition pv_eqb (x y : cpv) : bool :=
  match x, y with One a, One b => atom_eqb a b | Many a, Many b => list_eqb atom_eqb a b | _, _ => false end.
Definition arg_eqb (a b : carg) : bool :=
  option_eqb zlist_eqb (carg_idx a) (carg_idx b) && zlist_eqb (snd (fst a)) (snd (fst b)) &&
  list_eqb (fun x y => (fst x =? fst y) && (snd x =? snd y)) (snd a) (snd b).
Definition ev_eqb (x y : ev carg catom) : bool :=
  match x, y with
  | ESrc s a, ESrc s' a' => (s =? s') && arg_eqb a a'
  | EMod m a l, EMod m' a' l' => (m =? m') && arg_eqb a a' && option_eqb pv_eqb l l'
  | EPost k v, EPost k' v' => postk_eqb k k' && pv_eqb v v'
  | _, _ => false
  end.

(* |f - x| <= 4 ulp(f), all exact; a float zero only for an exact zero (0.0 has no meaningful ulp) *)
Definition within4 (f : fl) (x : q) : bool :=
  let fq := fl_q f in let u := fl_ulp f in
  (* |fn/fd - xn/xd| <= 4 un/ud   <=>   |fn*xd - xn*fd| * ud <= 4 * un * fd * xd   (positive denominators) *)
  (0 <? snd x) &&
  (if fst f =? 0 then fst x =? 0
   else Z.abs (fst fq * snd x - fst x * snd fq) * snd u <=? 4 * fst u * snd fq * snd x).
Fixpoint within4_list (fs : list fl) (xs : list q) : bool :=
  match fs, xs with
  | [], [] => true
  | f :: fr, x :: xr => within4 f x && within4_list fr xr
  | _, _ => false
  end.

Definition value_ok (rescaled : bool) (v : cpv) (o : oval) : bool :=
  match o with
  | OV w => negb rescaled && pv_eqb v w
  | OF true [f] => rescaled && match v with One (Sc x) => within4 f x | _ => false end
  | OF false fs => rescaled && match v with One (Vec xs) => within4_list fs xs | _ => false end
  | OF true _ => false
  end.

Definition snap_ok (r : registry) (s : snapshot) : bool :=
  forallb (fun '(n, (so, ms, c, k)) =>
             let p := get_pipe r n in
             option_eqb Z.eqb (p_source p) so && zlist_eqb (p_muts p) ms &&
             match so with Some _ => combiner_eqb (p_comb p) c && postk_eqb (p_post p) k | None => true end) s.

Definition out_code {A B} (o : out A B) : Z :=
  match o with ODone => 0 | ORejected e => code_of_err e | OCalled _ _ => 3 end.

Definition cstep (e : env) (r : registry) (o : op carg) (steps : list Z) (gstep : Z) : registry * out carg catom :=
  let idx := match o with Call _ a _ => carg_idx a | _ => None end in
  step carg catom (csrc e) (cmodr e) (cmodl e) (cpost e idx steps gstep) r o.

(* source ids 101..199 denote "the probe pipeline 1..99 itself, used as a source" *)
Definition cnested (s : Z) : option Z := if (100 <? s) && (s <? 200) then Some (s - 100) else None.
Definition cncall (e : env) (r : registry) (n : Z) (a : carg) (skip : bool) (steps : list Z) (gstep : Z)
  : list (ev carg catom) * result cpv :=
  ncall carg catom (csrc e) (cmodr e) (cmodl e) (cpost e (carg_idx a) steps gstep) cnested 8 r n a skip.

Fixpoint check_ops (e : env) (r : registry) (l : list (cop * cobs)) : bool :=
  match l with
  | [] => true
  | (XOp o, BReg code snap) :: rest =>
      let '(r', x) := cstep e r o [] 0 in
      (out_code x =? code) && snap_ok r' snap && check_ops e r' rest
  | (XCall n a skip steps gstep, BCall code tr v) :: rest =>
      let r' := r in
      let x := let '(mtr, mrv) := cncall e r n a skip steps gstep in @OCalled carg catom mtr mrv in
      match x with
      | OCalled mtr (Ok mv) =>
          (code =? 0) && list_eqb ev_eqb mtr tr &&
          match v with
          | Some o => value_ok (match p_post (get_pipe r n) with PRescale => negb skip | _ => false end) mv o
          | None => false
          end
      | OCalled mtr (Rejected er) =>
          (* a refused call (no source) evaluates nothing - compared exactly.  When a callable / combiner / post-processor
             RAISES on a value of the wrong shape, the property does not say what else was evaluated before the error
             surfaced (e.g. whether list_combiner looks up `value.append` before or after evaluating the modifier): only
             the outcome class and "the source came first, with the caller's arguments" are compared *)
          (code =? code_of_err er) &&
          match er with
          | EDynamicValue => list_eqb ev_eqb mtr tr
          | _ => match mtr, tr with
                 | m0 :: _, t0 :: _ => ev_eqb m0 t0
                 | [], [] => true
                 | _, _ => false
                 end
          end && match v with None => true | _ => false end
      | _ => false
      end && check_ops e r' rest
  | _ :: _ => false
  end.

Definition check_case (c : ccase) : bool := check_ops (fst c) [] (snd c).
