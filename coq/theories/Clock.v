(* Model of vivarium/framework/time.py (SimulationClock with per-simulant clocks) and of the part of engine.step /
   initialize_simulants that drives it (DESIGN.md C10).  Times and step sizes are integers (nanoseconds for
   DateTimeClock, plain numbers for SimpleClock).

   time.py anchors:
     step_size_post_processor            -> [post]
     on_initialize_simulants             -> [create]
     step_forward                        -> [step_forward]   (guard: individual clocks and `not index.empty`)
     get_active_simulants                -> [active]
     move_simulants_to_end               -> [snooze_op]
   engine.py: step (4 events, then step_forward), initialize_simulants (step_backward, create, step_forward)
   interactive.py: step (restores the global step only when an override was given)                              *)
From Viv Require Import Common.
Local Open Scope Z_scope.

Record row := { lbl : Z; nxt : Z; stp : Z }.
Record clk := {
  T : Z;                 (* _clock_time *)
  S : Z;                 (* _clock_step_size *)
  E : Z;                 (* _stop_time *)
  m : Z;                 (* _minimum_step_size *)
  std : Z;               (* _standard_step_size *)
  rows : list row;       (* next_event_time / step_size columns, all simulants in label order *)
  snooze : list Z        (* _simulants_to_snooze *)
}.

(* ---- step_size_post_processor: min over the modifiers' values (NaN ignored; all NaN -> standard step),
        floor(v / minimum) with 0 replaced by 1, times minimum ---- *)
Fixpoint min_some (vals : list (option Z)) : option Z :=
  match vals with
  | [] => None
  | None :: r => min_some r
  | Some v :: r => match min_some r with None => Some v | Some w => Some (Z.min v w) end
  end.
Definition requested (std0 : Z) (vals : list (option Z)) : Z :=
  match min_some vals with Some v => v | None => std0 end.
Definition post (m0 std0 : Z) (vals : list (option Z)) : Z :=
  let q := requested std0 vals / m0 in (if q =? 0 then 1 else q) * m0.

(* ---- helpers ---- *)
Definition minl (d : Z) (l : list Z) : Z := fold_right Z.min d l.
Definition min_next (rs : list row) : Z := match rs with [] => 0 | r :: rs' => minl (nxt r) (map nxt rs') end.
Definition labels (rs : list row) : list Z := map lbl rs.
Definition due (t : Z) (r : row) : bool := nxt r <=? t.

Definition set_clk (c : clk) (T' S' : Z) (rs : list row) (sn : list Z) : clk :=
  {| T := T'; S := S'; E := E c; m := m c; std := std c; rows := rs; snooze := sn |}.

(* ---- get_active_simulants(index = whole population, time) ---- *)
Definition active_at (c : clk) (t : Z) : list Z := labels (filter (due t) (rows c)).
Definition active (c : clk) : list Z := active_at c (T c + S c).        (* engine.step: time = clock.event_time *)

(* ---- step_forward(index = whole population), individual clocks enabled.
   req l = the values the step-size pipeline's modifiers return for simulant l at this call.
   A snoozed simulant that is not due makes `.loc[snooze, ...]` raise KeyError (F-I): Rejected EOther. ---- *)
Definition update_row (req : Z -> list (option Z)) (c : clk) (T' : Z) (r : row) : row :=
  if due T' r then
    let s := if zmem (lbl r) (snooze c) then E c + m c - T' else post (m c) (std c) (req (lbl r)) in
    {| lbl := lbl r; nxt := T' + s; stp := s |}
  else r.

Definition step_forward (req : Z -> list (option Z)) (c : clk) : result clk :=
  let T' := T c + S c in
  match rows c with
  | [] => Ok (set_clk c T' (S c) [] (snooze c))                       (* guard: `not index.empty` *)
  | _ =>
    let U := filter (due T') (rows c) in
    match U with
    | [] => Ok (set_clk c T' (min_next (rows c) - T') (rows c) (snooze c))
    | _ =>
      if forallb (fun l => zmem l (labels U)) (snooze c) then
        let rs := map (update_row req c T') (rows c) in
        Ok (set_clk c T' (min_next rs - T') rs [])
      else Rejected EOther
    end
  end.

(* the guard the code used before the repair of F-A: Index.any() = truthiness of the LABELS *)
Definition pd_any (idx : list Z) : bool := existsb (fun l => negb (l =? 0)) idx.
Definition step_forward_any (req : Z -> list (option Z)) (c : clk) : result clk :=
  if pd_any (labels (rows c)) then step_forward req c
  else Ok (set_clk c (T c + S c) (S c) (rows c) (snooze c)).

(* ---- move_simulants_to_end(index): Index.union (sorted, no duplicates; order is irrelevant for membership) ---- *)
Definition snooze_op (c : clk) (idx : list Z) : clk :=
  match rows c, idx with
  | _, [] => c
  | [], _ => c
  | _, _ => set_clk c (T c) (S c) (rows c) (snooze c ++ filter (fun l => negb (zmem l (snooze c))) idx)
  end.

(* ---- creation of n simulants: labels len .. len+n-1, next = T + S, step = S of the moment ---- *)
Fixpoint new_rows (first : Z) (n : nat) (t s : Z) : list row :=
  match n with O => [] | Datatypes.S k => {| lbl := first; nxt := t; stp := s |} :: new_rows (first + 1) k t s end.
Definition create (c : clk) (n : nat) : clk :=
  set_clk c (T c) (S c) (rows c ++ new_rows (Z.of_nat (length (rows c))) n (T c + S c) (S c)) (snooze c).

(* ---- SimulationContext.initialize_simulants: step_backward, create, step_forward ---- *)
Definition initialize (req : Z -> list (option Z)) (c : clk) (n : nat) : result clk :=
  step_forward req (create (set_clk c (T c - S c) (S c) (rows c) (snooze c)) n).

(* ---- the invariant at a step boundary ---- *)
Definition Inv (c : clk) : Prop :=
  rows c <> [] /\ (forall r, In r (rows c) -> T c < nxt r) /\ S c = min_next (rows c) - T c.

(* ================= executable trace model used by the correspondence =================
   The generator's modifiers are arithmetic functions of (label, tick) so that both the probe component and Coq can
   evaluate them; the THEOREMS quantify over arbitrary [req]. *)
Record modifier := { ma : Z; mb : Z; mc : Z; mnum : Z; mden : Z; mp : Z }.
Definition mod_value (c : clk) (t0 : Z) (md : modifier) (l : Z) : option Z :=
  let tick := (T c - t0) / m c in
  if (negb (mp md =? 0)) && ((l + tick) mod (mp md) =? 0) then None
  else Some ((((ma md * l + mb md * tick) mod (mc md)) + 1) * m c * mnum md / mden md).
Definition req_of (mods : list modifier) (t0 : Z) (c : clk) (l : Z) : list (option Z) :=
  None :: map (fun md => mod_value {| T := T c + S c; S := S c; E := E c; m := m c; std := std c; rows := rows c; snooze := snooze c |} t0 md l) mods.
  (* the modifiers are evaluated inside step_forward, after the clock has advanced: tick of T + S;
     the leading None is the pipeline's own source (a NaN series) *)

(* what a probe does during the time_step event of one step *)
Record step_plan := { births : nat; sn_mod : Z; sn_rem : Z }.   (* snooze the active labels l with l mod sn_mod = sn_rem (0 = none) *)

Record step_obs := {
  o_ev_time : Z;                (* event.time of the four events *)
  o_idx_a : list Z;             (* index of time_step__prepare and time_step *)
  o_idx_b : list Z;             (* index of time_step__cleanup and collect_metrics (after births) *)
  o_T : Z; o_S : Z;             (* clock and global step after the step *)
  o_rows : list (Z * Z * Z)     (* (label, next_event_time, step_size) after the step *)
}.

Definition row_eqb (r : row) (t : Z * Z * Z) : bool :=
  let '(l, n, s) := t in (lbl r =? l) && (nxt r =? n) && (stp r =? s).

Fixpoint rows_eqb (l : list row) (t : list (Z * Z * Z)) : bool :=
  match l, t with
  | [], [] => true
  | r :: l', x :: t' => row_eqb r x && rows_eqb l' t'
  | _, _ => false
  end.

Definition one_step (mods : list modifier) (t0 : Z) (c : clk) (p : step_plan) : result (clk * (Z * list Z * list Z)) :=
  let ia := active c in
  let sn := if sn_mod p =? 0 then [] else filter (fun l => l mod (sn_mod p) =? sn_rem p) ia in
  let c1 := create (snooze_op c sn) (births p) in
  let ib := active c1 in
  match step_forward (req_of mods t0 c1) c1 with
  | Ok c2 => Ok (c2, (T c + S c, ia, ib))
  | Rejected e => Rejected e
  | OutOfFuel => OutOfFuel
  end.

Fixpoint run_plans (mods : list modifier) (t0 : Z) (c : clk) (ps : list (step_plan * step_obs)) : bool :=
  match ps with
  | [] => true
  | (p, o) :: r =>
    match one_step mods t0 c p with
    | Ok (c2, (et, ia, ib)) =>
        (et =? o_ev_time o) && zlist_eqb ia (o_idx_a o) && zlist_eqb ib (o_idx_b o) &&
        (T c2 =? o_T o) && (S c2 =? o_S o) && rows_eqb (rows c2) (o_rows o) && run_plans mods t0 c2 r
    | _ => false
    end
  end.

(* case: (start, stop, minimum, standard, initial global step), population size, modifiers,
         observed state after initialize_simulants, then the steps *)
Definition clock_case := (Z * Z * Z * Z * Z * nat * list modifier * step_obs * list (step_plan * step_obs))%type.
Definition check_clock (k : clock_case) : bool :=
  let '(t0, e, m0, std0, s0, n, mods, o0, ps) := k in
  let c := {| T := t0; S := s0; E := e; m := m0; std := std0; rows := []; snooze := [] |} in
  let c0 := create (set_clk c (t0 - s0) s0 [] []) n in
  match step_forward (req_of mods t0 c0) c0 with
  | Ok c1 => (T c1 =? o_T o0) && (S c1 =? o_S o0) && rows_eqb (rows c1) (o_rows o0) && run_plans mods t0 c1 ps
  | _ => false
  end.

(* post-processor alone: (minimum, standard, values, observed result) *)
Definition check_post (k : Z * Z * list (option Z) * Z) : bool :=
  let '(m0, std0, vals, out) := k in post m0 std0 vals =? out.
