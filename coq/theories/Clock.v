(* Model of vivarium/framework/time.py (SimulationClock with per-simulant clocks), of the part of engine.py that drives
   it (initialize_simulants, step) and of InteractiveContext.step (DESIGN.md C10).  Times and step sizes are integers
   (nanoseconds for DateTimeClock, quarter units for the SimpleClock configurations the harness uses).

   time.py anchors (line numbers of `python3 tools/strip.py`):
     step_size_post_processor   196-220  -> [post]
     on_initialize_simulants    132-142  -> [create]
     step_forward               164-183  -> [step_forward]   (guard: individual clocks and `not index.empty`)
     get_active_simulants       185-190  -> [active_at] / [active]
     move_simulants_to_end      192-194  -> [snooze_op]      (guard: individual clocks and `not index.empty`)
     step_size / event_time     79-91    -> the `S = 0 -> ValueError` branch of [engine_step]
   engine.py: initialize_simulants 248-255 -> [initialize];  step 257-268 -> [engine_step]
   interactive.py: step 46-69 -> [istep] (puts the pre-step global step back only when an override was given)

   The model is the clock WITH individual clocks (some step modifier registered); the clock without modifiers is the
   three-line [global_step] at the end.                                                                               *)
From Viv Require Import Common.
Local Open Scope Z_scope.

Record row := { lbl : Z; nxt : Z; stp : Z }.
Record clk := {
  T : Z;                 (* _clock_time *)
  S : Z;                 (* _clock_step_size *)
  E : Z;                 (* _stop_time *)
  m : Z;                 (* _minimum_step_size *)
  std : Z;               (* _standard_step_size *)
  rows : list row;       (* next_event_time / step_size columns, all simulants (tracked or not) in label order *)
  snooze : list Z;       (* _simulants_to_snooze *)
  untracked : list Z     (* labels whose `tracked` column is False.  The engine hands the clock the FULL population
                            (engine.py: get_population(untracked=True).index, since commit a70d8de6 under every context
                            class) and the clock's views contain the `tracked` column, hence apply no tracked filter:
                            nothing below reads this field, which is what the theorems about it say *)
}.

(* ---- step_size_post_processor: min over the modifiers' values (NaN ignored; all NaN -> standard step),
        floor(v / minimum) with 0 replaced by 1, times minimum.  Z's `/` is floor division, as np.floor is. ---- *)
Fixpoint min_some (vals : list (option Z)) : option Z :=
  match vals with
  | [] => None
  | None :: r => min_some r
  | Some v :: r => match min_some r with None => Some v | Some w => Some (Z.min v w) end
  end.
Definition requested (std0 : Z) (vals : list (option Z)) : Z :=
  match min_some vals with Some v => v | None => std0 end.
Definition post (m0 std0 : Z) (vals : list (option Z)) : Z :=
  let q := requested std0 vals / m0 in (if q =? 0 then 1 else q) * m0.

(* ---- helpers ---- *)
Definition minl (d : Z) (l : list Z) : Z := fold_right Z.min d l.
Definition min_next (rs : list row) : Z := match rs with [] => 0 | r :: rs' => minl (nxt r) (map nxt rs') end.
Definition labels (rs : list row) : list Z := map lbl rs.
Definition due (t : Z) (r : row) : bool := nxt r <=? t.

Definition set_clk (c : clk) (T' S' : Z) (rs : list row) (sn : list Z) : clk :=
  {| T := T'; S := S'; E := E c; m := m c; std := std c; rows := rs; snooze := sn; untracked := untracked c |}.
Definition with_S (c : clk) (s : Z) : clk := set_clk c (T c) s (rows c) (snooze c).

(* ---- get_active_simulants(index = whole population, time) ---- *)
Definition active_at (c : clk) (t : Z) : list Z := labels (filter (due t) (rows c)).
Definition active (c : clk) : list Z := active_at c (T c + S c).        (* engine.step: time = clock.event_time *)

(* ---- step_forward(index = whole population).
   req l = the values the step-size pipeline's source and modifiers return for simulant l at this call.
   A snoozed simulant that is not among those being updated makes `.loc[snooze, ...] = ` raise KeyError (F-I):
   Rejected EOther. ---- *)
Definition new_step (req : Z -> list (option Z)) (c : clk) (T' : Z) (l : Z) : Z :=
  if zmem l (snooze c) then E c + m c - T' else post (m c) (std c) (req l).
Definition update_row (req : Z -> list (option Z)) (c : clk) (T' : Z) (r : row) : row :=
  if due T' r then {| lbl := lbl r; nxt := T' + new_step req c T' (lbl r); stp := new_step req c T' (lbl r) |}
  else r.

Definition step_forward (req : Z -> list (option Z)) (c : clk) : result clk :=
  let T' := T c + S c in
  match rows c with
  | [] => Ok (set_clk c T' (S c) [] (snooze c))                       (* guard: `not index.empty` *)
  | _ =>
    let U := filter (due T') (rows c) in
    match U with
    | [] => Ok (set_clk c T' (min_next (rows c) - T') (rows c) (snooze c))     (* `if not clocks_to_update.empty` *)
    | _ =>
      if forallb (fun l => zmem l (labels U)) (snooze c) then
        let rs := map (update_row req c T') (rows c) in
        Ok (set_clk c T' (min_next rs - T') rs [])
      else Rejected EOther
    end
  end.

(* the guard the code used before the repair of F-A (commit 47eaecae): Index.any() = truthiness of the LABELS *)
Definition pd_any (idx : list Z) : bool := existsb (fun l => negb (l =? 0)) idx.
Definition step_forward_any (req : Z -> list (option Z)) (c : clk) : result clk :=
  if pd_any (labels (rows c)) then step_forward req c
  else Ok (set_clk c (T c + S c) (S c) (rows c) (snooze c)).

(* ---- step_forward / get_active_simulants on an index that is only PART of the population.  Before commit a70d8de6
        InteractiveContext handed the clock the tracked simulants only; kept for the regression witness. ---- *)
Definition active_on (sel : row -> bool) (c : clk) : list Z := labels (filter (due (T c + S c)) (filter sel (rows c))).
Definition update_row_on (sel : row -> bool) (req : Z -> list (option Z)) (c : clk) (T' : Z) (r : row) : row :=
  if sel r then update_row req c T' r else r.
Definition step_forward_on (sel : row -> bool) (req : Z -> list (option Z)) (c : clk) : result clk :=
  let T' := T c + S c in
  match filter sel (rows c) with
  | [] => Ok (set_clk c T' (S c) (rows c) (snooze c))
  | idx =>
    let U := filter (due T') idx in
    match U with
    | [] => Ok (set_clk c T' (min_next idx - T') (rows c) (snooze c))
    | _ =>
      if forallb (fun l => zmem l (labels U)) (snooze c) then
        let rs := map (update_row_on sel req c T') (rows c) in
        Ok (set_clk c T' (min_next (filter sel rs) - T') rs [])
      else Rejected EOther
    end
  end.
Definition is_tracked (c : clk) (r : row) : bool := negb (zmem (lbl r) (untracked c)).

(* ---- move_simulants_to_end(index): Index.union (membership is all that matters); guard on the ARGUMENT ---- *)
Definition snooze_op (c : clk) (idx : list Z) : clk :=
  match idx with
  | [] => c
  | _ => set_clk c (T c) (S c) (rows c) (snooze c ++ filter (fun l => negb (zmem l (snooze c))) idx)
  end.

(* ---- a component sets `tracked` to False for some simulants (population view update; not a clock operation) ---- *)
Definition untrack_op (c : clk) (idx : list Z) : clk :=
  {| T := T c; S := S c; E := E c; m := m c; std := std c; rows := rows c; snooze := snooze c;
     untracked := untracked c ++ idx |}.
Definition with_untracked (c : clk) (u : list Z) : clk :=
  {| T := T c; S := S c; E := E c; m := m c; std := std c; rows := rows c; snooze := snooze c; untracked := u |}.

(* ---- creation of n simulants: labels len .. len+n-1, next = T + S (event_time), step = S of the moment ---- *)
Fixpoint new_rows (first : Z) (n : nat) (t s : Z) : list row :=
  match n with O => [] | Datatypes.S k => {| lbl := first; nxt := t; stp := s |} :: new_rows (first + 1) k t s end.
Definition create (c : clk) (n : nat) : clk :=
  set_clk c (T c) (S c) (rows c ++ new_rows (Z.of_nat (length (rows c))) n (T c + S c) (S c)) (snooze c).

(* ---- SimulationContext.initialize_simulants: step_backward, create, step_forward ---- *)
Definition pre_init (c : clk) (n : nat) : clk := create (set_clk c (T c - S c) (S c) (rows c) (snooze c)) n.
Definition initialize (req : Z -> list (option Z)) (c : clk) (n : nat) : result clk :=
  step_forward req (pre_init c n).

(* ---- histories ---- *)
Inductive op :=
  | StepForward (req : Z -> list (option Z))
  | Create (n : nat)
  | Snooze (idx : list Z)
  | Untrack (idx : list Z).
Definition apply_op (c : clk) (o : op) : result clk :=
  match o with
  | StepForward req => step_forward req c
  | Create n => Ok (create c n)
  | Snooze idx => Ok (snooze_op c idx)
  | Untrack idx => Ok (untrack_op c idx)
  end.
Fixpoint run_ops (c : clk) (ops : list op) : result clk :=
  match ops with
  | [] => Ok c
  | o :: r => match apply_op c o with Ok c1 => run_ops c1 r | Rejected e => Rejected e | OutOfFuel => OutOfFuel end
  end.

(* ---- the invariant (at every step boundary and between the events of a step) ---- *)
Definition Inv (c : clk) : Prop :=
  0 < S c /\ (forall r, In r (rows c) -> T c < nxt r) /\ (rows c <> [] -> S c = min_next (rows c) - T c).
(* labels are 0 .. n-1 in order (population manager: new labels continue from len(population)) *)
Fixpoint zrange (first : Z) (n : nat) : list Z :=
  match n with O => [] | Datatypes.S k => first :: zrange (first + 1) k end.
Definition WF (c : clk) : Prop := labels (rows c) = zrange 0 (length (rows c)).

(* ---- engine.step: four events, each with a freshly computed index; listeners may give birth and move simulants to
        the end during any of them; then step_forward.  event_time reads the step_size property, which raises
        ValueError when `_clock_step_size == 0`: true of SimpleClock's numbers, never of a pd.Timedelta
        (`pd.Timedelta(0) == 0` is False), hence the flag [zchk] (a constant of the clock plugin). ---- *)
Record ev_act := { births : nat; sn : list Z; ut : list Z }.
Definition ops_of (a : ev_act) : list op := [Snooze (sn a); Untrack (ut a); Create (births a)].
Definition ev_apply (c : clk) (a : ev_act) : clk := create (untrack_op (snooze_op c (sn a)) (ut a)) (births a).
Fixpoint run_events (c : clk) (acts : list ev_act) : clk * list (list Z) :=
  match acts with
  | [] => (c, [])
  | a :: r => let idx := active c in
              let '(c2, idxs) := run_events (ev_apply c a) r in (c2, idx :: idxs)
  end.
Definition engine_step (zchk : bool) (req : Z -> list (option Z)) (c : clk) (acts : list ev_act)
  : result (clk * list (list Z)) :=
  if zchk && (S c =? 0) then Rejected EOther else
  let '(c1, idxs) := run_events c acts in
  match step_forward req c1 with
  | Ok c2 => Ok (c2, idxs)
  | Rejected e => Rejected e
  | OutOfFuel => OutOfFuel
  end.

(* ---- InteractiveContext.step(step_size=ovr) ---- *)
Definition istep (zchk : bool) (ovr : option Z) (req : Z -> list (option Z)) (c : clk) (acts : list ev_act)
  : result (clk * list (list Z)) :=
  let c1 := match ovr with Some s => with_S c s | None => c end in
  if zchk && (S c =? 0) then Rejected EOther else  (* `type(self._clock.step_size)` / event_time on a zero step *)
  match engine_step zchk req c1 acts with
  | Ok (c2, idxs) => Ok (match ovr with Some _ => with_S c2 (S c) | None => c2 end, idxs)
  | Rejected e => Rejected e
  | OutOfFuel => OutOfFuel
  end.
(* ... as it was before the repair of F-B (commit 58535de7): the pre-step value was always put back *)
Definition istep_old (zchk : bool) (req : Z -> list (option Z)) (c : clk) (acts : list ev_act)
  : result (clk * list (list Z)) :=
  match engine_step zchk req c acts with
  | Ok (c2, idxs) => Ok (with_S c2 (S c), idxs)
  | Rejected e => Rejected e
  | OutOfFuel => OutOfFuel
  end.

(* ================= executable checks used by the correspondence ================= *)
(* the values the modifiers returned at one step_forward, as recorded by the probe: label -> values *)
Definition req_table := list (Z * list (option Z)).
Definition req_of (tbl : req_table) (l : Z) : list (option Z) :=
  match zassoc l tbl with Some v => v | None => [] end.
Definition covered (tbl : req_table) (c : clk) : bool :=        (* every simulant being updated was asked about *)
  forallb (fun l => match zassoc l tbl with Some _ => true | None => false end) (active_at c (T c + S c)).

Definition row_eqb (r : row) (t : Z * Z * Z) : bool :=
  let '(l, n, s) := t in (lbl r =? l) && (nxt r =? n) && (stp r =? s).
Fixpoint rows_eqb (l : list row) (t : list (Z * Z * Z)) : bool :=
  match l, t with
  | [], [] => true
  | r :: l', x :: t' => row_eqb r x && rows_eqb l' t'
  | _, _ => false
  end.

(* observed state: clock, global step, (label, next_event_time, step_size) of every simulant, labels with tracked = False *)
Definition state_obs := (Z * Z * list (Z * Z * Z) * list Z)%type.
Definition state_eqb (c : clk) (o : state_obs) : bool :=
  let '(t, s, rs, u) := o in
  (T c =? t) && (S c =? s) && rows_eqb (rows c) rs &&
  forallb (fun r => Bool.eqb (zmem (lbl r) (untracked c)) (zmem (lbl r) u)) (rows c).

(* one step as driven and observed: override, what the probe did in each of the four events, the recorded request
   table; observed: None = the step raised; Some (event time, the four event indexes, state after the step) *)
Definition step_in := (option Z * list (nat * list Z * list Z) * req_table)%type.
Definition step_out := option (Z * list (list Z) * state_obs).
Definition acts_of (l : list (nat * list Z * list Z)) : list ev_act :=
  map (fun p => {| births := fst (fst p); sn := snd (fst p); ut := snd p |}) l.

(* one step: None = model and observation disagree; Some None = both raised; Some (Some c2) = agree, state after *)
Definition one_check (zchk : bool) (c : clk) (p : step_in * step_out) : option (option clk) :=
  let '((ovr, acts, tbl), o) := p in
  let ev := T c + (match ovr with Some s => s | None => S c end) in
  match istep zchk ovr (req_of tbl) c (acts_of acts), o with
  | Ok (c2, idxs), Some (et, oidx, so) =>
      if (et =? ev) && list_eqb zlist_eqb idxs oidx && state_eqb c2 so &&
         covered tbl (fst (run_events (match ovr with Some s => with_S c s | None => c end) (acts_of acts)))
      then Some (Some c2) else None
  | Rejected _, None => Some None
  | _, _ => None
  end.

Fixpoint run_steps (zchk : bool) (c : clk) (ps : list (step_in * step_out)) : bool :=
  match ps with
  | [] => true
  | p :: r =>
    match one_check zchk c p with
    | Some (Some c2) => run_steps zchk c2 r
    | Some None => match r with [] => true | _ => false end      (* the real step raised: end of the trace *)
    | None => false
    end
  end.

(* ---- InteractiveContext.run_until(end) / run_for(duration) / run(): `while clock.time < end: step()`; returns the
        number of steps.  [steps] supplies what happens in each step (it is the fuel). ---- *)
Definition step_spec := ((Z -> list (option Z)) * list ev_act)%type.
Fixpoint run_until (z : bool) (endt : Z) (c : clk) (steps : list step_spec) : result (clk * nat) :=
  match steps with
  | [] => if T c <? endt then OutOfFuel else Ok (c, O)
  | (req, acts) :: r =>
    if T c <? endt then
      match engine_step z req c acts with
      | Ok (c1, _) => match run_until z endt c1 r with
                      | Ok (c2, n) => Ok (c2, Datatypes.S n)
                      | Rejected e => Rejected e
                      | OutOfFuel => OutOfFuel
                      end
      | Rejected e => Rejected e
      | OutOfFuel => OutOfFuel
      end
    else Ok (c, O)
  end.
Definition run_for (z : bool) (d : Z) (c : clk) := run_until z (T c + d) c.
Definition run_to_stop (z : bool) (c : clk) := run_until z (E c) c.      (* SimulationContext.run / InteractiveContext.run *)

(* observed calls: (end time, returned number of steps), in order; the steps of the trace belong to them in order *)
Fixpoint settle (c : clk) (calls : list (Z * nat)) (k : nat) : option (list (Z * nat) * nat) :=
  match calls with
  | [] => Some ([], k)
  | (e, n) :: r => if T c <? e then Some (calls, k) else if Nat.eqb n k then settle c r O else None
  end.
Fixpoint run_steps_until (zchk : bool) (c : clk) (calls : list (Z * nat)) (k : nat) (ps : list (step_in * step_out)) : bool :=
  match settle c calls k with
  | None => false
  | Some (calls', k') =>
    match ps with
    | [] => match calls' with [] => true | _ => false end
    | p :: r =>
      match calls' with
      | [] => false                                  (* a step outside every call *)
      | _ => match one_check zchk c p with
             | Some (Some c2) => run_steps_until zchk c2 calls' (Datatypes.S k') r
             | Some None => match r with [] => true | _ => false end
             | None => false
             end
      end
    end
  end.

(* case: zero-step check of the plugin, (start, stop, minimum, standard, initial global step), population size, request
         table of the initial update, observed state after initialize_simulants, the steps, and - for the run_until /
         run_for / run driver - the observed calls (None for the other drivers) *)
Definition clock_case :=
  (bool * Z * Z * Z * Z * Z * nat * req_table * state_obs * list (step_in * step_out) * option (list (Z * nat)))%type.
(* literals: k six-hour units + r nanoseconds (keeps the generated files quick to parse; exact for every integer) *)
Definition ns (k r : Z) : Z := k * 21600000000000 + r.
Definition check_clock (k : clock_case) : bool :=
  let '(zchk, t0, e, m0, std0, s0, n, tbl0, o0, ps, calls) := k in
  let c := {| T := t0; S := s0; E := e; m := m0; std := std0; rows := []; snooze := []; untracked := [] |} in
  match initialize (req_of tbl0) c n with
  | Ok c1 => state_eqb c1 o0 && covered tbl0 (pre_init c n) &&
             match calls with None => run_steps zchk c1 ps | Some cl => run_steps_until zchk c1 cl O ps end
  | _ => false
  end.

(* post-processor alone: (minimum, standard, values, observed result) *)
Definition check_post (k : Z * Z * list (option Z) * Z) : bool :=
  let '(m0, std0, vals, out) := k in post m0 std0 vals =? out.

(* ---- the clock without step modifiers (`_individual_clocks = None`): every simulant is in every event, the step is
        constant.  case: (start, step, population size, steps = (births in the four events, observed event time,
        observed sizes of the four event indexes [indexes are checked to be 0..k-1 by the harness], clock after)) ---- *)
Fixpoint global_steps (t s : Z) (n : nat) (ps : list (list nat * (Z * list Z * Z * Z))) : bool :=
  match ps with
  | [] => true
  | (bs, (et, sizes, t', s')) :: r =>
    let counts := (fix go (k : nat) (bs : list nat) : list Z * nat :=
                     match bs with [] => ([], k)
                     | b :: bs' => let '(l, k') := go (k + b)%nat bs' in (Z.of_nat k :: l, k') end) n bs in
    (et =? t + s) && zlist_eqb (fst counts) sizes && (t' =? t + s) && (s' =? s) && global_steps (t + s) s (snd counts) r
  end.
Definition check_global (k : Z * Z * nat * list (list nat * (Z * list Z * Z * Z))) : bool :=
  let '(t0, s0, n, ps) := k in global_steps t0 s0 n ps.
