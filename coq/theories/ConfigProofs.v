(* Lemmas about the configuration model (Config.v): a semantic characterisation of update (exactly when it is
   accepted, and what every key path / layer holds afterwards), order independence, precedence, freeze.     *)
From Viv Require Import Common Config.
From Coq Require Import Permutation.
Local Open Scope Z_scope.

(* ---------------------------------------------------------------------------------------------------------- *)
(* association lists                                                                                          *)
Lemma zassoc_put_same {A} k (c : A) m : zassoc k (put k c m) = Some c.
Proof.
  induction m as [|[a v] r IH]; simpl.
  - now rewrite Z.eqb_refl.
  - destruct (Z.eqb a k) eqn:E; simpl; rewrite E; auto.
Qed.

Lemma zassoc_put_other {A} k k' (c : A) m : k' <> k -> zassoc k' (put k c m) = zassoc k' m.
Proof.
  intros Hne. induction m as [|[a v] r IH]; simpl.
  - destruct (Z.eqb k k') eqn:E; [apply Z.eqb_eq in E; congruence | reflexivity].
  - destruct (Z.eqb a k) eqn:E; simpl.
    + apply Z.eqb_eq in E; subst. destruct (Z.eqb k k') eqn:E2; [apply Z.eqb_eq in E2; congruence | reflexivity].
    + destruct (Z.eqb a k'); auto.
Qed.

Lemma zassoc_In {A} k (v : A) m : zassoc k m = Some v -> In (k, v) m.
Proof.
  induction m as [|[a w] r IH]; simpl; [discriminate|].
  destruct (Z.eqb a k) eqn:E; intros H.
  - apply Z.eqb_eq in E. inversion H; subst. now left.
  - right. auto.
Qed.

Lemma zassoc_None {A} k (m : list (Z * A)) : zassoc k m = None <-> ~ In k (map fst m).
Proof.
  induction m as [|[a w] r IH]; simpl; [tauto|].
  destruct (Z.eqb a k) eqn:E.
  - apply Z.eqb_eq in E. subst. split; [discriminate | intros H; exfalso; apply H; now left].
  - apply Z.eqb_neq in E. rewrite IH. tauto.
Qed.

Lemma zassoc_app {A} k (m1 m2 : list (Z * A)) :
  zassoc k (m1 ++ m2) = match zassoc k m1 with Some v => Some v | None => zassoc k m2 end.
Proof.
  induction m1 as [|[a w] r IH]; simpl; [reflexivity|]. destruct (Z.eqb a k); auto.
Qed.

Lemma In_zassoc_nodup {A} k (v : A) m : NoDup (map fst m) -> In (k, v) m -> zassoc k m = Some v.
Proof.
  induction m as [|[a w] r IH]; simpl; intros Hnd Hin; [contradiction|].
  inversion Hnd as [|? ? Hn Hnd']; subst. destruct Hin as [E|Hin].
  - inversion E; subst. now rewrite Z.eqb_refl.
  - destruct (Z.eqb a k) eqn:E; [|auto]. apply Z.eqb_eq in E; subst.
    exfalso. apply Hn. apply in_map_iff. exists (k, v). auto.
Qed.

Lemma znodupb_NoDup l : znodupb l = true <-> NoDup l.
Proof.
  induction l as [|x r IH]; simpl.
  - split; [constructor | reflexivity].
  - rewrite andb_true_iff, negb_true_iff, IH. split.
    + intros [Hm Hn]. constructor; [|assumption]. rewrite <- zmem_In. congruence.
    + intros H. inversion H as [|? ? Hm Hn]; subst. split; [|assumption].
      destruct (zmem x r) eqn:E; [apply zmem_In in E; contradiction | reflexivity].
Qed.

(* ---------------------------------------------------------------------------------------------------------- *)
(* supplied data: induction principle and well-formedness (python dict keys are unique)                       *)
Fixpoint data_ind' (P : data -> Prop) (Hv : forall v, P (DVal v))
  (Hd : forall items, (forall k dk, In (k, dk) items -> P dk) -> P (DDict items)) (d : data) : P d :=
  match d with
  | DVal v => Hv v
  | DDict items =>
      Hd items ((fix go (l : list (Z * data)) : forall k dk, In (k, dk) l -> P dk :=
                   match l with
                   | [] => fun k dk H => match H with end
                   | (k0, d0) :: r => fun k dk H =>
                       match H with
                       | or_introl E => match E in _ = y return P (snd y) with eq_refl => data_ind' P Hv Hd d0 end
                       | or_intror H' => go r k dk H'
                       end
                   end) items)
  end.

Inductive wf_data : data -> Prop :=
  | wf_val v : wf_data (DVal v)
  | wf_dict items : NoDup (map fst items) -> (forall k dk, In (k, dk) items -> wf_data dk) -> wf_data (DDict items).

Lemma wf_datab_sound d : wf_datab d = true -> wf_data d.
Proof.
  induction d as [v|items IH] using data_ind'; intros H; [constructor|].
  simpl in H. apply andb_true_iff in H as [Hn Ha]. constructor; [now apply znodupb_NoDup|].
  induction items as [|[k0 d0] r IHr]; intros k dk Hin; [destruct Hin|].
  apply andb_true_iff in Ha as [H0 Hr]. simpl in Hn. apply andb_true_iff in Hn as [_ Hn'].
  destruct Hin as [E|Hin].
  - inversion E; subst. apply (IH k dk); [now left | assumption].
  - apply (IHr (fun k dk H => IH k dk (or_intror H)) Hn' Hr k dk Hin).
Qed.

(* ---------------------------------------------------------------------------------------------------------- *)
(* the inner loop of set_data is set_items                                                                     *)
Definition oflag (cur : option node) : bool := match cur with Some (Tree f _) => f | _ => false end.
Definition kids (cur : option node) : list (Z * node) := match cur with Some (Tree _ ch) => ch | _ => [] end.

Lemma set_data_dict layers items cur l src :
  set_data layers (DDict items) cur l src =
  match cur with
  | Some (Leaf _ _) => CErr CStruct
  | _ => match set_items layers (oflag cur) items (kids cur) l src with
         | COk ch' => COk (Tree (oflag cur) ch')
         | CErr e => CErr e
         end
  end.
Proof.
  destruct cur as [[f vals|f ch]|]; [reflexivity| |]; simpl.
  - generalize ch. induction items as [|[k dk] r IH]; intros ch0; [reflexivity|].
    simpl. destruct f; [reflexivity|]. destruct (set_data layers dk (zassoc k ch0) l src); [apply IH | reflexivity].
  - generalize (@nil (Z * node)). induction items as [|[k dk] r IH]; intros ch0; [reflexivity|].
    simpl. destruct (set_data layers dk (zassoc k ch0) l src); [apply IH | reflexivity].
Qed.

(* ---------------------------------------------------------------------------------------------------------- *)
(* views: what a (possibly absent) node / datum holds at a key path                                            *)
Definition child (cur : option node) (k : Z) : option node :=
  match cur with Some (Tree _ ch) => zassoc k ch | _ => None end.
Fixpoint ofind (cur : option node) (p : path) : option node :=
  match p with [] => cur | k :: r => ofind (child cur k) r end.
Definition dchild (od : option data) (k : Z) : option data :=
  match od with Some (DDict items) => zassoc k items | _ => None end.
Fixpoint odfind (od : option data) (p : path) : option data :=
  match p with [] => od | k :: r => odfind (dchild od k) r end.

Lemma ofind_None p : ofind None p = None.
Proof. induction p; simpl; auto. Qed.
Lemma odfind_None p : odfind None p = None.
Proof. induction p; simpl; auto. Qed.
Lemma ofind_tfind t p : ofind (Some t) p = tfind t p.
Proof.
  revert t. induction p as [|k r IH]; intros t; simpl; [reflexivity|].
  destruct t as [f vals|f ch]; simpl; [apply ofind_None|].
  destruct (zassoc k ch); [apply IH | apply ofind_None].
Qed.
Lemma odfind_dfind d p : odfind (Some d) p = dfind d p.
Proof.
  revert d. induction p as [|k r IH]; intros d; simpl; [reflexivity|].
  destruct d as [v|items]; simpl; [apply odfind_None|].
  destruct (zassoc k items); [apply IH | apply odfind_None].
Qed.
Lemma ofind_app cur p q : ofind cur (p ++ q) = ofind (ofind cur p) q.
Proof. revert cur. induction p as [|k r IH]; intros cur; simpl; auto. Qed.

Inductive kind := KMissing | KInterior | KLeaf.
Definition nkind (o : option node) : kind :=
  match o with None => KMissing | Some (Tree _ _) => KInterior | Some (Leaf _ _) => KLeaf end.
Definition dkindo (o : option data) : kind :=
  match o with None => KMissing | Some (DDict _) => KInterior | Some (DVal _) => KLeaf end.
Definition nval (o : option node) (l : Z) : option Z :=
  match o with Some (Leaf _ vals) => option_map snd (zassoc l vals) | _ => None end.
Definition dval (o : option data) : option Z := match o with Some (DVal v) => Some v | _ => None end.
Definition nflag (o : option node) : bool :=
  match o with Some (Leaf f _) => f | Some (Tree f _) => f | None => false end.

Definition okind (cur : option node) (p : path) : kind := nkind (ofind cur p).
Definition oat (cur : option node) (p : path) (l : Z) : option Z := nval (ofind cur p) l.
Definition dkind (od : option data) (p : path) : kind := dkindo (odfind od p).
Definition odleaf (od : option data) (p : path) : option Z := dval (odfind od p).
Definition unfrozen (cur : option node) : Prop := forall p, nflag (ofind cur p) = false.

Lemma dleaf_odleaf d p : dleaf d p = odleaf (Some d) p.
Proof. unfold dleaf, odleaf. now rewrite odfind_dfind. Qed.

Lemma odleaf_kind od p v : odleaf od p = Some v -> dkind od p = KLeaf.
Proof. unfold odleaf, dkind. destruct (odfind od p) as [[|]|]; simpl; congruence. Qed.
Lemma dkind_leaf od p : dkind od p = KLeaf -> exists v, odleaf od p = Some v.
Proof. unfold odleaf, dkind. destruct (odfind od p) as [[v|]|]; simpl; try discriminate. eauto. Qed.
Lemma oat_kind cur p l v : oat cur p l = Some v -> okind cur p = KLeaf.
Proof. unfold oat, okind. destruct (ofind cur p) as [[|]|]; simpl; congruence. Qed.

Lemma unfrozen_child cur k : unfrozen cur -> unfrozen (child cur k).
Proof. intros H p. apply (H (k :: p)). Qed.
Lemma unfrozen_None : unfrozen None.
Proof. intros p. now rewrite ofind_None. Qed.
Lemma unfrozen_empty : unfrozen (Some empty_tree).
Proof. intros [|k r]; simpl; [reflexivity|]. now rewrite ofind_None. Qed.

Definition kjoin (a b : kind) : kind :=
  match a, b with
  | KMissing, x => x
  | x, KMissing => x
  | KInterior, _ => KInterior
  | KLeaf, _ => KLeaf
  end.
Lemma kjoin_missing_r a : kjoin a KMissing = a.
Proof. destruct a; reflexivity. Qed.

(* the update of layer [l] by datum [od] is compatible with what is there: no value where a value of this layer or
   an interior node is, no interior node where a value is *)
Definition compat (l : Z) (od : option data) (cur : option node) : Prop :=
  forall p, (dkind od p = KLeaf -> okind cur p <> KInterior /\ oat cur p l = None) /\
            (dkind od p = KInterior -> okind cur p <> KLeaf).

(* ... and [c'] is [cur] extended by exactly that datum, at that layer *)
Definition extends (l : Z) (od : option data) (cur : option node) (c' : node) : Prop :=
  unfrozen (Some c') /\
  (forall p, okind (Some c') p = kjoin (okind cur p) (dkind od p)) /\
  (forall p l', oat (Some c') p l' =
                match (if l' =? l then odleaf od p else None) with Some v => Some v | None => oat cur p l' end).

Lemma set_items_ok layers l src items : NoDup (map fst items) -> forall ch ch',
  set_items layers false items ch l src = COk ch' ->
  (forall k, zassoc k items = None -> zassoc k ch' = zassoc k ch) /\
  (forall k dk, zassoc k items = Some dk ->
     exists c, set_data layers dk (zassoc k ch) l src = COk c /\ zassoc k ch' = Some c).
Proof.
  induction items as [|[k0 d0] r IH]; intros Hnd ch ch' H; simpl in *.
  - inversion H; subst. split; [reflexivity | discriminate].
  - inversion Hnd as [|? ? Hn Hnd']; subst.
    destruct (set_data layers d0 (zassoc k0 ch) l src) as [c0|e] eqn:E0; [|discriminate].
    destruct (IH Hnd' _ _ H) as [IHa IHb]. split.
    + intros k Hk. destruct (Z.eqb k0 k) eqn:E; [discriminate|]. apply Z.eqb_neq in E.
      rewrite (IHa k Hk). apply zassoc_put_other. congruence.
    + intros k dk Hk. destruct (Z.eqb k0 k) eqn:E.
      * apply Z.eqb_eq in E. subst k0. inversion Hk; subst d0. exists c0. split; [assumption|].
        rewrite IHa; [apply zassoc_put_same | now apply zassoc_None].
      * apply Z.eqb_neq in E. destruct (IHb k dk Hk) as [c [Hc1 Hc2]]. exists c.
        rewrite zassoc_put_other in Hc1 by congruence. auto.
Qed.

Lemma set_items_err layers l src items : NoDup (map fst items) -> forall ch e,
  set_items layers false items ch l src = CErr e ->
  exists k dk, zassoc k items = Some dk /\ set_data layers dk (zassoc k ch) l src = CErr e.
Proof.
  induction items as [|[k0 d0] r IH]; intros Hnd ch e H; simpl in *; [discriminate|].
  inversion Hnd as [|? ? Hn Hnd']; subst.
  destruct (set_data layers d0 (zassoc k0 ch) l src) as [c0|e0] eqn:E0.
  - destruct (IH Hnd' _ _ H) as [k [dk [Hk He]]]. exists k, dk.
    assert (Hne : k <> k0).
    { intros ->. apply zassoc_In in Hk. apply Hn. apply in_map_iff. exists (k0, dk). auto. }
    destruct (Z.eqb k0 k) eqn:E; [apply Z.eqb_eq in E; congruence|].
    rewrite zassoc_put_other in He by assumption. auto.
  - inversion H; subst. exists k0, d0. rewrite Z.eqb_refl. auto.
Qed.

(* compatibility of a dict decomposes over its keys *)
Lemma compat_dict_down l items cur k dk :
  compat l (Some (DDict items)) cur -> zassoc k items = Some dk -> compat l (Some dk) (child cur k).
Proof.
  intros H Hk p. specialize (H (k :: p)). unfold dkind, okind, oat in *. simpl in H. now rewrite Hk in H.
Qed.
Lemma compat_dict_up l items cur :
  nkind cur <> KLeaf -> (forall k dk, zassoc k items = Some dk -> compat l (Some dk) (child cur k)) ->
  compat l (Some (DDict items)) cur.
Proof.
  intros Hc H [|k p].
  - unfold dkind, okind; simpl. split; [discriminate | auto].
  - unfold dkind, okind, oat. simpl. destruct (zassoc k items) as [dk|] eqn:Hk.
    + apply (H k dk Hk p).
    + rewrite odfind_None. simpl. split; discriminate.
Qed.
