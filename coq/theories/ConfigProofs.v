(* Lemmas about the configuration model (Config.v): a semantic characterisation of update (exactly when it is
   accepted, and what every key path / layer holds afterwards), order independence, precedence, freeze.     *)
From Viv Require Import Common Config.
From Coq Require Import Permutation.
Local Open Scope Z_scope.

(* ---------------------------------------------------------------------------------------------------------- *)
(* association lists                                                                                          *)
Lemma zassoc_put_same {A} k (c : A) m : zassoc k (put k c m) = Some c.
Proof.
  induction m as [|[a v] r IH]; simpl.
  - now rewrite Z.eqb_refl.
  - destruct (Z.eqb a k) eqn:E; simpl; rewrite E; auto.
Qed.

Lemma zassoc_put_other {A} k k' (c : A) m : k' <> k -> zassoc k' (put k c m) = zassoc k' m.
Proof.
  intros Hne. induction m as [|[a v] r IH]; simpl.
  - destruct (Z.eqb k k') eqn:E; [apply Z.eqb_eq in E; congruence | reflexivity].
  - destruct (Z.eqb a k) eqn:E; simpl.
    + apply Z.eqb_eq in E; subst. destruct (Z.eqb k k') eqn:E2; [apply Z.eqb_eq in E2; congruence | reflexivity].
    + destruct (Z.eqb a k'); auto.
Qed.

Lemma zassoc_In {A} k (v : A) m : zassoc k m = Some v -> In (k, v) m.
Proof.
  induction m as [|[a w] r IH]; simpl; [discriminate|].
  destruct (Z.eqb a k) eqn:E; intros H.
  - apply Z.eqb_eq in E. inversion H; subst. now left.
  - right. auto.
Qed.

Lemma zassoc_None {A} k (m : list (Z * A)) : zassoc k m = None <-> ~ In k (map fst m).
Proof.
  induction m as [|[a w] r IH]; simpl; [tauto|].
  destruct (Z.eqb a k) eqn:E.
  - apply Z.eqb_eq in E. subst. split; [discriminate | intros H; exfalso; apply H; now left].
  - apply Z.eqb_neq in E. rewrite IH. tauto.
Qed.

Lemma zassoc_app {A} k (m1 m2 : list (Z * A)) :
  zassoc k (m1 ++ m2) = match zassoc k m1 with Some v => Some v | None => zassoc k m2 end.
Proof.
  induction m1 as [|[a w] r IH]; simpl; [reflexivity|]. destruct (Z.eqb a k); auto.
Qed.

Lemma In_zassoc_nodup {A} k (v : A) m : NoDup (map fst m) -> In (k, v) m -> zassoc k m = Some v.
Proof.
  induction m as [|[a w] r IH]; simpl; intros Hnd Hin; [contradiction|].
  inversion Hnd as [|? ? Hn Hnd']; subst. destruct Hin as [E|Hin].
  - inversion E; subst. now rewrite Z.eqb_refl.
  - destruct (Z.eqb a k) eqn:E; [|auto]. apply Z.eqb_eq in E; subst.
    exfalso. apply Hn. apply in_map_iff. exists (k, v). auto.
Qed.

Lemma znodupb_NoDup l : znodupb l = true <-> NoDup l.
Proof.
  induction l as [|x r IH]; simpl.
  - split; [constructor | reflexivity].
  - rewrite andb_true_iff, negb_true_iff, IH. split.
    + intros [Hm Hn]. constructor; [|assumption]. rewrite <- zmem_In. congruence.
    + intros H. inversion H as [|? ? Hm Hn]; subst. split; [|assumption].
      destruct (zmem x r) eqn:E; [apply zmem_In in E; contradiction | reflexivity].
Qed.

(* ---------------------------------------------------------------------------------------------------------- *)
(* supplied data: induction principle and well-formedness (python dict keys are unique)                       *)
Fixpoint data_ind' (P : data -> Prop) (Hv : forall v, P (DVal v))
  (Hd : forall items, (forall k dk, In (k, dk) items -> P dk) -> P (DDict items)) (d : data) : P d :=
  match d with
  | DVal v => Hv v
  | DDict items =>
      Hd items ((fix go (l : list (Z * data)) : forall k dk, In (k, dk) l -> P dk :=
                   match l with
                   | [] => fun k dk H => match H with end
                   | (k0, d0) :: r => fun k dk H =>
                       match H with
                       | or_introl E => match E in _ = y return P (snd y) with eq_refl => data_ind' P Hv Hd d0 end
                       | or_intror H' => go r k dk H'
                       end
                   end) items)
  end.

Inductive wf_data : data -> Prop :=
  | wf_val v : wf_data (DVal v)
  | wf_dict items : NoDup (map fst items) -> (forall k dk, In (k, dk) items -> wf_data dk) -> wf_data (DDict items).

Lemma wf_datab_sound d : wf_datab d = true -> wf_data d.
Proof.
  induction d as [v|items IH] using data_ind'; intros H; [constructor|].
  simpl in H. apply andb_true_iff in H as [Hn Ha]. constructor; [now apply znodupb_NoDup|].
  induction items as [|[k0 d0] r IHr]; intros k dk Hin; [destruct Hin|].
  apply andb_true_iff in Ha as [H0 Hr]. simpl in Hn. apply andb_true_iff in Hn as [_ Hn'].
  destruct Hin as [E|Hin].
  - inversion E; subst. apply (IH k dk); [now left | assumption].
  - apply (IHr (fun k dk H => IH k dk (or_intror H)) Hn' Hr k dk Hin).
Qed.

(* ---------------------------------------------------------------------------------------------------------- *)
(* the inner loop of set_data is set_items                                                                     *)
Definition oflag (cur : option node) : bool := match cur with Some (Tree f _) => f | _ => false end.
Definition kids (cur : option node) : list (Z * node) := match cur with Some (Tree _ ch) => ch | _ => [] end.

Lemma set_data_dict layers items cur l src :
  set_data layers (DDict items) cur l src =
  match cur with
  | Some (Leaf _ _) => CErr CStruct
  | _ => match set_items layers (oflag cur) items (kids cur) l src with
         | COk ch' => COk (Tree (oflag cur) ch')
         | CErr e => CErr e
         end
  end.
Proof.
  destruct cur as [[f vals|f ch]|]; [reflexivity| |]; simpl.
  - generalize ch. induction items as [|[k dk] r IH]; intros ch0; [reflexivity|].
    simpl. destruct f; [reflexivity|]. destruct (set_data layers dk (zassoc k ch0) l src); [apply IH | reflexivity].
  - generalize (@nil (Z * node)). induction items as [|[k dk] r IH]; intros ch0; [reflexivity|].
    simpl. destruct (set_data layers dk (zassoc k ch0) l src); [apply IH | reflexivity].
Qed.

(* ---------------------------------------------------------------------------------------------------------- *)
(* views: what a (possibly absent) node / datum holds at a key path                                            *)
Definition child (cur : option node) (k : Z) : option node :=
  match cur with Some (Tree _ ch) => zassoc k ch | _ => None end.
Fixpoint ofind (cur : option node) (p : path) : option node :=
  match p with [] => cur | k :: r => ofind (child cur k) r end.
Definition dchild (od : option data) (k : Z) : option data :=
  match od with Some (DDict items) => zassoc k items | _ => None end.
Fixpoint odfind (od : option data) (p : path) : option data :=
  match p with [] => od | k :: r => odfind (dchild od k) r end.

Lemma ofind_None p : ofind None p = None.
Proof. induction p; simpl; auto. Qed.
Lemma odfind_None p : odfind None p = None.
Proof. induction p; simpl; auto. Qed.
Lemma ofind_tfind t p : ofind (Some t) p = tfind t p.
Proof.
  revert t. induction p as [|k r IH]; intros t; simpl; [reflexivity|].
  destruct t as [f vals|f ch]; simpl; [apply ofind_None|].
  destruct (zassoc k ch); [apply IH | apply ofind_None].
Qed.
Lemma odfind_dfind d p : odfind (Some d) p = dfind d p.
Proof.
  revert d. induction p as [|k r IH]; intros d; simpl; [reflexivity|].
  destruct d as [v|items]; simpl; [apply odfind_None|].
  destruct (zassoc k items); [apply IH | apply odfind_None].
Qed.
Lemma ofind_app cur p q : ofind cur (p ++ q) = ofind (ofind cur p) q.
Proof. revert cur. induction p as [|k r IH]; intros cur; simpl; auto. Qed.

Inductive kind := KMissing | KInterior | KLeaf.
Definition nkind (o : option node) : kind :=
  match o with None => KMissing | Some (Tree _ _) => KInterior | Some (Leaf _ _) => KLeaf end.
Definition dkindo (o : option data) : kind :=
  match o with None => KMissing | Some (DDict _) => KInterior | Some (DVal _) => KLeaf end.
Definition nval (o : option node) (l : Z) : option Z :=
  match o with Some (Leaf _ vals) => option_map snd (zassoc l vals) | _ => None end.
Definition dval (o : option data) : option Z := match o with Some (DVal v) => Some v | _ => None end.
Definition nflag (o : option node) : bool :=
  match o with Some (Leaf f _) => f | Some (Tree f _) => f | None => false end.

Definition okind (cur : option node) (p : path) : kind := nkind (ofind cur p).
Definition oat (cur : option node) (p : path) (l : Z) : option Z := nval (ofind cur p) l.
Definition dkind (od : option data) (p : path) : kind := dkindo (odfind od p).
Definition odleaf (od : option data) (p : path) : option Z := dval (odfind od p).
Definition unfrozen (cur : option node) : Prop := forall p, nflag (ofind cur p) = false.

Lemma dleaf_odleaf d p : dleaf d p = odleaf (Some d) p.
Proof. unfold dleaf, odleaf. now rewrite odfind_dfind. Qed.

Lemma odleaf_kind od p v : odleaf od p = Some v -> dkind od p = KLeaf.
Proof. unfold odleaf, dkind. destruct (odfind od p) as [[|]|]; simpl; congruence. Qed.
Lemma dkind_leaf od p : dkind od p = KLeaf -> exists v, odleaf od p = Some v.
Proof. unfold odleaf, dkind. destruct (odfind od p) as [[v|]|]; simpl; try discriminate. eauto. Qed.
Lemma oat_kind cur p l v : oat cur p l = Some v -> okind cur p = KLeaf.
Proof. unfold oat, okind. destruct (ofind cur p) as [[|]|]; simpl; congruence. Qed.

Lemma unfrozen_child cur k : unfrozen cur -> unfrozen (child cur k).
Proof. intros H p. apply (H (k :: p)). Qed.
Lemma unfrozen_None : unfrozen None.
Proof. intros p. now rewrite ofind_None. Qed.
Lemma unfrozen_empty : unfrozen (Some empty_tree).
Proof. intros [|k r]; simpl; [reflexivity|]. now rewrite ofind_None. Qed.

Definition kjoin (a b : kind) : kind :=
  match a, b with
  | KMissing, x => x
  | x, KMissing => x
  | KInterior, _ => KInterior
  | KLeaf, _ => KLeaf
  end.
Lemma kjoin_missing_r a : kjoin a KMissing = a.
Proof. destruct a; reflexivity. Qed.

(* the update of layer [l] by datum [od] is compatible with what is there: no value where a value of this layer or
   an interior node is, no interior node where a value is *)
Definition compat (l : Z) (od : option data) (cur : option node) : Prop :=
  forall p, (dkind od p = KLeaf -> okind cur p <> KInterior /\ oat cur p l = None) /\
            (dkind od p = KInterior -> okind cur p <> KLeaf).

(* ... and [c'] is [cur] extended by exactly that datum, at that layer *)
Definition extends (l : Z) (od : option data) (cur : option node) (c' : node) : Prop :=
  unfrozen (Some c') /\
  (forall p, okind (Some c') p = kjoin (okind cur p) (dkind od p)) /\
  (forall p l', oat (Some c') p l' =
                match (if l' =? l then odleaf od p else None) with Some v => Some v | None => oat cur p l' end).

Lemma set_items_ok layers l src items : NoDup (map fst items) -> forall ch ch',
  set_items layers false items ch l src = COk ch' ->
  (forall k, zassoc k items = None -> zassoc k ch' = zassoc k ch) /\
  (forall k dk, zassoc k items = Some dk ->
     exists c, set_data layers dk (zassoc k ch) l src = COk c /\ zassoc k ch' = Some c).
Proof.
  induction items as [|[k0 d0] r IH]; intros Hnd ch ch' H; simpl in *.
  - inversion H; subst. split; [reflexivity | discriminate].
  - inversion Hnd as [|? ? Hn Hnd']; subst.
    destruct (set_data layers d0 (zassoc k0 ch) l src) as [c0|e] eqn:E0; [|discriminate].
    destruct (IH Hnd' _ _ H) as [IHa IHb]. split.
    + intros k Hk. destruct (Z.eqb k0 k) eqn:E; [discriminate|]. apply Z.eqb_neq in E.
      rewrite (IHa k Hk). apply zassoc_put_other. congruence.
    + intros k dk Hk. destruct (Z.eqb k0 k) eqn:E.
      * apply Z.eqb_eq in E. subst k0. inversion Hk; subst d0. exists c0. split; [assumption|].
        rewrite IHa; [apply zassoc_put_same | now apply zassoc_None].
      * apply Z.eqb_neq in E. destruct (IHb k dk Hk) as [c [Hc1 Hc2]]. exists c.
        rewrite zassoc_put_other in Hc1 by congruence. auto.
Qed.

Lemma set_items_err layers l src items : NoDup (map fst items) -> forall ch e,
  set_items layers false items ch l src = CErr e ->
  exists k dk, zassoc k items = Some dk /\ set_data layers dk (zassoc k ch) l src = CErr e.
Proof.
  induction items as [|[k0 d0] r IH]; intros Hnd ch e H; simpl in *; [discriminate|].
  inversion Hnd as [|? ? Hn Hnd']; subst.
  destruct (set_data layers d0 (zassoc k0 ch) l src) as [c0|e0] eqn:E0.
  - destruct (IH Hnd' _ _ H) as [k [dk [Hk He]]]. exists k, dk.
    assert (Hne : k <> k0).
    { intros ->. apply zassoc_In in Hk. apply Hn. apply in_map_iff. exists (k0, dk). auto. }
    destruct (Z.eqb k0 k) eqn:E; [apply Z.eqb_eq in E; congruence|].
    rewrite zassoc_put_other in He by assumption. auto.
  - inversion H; subst. exists k0, d0. rewrite Z.eqb_refl. auto.
Qed.

(* compatibility of a dict decomposes over its keys *)
Lemma compat_dict_down l items cur k dk :
  compat l (Some (DDict items)) cur -> zassoc k items = Some dk -> compat l (Some dk) (child cur k).
Proof.
  intros H Hk p. specialize (H (k :: p)). unfold dkind, okind, oat in *. simpl in H. now rewrite Hk in H.
Qed.
Lemma compat_dict_up l items cur :
  nkind cur <> KLeaf -> (forall k dk, zassoc k items = Some dk -> compat l (Some dk) (child cur k)) ->
  compat l (Some (DDict items)) cur.
Proof.
  intros Hc H [|k p].
  - unfold dkind, okind; simpl. split; [discriminate | auto].
  - unfold dkind, okind, oat. simpl. destruct (zassoc k items) as [dk|] eqn:Hk.
    + apply (H k dk Hk p).
    + rewrite odfind_None. simpl. split; discriminate.
Qed.

(* ---------------------------------------------------------------------------------------------------------- *)
(* THE characterisation of one update on an unfrozen configuration: accepted exactly when compatible, and then
   the result is the old configuration extended by the datum at that layer                                      *)
Section Spec.
Variable layers : list Z.
Variables l src : Z.
Hypothesis Hl : In l layers.

Definition spec_of (d : data) (cur : option node) : Prop :=
  match set_data layers d cur l src with
  | COk c' => compat l (Some d) cur /\ extends l (Some d) cur c'
  | CErr e => ~ compat l (Some d) cur /\ (e = CStruct \/ exists s, e = CDup s)
  end.

Lemma set_val_spec v cur : unfrozen cur -> spec_of (DVal v) cur.
Proof.
  intros Hu. assert (Hz : zmem l layers = true) by (now apply zmem_In).
  assert (Hnew : forall vals, zassoc l vals = None ->
            extends l (Some (DVal v)) (Some (Leaf false vals)) (Leaf false (vals ++ [(l, (src, v))]))).
  { intros vals E. split; [|split].
    - intros [|k p]; simpl; [reflexivity | now rewrite ofind_None].
    - intros [|k p]; unfold okind, dkind; simpl; [reflexivity|]. now rewrite ofind_None, odfind_None.
    - intros [|k p] l'; unfold oat, odleaf; simpl.
      + rewrite zassoc_app. simpl. destruct (Z.eqb l' l) eqn:El.
        * apply Z.eqb_eq in El; subst. rewrite E. simpl. now rewrite Z.eqb_refl.
        * destruct (zassoc l' vals); simpl; [reflexivity|]. rewrite Z.eqb_sym, El. reflexivity.
      + rewrite ofind_None, odfind_None. simpl. destruct (l' =? l); reflexivity. }
  unfold spec_of. destruct cur as [[f vals|f ch]|]; simpl.
  - assert (f = false) by (apply (Hu [])). subst. unfold leaf_update. rewrite Hz. simpl.
    destruct (zassoc l vals) as [[s v0]|] eqn:E.
    + split; [|right; eauto]. intros Hc. destruct (Hc []) as [Hc1 _]. unfold dkind, okind, oat in Hc1; simpl in Hc1.
      destruct (Hc1 eq_refl) as [_ H]. rewrite E in H. discriminate.
    + split; [|now apply Hnew].
      intros [|k p]; unfold dkind, okind, oat; simpl.
      * split; [intros _; split; [discriminate | now rewrite E] | discriminate].
      * rewrite odfind_None. simpl. split; discriminate.
  - split; [|now left]. intros Hc. destruct (Hc []) as [Hc1 _]. unfold dkind, okind in Hc1; simpl in Hc1.
    destruct (Hc1 eq_refl) as [H _]. now apply H.
  - unfold leaf_update. rewrite Hz. simpl. split.
    + intros [|k p]; unfold dkind, okind, oat; simpl.
      * split; [intros _; split; [discriminate | reflexivity] | discriminate].
      * rewrite odfind_None. simpl. split; discriminate.
    + pose proof (Hnew [] eq_refl) as H0. simpl in H0. destruct H0 as [H1 [H2 H3]]. split; [exact H1 | split].
      * intros p. rewrite (H2 p). unfold okind. destruct p; simpl; [reflexivity | now rewrite !ofind_None].
      * intros p l'. rewrite (H3 p l'). unfold oat. destruct p; simpl; [reflexivity | now rewrite !ofind_None].
Qed.

Lemma child_kids cur k : nkind cur <> KLeaf -> child cur k = zassoc k (kids cur).
Proof. destruct cur as [[|]|]; simpl; auto. Qed.

Lemma set_data_spec d : wf_data d -> forall cur, unfrozen cur -> spec_of d cur.
Proof.
  induction d as [v|items IH] using data_ind'; intros Hwf cur Hu.
  - now apply set_val_spec.
  - inversion Hwf as [|? Hnd Hsub]; subst. unfold spec_of. rewrite set_data_dict.
    destruct (nkind cur) eqn:Hkc.
    3:{ destruct cur as [[f vals|f ch]|]; try discriminate. split; [|now left].
        intros Hc. destruct (Hc []) as [_ Hc2]. unfold dkind, okind in Hc2; simpl in Hc2. now apply Hc2. }
    all: assert (Hnk : nkind cur <> KLeaf) by (rewrite Hkc; discriminate).
    all: assert (Hf : oflag cur = false) by (destruct cur as [[|]|]; try discriminate; try reflexivity; apply (Hu [])).
    all: assert (Hgoal : match set_items layers false items (kids cur) l src with
                         | COk ch' => compat l (Some (DDict items)) cur /\ extends l (Some (DDict items)) cur (Tree false ch')
                         | CErr e => ~ compat l (Some (DDict items)) cur /\ (e = CStruct \/ exists s, e = CDup s)
                         end).
    2,4: rewrite Hf; destruct cur as [[|]|]; try discriminate;
         destruct (set_items layers false items _ l src); exact Hgoal.
    all: assert (HIH : forall k dk, zassoc k items = Some dk -> spec_of dk (child cur k))
           by (intros k dk Hk; apply (IH k dk (zassoc_In _ _ _ Hk) (Hsub k dk (zassoc_In _ _ _ Hk)));
               apply unfrozen_child; exact Hu).
    all: destruct (set_items layers false items (kids cur) l src) as [ch'|e] eqn:E.
    2,4: destruct (set_items_err _ _ _ _ Hnd _ _ E) as [k [dk [Hk He]]];
         rewrite <- (child_kids _ k Hnk) in He;
         specialize (HIH k dk Hk); unfold spec_of in HIH; rewrite He in HIH; destruct HIH as [Hnc Hcls];
         (split; [|assumption]); intros Hc; apply Hnc; eapply compat_dict_down; eauto.
    all: destruct (set_items_ok _ _ _ _ Hnd _ _ E) as [Ha Hb].
    all: assert (Hss : forall k dk, zassoc k items = Some dk ->
              exists c, zassoc k ch' = Some c /\ compat l (Some dk) (child cur k) /\ extends l (Some dk) (child cur k) c)
           by (intros k dk Hk; destruct (Hb k dk Hk) as [c [Hc1 Hc2]]; exists c; split; [assumption|];
               rewrite <- (child_kids _ k Hnk) in Hc1;
               specialize (HIH k dk Hk); unfold spec_of in HIH; rewrite Hc1 in HIH; exact HIH).
    all: split; [apply compat_dict_up; [assumption|]; intros k dk Hk; destruct (Hss k dk Hk) as [c [_ [Hc _]]]; exact Hc|].
    all: split; [|split].
    1,4: intros [|k p]; simpl; [reflexivity|]; destruct (zassoc k items) as [dk|] eqn:Hk;
              [destruct (Hss k dk Hk) as [c [Hc [_ [Huc _]]]]; rewrite Hc; apply Huc
              |rewrite (Ha k Hk), <- (child_kids _ k Hnk); apply (Hu (k :: p))].
    1,3: intros [|k p]; unfold okind, dkind; simpl;
              [rewrite Hkc; reflexivity|];
              destruct (zassoc k items) as [dk|] eqn:Hk;
              [destruct (Hss k dk Hk) as [c [Hc [_ [_ [Hkj _]]]]]; rewrite Hc; apply Hkj
              |rewrite (Ha k Hk), odfind_None; simpl; rewrite kjoin_missing_r, (child_kids _ k Hnk); reflexivity].
    all: intros [|k p] l'; unfold oat, odleaf; simpl;
         [destruct (l' =? l); destruct cur as [[|]|]; simpl; try reflexivity; discriminate|];
         destruct (zassoc k items) as [dk|] eqn:Hk;
         [destruct (Hss k dk Hk) as [c [Hc [_ [_ [_ Hat]]]]]; rewrite Hc; apply Hat
         |rewrite (Ha k Hk), odfind_None; simpl; destruct (l' =? l); rewrite (child_kids _ k Hnk); reflexivity].
Qed.
End Spec.

(* ---------------------------------------------------------------------------------------------------------- *)
(* consequences: acceptance criterion, view equivalence, commutation of two updates                           *)
Definition veq (a b : option node) : Prop :=
  (forall p, okind a p = okind b p) /\ (forall p l, oat a p l = oat b p l).

Lemma veq_refl a : veq a a.
Proof. split; reflexivity. Qed.
Lemma veq_sym a b : veq a b -> veq b a.
Proof. intros [H1 H2]. split; intros; symmetry; auto. Qed.
Lemma veq_trans a b c : veq a b -> veq b c -> veq a c.
Proof. intros [H1 H2] [H3 H4]. split; intros; [rewrite H1 | rewrite H2]; auto. Qed.

Lemma compat_veq l od a b : veq a b -> compat l od a -> compat l od b.
Proof. intros [H1 H2] Hc p. rewrite <- (H1 p), <- (H2 p l). apply Hc. Qed.

Local Arguments set_data : simpl never.

Section Seq.
Variable layers : list Z.

Lemma set_data_ok_iff d cur l src : In l layers -> wf_data d -> unfrozen cur ->
  (exists c', set_data layers d cur l src = COk c') <-> compat l (Some d) cur.
Proof.
  intros Hl Hwf Hu. pose proof (set_data_spec layers l src Hl d Hwf cur Hu) as S. unfold spec_of in S.
  destruct (set_data layers d cur l src) as [c'|e].
  - split; [intros _; apply S | eauto].
  - split; [intros [c' H]; discriminate | intros Hc; exfalso; now apply (proj1 S)].
Qed.

Lemma set_data_ok d cur l src c' : In l layers -> wf_data d -> unfrozen cur ->
  set_data layers d cur l src = COk c' -> compat l (Some d) cur /\ extends l (Some d) cur c'.
Proof.
  intros Hl Hwf Hu E. pose proof (set_data_spec layers l src Hl d Hwf cur Hu) as S. unfold spec_of in S.
  now rewrite E in S.
Qed.

Lemma set_data_err d cur l src e : In l layers -> wf_data d -> unfrozen cur ->
  set_data layers d cur l src = CErr e -> ~ compat l (Some d) cur /\ (e = CStruct \/ exists s, e = CDup s).
Proof.
  intros Hl Hwf Hu E. pose proof (set_data_spec layers l src Hl d Hwf cur Hu) as S. unfold spec_of in S.
  now rewrite E in S.
Qed.

Lemma extends_veq l od a b a' b' : veq a b -> extends l od a a' -> extends l od b b' -> veq (Some a') (Some b').
Proof.
  intros [V1 V2] [_ [A1 A2]] [_ [B1 B2]]. split.
  - intros p. now rewrite A1, B1, V1.
  - intros p l'. now rewrite A2, B2, V2.
Qed.

Lemma set_data_veq d a b l s s' a' : In l layers -> wf_data d -> unfrozen a -> unfrozen b -> veq a b ->
  set_data layers d a l s = COk a' -> exists b', set_data layers d b l s' = COk b' /\ veq (Some a') (Some b').
Proof.
  intros Hl Hwf Ha Hb V E. destruct (set_data_ok _ _ _ _ _ Hl Hwf Ha E) as [Hc He].
  assert (Hcb : compat l (Some d) b) by (eapply compat_veq; eauto).
  apply (set_data_ok_iff d b l s' Hl Hwf Hb) in Hcb. destruct Hcb as [b' Eb]. exists b'. split; [assumption|].
  destruct (set_data_ok _ _ _ _ _ Hl Hwf Hb Eb) as [_ Heb]. eapply extends_veq; eauto.
Qed.

(* two accepted updates can be exchanged: same acceptance, same contents *)
Lemma set_data_swap d1 d2 l1 l2 s1 s2 t t1 t12 :
  In l1 layers -> In l2 layers -> wf_data d1 -> wf_data d2 -> unfrozen (Some t) ->
  set_data layers d1 (Some t) l1 s1 = COk t1 -> set_data layers d2 (Some t1) l2 s2 = COk t12 ->
  exists t2 t21, set_data layers d2 (Some t) l2 s2 = COk t2 /\ set_data layers d1 (Some t2) l1 s1 = COk t21 /\
                 veq (Some t12) (Some t21) /\ unfrozen (Some t21).
Proof.
  intros Hl1 Hl2 W1 W2 Hu E1 E2.
  destruct (set_data_ok _ _ _ _ _ Hl1 W1 Hu E1) as [C1 [U1 [K1 A1]]].
  destruct (set_data_ok _ _ _ _ _ Hl2 W2 U1 E2) as [C2 [U12 [K12 A12]]].
  assert (C2t : compat l2 (Some d2) (Some t)).
  { intros p. destruct (C2 p) as [Ca Cb]. rewrite K1, A1 in Ca. rewrite K1 in Cb. split.
    - intros Hk. destruct (Ca Hk) as [Hx Hy]. split.
      + intros Hi. apply Hx. rewrite Hi. destruct (dkind (Some d1) p); reflexivity.
      + destruct (if l2 =? l1 then odleaf (Some d1) p else None); [discriminate | assumption].
    - intros Hk Hi. apply (Cb Hk). rewrite Hi. destruct (dkind (Some d1) p); reflexivity. }
  destruct (proj2 (set_data_ok_iff d2 (Some t) l2 s2 Hl2 W2 Hu) C2t) as [t2 E2t].
  destruct (set_data_ok _ _ _ _ _ Hl2 W2 Hu E2t) as [_ [U2 [K2 A2]]].
  assert (C1t2 : compat l1 (Some d1) (Some t2)).
  { intros p. destruct (C1 p) as [Ca Cb]. destruct (C2 p) as [Cc Cd]. rewrite K1, A1 in Cc. rewrite K1 in Cd.
    rewrite K2, A2. split.
    - intros Hk. destruct (Ca Hk) as [Hx Hy]. split.
      + rewrite Hk in Cc, Cd.
        destruct (okind (Some t) p), (dkind (Some d2) p); simpl in *; try discriminate; try congruence;
          try (exfalso; now apply Cd).
      + destruct (Z.eqb l1 l2) eqn:El; [|assumption]. apply Z.eqb_eq in El. subst l2.
        destruct (odleaf (Some d2) p) as [v2|] eqn:E2'; [|assumption]. exfalso.
        destruct (Cc (odleaf_kind _ _ _ E2')) as [_ Hn]. rewrite Z.eqb_refl in Hn.
        destruct (dkind_leaf _ _ Hk) as [v1 Hv1]. rewrite Hv1 in Hn. discriminate.
    - intros Hk. specialize (Cb Hk). rewrite Hk in Cc, Cd.
      destruct (okind (Some t) p), (dkind (Some d2) p); simpl in *; try discriminate; try congruence;
        try (exfalso; now apply Cc). }
  destruct (proj2 (set_data_ok_iff d1 (Some t2) l1 s1 Hl1 W1 U2) C1t2) as [t21 E1t2].
  destruct (set_data_ok _ _ _ _ _ Hl1 W1 U2 E1t2) as [_ [U21 [K21 A21]]].
  exists t2, t21. split; [assumption|]. split; [assumption|]. split; [|assumption]. split.
  - intros p. rewrite K12, K1, K21, K2. destruct (C1 p) as [Ca Cb]. destruct (C2 p) as [Cc Cd].
    rewrite K1 in Cc, Cd.
    destruct (okind (Some t) p), (dkind (Some d1) p), (dkind (Some d2) p); simpl in *; try reflexivity; exfalso;
      try (now apply Cb); try (now apply Cd); try (now apply (proj1 (Ca eq_refl))); try (now apply (proj1 (Cc eq_refl))).
  - intros p l'. rewrite A12, A1, A21, A2. destruct (C2 p) as [Cc _]. rewrite A1 in Cc.
    destruct (Z.eqb l' l2) eqn:E2'; destruct (Z.eqb l' l1) eqn:E1'; try reflexivity.
    + destruct (odleaf (Some d2) p) as [v2|] eqn:L2; destruct (odleaf (Some d1) p) as [v1|] eqn:L1; try reflexivity.
      exfalso. apply Z.eqb_eq in E2', E1'. subst l1 l2.
      destruct (Cc (odleaf_kind _ _ _ L2)) as [_ Hn]. rewrite Z.eqb_refl in Hn. try rewrite L1 in Hn. discriminate.
Qed.

(* a sequence of updates (datum, layer, source) applied to a configuration *)
Definition upd := (dict * Z * Z)%type.
Fixpoint apply_updates (t : node) (us : list upd) : cres node :=
  match us with
  | [] => COk t
  | (d, l, s) :: r => match set_data layers (DDict d) (Some t) l s with
                      | COk t' => apply_updates t' r
                      | CErr e => CErr e
                      end
  end.
Definition good (u : upd) : Prop := let '(d, l, _) := u in wf_data (DDict d) /\ In l layers.

Lemma apply_updates_app t a b :
  apply_updates t (a ++ b) = match apply_updates t a with COk t' => apply_updates t' b | CErr e => CErr e end.
Proof.
  revert t. induction a as [|[[d l] s] r IH]; intros t; simpl; [reflexivity|].
  destruct (set_data layers (DDict d) (Some t) l s); [apply IH | reflexivity].
Qed.

(* what every path / layer holds after a sequence of accepted updates *)
Lemma apply_updates_spec us : (forall u, In u us -> good u) -> forall t0 t, unfrozen (Some t0) ->
  apply_updates t0 us = COk t ->
  unfrozen (Some t) /\
  forall p l v, oat (Some t) p l = Some v <->
                (oat (Some t0) p l = Some v \/ exists d s, In (d, l, s) us /\ odleaf (Some (DDict d)) p = Some v).
Proof.
  induction us as [|[[d l] s] r IH]; intros Hg t0 t Hu E; simpl in E.
  - inversion E; subst. split; [assumption|]. intros p l v. split; [auto | intros [H|[d [s [[] _]]]]; assumption].
  - destruct (Hg _ (or_introl eq_refl)) as [Hwf Hl].
    destruct (set_data layers (DDict d) (Some t0) l s) as [t1|e] eqn:E1; [|discriminate].
    destruct (set_data_ok _ _ _ _ _ Hl Hwf Hu E1) as [C1 [U1 [K1 A1]]].
    destruct (IH (fun u H => Hg u (or_intror H)) t1 t U1 E) as [Ut Hat]. split; [assumption|].
    intros p l' v. rewrite Hat, A1. split.
    + intros [H|[d' [s' [Hin Hv]]]].
      * destruct (Z.eqb l' l) eqn:El.
        -- apply Z.eqb_eq in El. subst l'. destruct (odleaf (Some (DDict d)) p) as [v'|] eqn:L; [|now left].
           inversion H; subst v'. right. exists d, s. split; [now left | assumption].
        -- now left.
      * right. exists d', s'. split; [now right | assumption].
    + intros [H|[d' [s' [[Hin|Hin] Hv]]]].
      * left. destruct (Z.eqb l' l) eqn:El; [|assumption]. apply Z.eqb_eq in El. subst l'.
        destruct (odleaf (Some (DDict d)) p) as [v'|] eqn:L; [|assumption]. exfalso.
        destruct (C1 p) as [Ca _]. destruct (Ca (odleaf_kind _ _ _ L)) as [_ Hn]. congruence.
      * inversion Hin; subst d' l' s'. left. rewrite Z.eqb_refl, Hv. reflexivity.
      * right. exists d', s'. auto.
Qed.

(* same sequence from equivalent configurations *)
Lemma apply_updates_veq us : (forall u, In u us -> good u) -> forall t1 t2 r1,
  unfrozen (Some t1) -> unfrozen (Some t2) -> veq (Some t1) (Some t2) -> apply_updates t1 us = COk r1 ->
  exists r2, apply_updates t2 us = COk r2 /\ veq (Some r1) (Some r2) /\ unfrozen (Some r1) /\ unfrozen (Some r2).
Proof.
  induction us as [|[[d l] s] r IH]; intros Hg t1 t2 r1 U1 U2 V E; simpl in *.
  - inversion E; subst. exists t2. auto.
  - destruct (Hg _ (or_introl eq_refl)) as [Hwf Hl].
    destruct (set_data layers (DDict d) (Some t1) l s) as [t1'|e] eqn:E1; [|discriminate].
    destruct (set_data_veq _ _ _ _ _ s _ Hl Hwf U1 U2 V E1) as [t2' [E2 V']]. rewrite E2.
    destruct (set_data_ok _ _ _ _ _ Hl Hwf U1 E1) as [_ [U1' _]].
    destruct (set_data_ok _ _ _ _ _ Hl Hwf U2 E2) as [_ [U2' _]].
    apply (IH (fun u H => Hg u (or_intror H)) t1' t2' r1 U1' U2' V' E).
Qed.

(* THE ORDER OF THE UPDATES IS IRRELEVANT: a permuted sequence is accepted too and yields the same contents *)
Lemma apply_updates_perm us us' : Permutation us us' -> (forall u, In u us -> good u) -> forall t1 t2 r1,
  unfrozen (Some t1) -> unfrozen (Some t2) -> veq (Some t1) (Some t2) -> apply_updates t1 us = COk r1 ->
  exists r2, apply_updates t2 us' = COk r2 /\ veq (Some r1) (Some r2).
Proof.
  induction 1 as [|x l l' HP IH|x y l|l l' l'' HP1 IH1 HP2 IH2]; intros Hg t1 t2 r1 U1 U2 V E.
  - simpl in *. inversion E; subst. eauto.
  - destruct x as [[d lx] s]. simpl in *. destruct (Hg _ (or_introl eq_refl)) as [Hwf Hl].
    destruct (set_data layers (DDict d) (Some t1) lx s) as [t1'|e] eqn:E1; [|discriminate].
    destruct (set_data_veq _ _ _ _ _ s _ Hl Hwf U1 U2 V E1) as [t2' [E2 V']]. rewrite E2.
    destruct (set_data_ok _ _ _ _ _ Hl Hwf U1 E1) as [_ [U1' _]].
    destruct (set_data_ok _ _ _ _ _ Hl Hwf U2 E2) as [_ [U2' _]].
    apply (IH (fun u H => Hg u (or_intror H)) t1' t2' r1 U1' U2' V' E).
  - destruct x as [[dx lx] sx]. destruct y as [[dy ly] sy]. simpl in *.
    destruct (Hg _ (or_introl eq_refl)) as [Wy Ly]. destruct (Hg _ (or_intror (or_introl eq_refl))) as [Wx Lx].
    destruct (set_data layers (DDict dy) (Some t1) ly sy) as [ty|e] eqn:Ey; [|discriminate].
    destruct (set_data layers (DDict dx) (Some ty) lx sx) as [tyx|e] eqn:Eyx; [|discriminate].
    destruct (set_data_swap _ _ _ _ _ _ _ _ _ Ly Lx Wy Wx U1 Ey Eyx) as [tx [txy [Ex [Exy [Vs Uxy]]]]].
    destruct (set_data_ok _ _ _ _ _ Lx Wx U1 Ex) as [_ [Ux _]].
    destruct (set_data_veq _ _ _ _ _ sx _ Lx Wx U1 U2 V Ex) as [tx2 [Ex2 Vx]]. rewrite Ex2.
    destruct (set_data_ok _ _ _ _ _ Lx Wx U2 Ex2) as [_ [Ux2 _]].
    destruct (set_data_veq _ _ _ _ _ sy _ Ly Wy Ux Ux2 Vx Exy) as [txy2 [Exy2 Vxy]]. rewrite Exy2.
    destruct (set_data_ok _ _ _ _ _ Ly Wy Ux2 Exy2) as [_ [Uxy2 _]].
    destruct (set_data_ok _ _ _ _ _ Ly Wy U1 Ey) as [_ [Uy _]].
    destruct (set_data_ok _ _ _ _ _ Lx Wx Uy Eyx) as [_ [Uyx _]].
    destruct (apply_updates_veq l (fun u H => Hg u (or_intror (or_intror H))) tyx txy2 r1 Uyx Uxy2
                (veq_trans _ _ _ Vs Vxy) E) as [r2 [Er2 [Vr _]]].
    eauto.
  - destruct (IH1 Hg t1 t1 r1 U1 U1 (veq_refl _) E) as [r' [E' V']].
    assert (Hg' : forall u, In u l' -> good u).
    { intros u Hu. apply Hg. eapply Permutation_in; [apply Permutation_sym; eassumption | assumption]. }
    destruct (IH2 Hg' t1 t2 r' U1 U2 V E') as [r2 [E2 V2]]. exists r2. split; [assumption|].
    eapply veq_trans; eauto.
Qed.

(* two updates of one layer giving a value to the same key path: the sequence is rejected *)
Lemma apply_updates_clash a b c d1 d2 l s1 s2 p v1 v2 t0 :
  (forall u, In u (a ++ (d1, l, s1) :: b ++ (d2, l, s2) :: c) -> good u) -> unfrozen (Some t0) ->
  odleaf (Some (DDict d1)) p = Some v1 -> odleaf (Some (DDict d2)) p = Some v2 ->
  exists e, apply_updates t0 (a ++ (d1, l, s1) :: b ++ (d2, l, s2) :: c) = CErr e /\
            (e = CStruct \/ exists s, e = CDup s).
Proof.
  intros Hg Hu L1 L2.
  replace (a ++ (d1, l, s1) :: b ++ (d2, l, s2) :: c) with ((a ++ (d1, l, s1) :: b) ++ (d2, l, s2) :: c) in *
    by (now rewrite <- app_assoc).
  rewrite apply_updates_app.
  assert (Hg1 : forall u, In u (a ++ (d1, l, s1) :: b) -> good u) by (intros u H; apply Hg, in_or_app; now left).
  destruct (Hg (d2, l, s2)) as [W2 Hl]; [apply in_or_app; right; now left|].
  destruct (apply_updates t0 (a ++ (d1, l, s1) :: b)) as [t'|e] eqn:E.
  - destruct (apply_updates_spec _ Hg1 _ _ Hu E) as [Ut Hat]. simpl.
    destruct (set_data layers (DDict d2) (Some t') l s2) as [t''|e] eqn:E2.
    + exfalso. destruct (set_data_ok _ _ _ _ _ Hl W2 Ut E2) as [C2 _].
      destruct (C2 p) as [Ca _]. destruct (Ca (odleaf_kind _ _ _ L2)) as [_ Hn].
      assert (Hs : oat (Some t') p l = Some v1).
      { apply Hat. right. exists d1, s1. split; [apply in_or_app; right; now left | assumption]. }
      congruence.
    + exists e. split; [reflexivity|]. apply (set_data_err _ _ _ _ _ Hl W2 Ut E2).
  - (* already rejected earlier *)
    exists e. split; [reflexivity|].
    clear - E Hg1 Hu. revert t0 Hu E Hg1. generalize (a ++ (d1, l, s1) :: b) as us.
    induction us as [|[[d l'] s] r IH]; intros t0 Hu E Hg1; simpl in E; [discriminate|].
    destruct (Hg1 _ (or_introl eq_refl)) as [Hwf Hl].
    destruct (set_data layers (DDict d) (Some t0) l' s) as [t1|e1] eqn:E1.
    + destruct (set_data_ok _ _ _ _ _ Hl Hwf Hu E1) as [_ [U1 _]].
      apply (IH t1 U1 E (fun u H => Hg1 u (or_intror H))).
    + inversion E; subst. apply (set_data_err _ _ _ _ _ Hl Hwf Hu E1).
Qed.

(* reading: the value of the highest layer (in the order of the layer list) that holds one *)
Lemma first_some_skip a b vals : (forall x, In x a -> zassoc x vals = None) ->
  first_some (a ++ b) vals = first_some b vals.
Proof.
  induction a as [|x r IH]; intros H; simpl; [reflexivity|].
  rewrite (H x (or_introl eq_refl)). apply IH. intros y Hy. apply H. now right.
Qed.

Lemma get_top lo l hi t p v : layers = lo ++ l :: hi ->
  oat (Some t) p l = Some v -> (forall l', In l' hi -> oat (Some t) p l' = None) -> get layers t p = LVal v.
Proof.
  intros HL Hv Hhi. unfold oat in *. rewrite ofind_tfind in *. unfold get.
  destruct (tfind t p) as [[f vals|f ch]|]; simpl in *; try discriminate.
  unfold top_value. rewrite HL, rev_app_distr. simpl. rewrite <- app_assoc. simpl.
  rewrite first_some_skip.
  - simpl. destruct (zassoc l vals) as [[s v']|]; simpl in *; [congruence | discriminate].
  - intros x Hx. apply in_rev in Hx. specialize (Hhi x Hx). destruct (zassoc x vals); [discriminate | reflexivity].
Qed.

(* PRECEDENCE for an arbitrary accepted sequence of updates of arbitrary layers, starting from the empty
   configuration: a key path reads as the value written at the highest layer anybody wrote it at *)
Theorem precedence us t lo l hi d s p v : (forall u, In u us -> good u) ->
  apply_updates empty_tree us = COk t -> layers = lo ++ l :: hi ->
  In (d, l, s) us -> odleaf (Some (DDict d)) p = Some v ->
  (forall d' l' s', In (d', l', s') us -> In l' hi -> odleaf (Some (DDict d')) p = None) ->
  get layers t p = LVal v.
Proof.
  intros Hg E HL Hin Hv Hhi. destruct (apply_updates_spec _ Hg _ _ unfrozen_empty E) as [_ Hat].
  apply (get_top lo l hi); [assumption | |].
  - apply Hat. right. eauto.
  - intros l' Hl'. destruct (oat (Some t) p l') as [v'|] eqn:E'; [|reflexivity]. exfalso.
    apply Hat in E'. destruct E' as [E'|[d' [s' [Hin' Hv']]]].
    + unfold oat in E'. destruct p; simpl in E'; [discriminate|]. rewrite ofind_None in E'. discriminate.
    + rewrite (Hhi d' l' s' Hin' Hl') in Hv'. discriminate.
Qed.
End Seq.

(* ---------------------------------------------------------------------------------------------------------- *)
(* freeze                                                                                                      *)
Lemma freeze_tree f ch : freeze (Tree f ch) = Tree true (map (fun kc => (fst kc, freeze (snd kc))) ch).
Proof. simpl. f_equal. induction ch as [|[k c] r IH]; simpl; [reflexivity | now rewrite IH]. Qed.

Lemma zassoc_map {A B} (g : A -> B) k (m : list (Z * A)) :
  zassoc k (map (fun kc => (fst kc, g (snd kc))) m) = option_map g (zassoc k m).
Proof. induction m as [|[a v] r IH]; simpl; [reflexivity|]. destruct (Z.eqb a k); auto. Qed.

Lemma tfind_freeze t p : tfind (freeze t) p = option_map freeze (tfind t p).
Proof.
  revert t. induction p as [|k r IH]; intros t; [reflexivity|].
  destruct t as [f vals|f ch]; [reflexivity|]. rewrite freeze_tree. simpl. rewrite zassoc_map.
  destruct (zassoc k ch) as [c|]; simpl; [apply IH | reflexivity].
Qed.

(* reading is unaffected by freezing *)
Lemma get_freeze layers t p : get layers (freeze t) p = get layers t p.
Proof.
  unfold get. rewrite tfind_freeze. destruct (tfind t p) as [[f vals|f ch]|]; simpl; try reflexivity.
Qed.

(* every node reachable in a frozen configuration refuses every write (the only accepted "update" is the one
   with an empty dict, which writes nothing and returns the node as it is) *)
Lemma frozen_rejects layers t p sub d l src : tfind (freeze t) p = Some sub ->
  match set_data layers d (Some sub) l src with
  | COk sub' => d = DDict [] /\ sub' = sub
  | CErr e => e = CFrozen \/ e = CStruct
  end.
Proof.
  intros H. rewrite tfind_freeze in H. destruct (tfind t p) as [x|]; [|discriminate]. simpl in H.
  inversion H; subst sub. clear H. destruct x as [f vals|f ch].
  - destruct d as [v|items]; simpl; auto.
  - rewrite freeze_tree. destruct d as [v|items]; [simpl; auto|]. rewrite set_data_dict. simpl.
    destruct items as [|[k dk] r]; simpl; auto.
Qed.

Lemma frozen_update layers t p sub items layer src : tfind (freeze t) p = Some sub ->
  match update layers sub items layer src with
  | COk sub' => items = [] /\ sub' = sub
  | CErr e => e = CFrozen \/ e = CStruct
  end.
Proof.
  intros H. unfold update. pose proof (frozen_rejects layers t p sub (DDict items) (resolve layers layer) src H) as R.
  destruct (set_data layers (DDict items) (Some sub) (resolve layers layer) src); [|assumption].
  destruct R as [R1 R2]. inversion R1. auto.
Qed.

(* on a tree node the refusal is the "frozen" error, whatever the data *)
Lemma frozen_tree_update layers t p f ch k dk r layer src : tfind (freeze t) p = Some (Tree f ch) ->
  update layers (Tree f ch) ((k, dk) :: r) layer src = CErr CFrozen.
Proof.
  intros H. rewrite tfind_freeze in H. destruct (tfind t p) as [[f' vals|f' ch']|]; try discriminate.
  cbn [option_map] in H. rewrite freeze_tree in H. inversion H; subst. unfold update. rewrite set_data_dict. reflexivity.
Qed.
