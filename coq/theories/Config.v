(* Model of the configuration object of a simulation (DESIGN.md C20): the library class
   layered_config_tree.main.LayeredConfigTree / ConfigNode as used by vivarium/framework/configuration.py,
   components/manager.py (apply_configuration_defaults) and engine.py (configuration.freeze()).

   Key names, layer names, sources and values are numbers (the harness interns the strings / python values).

   layered_config_tree/main.py anchors (line numbers of the docstring-stripped file, see tools/strip.py):
     ConfigNode.update 146-190            -> [leaf_update]   (frozen?, layer resolved, unknown layer, duplicate at layer)
     ConfigNode._get_value_with_source    -> [top_value]     (highest layer, in the order of the layer list, that has a value)
     LayeredConfigTree.update 463-508     -> [update]        (for k, v in data.items(): _set_with_metadata)
     LayeredConfigTree._set_with_metadata -> [set_data]      (frozen?, dict -> child tree / value -> child node, structure clash)
     LayeredConfigTree.freeze 326-334     -> [freeze]        (own flag, then every child, recursively)
     LayeredConfigTree.get/__getitem__    -> [tfind], [get]
     LayeredConfigTree.__delitem__ 743-746 / __delattr__ 738-741 -> [delete_key] (NOT guarded by _frozen: finding F-AA)
   A rejected update may leave part of its data applied in the real object (keys before the offending one); the
   model returns no state in that case and the check never looks at a configuration after a rejection.        *)
From Viv Require Import Common.
Local Open Scope Z_scope.

Definition path := list Z.

(* what the user / a component supplies: a python dict whose values are dicts or plain values, in iteration order *)
Inductive data := DVal (v : Z) | DDict (items : list (Z * data)).
Definition dict := list (Z * data).

(* the live object: ConfigNode = Leaf (_frozen, _values : layer -> (source, value));
                    LayeredConfigTree = Tree (_frozen, _children in insertion order) *)
Inductive node :=
  | Leaf (frozen : bool) (vals : list (Z * (Z * Z)))
  | Tree (frozen : bool) (children : list (Z * node)).

(* DuplicatedConfigurationError carries the source that wrote the value first; the three others are plain
   ConfigurationError (structure clash, frozen) / ConfigurationKeyError (unknown layer) *)
Inductive cerr := CDup (source : Z) | CStruct | CFrozen | CNoLayer.
Inductive cres (A : Type) := COk (a : A) | CErr (e : cerr).
Arguments COk {A} a.
Arguments CErr {A} e.

(* dict assignment d[k] = c : replace in place, or append (python dicts keep insertion order) *)
Fixpoint put {A} (k : Z) (c : A) (m : list (Z * A)) : list (Z * A) :=
  match m with
  | [] => [(k, c)]
  | (a, v) :: r => if Z.eqb a k then (a, c) :: r else (a, v) :: put k c r
  end.

Definition empty_tree : node := Tree false [].

Fixpoint znodupb (l : list Z) : bool :=
  match l with [] => true | x :: r => negb (zmem x r) && znodupb r end.

(* python dict keys are unique at every level *)
Fixpoint wf_datab (d : data) : bool :=
  match d with
  | DVal _ => true
  | DDict items => znodupb (map fst items) &&
      (fix all (l : list (Z * data)) : bool :=
         match l with [] => true | (_, dk) :: r => wf_datab dk && all r end) items
  end.

(* paths into supplied data *)
Fixpoint dfind (d : data) (p : path) : option data :=
  match p with
  | [] => Some d
  | k :: r => match d with
              | DVal _ => None
              | DDict items => match zassoc k items with Some c => dfind c r | None => None end
              end
  end.
(* the value a dict gives to a key path, if the path ends in a plain value *)
Definition dleaf (d : data) (p : path) : option Z :=
  match dfind d p with Some (DVal v) => Some v | _ => None end.

Section Layers.
Variable layers : list Z.        (* LayeredConfigTree._layers: lowest priority first *)

(* `layer if layer else self._layers[-1]` *)
Definition resolve (layer : option Z) : Z := match layer with Some l => l | None => last layers 0 end.

(* ConfigNode.update *)
Definition leaf_update (f : bool) (vals : list (Z * (Z * Z))) (v l src : Z) : cres node :=
  if f then CErr CFrozen
  else if negb (zmem l layers) then CErr CNoLayer
  else match zassoc l vals with
       | Some (s, _) => CErr (CDup s)
       | None => COk (Leaf f (vals ++ [(l, (src, v))]))
       end.

(* LayeredConfigTree._set_with_metadata(name, value, layer, source) where [cur] is self._children.get(name):
   returns the child afterwards.  For a dict value the child's update() is the inner loop [go] (one
   _set_with_metadata per item, each of which first tests the child's own _frozen flag). *)
Fixpoint set_data (d : data) (cur : option node) (l src : Z) {struct d} : cres node :=
  match d with
  | DVal v =>
      match cur with
      | None => leaf_update false [] v l src                       (* new ConfigNode *)
      | Some (Leaf f vals) => leaf_update f vals v l src
      | Some (Tree _ _) => CErr CStruct                            (* "Can't assign a value to a LayeredConfigTree" *)
      end
  | DDict items =>
      match cur with
      | Some (Leaf _ _) => CErr CStruct                            (* "Can't assign a dictionary as a value to a ConfigNode" *)
      | _ =>
        let f := match cur with Some (Tree f _) => f | _ => false end in
        let ch := match cur with Some (Tree _ ch) => ch | _ => [] end in
        match (fix go (items : list (Z * data)) (ch : list (Z * node)) : cres (list (Z * node)) :=
                 match items with
                 | [] => COk ch
                 | (k, dk) :: r =>
                     if f then CErr CFrozen else
                     match set_data dk (zassoc k ch) l src with
                     | COk c => go r (put k c ch)
                     | CErr e => CErr e
                     end
                 end) items ch with
        | COk ch' => COk (Tree f ch')
        | CErr e => CErr e
        end
      end
  end.

(* the inner loop as a function of its own (ConfigProofs.set_data_dict relates the two) *)
Fixpoint set_items (f : bool) (items : dict) (ch : list (Z * node)) (l src : Z) : cres (list (Z * node)) :=
  match items with
  | [] => COk ch
  | (k, dk) :: r =>
      if f then CErr CFrozen else
      match set_data dk (zassoc k ch) l src with
      | COk c => set_items f r (put k c ch) l src
      | CErr e => CErr e
      end
  end.

(* LayeredConfigTree.update(data, layer, source) on the tree object [t] *)
Definition update (t : node) (items : dict) (layer : option Z) (src : Z) : cres node :=
  set_data (DDict items) (Some t) (resolve layer) src.

(* ConfigNode._get_value_with_source(layer=None): `for l in reversed(self._layers): if l in self._values` *)
Fixpoint first_some (ls : list Z) (vals : list (Z * (Z * Z))) : option (Z * Z) :=
  match ls with
  | [] => None
  | l :: r => match zassoc l vals with Some sv => Some sv | None => first_some r vals end
  end.
Definition top_value (vals : list (Z * (Z * Z))) : option (Z * Z) := first_some (rev layers) vals.

End Layers.

(* LayeredConfigTree.freeze *)
Fixpoint freeze (t : node) : node :=
  match t with
  | Leaf _ vals => Leaf true vals
  | Tree _ ch => Tree true ((fix fr (ch : list (Z * node)) : list (Z * node) :=
                               match ch with [] => [] | (k, c) :: r => (k, freeze c) :: fr r end) ch)
  end.

(* LayeredConfigTree.__delitem__ / __delattr__: `if name in self: del self._children[name]` - the frozen flag is not
   consulted (finding F-AA); a missing key is a no-op *)
Definition delete_key (t : node) (k : Z) : node :=
  match t with
  | Leaf _ _ => t
  | Tree f ch => Tree f (filter (fun kc => negb (Z.eqb (fst kc) k)) ch)
  end.

(* walking a key path: tree[k1][k2]... *)
Fixpoint tfind (t : node) (p : path) : option node :=
  match p with
  | [] => Some t
  | k :: r => match t with
              | Leaf _ _ => None
              | Tree _ ch => match zassoc k ch with Some c => tfind c r | None => None end
              end
  end.

(* what reading a key path yields *)
Inductive look := LVal (v : Z) | LInterior | LMissing | LEmpty.
Definition get (layers : list Z) (t : node) (p : path) : look :=
  match tfind t p with
  | None => LMissing
  | Some (Tree _ _) => LInterior
  | Some (Leaf _ vals) => match top_value layers vals with Some (_, v) => LVal v | None => LEmpty end
  end.
(* ... and the per-layer contents of the ConfigNode at a path (ConfigNode.metadata 104-114: in the order of the layer
   list, lowest first) *)
Definition metadata (layers : list Z) (t : node) (p : path) : list (Z * (Z * Z)) :=
  match tfind t p with
  | Some (Leaf _ vals) => flat_map (fun l => match zassoc l vals with Some sv => [(l, sv)] | None => [] end) layers
  | _ => []
  end.

Definition look_code (x : look) : Z * Z :=
  match x with LVal v => (0, v) | LInterior => (1, 0) | LMissing => (2, 0) | LEmpty => (3, 0) end.
Definition cerr_code (e : cerr) : Z :=
  match e with CDup _ => 1 | CStruct => 2 | CFrozen => 3 | CNoLayer => 4 end.

(* ------------------------------------------------------------------------------------------------------------
   Correspondence stream `cfg`: a stand-alone LayeredConfigTree driven by a sequence of operations.
   Each operation carries the implementation's observation; the model must reproduce it.  After the first
   rejected update the real object may be partially updated, so the harness stops the sequence there - except when
   the tree the update is called on is itself frozen: that refusal precedes every effect (main.py 606-610) and the
   sequence goes on with the configuration as it was.                                                        *)
Inductive cop :=
  | CUpdate (at_ : path) (items : dict) (layer : option Z) (src : Z) (obs : Z)   (* 0 ok | cerr_code | 9 no tree at path *)
  | CSetItem (at_ : path) (k : Z) (v : data) (obs : Z)                            (* tree[k] = v : key must exist (5) *)
  | CDel (at_ : path) (k : Z) (obs : Z)                                            (* del tree[k] / delattr: 0 | 9 no tree at path *)
  | CFreeze (at_ : path)
  | CGet (p : path) (obs : Z * Z)
  | CMeta (p : path) (obs : list (Z * (Z * Z))).

(* replace the subtree at a path *)
Fixpoint tput (t : node) (p : path) (n : node) : node :=
  match p with
  | [] => n
  | k :: r => match t with
              | Leaf _ _ => t
              | Tree f ch => match zassoc k ch with
                             | Some c => Tree f (put k (tput c r n) ch)
                             | None => t
                             end
              end
  end.

Definition triple_eqb (a b : Z * (Z * Z)) : bool :=
  (fst a =? fst b) && (fst (snd a) =? fst (snd b)) && (snd (snd a) =? snd (snd b)).

Fixpoint run_cops (layers : list Z) (t : node) (ops : list cop) : bool :=
  match ops with
  | [] => true
  | CUpdate at_ items layer src obs :: r =>
      forallb (fun kd => wf_datab (snd kd)) items && znodupb (map fst items) &&
      match tfind t at_ with
      | Some (Tree f ch) =>
          match update layers (Tree f ch) items layer src with
          | COk t' => (obs =? 0) && run_cops layers (tput t at_ t') r
          | CErr e => (obs =? cerr_code e) &&           (* sequence ends here unless the target itself is frozen *)
                      (if f then run_cops layers t r else true)
          end
      | _ => (obs =? 9) && run_cops layers t r
      end
  | CSetItem at_ k v obs :: r =>
      wf_datab v &&
      match tfind t at_ with
      | Some (Tree f ch) =>
          match zassoc k ch with
          | None => (obs =? 5) && run_cops layers t r  (* "New configuration keys can only be created with update" *)
          | Some _ =>
            match update layers (Tree f ch) [(k, v)] None 0 with
            | COk t' => (obs =? 0) && run_cops layers (tput t at_ t') r
            | CErr e => (obs =? cerr_code e) && (if f then run_cops layers t r else true)
            end
          end
      | _ => (obs =? 9) && run_cops layers t r
      end
  | CDel at_ k obs :: r =>
      match tfind t at_ with
      | Some (Tree f ch) => (obs =? 0) && run_cops layers (tput t at_ (delete_key (Tree f ch) k)) r
      | _ => (obs =? 9) && run_cops layers t r
      end
  | CFreeze at_ :: r =>
      match tfind t at_ with
      | Some n => run_cops layers (tput t at_ (freeze n)) r
      | None => run_cops layers t r
      end
  | CGet p obs :: r =>
      (let (a, b) := look_code (get layers t p) in (a =? fst obs) && (b =? snd obs)) && run_cops layers t r
  | CMeta p obs :: r =>
      list_eqb triple_eqb (metadata layers t p) obs && run_cops layers t r
  end.

Definition cfg_case := (list Z * list cop)%type.
Definition check_cfg (c : cfg_case) : bool := let (layers, ops) := c in run_cops layers empty_tree ops.
