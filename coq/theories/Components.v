(* Model of vivarium/framework/components/manager.py (ComponentManager, OrderedComponentSet) and of the part of
   engine.py / configuration.py that builds and freezes a simulation's configuration (DESIGN.md C20).  The configuration
   object itself is Config.v (layered_config_tree).

   Component names, configuration keys, values, layers are numbers (interned by the harness).

   manager.py anchors (tools/strip.py line numbers)
     ComponentManager._flatten 286-302          -> [flatten_stack]  (explicit stack; lists/tuples spliced; a Component is
                                                                     output, then its sub_components are pushed)
     add_managers 162-164 / add_components 176-178 -> [add_flat]    (per flattened component: apply_configuration_defaults,
                                                                     then OrderedComponentSet.add)
     apply_configuration_defaults 248-271       -> Config.update at the layer the writer uses, source = component name;
                                                   any ConfigurationError becomes a rejection
     OrderedComponentSet.add 57-62              -> duplicate name (within the same set) rejected
     setup_components 245, __add__ 89-90        -> [setup_order]    (managers + components re-added to ONE set: a name
                                                                     used by both is rejected; then each is set up once)
   configuration.py 34-41 build_model_specification -> [build_cfg]  (model specification, then the configuration argument)
   engine.py 117-207 __init__, 231-233 setup     -> [build_context], [setup_context] (freeze, then set-up in order)       *)
From Viv Require Import Common Config.
Local Open Scope Z_scope.

(* what is supplied: a component (name, configuration defaults, sub-components) or a - possibly nested - list / tuple *)
Inductive item := Comp (name : Z) (defaults : dict) (subs : list item) | Group (members : list item).

Definition centry := (Z * dict)%type.          (* a flattened component: name and defaults *)

(* specification: pre-order - parent first, siblings in the order given, groups spliced *)
Fixpoint pre (i : item) : list centry :=
  match i with
  | Comp n d subs => (n, d) :: flat_map pre subs
  | Group ms => flat_map pre ms
  end.
Definition pre_all (is : list item) : list centry := flat_map pre is.

(* the code:   components = components[::-1]
               while components: current = components.pop()
                   list/tuple -> components.extend(current[::-1])
                   Component  -> components.extend(current.sub_components[::-1]); out.append(current)
   The python list is a stack whose top is its END; the Coq list's HEAD is the top, so extend(xs[::-1]) is xs ++ stack.
   The loop terminates (every pop removes one node of a finite forest): fuel = number of nodes.                  *)
Fixpoint flatten_stack (fuel : nat) (stack : list item) (out : list centry) : option (list centry) :=
  match stack with
  | [] => Some out
  | cur :: rest =>
      match fuel with
      | O => None
      | S f => match cur with
               | Group ms => flatten_stack f (ms ++ rest) out
               | Comp n d subs => flatten_stack f (subs ++ rest) (out ++ [(n, d)])
               end
      end
  end.

Fixpoint size (i : item) : nat :=
  match i with
  | Comp _ _ subs => S (list_sum (map size subs))
  | Group ms => S (list_sum (map size ms))
  end.
Definition size_all (is : list item) : nat := list_sum (map size is).

(* parent -> child edges of the forest: the components directly below a component (through groups) *)
Fixpoint heads (i : item) : list Z :=
  match i with Comp n _ _ => [n] | Group ms => flat_map heads ms end.
Fixpoint edges (i : item) : list (Z * Z) :=
  match i with
  | Comp n _ subs => map (fun c => (n, c)) (flat_map heads subs) ++ flat_map edges subs
  | Group ms => flat_map edges ms
  end.
Definition edges_all (is : list item) : list (Z * Z) := flat_map edges is.

Section Manager.
Variable layers : list Z.            (* the configuration's layer list, lowest priority first *)

(* add_managers / add_components on the flattened list: defaults first (layer [l]), then the name-unique set *)
Fixpoint add_flat (l : Z) (t : node) (names : list Z) (cs : list centry) : result (node * list Z) :=
  match cs with
  | [] => Ok (t, names)
  | (n, d) :: r =>
      match update layers t d (Some l) n with
      | CErr _ => Rejected EConfig                       (* ComponentConfigError (or the handler's own error) *)
      | COk t' => if zmem n names then Rejected EConfig  (* duplicate name *)
                  else add_flat l t' (names ++ [n]) r
      end
  end.

(* the names in the set when the loop of add_components stops: everything before the offending component (a rejected
   batch is NOT rolled back: the components before it stay registered) *)
Fixpoint add_flat_prefix (l : Z) (t : node) (names : list Z) (cs : list centry) : list Z :=
  match cs with
  | [] => names
  | (n, d) :: r =>
      match update layers t d (Some l) n with
      | CErr _ => names
      | COk t' => if zmem n names then names else add_flat_prefix l t' (names ++ [n]) r
      end
  end.

Definition add_items (l : Z) (t : node) (names : list Z) (is : list item) : result (node * list Z) :=
  match flatten_stack (size_all is) is [] with
  | None => OutOfFuel
  | Some cs => add_flat l t names cs
  end.

(* build_model_specification on the `configuration` subtree: the user's ~/vivarium.yaml, if there is one
   (configuration.py 95-97, layer user_configs; no file = the empty dict), the model specification's values, then the
   keyword argument *)
Definition build_cfg (l_user l_spec l_over : Z) (user spec over : dict) : cres node :=
  match update layers empty_tree user (Some l_user) 0 with
  | CErr e => CErr e
  | COk t0 =>
    match update layers t0 spec (Some l_spec) 0 with
    | CErr e => CErr e
    | COk t1 => update layers t1 over (Some l_over) 0
    end
  end.

Record context := { c_cfg : node; c_managers : list Z; c_components : list Z }.

(* SimulationContext.__init__: configuration, managers (their defaults at layer [l_mgr]), then the components *)
Definition build_context (l_user l_mgr l_comp l_spec l_over : Z) (mgrs : list centry) (user spec over : dict)
  (is : list item) : result context :=
  match build_cfg l_user l_spec l_over user spec over with
  | CErr _ => Rejected EConfig
  | COk t2 =>
    match add_flat l_mgr t2 [] mgrs with
    | Ok (t3, mnames) =>
        match add_items l_comp t3 [] is with
        | Ok (t4, cnames) => Ok {| c_cfg := t4; c_managers := mnames; c_components := cnames |}
        | Rejected e => Rejected e
        | OutOfFuel => OutOfFuel
        end
    | Rejected e => Rejected e
    | OutOfFuel => OutOfFuel
    end
  end.

(* SimulationContext.setup: freeze the configuration, then managers + components in ONE name-unique set, each set up
   once in that order.  Returns the frozen configuration and the set-up order. *)
Definition setup_context (c : context) : result (node * list Z) :=
  if znodupb (c_managers c ++ c_components c) then Ok (freeze (c_cfg c), c_managers c ++ c_components c)
  else Rejected EConfig.

End Manager.

(* ---- what the property says about an observed set-up log ---- *)
(* p occurs, and c occurs after the first p *)
Fixpoint before (p c : Z) (l : list Z) : bool :=
  match l with [] => false | x :: r => if x =? p then zmem c r else before p c r end.
Fixpoint count_z (x : Z) (l : list Z) : nat := match l with [] => O | y :: r => if y =? x then S (count_z x r) else count_z x r end.
Definition same_multiset (a b : list Z) : bool :=
  forallb (fun x => Nat.eqb (count_z x a) (count_z x b)) (a ++ b).
(* the log is: every manager once (in any order), then every component of the forest once, each after its parent *)
Definition log_ok (mgrs : list Z) (is : list item) (log : list Z) : bool :=
  let n := length mgrs in
  same_multiset (firstn n log) mgrs &&
  same_multiset (skipn n log) (map fst (pre_all is)) &&
  forallb (fun e => before (fst e) (snd e) (skipn n log)) (edges_all is).

(* ---- the generated layer table: writer -> layer, read off a live context on every run ---- *)
Fixpoint split_at (x : Z) (l : list Z) : option (list Z * list Z) :=
  match l with
  | [] => None
  | y :: r => if y =? x then Some ([], r)
              else match split_at x r with Some (a, b) => Some (y :: a, b) | None => None end
  end.
(* [x] occurs in the layer list and [y] occurs after it: [y] has priority over [x] *)
Definition belowb (l : list Z) (x y : Z) : bool :=
  match split_at x l with Some (_, r) => zmem y r | None => false end.
(* what the property needs of the layer table: layer names distinct, manager and component defaults written strictly
   below BOTH user layers (model specification, keyword arguments) *)
Definition layers_okb (layers : list Z) (l_user l_mgr l_comp l_spec l_over : Z) : bool :=
  znodupb layers && belowb layers l_comp l_spec && belowb layers l_comp l_over &&
  belowb layers l_mgr l_spec && belowb layers l_mgr l_over &&
  (* ... and the ~/vivarium.yaml layer below both of them too (its place relative to the defaults is not constrained) *)
  belowb layers l_user l_spec && belowb layers l_user l_over.

(* ------------------------------------------------------------------------------------------------------------
   Correspondence stream `ctx`: a real SimulationContext built from a generated forest of probe components, a model
   specification and keyword overrides; then set up.  Observed: did construction raise, did setup raise, the set-up
   log (managers' and probes' set-up calls in order), and the configuration as a probe sees it during its setup -
   reads and modification attempts as a [cop] list with the outcomes (Config.run_cops).                           *)
Record ctx_obs := {
  x_forest : list item;
  x_user : dict;                  (* content of ~/vivarium.yaml ([] = no such file) *)
  x_spec : dict;
  x_over : dict;
  x_built : bool;                 (* construction succeeded *)
  x_setup : bool;                 (* setup succeeded (meaningful if built) *)
  x_log : list Z;                 (* set-up log (if setup succeeded) *)
  x_junk : bool;                  (* the last batch handed to add_components held an object that is no component *)
  x_partial : option (bool * list Z);   (* add_components on an existing context raised, setup was called all the same:
                                           did it succeed, and its set-up log *)
  x_cops : list (list cop)        (* what a probe read / tried during its setup (if setup succeeded): each list is run on
                                     the frozen configuration and ends with at most one refused modification *)
}.

Fixpoint wf_itemb (i : item) : bool :=
  match i with
  | Comp _ d subs => wf_datab (DDict d) && (fix all (l : list item) : bool := match l with [] => true | x :: r => wf_itemb x && all r end) subs
  | Group ms => (fix all (l : list item) : bool := match l with [] => true | x :: r => wf_itemb x && all r end) ms
  end.

(* the components found registered after a refused batch, with their defaults (a name the forest uses more than once
   is ambiguous: taken without defaults; the harness does not read the key paths such a component defaults) *)
Definition registered_entries (all : list centry) (clog : list Z) : list centry :=
  map (fun n => (n, if Nat.eqb (count_z n (map fst all)) 1
                    then match zassoc n all with Some d => d | None => [] end else [])) clog.

(* add_components raised on an existing context and setup was called all the same.  Whatever the flattening order:
   what stayed registered is set up - components of the forest only, each once, managers first, parents first - and it is
   CONSISTENT: registering exactly these components (in the order observed) is accepted, i.e. no component whose name or
   defaults were refused is among them, and the configuration read during that setup is the one these components' defaults
   produce (on the key paths the harness reads: those no refused component may have touched). *)
Definition partial_ok (layers : list Z) (l_user l_mgr l_comp l_spec l_over : Z) (mgrs : list centry) (c : ctx_obs)
  (ok : bool) (log : list Z) : bool :=
  match build_cfg layers l_user l_spec l_over (x_user c) (x_spec c) (x_over c) with
  | COk t2 =>
      match add_flat layers l_mgr t2 [] mgrs with
      | Ok (t3, mnames) =>
          let clog := skipn (length mnames) log in
          let all := pre_all (x_forest c) in
          let all_names := map fst all in
          if ok
          then same_multiset (firstn (length mnames) log) mnames &&
               forallb (fun n => zmem n all_names) clog && znodupb log &&
               forallb (fun e => negb (Nat.eqb (count_z (snd e) all_names) 1)  (* ambiguous name *)
                                 || negb (zmem (snd e) clog) || before (fst e) (snd e) clog)
                       (edges_all (x_forest c)) &&
               match add_flat layers l_comp t3 [] (registered_entries all clog) with
               | Ok (tR, _) => forallb (run_cops layers (freeze tR)) (x_cops c)
               | _ => false
               end
          else (* setup refused: only a component named like a manager can be the reason *)
               existsb (fun n => zmem n mnames) all_names
      | _ => false
      end
  | CErr _ => false
  end.

Definition check_ctx (layers : list Z) (l_user l_mgr l_comp l_spec l_over : Z) (mgrs : list centry) (c : ctx_obs) : bool :=
  forallb wf_itemb (x_forest c) && wf_datab (DDict (x_user c)) && wf_datab (DDict (x_spec c)) && wf_datab (DDict (x_over c)) &&
  let partial := match x_partial c with
                 | None => true
                 | Some (ok, log) => partial_ok layers l_user l_mgr l_comp l_spec l_over mgrs c ok log
                 end in
  match build_context layers l_user l_mgr l_comp l_spec l_over mgrs (x_user c) (x_spec c) (x_over c) (x_forest c) with
  | Ok ctx =>
      if x_junk c
      then (* the last batch held an object that is no component: _flatten raised before anything of it was registered;
              [x_forest] is what the earlier batches held *)
           negb (x_built c) && partial
      else
      x_built c &&
      match setup_context ctx with
      | Ok (t, order) =>
          x_setup c && log_ok (c_managers ctx) (x_forest c) (x_log c) &&
          same_multiset (x_log c) order && forallb (run_cops layers t) (x_cops c)
      | _ => negb (x_setup c)
      end
  | Rejected _ => negb (x_built c) && partial
  | OutOfFuel => false
  end.
