(* Model of the time-stepping drivers (DESIGN.md C08): engine.py SimulationContext.setup (the post_setup emission) /
   initialize_simulants / step / run / finalize / report / run_simulation, interactive.py take_steps / run_until / run,
   time.py SimulationClock.step_backward / step_forward for clocks without per-simulant step sizes, over the event
   manager of Viv.Events.  Times and step sizes are integers (nanoseconds for DateTimeClock, scaled units for SimpleClock).

   engine.py anchors:
     setup                   230-246 -> [do_setup]: ... set_state("post_setup"); post_setup(None)
     initialize_simulants    248-255 -> [initialize]: clock.step_backward(); simulant_creator(...)  (every initializer gets
                                        SimulantData(index, user_data, clock(), step_size()): population/manager.py 349-352);
                                        clock.step_forward(index)
     step                    257-268 -> [step]: for each of the four main-loop states: set_state, emit; then clock.step_forward
     run                     270-285 -> [run_loop]: while current_time < stop_time: step()   (the real loop terminates iff the
                                        step size is positive; fuel makes the model total, OutOfFuel is explicit)
     finalize / report       287-298 -> [finalize], [report]
   interactive.py anchors:
     take_steps 145-172 -> [take_steps]; run_until 104-143 (`while clock.time < end_time: self.step()`, as of commit
     98b7435f; before it: take_steps(ceil((end - time)/step_size)) computed once), run_for 85-102, run 70-83 -> [run_until],
     [run_for], [interactive_run]
   time.py anchors:
     step_backward 160-162 (`_clock_time -= step_size`), step_forward 164-183 (`_clock_time += step_size`, then - only with
     per-simulant clocks - a new global step size): the new step size is the parameter [nxt : new clock -> old step -> new
     step]; the fixed-step clocks of the property are [fixed]. *)
From Viv Require Import Common Events.
Local Open Scope Z_scope.

(* one listener call: channel, listener, clock at the call, event.time, event.step_size *)
Definition call := (cid * lid * Z * Z * Z)%type.
Definition tcall := (nat * call)%type.
(* one initializer call: initializer, creation_time, creation_window, clock at the call *)
Definition icall := (lid * Z * Z * Z)%type.

Record sim := {
  clock : Z;                     (* SimulationClock._clock_time *)
  stepsz : Z;                    (* SimulationClock._clock_step_size *)
  stop : Z;                      (* SimulationClock._stop_time *)
  lst : chans;                   (* the event manager *)
  inits : list lid;              (* registered simulant initializers *)
  calls : list tcall;            (* probe log, oldest first; each call tagged (ghost) with the bucket of its listener *)
  icalls : list icall;
  nsteps : Z                     (* number of completed calls of step() *)
}.

Definition stepfn := Z -> Z -> Z.
Definition fixed : stepfn := fun _ s => s.

Definition plain_calls (s : sim) : list call := map snd (calls s).

Definition with_calls (s : sim) (l : list tcall) : sim :=
  {| clock := clock s; stepsz := stepsz s; stop := stop s; lst := lst s; inits := inits s; calls := calls s ++ l;
     icalls := icalls s; nsteps := nsteps s |}.

(* EventChannel.emit seen from the listeners: Event.time = clock + step size, Event.step_size = step size *)
Definition emission_calls (m : chans) (t st : Z) (c : cid) : list call :=
  map (fun l => (c, l, t, t + st, st)) (emit m c).
Definition emission_tcalls (m : chans) (t st : Z) (c : cid) : list tcall :=
  map (fun nl => (fst nl, (c, snd nl, t, t + st, st))) (emit_tagged m c).
Definition do_emit (s : sim) (c : cid) : sim := with_calls s (emission_tcalls (lst s) (clock s) (stepsz s) c).

(* SimulationClock.step_forward / step_backward *)
Definition step_forward (nxt : stepfn) (s : sim) : sim :=
  {| clock := clock s + stepsz s; stepsz := nxt (clock s + stepsz s) (stepsz s); stop := stop s; lst := lst s;
     inits := inits s; calls := calls s; icalls := icalls s; nsteps := nsteps s |}.
Definition step_backward (s : sim) : sim :=
  {| clock := clock s - stepsz s; stepsz := stepsz s; stop := stop s; lst := lst s; inits := inits s; calls := calls s;
     icalls := icalls s; nsteps := nsteps s |}.

Definition count_step (s : sim) : sim :=
  {| clock := clock s; stepsz := stepsz s; stop := stop s; lst := lst s; inits := inits s; calls := calls s;
     icalls := icalls s; nsteps := nsteps s + 1 |}.

(* SimulationContext.step *)
Definition step (nxt : stepfn) (s : sim) : sim :=
  count_step (step_forward nxt (fold_left do_emit step_channels s)).

(* SimulationContext.run *)
Fixpoint run_loop (fuel : nat) (nxt : stepfn) (s : sim) : result sim :=
  if clock s <? stop s then
    match fuel with O => OutOfFuel | S f => run_loop f nxt (step nxt s) end
  else Ok s.

(* SimulationContext.initialize_simulants *)
Definition create (s : sim) : sim :=
  {| clock := clock s; stepsz := stepsz s; stop := stop s; lst := lst s; inits := inits s; calls := calls s;
     icalls := icalls s ++ map (fun i => (i, clock s, stepsz s, clock s)) (inits s); nsteps := nsteps s |}.
Definition initialize (nxt : stepfn) (s : sim) : sim := step_forward nxt (create (step_backward s)).

Definition do_setup (s : sim) : sim := do_emit s ch_post_setup.
(* SimulationContext.finalize begins with set_state("simulation_end"), which the life cycle accepts only from
   collect_metrics (C06: the only predecessor of simulation_end; see C08.v [finalize_needs_a_step]), i.e. after at least one
   completed step: straight after initialize_simulants the state is population_creation and the request is refused with
   InvalidTransitionError before anything is emitted.  [nsteps] counts the steps since the context was built. *)
Definition finalize (s : sim) : result sim :=
  if nsteps s =? 0 then Rejected EInvalidTransition else Ok (do_emit s ch_end).
Definition report (s : sim) : sim := do_emit s ch_report.
Definition finish (r : result sim) : result sim :=
  match r with
  | Ok s' => match finalize s' with Ok s'' => Ok (report s'') | Rejected e => Rejected e | OutOfFuel => OutOfFuel end
  | Rejected e => Rejected e
  | OutOfFuel => OutOfFuel
  end.

(* SimulationContext.run_simulation *)
Definition run_simulation (fuel : nat) (nxt : stepfn) (s : sim) : result sim :=
  finish (run_loop fuel nxt (initialize nxt (do_setup s))).
(* setup, initialize_simulants, run - and no more (what remains legal for a run of length zero) *)
Definition run_only (fuel : nat) (nxt : stepfn) (s : sim) : result sim :=
  run_loop fuel nxt (initialize nxt (do_setup s)).

(* ---- InteractiveContext ---- *)
Fixpoint take_steps (n : nat) (nxt : stepfn) (s : sim) : sim :=
  match n with O => s | S k => take_steps k nxt (step nxt s) end.
(* ceil(a / b) for b > 0 (pure arithmetic; what the number of steps amounts to for a fixed step) *)
Definition cdiv (a b : Z) : Z := - ((- a) / b).
(* run_until(end): step while the clock is before the end time - the same loop as SimulationContext.run with the end time
   in place of the stop time; no step at all when end <= clock *)
Fixpoint run_until (fuel : nat) (nxt : stepfn) (e : Z) (s : sim) : result sim :=
  if clock s <? e then
    match fuel with O => OutOfFuel | S f => run_until f nxt e (step nxt s) end
  else Ok s.
Definition run_for (fuel : nat) (nxt : stepfn) (d : Z) (s : sim) : result sim := run_until fuel nxt (clock s + d) s.
Definition interactive_run (fuel : nat) (nxt : stepfn) (s : sim) : result sim := run_until fuel nxt (stop s) s.
Definition interactive_simulation (fuel : nat) (nxt : stepfn) (s : sim) : result sim :=
  finish (interactive_run fuel nxt (initialize nxt (do_setup s))).
Definition interactive_only (fuel : nat) (nxt : stepfn) (s : sim) : result sim :=
  interactive_run fuel nxt (initialize nxt (do_setup s)).
(* a session of an InteractiveContext: setup, then a sequence of driver calls.  A call that is REFUSED - step / take_steps
   with a step size of an incompatible type, run_until / run_for with an end time of an incompatible type, take_steps with a
   number of steps that is not an int: all raise ValueError/TypeError from their argument checks (interactive.py 54-62,
   122-128, 164-165) before any event is emitted - leaves the stepping state exactly as it was. *)
Inductive sop :=
  | OUntil (e : Z)            (* run_until(e) / run_for(e - clock) *)
  | OTake (n : Z)             (* take_steps(n) / step() *)
  | ORefused.                 (* a call refused by its argument checks *)
Definition do_sop (fuel : nat) (nxt : stepfn) (o : sop) (s : sim) : result sim :=
  match o with
  | OUntil e => run_until fuel nxt e s
  | OTake n => Ok (take_steps (Z.to_nat n) nxt s)
  | ORefused => Ok s
  end.
Fixpoint run_sops (fuel : nat) (nxt : stepfn) (ops : list sop) (s : sim) : result sim :=
  match ops with
  | [] => Ok s
  | o :: r => match do_sop fuel nxt o s with Ok s' => run_sops fuel nxt r s' | x => x end
  end.
Definition interactive_session (fuel : nat) (nxt : stepfn) (ops : list sop) (s : sim) : result sim :=
  run_sops fuel nxt ops (initialize nxt (do_setup s)).
Definition is_refused (o : sop) : bool := match o with ORefused => true | _ => false end.
(* wire format of a session: (0, e) run_until e; (1, n) n steps; anything else a refused call *)
Definition decode_sop (p : Z * Z) : sop :=
  if fst p =? 0 then OUntil (snd p) else if fst p =? 1 then OTake (snd p) else ORefused.

(* ---- listeners that raise ----
   A listener that raises ends everything at once: EventChannel.emit's loops, engine.step's loop over the four events and
   run()'s loop are plain python loops without try/except, so the exception propagates out of all of them.  The listeners
   called so far (the raising one included) have run; no later listener, no later event of the step, no step_forward.
   [bad] says which call raises (it may depend on the listener and on the clock at the call).
   Results are (state at the point of abandonment, raised?). *)
Definition tc_lid (a : tcall) : lid := let '(_, (_, l, _, _, _)) := a in l.
Definition tc_clock (a : tcall) : Z := let '(_, (_, _, t, _, _)) := a in t.

Fixpoint call_until (bad : tcall -> bool) (l : list tcall) : list tcall * bool :=
  match l with
  | [] => ([], false)
  | x :: r => if bad x then ([x], true) else let '(m, b) := call_until bad r in (x :: m, b)
  end.
(* EventChannel.emit with a raising listener *)
Definition emit_r (bad : tcall -> bool) (s : sim) (c : cid) : sim * bool :=
  let '(l, b) := call_until bad (emission_tcalls (lst s) (clock s) (stepsz s) c) in (with_calls s l, b).
(* the loop over the events of one step *)
Fixpoint emits_r (bad : tcall -> bool) (s : sim) (cs : list cid) : sim * bool :=
  match cs with
  | [] => (s, false)
  | c :: r => let '(s', b) := emit_r bad s c in if b then (s', true) else emits_r bad s' r
  end.
Definition step_r (bad : tcall -> bool) (nxt : stepfn) (s : sim) : sim * bool :=
  let '(s', b) := emits_r bad s step_channels in
  if b then (s', true) else (count_step (step_forward nxt s'), false).
Fixpoint run_loop_r (fuel : nat) (bad : tcall -> bool) (nxt : stepfn) (s : sim) : result (sim * bool) :=
  if clock s <? stop s then
    match fuel with
    | O => OutOfFuel
    | S f => let '(s', b) := step_r bad nxt s in if b then Ok (s', true) else run_loop_r f bad nxt s'
    end
  else Ok (s, false).
(* setup (post_setup emission), initialize_simulants, run, finalize, report - abandoned at the first raising listener *)
Definition run_simulation_r (fuel : nat) (bad : tcall -> bool) (nxt : stepfn) (s : sim) : result (sim * bool) :=
  let '(s1, b1) := emit_r bad s ch_post_setup in
  if b1 then Ok (s1, true) else
  match run_loop_r fuel bad nxt (initialize nxt s1) with
  | Ok (s2, true) => Ok (s2, true)
  | Ok (s2, false) =>
      if nsteps s2 =? 0 then Rejected EInvalidTransition else
      let '(s3, b3) := emit_r bad s2 ch_end in
      if b3 then Ok (s3, true) else Ok (emit_r bad s3 ch_report)
  | Rejected e => Rejected e
  | OutOfFuel => OutOfFuel
  end.

(* the number of steps the property promises *)
Definition steps_needed (start stop_ st : Z) : Z := if start <? stop_ then (stop_ - start + st - 1) / st else 0.

Definition mk_sim (start stop_ st : Z) (cs : list comp) : sim :=
  {| clock := start; stepsz := st; stop := stop_; lst := register_all no_listeners (all_regs cs);
     inits := all_initializers cs; calls := []; icalls := []; nsteps := 0 |}.

(* ---- correspondence 2: real contexts ----
   case = (start, stop, step, driver (0 SimulationContext: setup, initialize_simulants, run, finalize, report;
           1 InteractiveContext: setup, run, finalize, report; 2 / 3: the same two without finalize and report;
           4 InteractiveContext: setup, then the session [ops]: run_until / run_for to arbitrary end times, steps, and
           refused calls in between),
           ops, step-size table (new clock -> global step size from there on, read off the implementation; empty for the
           fixed-step clocks of the property: [table_nxt []] is [fixed]), components,
           observed: probe log (channel, listener, clock, event.time, event.step_size, life-cycle state at the call),
           initializer log (initializer, creation_time, creation_window,
           clock), final clock, number of step() calls, outcome (0 = returned normally, 1 = InvalidTransitionError, 2 = another error)) *)
Definition ocall := (cid * lid * Z * Z * Z * Z)%type.
Definition oinit := icall.
Definition sim_case := (Z * Z * Z * Z * list (Z * Z) * list (Z * Z) * list comp * (list ocall * list oinit * Z * Z * Z))%type.
Definition table_nxt (tbl : list (Z * Z)) : stepfn := fun t st => match zassoc t tbl with Some st' => st' | None => st end.

Definition call_eqb (a b : call) : bool :=
  let '(c1, l1, t1, e1, s1) := a in let '(c2, l2, t2, e2, s2) := b in
  (c1 =? c2) && (l1 =? l2) && (t1 =? t2) && (e1 =? e2) && (s1 =? s2).
Definition tcall_eqb (a b : tcall) : bool := Nat.eqb (fst a) (fst b) && call_eqb (snd a) (snd b).
Definition same_group (a b : tcall) : bool :=
  let '(n1, (c1, _, t1, e1, s1)) := a in let '(n2, (c2, _, t2, e2, s2)) := b in
  Nat.eqb n1 n2 && (c1 =? c2) && (t1 =? t2) && (e1 =? e2) && (s1 =? s2).
Definition lid_of (a : tcall) : lid := let '(_, (_, l, _, _, _)) := a in l.
(* canonical form: calls of one emission that sit in the same bucket (consecutive, same channel / clock / event) are
   sorted by listener - the property promises no order among them *)
Fixpoint ins_tcall (x : tcall) (acc : list tcall) : list tcall :=
  match acc with
  | [] => [x]
  | y :: r => if same_group x y && (lid_of y <? lid_of x) then y :: ins_tcall x r else x :: acc
  end.
Definition canon (l : list tcall) : list tcall := fold_right ins_tcall [] l.

Definition icall_key (i : icall) : Z := let '(l, _, _, _) := i in l.
Fixpoint insert_icall (x : icall) (l : list icall) : list icall :=
  match l with [] => [x] | y :: r => if icall_key x <=? icall_key y then x :: l else y :: insert_icall x r end.
Definition sort_icalls (l : list icall) : list icall := fold_right insert_icall [] l.
Definition icall_eqb (a b : icall) : bool :=
  let '(l1, a1, b1, c1) := a in let '(l2, a2, b2, c2) := b in (l1 =? l2) && (a1 =? a2) && (b1 =? b2) && (c1 =? c2).

Definition model_run (driver : Z) (fuel : nat) (nxt : stepfn) (ops : list (Z * Z)) (s : sim) : result sim :=
  if driver =? 0 then run_simulation fuel nxt s
  else if driver =? 1 then interactive_simulation fuel nxt s
  else if driver =? 2 then run_only fuel nxt s
  else if driver =? 3 then interactive_only fuel nxt s
  else interactive_session fuel nxt (map decode_sop ops) s.

(* the observed calls are tagged positionally with the model's bucket sequence (see Events.same_up_to_buckets) *)
Definition check_sim (c : sim_case) : bool :=
  let '(start, stop_, st, driver, ops, tbl, cs, (ocalls, oinits, oclock, osteps, ocode)) := c in
  let s0 := mk_sim start stop_ st cs in
  (* fuel: one more than the number of steps the implementation made is enough for agreement and small enough to run *)
  match model_run driver (S (Z.to_nat osteps)) (table_nxt tbl) ops s0 with
  | Ok s =>
      (ocode =? 0)
      && Nat.eqb (length ocalls) (length (calls s))
      && list_eqb tcall_eqb
           (canon (combine (map fst (calls s))
                           (map (fun o : ocall => let '(c, l, t, e, sz, _) := o in (c, l, t, e, sz)) ocalls)))
           (canon (calls s))
      && forallb (fun o : ocall => let '(c, _, _, _, _, state) := o in c =? state) ocalls
      && list_eqb icall_eqb (sort_icalls oinits) (sort_icalls (icalls s))
      && (oclock =? clock s) && (osteps =? nsteps s)
  | Rejected EInvalidTransition => ocode =? 1
  | Rejected _ => ocode =? 2
  | OutOfFuel => false
  end.

(* ---- correspondence 3: real contexts with a listener that raises ----
   case = (start, stop, step, raising listener, clock from which it raises, components,
           observed: probe log, initializer log, final clock, number of COMPLETED step() calls,
           outcome (0 returned normally, 1 InvalidTransitionError, 3 the probe's exception propagated)) *)
Definition raise_case := (Z * Z * Z * lid * Z * list comp * (list ocall * list oinit * Z * Z * Z))%type.
Definition raises_when (r : lid) (from : Z) : tcall -> bool := fun tc => (tc_lid tc =? r) && (from <=? tc_clock tc).
Definition check_raise (c : raise_case) : bool :=
  let '(start, stop_, st, r, from, cs, (ocalls, oinits, oclock, osteps, ocode)) := c in
  let s0 := mk_sim start stop_ st cs in
  match run_simulation_r (S (Z.to_nat osteps)) (raises_when r from) fixed s0 with
  | Ok (s, raised) =>
      (ocode =? (if raised then 3 else 0))
      && Nat.eqb (length ocalls) (length (calls s))
      && list_eqb tcall_eqb
           (canon (combine (map fst (calls s))
                           (map (fun o : ocall => let '(c, l, t, e, sz, _) := o in (c, l, t, e, sz)) ocalls)))
           (canon (calls s))
      && list_eqb icall_eqb (sort_icalls oinits) (sort_icalls (icalls s))
      && (oclock =? clock s) && (osteps =? nsteps s)
  | Rejected EInvalidTransition => ocode =? 1
  | Rejected _ => ocode =? 2
  | OutOfFuel => false
  end.
