(* Lemmas about the life-cycle model (DESIGN.md C06). *)
From Viv Require Import Common Lifecycle.
Local Open Scope Z_scope.

(* ---------- association lists ---------- *)
Lemma lookup_app m1 m2 s :
  lookup (m1 ++ m2) s = match lookup m1 s with Some x => Some x | None => lookup m2 s end.
Proof.
  induction m1 as [|[a b] r IH]; simpl; [reflexivity|]. destruct (a =? s); [reflexivity | exact IH].
Qed.

Fixpoint pairs (l : list sid) : amap :=
  match l with a :: ((b :: _) as r) => (a, b) :: pairs r | _ => [] end.

Lemma lookup_pairs_In l s x : lookup (pairs l) s = Some x -> In s l /\ In x l.
Proof.
  induction l as [|a [|b r] IH]; simpl; try discriminate.
  destruct (Z.eqb_spec a s) as [->|Hne].
  - intros [= <-]. auto.
  - intros H. destruct (IH H) as [H1 H2]. split; right; assumption.
Qed.

Lemma lookup_pairs l : NoDup l -> forall s s', lookup (pairs l) s = Some s' <-> follows l s s'.
Proof.
  induction l as [|a [|b r] IH]; intros Hn s s'; simpl.
  - split; [discriminate|]. intros [l1 [l2 H]]. destruct l1; discriminate.
  - split; [discriminate|]. intros [l1 [l2 H]]. destruct l1 as [|x [|y l1]]; discriminate.
  - inversion Hn as [|? ? Ha Hn']; subst. destruct (Z.eqb_spec a s) as [->|Hne].
    + split.
      * intros [= <-]. exists [], r. reflexivity.
      * intros [l1 [l2 H]]. destruct l1 as [|x l1]; simpl in H.
        { now inversion H. }
        { exfalso. inversion H; subst. apply Ha. match goal with E : _ = _ ++ _ |- _ => rewrite E end.
          apply in_or_app. right. simpl; auto. }
    + rewrite (IH Hn'). split.
      * intros [l1 [l2 H]]. exists (a :: l1), l2. simpl. now rewrite H.
      * intros [l1 [l2 H]]. destruct l1 as [|x l1]; simpl in H; inversion H; subst; [congruence|]. now exists l1, l2.
Qed.

Lemma last_of_app_cons A x : last_of (A ++ [x]) = Some x.
Proof. unfold last_of. rewrite rev_app_distr. reflexivity. Qed.

Lemma last_of_cons_cons a b r : last_of (a :: b :: r) = last_of (b :: r).
Proof.
  unfold last_of. simpl. destruct (rev r ++ [b]) eqn:E; [destruct (rev r); discriminate | reflexivity].
Qed.

Lemma last_of_In l z : last_of l = Some z -> In z l.
Proof.
  unfold last_of. intros H. apply in_rev. destruct (rev l); simpl in *; [discriminate|]. inversion H. now left.
Qed.

Lemma last_of_app A B : B <> [] -> last_of (A ++ B) = last_of B.
Proof.
  intros HB. unfold last_of. rewrite rev_app_distr. destruct (rev B) eqn:E; [|reflexivity].
  exfalso. apply HB. apply (f_equal (@rev _)) in E. now rewrite rev_involutive in E.
Qed.

(* pairs of a concatenation: the junction contributes exactly one link *)
Lemma pairs_app A z a B : last_of A = Some z -> pairs (A ++ a :: B) = pairs A ++ (z, a) :: pairs (a :: B).
Proof.
  induction A as [|x [|y r] IH]; intros H.
  - discriminate.
  - unfold last_of in H; simpl in H. inversion H; subst. reflexivity.
  - rewrite last_of_cons_cons in H. specialize (IH H).
    change ((x :: y :: r) ++ a :: B) with (x :: (y :: r) ++ a :: B).
    change (pairs (x :: y :: r)) with ((x, y) :: pairs (y :: r)).
    simpl app at 1. simpl pairs at 1. simpl in IH. rewrite IH. reflexivity.
Qed.

Lemma last_not_key l z : NoDup l -> last_of l = Some z -> lookup (pairs l) z = None.
Proof.
  induction l as [|a [|b r] IH]; intros Hn H; try reflexivity.
  rewrite last_of_cons_cons in H. inversion Hn as [|? ? Ha Hn']; subst.
  simpl. destruct (Z.eqb_spec a z) as [->|Hne].
  - exfalso. apply Ha. now apply last_of_In.
  - now apply IH.
Qed.

Lemma lookup_chain sts : NoDup sts -> forall m s,
  lookup (chain sts m) s = match lookup (pairs sts) s with Some x => Some x | None => lookup m s end.
Proof.
  induction sts as [|a [|b r] IH]; intros Hn m s; try reflexivity.
  inversion Hn as [|? ? Ha Hn']; subst.
  change (chain (a :: b :: r) m) with (chain (b :: r) ((a, b) :: m)).
  rewrite (IH Hn'). change (pairs (a :: b :: r)) with ((a, b) :: pairs (b :: r)).
  remember (pairs (b :: r)) as P eqn:HP.
  cbn [lookup]. destruct (Z.eqb_spec a s) as [->|Hne].
  - destruct (lookup P s) eqn:E; [|reflexivity].
    exfalso. apply Ha. subst P. now apply lookup_pairs_In in E.
  - reflexivity.
Qed.

(* ---------- boolean helpers ---------- *)
Lemma nodupb_NoDup l : nodupb l = true <-> NoDup l.
Proof.
  induction l as [|x r IH]; simpl.
  - split; [constructor | reflexivity].
  - rewrite andb_true_iff, negb_true_iff, IH. split.
    + intros [H1 H2]. constructor; [|assumption]. intro Hin. apply zmem_In in Hin. congruence.
    + intros H. inversion H; subst. split; [|assumption].
      destruct (zmem x r) eqn:E; [|reflexivity]. apply zmem_In in E. contradiction.
Qed.

(* ---------- the invariant of every life cycle built by accepted add_phase calls ---------- *)
Record Built (l : lifecycle) : Prop := {
  b_nodup : NoDup (states_of l);
  b_nonempty : forall sts lp, In (sts, lp) (phs l) -> sts <> [];
  b_nxt : forall s, lookup (nxt l) s = lookup (pairs (states_of l)) s;
  b_lnxt : forall s s', lookup (lnxt l) s = Some s' <->
             exists sts, In (sts, true) (phs l) /\ last_of sts = Some s /\ first_of sts = Some s'
}.

Lemma built_empty : Built empty_lc.
Proof.
  constructor; simpl.
  - constructor.
  - intros ? ? [].
  - reflexivity.
  - intros s s'. split; [discriminate|]. intros [? [[] _]].
Qed.

Lemma states_of_add l name sts lp l' :
  add_phase l name sts lp = Ok l' -> states_of l' = states_of l ++ sts /\ phs l' = phs l ++ [(sts, lp)].
Proof.
  unfold add_phase. destruct (negb (validate l name sts)); [discriminate|].
  destruct sts as [|a r]; [discriminate|]. intros [= <-]. unfold states_of. simpl.
  rewrite flat_map_app. simpl. rewrite app_nil_r. auto.
Qed.

Lemma validate_spec l name sts :
  validate l name sts = true ->
  ~ In name (ph_names l) /\ NoDup sts /\ (forall s, In s sts -> ~ In s (states_of l)).
Proof.
  unfold validate. rewrite !andb_true_iff, !negb_true_iff. intros [[H1 H2] H3]. repeat split.
  - intro Hin. apply zmem_In in Hin. congruence.
  - now apply nodupb_NoDup.
  - intros s Hs Hin. assert (existsb (fun s => known l s) sts = true); [|congruence].
    apply existsb_exists. exists s. split; [assumption|]. unfold known. now apply zmem_In.
Qed.

Lemma add_phase_ok l name sts lp l' : add_phase l name sts lp = Ok l' ->
  exists a r, sts = a :: r /\ validate l name sts = true /\
    l' = {| ph_names := name :: ph_names l; phs := phs l ++ [(sts, lp)];
            nxt := match last_of (states_of l) with
                   | Some z => (z, a) :: chain sts (nxt l) | None => chain sts (nxt l) end;
            lnxt := match lp, last_of sts with true, Some z => (z, a) :: lnxt l | _, _ => lnxt l end |}.
Proof.
  unfold add_phase. destruct (validate l name sts) eqn:V; simpl; [|discriminate].
  destruct sts as [|a r]; [discriminate|]. intros [= <-]. exists a, r. auto.
Qed.

Lemma built_add l name sts lp l' : Built l -> add_phase l name sts lp = Ok l' -> Built l'.
Proof.
  intros HB H. pose proof (states_of_add _ _ _ _ _ H) as [Hst Hph].
  destruct (add_phase_ok _ _ _ _ _ H) as [a [r [Es [V El]]]].
  apply validate_spec in V as [_ [Hnd Hfresh]].
  destruct HB as [Bn Bne Bnx Bl].
  assert (HN : NoDup (states_of l ++ sts)).
  { clear - Bn Hnd Hfresh. induction (states_of l) as [|x xs IH]; simpl; [assumption|].
    inversion Bn; subst. constructor.
    - intro Hin. apply in_app_or in Hin as [Hin|Hin]; [contradiction|]. apply (Hfresh x Hin). now left.
    - apply IH; [assumption|]. intros s Hs Hin. apply (Hfresh s Hs). now right. }
  assert (Hfirst : first_of sts = Some a) by (now rewrite Es).
  assert (Hne : sts <> []) by (rewrite Es; discriminate).
  constructor.
  - rewrite Hst. exact HN.
  - intros sts' lp'. rewrite Hph. intros Hin. apply in_app_or in Hin as [Hin|[E|[]]]; [eauto|].
    inversion E; subst sts'. exact Hne.
  - intros s. rewrite Hst. rewrite El. cbn [nxt].
    destruct (last_of (states_of l)) as [z|] eqn:L.
    + rewrite Es at 2. rewrite (pairs_app _ z a r L), lookup_app. rewrite <- Es.
      cbn [lookup]. rewrite (lookup_chain sts Hnd), Bnx.
      destruct (Z.eqb_spec z s) as [->|Hzs].
      * now rewrite (last_not_key _ _ Bn L).
      * destruct (lookup (pairs (states_of l)) s) eqn:E1; [|destruct (lookup (pairs sts) s); reflexivity].
        destruct (lookup (pairs sts) s) eqn:E2; [|reflexivity].
        exfalso. apply lookup_pairs_In in E1 as [E1 _]. apply lookup_pairs_In in E2 as [E2 _].
        exact (Hfresh s E2 E1).
    + assert (states_of l = []) as E.
      { unfold last_of in L. destruct (rev (states_of l)) eqn:R; [|discriminate].
        apply (f_equal (@rev _)) in R. now rewrite rev_involutive in R. }
      rewrite E. simpl app. rewrite (lookup_chain sts Hnd), Bnx, E. simpl.
      destruct (lookup (pairs sts) s); reflexivity.
  - intros s s'. rewrite El. cbn [lnxt phs].
    assert (Hold : forall sts0, In (sts0, true) (phs l) -> last_of sts0 = Some s -> last_of sts = Some s -> False).
    { intros sts0 Hin L0 L1. apply last_of_In in L0, L1.
      apply (Hfresh s L1). unfold states_of. apply in_flat_map. exists (sts0, true). auto. }
    destruct lp; [destruct (last_of sts) as [z|] eqn:L|].
    + cbn [lookup]. destruct (Z.eqb_spec z s) as [->|Hzs].
      * split.
        { intros [= <-]. exists sts. split; [apply in_or_app; right; now left | auto]. }
        { intros [sts0 [Hin [L0 F0]]]. apply in_app_or in Hin as [Hin|[E|[]]].
          - exfalso. eapply Hold; eauto.
          - inversion E; subst sts0. congruence. }
      * rewrite Bl. split; intros [sts0 [Hin [L0 F0]]]; exists sts0.
        { split; [apply in_or_app; now left | auto]. }
        { apply in_app_or in Hin as [Hin|[E|[]]]; [auto|]. inversion E; subst sts0. congruence. }
    + exfalso. apply Hne. unfold last_of in L. destruct (rev sts) eqn:R; [|discriminate].
      apply (f_equal (@rev _)) in R. now rewrite rev_involutive in R.
    + rewrite Bl. split; intros [sts0 [Hin [L0 F0]]]; exists sts0.
      { split; [apply in_or_app; now left | auto]. }
      { apply in_app_or in Hin as [Hin|[E|[]]]; [auto|]. inversion E. }
Qed.

(* every life cycle obtained by any sequence of add_phase attempts (accepted or not) *)
Inductive reachable_lc : lifecycle -> Prop :=
  | r_empty : reachable_lc empty_lc
  | r_add l name sts lp l' : reachable_lc l -> add_phase l name sts lp = Ok l' -> reachable_lc l'.

Lemma reachable_built l : reachable_lc l -> Built l.
Proof. induction 1; [apply built_empty | eapply built_add; eauto]. Qed.

Lemma build_phases_reachable ps : forall l, reachable_lc l -> reachable_lc (build_phases ps l).
Proof.
  induction ps as [|[[n sts] lp] r IH]; intros l HR; cbn [build_phases]; [exact HR|].
  destruct (add_phase l n sts lp) as [l'| |] eqn:E; try (apply IH; exact HR).
  apply IH. eapply r_add; eauto.
Qed.

Lemma init_lc_reachable p s : reachable_lc (init_lc p s).
Proof.
  unfold init_lc. destruct (add_phase empty_lc p [s] false) as [l| |] eqn:E; try apply r_empty.
  eapply r_add; [apply r_empty | exact E].
Qed.

Theorem links_correct l : reachable_lc l ->
  forall s s', valid_next l s s' = true <-> legal_succ (phs l) s s'.
Proof.
  intros HR s s'. pose proof (reachable_built l HR) as HB. destruct HB as [Bn Bne Bnx Bl].
  unfold valid_next, legal_succ. rewrite orb_true_iff. change (flat (phs l)) with (states_of l).
  split.
  - intros [H|H].
    + left. apply (lookup_pairs _ Bn). rewrite <- Bnx. destruct (lookup (nxt l) s); [|discriminate].
      apply Z.eqb_eq in H. now subst.
    + right. apply Bl. destruct (lookup (lnxt l) s); [|discriminate]. apply Z.eqb_eq in H. now subst.
  - intros [H|H].
    + left. apply (lookup_pairs _ Bn) in H. rewrite Bnx, H. apply Z.eqb_refl.
    + right. apply Bl in H. rewrite H. apply Z.eqb_refl.
Qed.

(* a rejected add_phase leaves the life cycle as it was (it is a function returning no new life cycle) and
   the manager-level wrapper returns the same manager *)
Lemma m_add_phase_refused m name sts lp m' e : m_add_phase m name sts lp = (m', Refused e) -> m' = m.
Proof. unfold m_add_phase. destruct (add_phase (lc m) name sts lp); intros [= <-]; reflexivity. Qed.

(* ---------- set_state ---------- *)
Lemma set_state_refused_inert m s m' e : set_state m s = (m', Refused e) -> m' = m.
Proof.
  unfold set_state. destruct (negb (known (lc m) s)); [now intros [= <-]|].
  destruct (valid_next (lc m) (cur m) s); [discriminate | now intros [= <-]].
Qed.

Lemma set_state_accepted m s m' : set_state m s = (m', Accepted) ->
  known (lc m) s = true /\ valid_next (lc m) (cur m) s = true /\
  m' = {| lc := lc m; cur := s; entered := s :: entered m |}.
Proof.
  unfold set_state. destruct (known (lc m) s); simpl; [|discriminate].
  destruct (valid_next (lc m) (cur m) s); [|discriminate]. intros [= <-]. auto.
Qed.

Lemma set_state_unknown m s : known (lc m) s = false -> set_state m s = (m, Refused EUnknownState).
Proof. unfold set_state. now intros ->. Qed.

Lemma set_state_illegal m s : known (lc m) s = true -> valid_next (lc m) (cur m) s = false ->
  set_state m s = (m, Refused EInvalidTransition).
Proof. unfold set_state. now intros -> ->. Qed.

Definition do_requests (m : manager) (rs : list sid) : manager := fold_left (fun m s => fst (set_state m s)) rs m.

Fixpoint path (R : sid -> sid -> Prop) (s : sid) (l : list sid) : Prop :=
  match l with [] => True | x :: r => R s x /\ path R x r end.

Lemma last_nonempty_indep (z : sid) r d1 d2 : last (z :: r) d1 = last (z :: r) d2.
Proof. revert z. induction r as [|y r IH]; intros z; [reflexivity|]. simpl in *. apply IH. Qed.

Lemma path_app R s l1 x : path R s l1 -> R (last l1 s) x -> path R s (l1 ++ [x]).
Proof.
  revert s. induction l1 as [|y r IH]; intros s H1 H2; [simpl in *; auto|].
  destruct H1 as [H0 H1]. split; [assumption|]. apply IH; [assumption|].
  destruct r as [|z r]; [exact H2|]. rewrite (last_nonempty_indep z r y s). exact H2.
Qed.

(* the states entered by ANY request sequence form a path of the legal-successor relation *)
Theorem trace_legal m rs : reachable_lc (lc m) ->
  exists new, entered (do_requests m rs) = rev new ++ entered m /\
              path (legal_succ (phs (lc m))) (cur m) new /\
              cur (do_requests m rs) = last new (cur m) /\ lc (do_requests m rs) = lc m.
Proof.
  intros HR. induction rs as [|s rs IH] using rev_ind.
  - exists []. simpl. auto.
  - destruct IH as [new [He [Hp [Hc Hl]]]]. unfold do_requests in *. rewrite fold_left_app. cbn [fold_left].
    set (m1 := fold_left (fun m s => fst (set_state m s)) rs m) in *.
    destruct (set_state m1 s) as [m2 o] eqn:E. destruct o as [|e].
    + apply set_state_accepted in E as [_ [Hv ->]]. exists (new ++ [s]). cbn [fst entered cur lc].
      rewrite rev_app_distr. simpl. rewrite He. repeat split; auto.
      * apply path_app; [assumption|]. rewrite <- Hc. rewrite <- Hl. apply links_correct; [now rewrite Hl|assumption].
      * now rewrite last_last.
    + apply set_state_refused_inert in E. subst m2. exists new. auto.
Qed.

(* refused requests can be deleted from a history without changing its result *)
Fixpoint accepted_only (m : manager) (rs : list sid) : list sid :=
  match rs with
  | [] => []
  | s :: r => match set_state m s with
              | (m', Accepted) => s :: accepted_only m' r
              | (m', Refused _) => accepted_only m' r
              end
  end.

Theorem refusals_deletable m rs : do_requests m rs = do_requests m (accepted_only m rs).
Proof.
  revert m. induction rs as [|s r IH]; intros m; [reflexivity|]. simpl accepted_only. unfold do_requests in *.
  cbn [fold_left]. destruct (set_state m s) as [m' o] eqn:E. destruct o as [|e]; cbn [fst].
  - cbn [fold_left]. rewrite E. cbn [fst]. apply IH.
  - pose proof (set_state_refused_inert _ _ _ _ E). subst m'. apply IH.
Qed.
