(* Sim.v - the SCHEDULE model used by C01 (driver equivalence, environment channels) and C18 (resume = continue).

   What is modelled (anchors; the code AS IT IS NOW, i.e. after the fix: commits 58535de7 [F-B] and a70d8de6 [F-C]):
     engine.py      SimulationContext.step 257-268            -> [engine_step]   (four events, then clock.step_forward)
                    SimulationContext.run 270-285             -> [run_loop]      (while clock.time < stop: self.step())
                    get_population 347 / interactive.py 165   -> [pop_index]     (the `untracked` default differs by class)
     interactive.py InteractiveContext.step 46-69             -> [interactive_step] (override / restore of the global step)
                    take_steps 136-163                        -> [steps]
                    run_until 104-143, run_for 85, run 70     -> [run_until]     (while clock < end: step(); since 98b7435f)
     engine.py      initialize_simulants 248-255              -> [initialize]
     time.py        step_forward 164-183, get_active_simulants 185-190, move_simulants_to_end 192-194,
                    on_initialize_simulants 132-142           -> [step_forward], [active], [snooze_op], [create]
     event.py       EventChannel.emit 96-123                  -> event = (index, clock + step, step)

   What is NOT modelled: what components compute.  Whatever listeners do during an event - create simulants, untrack,
   snooze - is the Section variable [react], an ARBITRARY function of the schedule state and the event they are shown;
   the value the step-size pipeline returns for a simulant is the Section variable [req].  Table contents, draws and
   results are therefore outside this file: they are functions of (seed, clock, key, table) by C02/C04/C11/C16, and
   that no OTHER input reaches them is established by the environment differential of harness/props/c01.py, not here.

   The two historical defects are kept as a [variant] parameter so that the driver theorems are visibly breakable:
   they are proved for [current] and REFUTED (SimProofs.v) for the two pre-fix variants.

   Static census (harness/props/c01.py, stream-independent obligation `census`): every use in
   /repo/src/vivarium/framework of global numpy.random / random.*, id(), hash(), wall-clock time, os.environ and every
   iteration over a set is listed in corpus/C01/census.json with the reason it cannot reach a state table or a result:
     engine.py run: time()               only decides WHEN a backup is written (C18), never a value
     engine.py _created_simulation_contexts  set membership / len -> the context NAME only (logging)
     population_view.py update: list(set(..))  column iteration order of a validated update -> [update_cols_perm] below
     results/manager.py: set unions / differences  -> sorted before use, or used as a map [strat_tuple_perm]
     state_machine.py TransitionSet.__hash__ = hash(id(self))  only makes the object hashable; never iterated in a set
   A new entry makes the census obligation fail (the list of channels below is then no longer known to be complete). *)
From Viv Require Import Common.
Local Open Scope Z_scope.

(* ------------------------------------------------------------------------------------------------------------- *)
(* state                                                                                                         *)
(* ------------------------------------------------------------------------------------------------------------- *)
Record srow := { lbl : Z; nxt : Z; stp : Z; trk : bool }.       (* label, next_event_time, step_size, tracked *)

Record sim_state := {
  T : Z;                  (* clock._clock_time *)
  S : Z;                  (* clock._clock_step_size : the GLOBAL step *)
  E : Z;                  (* clock._stop_time *)
  m : Z;                  (* clock._minimum_step_size *)
  indiv : bool;           (* clock._individual_clocks is kept (some step modifier is registered) *)
  rows : list srow;       (* one row per simulant ever created, in label order; row count = length rows *)
  snooze : list Z         (* clock._simulants_to_snooze *)
}.

Definition set_rows (s : sim_state) (rs : list srow) (sn : list Z) : sim_state :=
  {| T := T s; S := S s; E := E s; m := m s; indiv := indiv s; rows := rs; snooze := sn |}.
Definition set_S (s : sim_state) (z : Z) : sim_state :=
  {| T := T s; S := z; E := E s; m := m s; indiv := indiv s; rows := rows s; snooze := snooze s |}.
Definition set_clock (s : sim_state) (t z : Z) (rs : list srow) (sn : list Z) : sim_state :=
  {| T := t; S := z; E := E s; m := m s; indiv := indiv s; rows := rs; snooze := sn |}.

Record event := { ev_kind : Z; ev_time : Z; ev_step : Z; ev_index : list Z }.
(* ev_kind: 0 time_step__prepare, 1 time_step, 2 time_step__cleanup, 3 collect_metrics *)

Record reaction := { r_births : nat; r_untrack : list Z; r_snooze : list Z }.

Definition labels (rs : list srow) : list Z := map lbl rs.

(* the two repaired defects, as switches *)
Record variant := {
  restore_always : bool;      (* InteractiveContext.step puts the old global step back even without an override
                                 (true before 58535de7) *)
  explicit_untracked : bool   (* the engine asks get_population(untracked=True) explicitly (false before a70d8de6:
                                 it then got the class's default) *)
}.
Definition current : variant := {| restore_always := false; explicit_untracked := true |}.
Definition before_FB : variant := {| restore_always := true; explicit_untracked := true |}.
Definition before_FC : variant := {| restore_always := false; explicit_untracked := false |}.

Inductive ctx_class := Plain | Interactive.
Definition default_untracked (c : ctx_class) : bool := match c with Plain => true | Interactive => false end.

(* <context>.get_population(untracked = arg) for a context of class c: engine.py 347 (default True) and
   interactive.py get_population (default False) both call PopulationManager.get_population(untracked), which returns
   the whole table when `untracked` and only the tracked rows otherwise *)
Definition get_population (c : ctx_class) (arg : option bool) (s : sim_state) : list srow :=
  let untracked := match arg with Some b => b | None => default_untracked c end in
  if untracked then rows s else filter trk (rows s).

(* self.get_population(...).index as evaluated inside SimulationContext.initialize_simulants/step/finalize for `self`
   of class c: the engine passes untracked=True explicitly (since a70d8de6), before it passed nothing *)
Definition pop_index (v : variant) (c : ctx_class) (s : sim_state) : list Z :=
  labels (get_population c (if explicit_untracked v then Some true else None) s).

(* ------------------------------------------------------------------------------------------------------------- *)
(* clock operations (time.py)                                                                                    *)
(* ------------------------------------------------------------------------------------------------------------- *)
Definition due (t : Z) (r : srow) : bool := nxt r <=? t.
Definition in_idx (idx : list Z) (r : srow) : bool := zmem (lbl r) idx.

(* get_active_simulants(index, time) *)
Definition active_at (s : sim_state) (idx : list Z) (t : Z) : list Z :=
  match idx with
  | [] => idx
  | _ => if indiv s then labels (filter (fun r => in_idx idx r && due t r) (rows s)) else idx
  end.

Definition minl (d : Z) (l : list Z) : Z := fold_right Z.min d l.
Definition min_next (rs : list srow) : Z :=
  match rs with [] => 0 | r :: rs' => minl (nxt r) (map nxt rs') end.

(* move_simulants_to_end(index) *)
Definition snooze_op (s : sim_state) (idx : list Z) : sim_state :=
  match idx with
  | [] => s
  | _ => if indiv s then set_rows s (rows s) (snooze s ++ filter (fun l => negb (zmem l (snooze s))) idx) else s
  end.

(* simulant_creator(n): labels len .. len+n-1 ; the clock's initializer gives next = clock + step, step = step *)
Fixpoint new_rows (first : Z) (n : nat) (t z : Z) : list srow :=
  match n with
  | O => []
  | Datatypes.S k => {| lbl := first; nxt := t; stp := z; trk := true |} :: new_rows (first + 1) k t z
  end.
Definition create (s : sim_state) (n : nat) : sim_state :=
  set_rows s (rows s ++ new_rows (Z.of_nat (length (rows s))) n (T s + S s) (S s)) (snooze s).

Definition untrack (s : sim_state) (ls : list Z) : sim_state :=
  set_rows s (map (fun r => if zmem (lbl r) ls
                            then {| lbl := lbl r; nxt := nxt r; stp := stp r; trk := false |} else r) (rows s))
           (snooze s).

Definition apply_reaction (s : sim_state) (r : reaction) : sim_state :=
  snooze_op (untrack (create s (r_births r)) (r_untrack r)) (r_snooze r).

Section WithComponents.
  (* Whatever the components do, they do it as a function of the state and the event they are shown. *)
  Variable react : sim_state -> event -> reaction.
  (* the step-size pipeline's (post-processed) value for one simulant, called from step_forward *)
  Variable req : sim_state -> Z -> Z.

  (* step_forward(index).  A snoozed simulant that is not among the updated ones makes `.loc` raise (KeyError). *)
  Definition step_forward (idx : list Z) (s : sim_state) : result sim_state :=
    let T' := T s + S s in
    if indiv s && negb (match idx with [] => true | _ => false end) then
      let upd := filter (fun r => in_idx idx r && due T' r) (rows s) in
      match upd with
      | [] => Ok (set_clock s T' (min_next (filter (in_idx idx) (rows s)) - T') (rows s) (snooze s))
      | _ =>
        if forallb (fun l => zmem l (labels upd)) (snooze s) then
          let rs := map (fun r => if in_idx idx r && due T' r
                                  then let z := if zmem (lbl r) (snooze s) then E s + m s - T' else req s (lbl r) in
                                       {| lbl := lbl r; nxt := T' + z; stp := z; trk := trk r |}
                                  else r) (rows s) in
          Ok (set_clock s T' (min_next (filter (in_idx idx) rs) - T') rs [])
        else Rejected EOther
      end
    else Ok (set_clock s T' (S s) (rows s) (snooze s)).

  (* the `for event in self.time_step_events` loop of SimulationContext.step, for `self` of class c *)
  Fixpoint emit_events (v : variant) (c : ctx_class) (kinds : list Z) (s : sim_state) : sim_state * list event :=
    match kinds with
    | [] => (s, [])
    | k :: ks =>
      let ev := {| ev_kind := k; ev_time := T s + S s; ev_step := S s;
                   ev_index := active_at s (pop_index v c s) (T s + S s) |} in
      let '(s', evs) := emit_events v c ks (apply_reaction s (react s ev)) in
      (s', ev :: evs)
    end.

  Definition engine_step (v : variant) (c : ctx_class) (s : sim_state) : result (sim_state * list event) :=
    let '(s1, evs) := emit_events v c [0; 1; 2; 3] s in
    match step_forward (pop_index v c s1) s1 with
    | Ok s2 => Ok (s2, evs)
    | Rejected e => Rejected e
    | OutOfFuel => OutOfFuel
    end.

  (* SimulationContext.initialize_simulants (engine.py 248-255), also reached from InteractiveContext.setup:
     clock.step_backward(); simulant_creator(population_size); clock.step_forward(self.get_population(untracked=True).index) *)
  Definition initialize (v : variant) (c : ctx_class) (n : nat) (s : sim_state) : result sim_state :=
    let s1 := create (set_clock s (T s - S s) (S s) (rows s) (snooze s)) n in
    step_forward (pop_index v c s1) s1.

  (* InteractiveContext.step(step_size = ovr) *)
  Definition interactive_step (v : variant) (ovr : option Z) (s : sim_state) : result (sim_state * list event) :=
    let old := S s in
    let s0 := match ovr with Some z => set_S s z | None => s end in
    match engine_step v Interactive s0 with
    | Ok (s1, evs) =>
        Ok ((if restore_always v || (match ovr with Some _ => true | None => false end) then set_S s1 old else s1), evs)
    | Rejected e => Rejected e
    | OutOfFuel => OutOfFuel
    end.

  (* the three drivers of one step *)
  Definition step_run (v : variant) : sim_state -> result (sim_state * list event) :=
    engine_step v Plain.                         (* self.step() inside SimulationContext.run() *)
  Definition step_manual (v : variant) : sim_state -> result (sim_state * list event) :=
    engine_step v Plain.                         (* sim.step() called by the user on a SimulationContext *)
  Definition step_interactive (v : variant) : sim_state -> result (sim_state * list event) :=
    interactive_step v None.                     (* InteractiveContext.step() / take_steps(n) without a step size *)

  (* n steps of a driver; the schedule is the concatenation of the events *)
  Fixpoint steps (f : sim_state -> result (sim_state * list event)) (n : nat) (s : sim_state)
    : result (sim_state * list event) :=
    match n with
    | O => Ok (s, [])
    | Datatypes.S k =>
      match f s with
      | Ok (s1, e1) =>
        match steps f k s1 with
        | Ok (s2, e2) => Ok (s2, e1 ++ e2)
        | Rejected e => Rejected e
        | OutOfFuel => OutOfFuel
        end
      | Rejected e => Rejected e
      | OutOfFuel => OutOfFuel
      end
    end.

  (* SimulationContext.run(): while self.current_time < stop: self.step().  The real loop terminates iff the global
     step stays positive; OutOfFuel is reserved for exhausted fuel. *)
  Fixpoint run_loop (f : sim_state -> result (sim_state * list event)) (fuel : nat) (s : sim_state)
    : result (sim_state * list event) :=
    if T s <? E s then
      match fuel with
      | O => OutOfFuel
      | Datatypes.S k =>
        match f s with
        | Ok (s1, e1) =>
          match run_loop f k s1 with
          | Ok (s2, e2) => Ok (s2, e1 ++ e2)
          | Rejected e => Rejected e
          | OutOfFuel => OutOfFuel
          end
        | Rejected e => Rejected e
        | OutOfFuel => OutOfFuel
        end
      end
    else Ok (s, []).

  (* InteractiveContext.run_until(end) since commit 98b7435f [F-AB]:  while self._clock.time < end_time: self.step()
     (a generator feeds the loop so that the IPython progress bar still works; the loop test is re-evaluated before every
     step).  run_for(d) = run_until(clock + d); run() = run_until(clock.stop_time). *)
  Fixpoint loop_until (f : sim_state -> result (sim_state * list event)) (e : Z) (fuel : nat) (s : sim_state)
    : result (sim_state * list event) :=
    if T s <? e then
      match fuel with
      | O => OutOfFuel
      | Datatypes.S k =>
        match f s with
        | Ok (s1, e1) =>
          match loop_until f e k s1 with
          | Ok (s2, e2) => Ok (s2, e1 ++ e2)
          | Rejected er => Rejected er
          | OutOfFuel => OutOfFuel
          end
        | Rejected er => Rejected er
        | OutOfFuel => OutOfFuel
        end
      end
    else Ok (s, []).
  Definition run_until (v : variant) (e : Z) (fuel : nat) (s : sim_state) := loop_until (step_interactive v) e fuel s.
  Definition run_for (v : variant) (d : Z) (fuel : nat) (s : sim_state) := run_until v (T s + d) fuel s.
  Definition run_interactive (v : variant) (fuel : nat) (s : sim_state) := run_until v (E s) fuel s.

  (* the code BEFORE 98b7435f: iterations = int(ceil((end - time) / step_size)) computed ONCE from the current global
     step, then `assert time - step_size < end <= time` (kept only for the historical refutation, finding F-AB) *)
  Definition cdiv (a b : Z) : Z := (a + b - 1) / b.
  Definition run_until_old (v : variant) (e : Z) (s : sim_state) : result (sim_state * list event) :=
    if S s =? 0 then Rejected EOther
    else
      match steps (step_interactive v) (Z.to_nat (cdiv (e - T s) (S s))) s with
      | Ok (s', evs) => if (T s' - S s' <? e) && (e <=? T s') then Ok (s', evs) else Rejected EOther
      | r => r
      end.
  Definition run_interactive_old (v : variant) (s : sim_state) := run_until_old v (E s) s.
End WithComponents.

(* engine.py 55-99: the process-global set _created_simulation_contexts only yields the context NAME
   ("simulation_<number of contexts created so far + 1>"); the name is carried along and read by nothing. *)
Record context := { ctx_name : Z; ctx_state : sim_state }.
Definition get_context_name (created : list Z) : Z := Z.of_nat (length created) + 1.
Definition new_context (created : list Z) (s : sim_state) : context :=
  {| ctx_name := get_context_name created; ctx_state := s |}.
Definition ctx_steps (react : sim_state -> event -> reaction) (req : sim_state -> Z -> Z) (n : nat) (c : context)
  : result (context * list event) :=
  match steps (step_run react req current) n (ctx_state c) with
  | Ok (s', evs) => Ok ({| ctx_name := ctx_name c; ctx_state := s' |}, evs)
  | Rejected e => Rejected e
  | OutOfFuel => OutOfFuel
  end.
Definition outcome (r : result (context * list event)) : result (sim_state * list event) :=
  match r with Ok (c, evs) => Ok (ctx_state c, evs) | Rejected e => Rejected e | OutOfFuel => OutOfFuel end.

(* ------------------------------------------------------------------------------------------------------------- *)
(* executable correspondence: the schedule observed on a real run, replayed through the model                   *)
(* ------------------------------------------------------------------------------------------------------------- *)
(* Per step the harness supplies what the components DID (the reaction of each of the four events, read from the
   probes' own logs) and what the step-size pipeline returned (read off the step_size column after the step), and
   what it OBSERVED: event time, event step, the four event indexes, and after the step the clock, the global step
   and the whole (label, next_event_time, step_size, tracked) table. *)
Definition reaction_obs := (nat * list Z * list Z)%type.              (* births, untracked labels, snoozed labels *)
Definition row_obs := (Z * Z * Z * bool)%type.
Definition step_obs :=
  (list reaction_obs * list (Z * Z) * (Z * Z * list (list Z)) * (Z * Z * list row_obs))%type.

Definition mk_reaction (r : reaction_obs) : reaction :=
  let '(b, u, z) := r in {| r_births := b; r_untrack := u; r_snooze := z |}.
Definition table_react (rs : list reaction_obs) : sim_state -> event -> reaction :=
  fun _ ev => mk_reaction (nth (Z.to_nat (ev_kind ev)) rs (O, [], [])).
Definition table_req (tb : list (Z * Z)) : sim_state -> Z -> Z :=
  fun _ l => match zassoc l tb with Some z => z | None => 0 end.

Definition mk_row (r : row_obs) : srow := let '(l, n, z, t) := r in {| lbl := l; nxt := n; stp := z; trk := t |}.
Definition row_eqb (a : srow) (b : row_obs) : bool :=
  let '(l, n, z, t) := b in (lbl a =? l) && (nxt a =? n) && (stp a =? z) && Bool.eqb (trk a) t.
Fixpoint rows_eqb (l : list srow) (o : list row_obs) : bool :=
  match l, o with
  | [], [] => true
  | a :: l', b :: o' => row_eqb a b && rows_eqb l' o'
  | _, _ => false
  end.
(* when no step modifier is registered the clock columns are never written: only labels and tracked are compared *)
Fixpoint rows_eqb_plain (l : list srow) (o : list row_obs) : bool :=
  match l, o with
  | [], [] => true
  | a :: l', (lb, _, _, t) :: o' => (lbl a =? lb) && Bool.eqb (trk a) t && rows_eqb_plain l' o'
  | _, _ => false
  end.

Definition events_match (evs : list event) (et es : Z) (idxs : list (list Z)) : bool :=
  (Nat.eqb (length evs) 4) && (Nat.eqb (length idxs) 4) &&
  forallb (fun p => (ev_time (fst p) =? et) && (ev_step (fst p) =? es) && zlist_eqb (ev_index (fst p)) (snd p))
          (combine evs idxs).

(* driver: 0 = SimulationContext (run / manual step), 1 = InteractiveContext.step *)
Definition drive (react : sim_state -> event -> reaction) (req : sim_state -> Z -> Z) (drv : Z) (s : sim_state) :=
  if drv =? 0 then step_run react req current s else step_interactive react req current s.

Fixpoint check_steps (drv : Z) (s : sim_state) (obs : list step_obs) : bool :=
  match obs with
  | [] => true
  | (rs, tb, (et, es, idxs), (t', z', rws)) :: rest =>
    match drive (table_react rs) (table_req tb) drv s with
    | Ok (s', evs) =>
        events_match evs et es idxs && (T s' =? t') && (S s' =? z') &&
        (if indiv s then rows_eqb (rows s') rws else rows_eqb_plain (rows s') rws) &&
        check_steps drv s' rest
    | _ => false
    end
  end.

(* initialize_simulants replayed: from the configured start time, the clock's initial step and the configured population
   size the model must produce the observed clock, global step and table (the step-size pipeline's values are read off
   the observed step_size column, as for a step) *)
Definition check_init (drv : Z) (init : option (Z * Z * nat)) (t0 z0 e m0 : Z) (iv : bool) (rws : list row_obs) : bool :=
  match init with
  | None => true
  | Some (tstart, zinit, n) =>
    let s := {| T := tstart; S := zinit; E := e; m := m0; indiv := iv; rows := []; snooze := [] |} in
    match initialize (table_req (map (fun r => let '(l, _, z, _) := r in (l, z)) rws)) current
                     (if drv =? 0 then Plain else Interactive) n s with
    | Ok s' => (T s' =? t0) && (S s' =? z0) && (if iv then rows_eqb (rows s') rws else rows_eqb_plain (rows s') rws)
    | _ => false
    end
  end.

(* case: ((T0, S0, E, m, indiv), rows after initialize_simulants, driver, steps, optional (start, initial step, size)) *)
Definition sched_case := ((Z * Z * Z * Z * bool) * list row_obs * Z * list step_obs * option (Z * Z * nat))%type.
Definition check_sched (k : sched_case) : bool :=
  let '((t0, z0, e, m0, iv), rws, drv, obs, init) := k in
  check_init drv init t0 z0 e m0 iv rws &&
  check_steps drv {| T := t0; S := z0; E := e; m := m0; indiv := iv; rows := map mk_row rws; snooze := [] |} obs.
Definition check_scheds (ks : list sched_case) : bool := forallb check_sched ks.

(* ------------------------------------------------------------------------------------------------------------- *)
(* environment channels that can be stated self-containedly: Python set iteration order as an explicit argument *)
(* ------------------------------------------------------------------------------------------------------------- *)
(* A state table as columns: (column id, cells).  population_view.py update 209-225 (steady state, after cbcd0839):
     update_columns = list(set(update) & set(table))                      <- [ord]: ANY order of that set
     column_updates = {c: _update_column_and_ensure_dtype(update[c], table[c]) for c in update_columns}  (may raise)
     for c, new in column_updates.items(): population[c] = new
   [ok c] says the dtype check of column c passes; [newcol c old] is the column the helper returns. *)
Section UpdateChannel.
  Variable ok : Z -> bool.
  Variable newcol : Z -> list Z -> list Z.

  Definition table := list (Z * list Z).
  Definition assign (t : table) (c : Z) (v : list Z) : table :=
    if zmem c (map fst t) then map (fun kv => if fst kv =? c then (fst kv, v) else kv) t else t ++ [(c, v)].
  Definition getcol (t : table) (c : Z) : list Z := match zassoc c t with Some v => v | None => [] end.

  Definition update_cols (ord : list Z) (t : table) : result table :=
    if forallb ok ord
    then Ok (fold_left (fun acc kv => assign acc (fst kv) (snd kv)) (map (fun c => (c, newcol c (getcol t c))) ord) t)
    else Rejected EPopulation.

  (* creating_initial_population branch 209-211 and results/manager.py _prepare_population 403-415: columns are
     ADDED in set order; only the table as a map name -> column is order-independent. *)
  Definition add_cols (data : Z -> list Z) (ord : list Z) (t : table) : table :=
    fold_left (fun acc c => assign acc c (data c)) ord t.
End UpdateChannel.

(* results/manager.py _get_stratifications 375-391: tuple(sorted(list(set(a + b + c) - set(excluded)))) *)
Fixpoint insert (x : Z) (l : list Z) : list Z :=
  match l with
  | [] => [x]
  | y :: r => if x <=? y then x :: l else y :: insert x r
  end.
Definition isort (l : list Z) : list Z := fold_right insert [] l.
Definition strat_tuple (set_order : list Z) : list Z := isort set_order.
