(* Lemmas about the component manager model (Components.v): the explicit-stack loop is the pre-order traversal,
   duplicate names are rejected, the set-up order, user configuration wins, default clashes are rejected, the order of
   the components is irrelevant, the configuration is frozen.                                                       *)
From Viv Require Import Common Config ConfigProofs Components.
From Coq Require Import Permutation.
Local Open Scope Z_scope.

(* ---------------------------------------------------------------------------------------------------------- *)
(* induction over forests                                                                                       *)
Fixpoint item_ind' (P : item -> Prop)
  (Hc : forall n d subs, (forall s, In s subs -> P s) -> P (Comp n d subs))
  (Hg : forall ms, (forall s, In s ms -> P s) -> P (Group ms)) (i : item) : P i :=
  let all := fix go (l : list item) : forall s, In s l -> P s :=
               match l with
               | [] => fun s H => match H with end
               | x :: r => fun s H => match H with
                                      | or_introl E => match E in _ = y return P y with eq_refl => item_ind' P Hc Hg x end
                                      | or_intror H' => go r s H'
                                      end
               end in
  match i with
  | Comp n d subs => Hc n d subs (all subs)
  | Group ms => Hg ms (all ms)
  end.

(* ---------------------------------------------------------------------------------------------------------- *)
(* FLATTEN = PRE-ORDER                                                                                          *)
Lemma size_all_app a b : size_all (a ++ b) = (size_all a + size_all b)%nat.
Proof. unfold size_all. rewrite map_app. induction (map size a); simpl; lia. Qed.
Lemma pre_all_app a b : pre_all (a ++ b) = pre_all a ++ pre_all b.
Proof. unfold pre_all. apply flat_map_app. Qed.

Theorem flatten_is_preorder : forall fuel stack out,
  (size_all stack <= fuel)%nat -> flatten_stack fuel stack out = Some (out ++ pre_all stack).
Proof.
  induction fuel as [|f IH]; intros stack out Hf.
  - destruct stack as [|cur rest]; simpl; [now rewrite app_nil_r|].
    exfalso. unfold size_all in Hf. simpl in Hf. destruct cur; simpl in Hf; lia.
  - destruct stack as [|cur rest]; simpl; [now rewrite app_nil_r|].
    destruct cur as [n d subs|ms].
    + rewrite IH.
      * rewrite pre_all_app. unfold pre_all at 3. simpl. fold (pre_all subs). fold (pre_all rest).
        now rewrite <- !app_assoc.
      * rewrite size_all_app. unfold size_all in *. simpl in Hf. lia.
    + rewrite IH.
      * rewrite pre_all_app. unfold pre_all at 3. simpl. fold (pre_all ms). fold (pre_all rest). reflexivity.
      * rewrite size_all_app. unfold size_all in *. simpl in Hf. lia.
Qed.

Corollary flatten_top (is : list item) : flatten_stack (size_all is) is [] = Some (pre_all is).
Proof. now rewrite flatten_is_preorder. Qed.

(* the number of components of a forest *)
Fixpoint ncomp (i : item) : nat :=
  match i with Comp _ _ subs => S (list_sum (map ncomp subs)) | Group ms => list_sum (map ncomp ms) end.
Lemma length_flat_map {A B} (f : A -> list B) l : length (flat_map f l) = list_sum (map (fun x => length (f x)) l).
Proof. induction l as [|x r IH]; simpl; [reflexivity|]. now rewrite app_length, IH. Qed.
Lemma pre_length i : length (pre i) = ncomp i.
Proof.
  induction i as [n d subs IH|ms IH] using item_ind'; simpl; rewrite length_flat_map; [f_equal|];
    (induction subs as [|x r IHr] || induction ms as [|x r IHr]); simpl; try reflexivity;
    rewrite IH by (now left); rewrite IHr; auto; intros s Hs; apply IH; now right.
Qed.

(* names *)
Definition names (cs : list centry) : list Z := map fst cs.
Lemma names_app a b : names (a ++ b) = names a ++ names b.
Proof. apply map_app. Qed.

(* a component's direct children occur in its own pre-order listing *)
Lemma heads_in_pre i c : In c (heads i) -> In c (names (pre i)).
Proof.
  induction i as [n d subs IH|ms IH] using item_ind'; simpl.
  - intros [H|[]]. now left.
  - intros H. apply in_flat_map in H. destruct H as [s [Hs Hc]]. unfold names. apply in_map_iff.
    specialize (IH s Hs Hc). unfold names in IH. apply in_map_iff in IH. destruct IH as [e [He Hin]].
    exists e. split; [assumption|]. apply in_flat_map. eauto.
Qed.

Lemma names_flat_split (l : list item) s : In s l ->
  exists A B, names (flat_map pre l) = A ++ names (pre s) ++ B.
Proof.
  intros H. apply in_split in H. destruct H as [l1 [l2 E]]. subst l.
  rewrite flat_map_app. simpl. rewrite !names_app. eauto.
Qed.

Definition occurs_before (p c : Z) (l : list Z) : Prop := exists l1 l2 l3, l = l1 ++ p :: l2 ++ c :: l3.

Lemma occurs_before_embed p c l A B : occurs_before p c l -> occurs_before p c (A ++ l ++ B).
Proof.
  intros [l1 [l2 [l3 E]]]. subst l. exists (A ++ l1), l2, (l3 ++ B).
  repeat (rewrite <- app_assoc; simpl). reflexivity.
Qed.

(* PARENT FIRST: every parent -> child edge of the forest is respected by the pre-order listing *)
Lemma parent_first_item i : forall p c, In (p, c) (edges i) -> occurs_before p c (names (pre i)).
Proof.
  induction i as [n d subs IH|ms IH] using item_ind'; intros p c H; simpl in *.
  - apply in_app_or in H. destruct H as [H|H].
    + apply in_map_iff in H. destruct H as [c' [E Hc]]. inversion E; subst. clear E.
      apply in_flat_map in Hc. destruct Hc as [s [Hs Hc]]. apply heads_in_pre in Hc.
      destruct (names_flat_split subs s Hs) as [A [B E]].
      apply in_split in Hc. destruct Hc as [x1 [x2 Ex]].
      exists [], (A ++ x1), (x2 ++ B). simpl. f_equal. fold (names (flat_map pre subs)). rewrite E, Ex.
      now rewrite <- !app_assoc.
    + apply in_flat_map in H. destruct H as [s [Hs He]]. specialize (IH s Hs p c He).
      destruct (names_flat_split subs s Hs) as [A [B E]].
      fold (names (flat_map pre subs)). rewrite E.
      apply (occurs_before_embed p c _ (n :: A) B) in IH. exact IH.
  - apply in_flat_map in H. destruct H as [s [Hs He]]. specialize (IH s Hs p c He).
    destruct (names_flat_split ms s Hs) as [A [B E]]. fold (names (flat_map pre ms)). rewrite E.
    now apply occurs_before_embed.
Qed.

Theorem parent_first (is : list item) p c : In (p, c) (edges_all is) -> occurs_before p c (names (pre_all is)).
Proof.
  intros H. unfold edges_all in H. apply in_flat_map in H. destruct H as [s [Hs He]].
  destruct (names_flat_split is s Hs) as [A [B E]]. unfold pre_all. rewrite E.
  apply occurs_before_embed. now apply parent_first_item.
Qed.

(* ---------------------------------------------------------------------------------------------------------- *)
(* the checker of observed set-up logs accepts the pre-order                                                   *)
Lemma zmem_app x a b : zmem x (a ++ b) = zmem x a || zmem x b.
Proof. unfold zmem. apply existsb_app. Qed.
Lemma before_intro p c l1 l2 l3 : ~ In p l1 -> before p c (l1 ++ p :: l2 ++ c :: l3) = true.
Proof.
  induction l1 as [|x r IH]; simpl; intros H.
  - rewrite Z.eqb_refl, zmem_app. simpl. rewrite Z.eqb_refl. simpl. apply orb_true_r.
  - destruct (x =? p) eqn:E; [apply Z.eqb_eq in E; subst; exfalso; apply H; now left|]. apply IH. tauto.
Qed.
Lemma same_multiset_refl a : same_multiset a a = true.
Proof. unfold same_multiset. apply forallb_forall. intros x _. apply Nat.eqb_refl. Qed.
Lemma firstn_exact {A} (a b : list A) : firstn (length a) (a ++ b) = a.
Proof. induction a; simpl; [reflexivity | now f_equal]. Qed.
Lemma skipn_exact {A} (a b : list A) : skipn (length a) (a ++ b) = b.
Proof. induction a; simpl; auto. Qed.
Lemma nodup_app_notin {A} (l1 : list A) x l2 : NoDup (l1 ++ x :: l2) -> ~ In x l1.
Proof. intros H Hin. apply NoDup_remove_2 in H. apply H. apply in_or_app. now left. Qed.

Lemma nodup_snoc_z {A} (l : list A) x : NoDup l -> ~ In x l -> NoDup (l ++ [x]).
Proof.
  induction l as [|y r IH]; simpl; intros Hn Hx; [constructor; [tauto | constructor]|].
  inversion Hn as [|? ? Hy Hr]; subst. constructor.
  - intros Hin. apply in_app_or in Hin. destruct Hin as [Hin|[E|[]]]; [contradiction|]. subst. apply Hx. now left.
  - apply IH; [assumption | tauto].
Qed.

Theorem log_ok_preorder mgrs is : NoDup (names (pre_all is)) -> log_ok mgrs is (mgrs ++ names (pre_all is)) = true.
Proof.
  intros Hnd. unfold log_ok. rewrite firstn_exact, skipn_exact, !same_multiset_refl. simpl.
  apply forallb_forall. intros [p c] He. simpl. destruct (parent_first is p c He) as [l1 [l2 [l3 E]]].
  unfold names in *. rewrite E in *. apply before_intro. eapply nodup_app_notin; eauto.
Qed.

(* ---------------------------------------------------------------------------------------------------------- *)
(* add_managers / add_components                                                                               *)
Section Mgr.
Variable layers : list Z.

Definition upd_of (l : Z) (e : centry) : upd := (snd e, l, fst e).

Lemma update_set_data t d l n : update layers t d (Some l) n = set_data layers (DDict d) (Some t) l n.
Proof. reflexivity. Qed.

Lemma add_flat_ok l cs : forall t nms t' nms', add_flat layers l t nms cs = Ok (t', nms') ->
  nms' = nms ++ names cs /\ (NoDup nms -> NoDup nms') /\ apply_updates layers t (map (upd_of l) cs) = COk t'.
Proof.
  induction cs as [|[n d] r IH]; intros t nms t' nms' H; cbn [add_flat] in H.
  - inversion H; subst. rewrite app_nil_r. auto.
  - rewrite update_set_data in H. cbn [map upd_of fst snd apply_updates].
    destruct (set_data layers (DDict d) (Some t) l n) as [t1|e] eqn:E; [|discriminate].
    destruct (zmem n nms) eqn:Em; [discriminate|].
    destruct (IH _ _ _ _ H) as [H1 [H2 H3]]. split; [|split; [|assumption]].
    + rewrite H1. unfold names. simpl. now rewrite <- app_assoc.
    + intros Hn. apply H2. apply nodup_snoc_z; [assumption|]. intros Hin. apply zmem_In in Hin. congruence.
Qed.

Lemma add_flat_complete l cs : forall t nms t', apply_updates layers t (map (upd_of l) cs) = COk t' ->
  NoDup (nms ++ names cs) -> add_flat layers l t nms cs = Ok (t', nms ++ names cs).
Proof.
  induction cs as [|[n d] r IH]; intros t nms t' H Hn; cbn [add_flat map upd_of fst snd apply_updates] in *.
  - inversion H; subst. now rewrite app_nil_r.
  - rewrite update_set_data. destruct (set_data layers (DDict d) (Some t) l n) as [t1|e] eqn:E; [|discriminate].
    unfold names in *. simpl in Hn.
    assert (Hm : zmem n nms = false).
    { destruct (zmem n nms) eqn:Em; [|reflexivity]. apply zmem_In in Em. exfalso.
      apply NoDup_remove_2 in Hn. apply Hn. apply in_or_app. now left. }
    rewrite Hm. rewrite (IH t1 (nms ++ [n]) t' H); [now rewrite <- app_assoc | now rewrite <- app_assoc].
Qed.

(* a rejected batch leaves registered exactly the components that precede the offending one; an accepted batch, all *)
Lemma add_flat_prefix_spec l cs : forall t nms, exists k, add_flat_prefix layers l t nms cs = nms ++ names (firstn k cs).
Proof.
  induction cs as [|[n d] r IH]; intros t nms; cbn [add_flat_prefix].
  - exists O. simpl. now rewrite app_nil_r.
  - destruct (update layers t d (Some l) n) as [t'|e]; [|exists O; simpl; now rewrite app_nil_r].
    destruct (zmem n nms); [exists O; simpl; now rewrite app_nil_r|].
    destruct (IH t' (nms ++ [n])) as [k Hk]. exists (S k). rewrite Hk. unfold names. simpl. now rewrite <- app_assoc.
Qed.
Lemma add_flat_prefix_ok l cs : forall t nms t' nms', add_flat layers l t nms cs = Ok (t', nms') ->
  add_flat_prefix layers l t nms cs = nms'.
Proof.
  induction cs as [|[n d] r IH]; intros t nms t' nms' H; cbn [add_flat add_flat_prefix] in *.
  - now inversion H.
  - destruct (update layers t d (Some l) n) as [t1|e]; [|discriminate]. destruct (zmem n nms); [discriminate|]. eauto.
Qed.

Lemma add_flat_not_oof l cs : forall t nms, add_flat layers l t nms cs <> OutOfFuel.
Proof.
  induction cs as [|[n d] r IH]; intros t nms; cbn [add_flat]; [discriminate|].
  destruct (update layers t d (Some l) n); [|discriminate]. destruct (zmem n nms); [discriminate | apply IH].
Qed.

Lemma add_items_flat l t nms is : add_items layers l t nms is = add_flat layers l t nms (pre_all is).
Proof. unfold add_items. now rewrite flatten_top. Qed.

(* C20_duplicates_rejected: two nodes with one name ANYWHERE in the forest => the whole add is rejected *)
Theorem duplicates_rejected l t is : ~ NoDup (names (pre_all is)) -> exists e, add_items layers l t [] is = Rejected e.
Proof.
  intros Hd. rewrite add_items_flat. destruct (add_flat layers l t [] (pre_all is)) as [[t' nms']|e|] eqn:E.
  - exfalso. apply Hd. destruct (add_flat_ok _ _ _ _ _ _ E) as [H1 [H2 _]]. subst nms'. apply H2. constructor.
  - eauto.
  - exfalso. eapply add_flat_not_oof; eauto.
Qed.

(* ---- the whole construction as a sequence of configuration updates ---- *)
Definition all_updates (lu lm lc ls lo : Z) (mgrs : list centry) (user spec over : dict) (is : list item) : list upd :=
  (user, lu, 0) :: (spec, ls, 0) :: (over, lo, 0) :: map (upd_of lm) mgrs ++ map (upd_of lc) (pre_all is).

Lemma build_context_ok lu lm lc ls lo mgrs user spec over is ctx :
  build_context layers lu lm lc ls lo mgrs user spec over is = Ok ctx ->
  apply_updates layers empty_tree (all_updates lu lm lc ls lo mgrs user spec over is) = COk (c_cfg ctx) /\
  c_managers ctx = names mgrs /\ c_components ctx = names (pre_all is) /\
  NoDup (names mgrs) /\ NoDup (names (pre_all is)).
Proof.
  unfold build_context, build_cfg, all_updates. rewrite !update_set_data. cbn [apply_updates].
  destruct (set_data layers (DDict user) (Some empty_tree) lu 0) as [t0|e] eqn:E0; [|discriminate].
  rewrite update_set_data.
  destruct (set_data layers (DDict spec) (Some t0) ls 0) as [t1|e] eqn:E1; [|discriminate].
  rewrite update_set_data.
  destruct (set_data layers (DDict over) (Some t1) lo 0) as [t2|e] eqn:E2; [|discriminate].
  destruct (add_flat layers lm t2 [] mgrs) as [[t3 mn]|e|] eqn:E3; try discriminate.
  rewrite add_items_flat.
  destruct (add_flat layers lc t3 [] (pre_all is)) as [[t4 cn]|e|] eqn:E4; try discriminate.
  intros H. inversion H; subst ctx. simpl.
  destruct (add_flat_ok _ _ _ _ _ _ E3) as [A1 [A2 A3]]. destruct (add_flat_ok _ _ _ _ _ _ E4) as [B1 [B2 B3]].
  simpl in A1, B1. subst mn cn. rewrite apply_updates_app, A3, B3.
  repeat split; auto; [apply A2 | apply B2]; constructor.
Qed.

(* ---- layer order ---- *)
Definition below (l : list Z) (x y : Z) : Prop := exists A B C, l = A ++ x :: B ++ y :: C.

Lemma split_at_sound x l : forall a b, split_at x l = Some (a, b) -> l = a ++ x :: b.
Proof.
  induction l as [|y r IH]; intros a b H; simpl in H; [discriminate|].
  destruct (y =? x) eqn:E.
  - apply Z.eqb_eq in E. inversion H; subst. reflexivity.
  - destruct (split_at x r) as [[a' b']|]; [|discriminate]. inversion H; subst. simpl. f_equal. now apply IH.
Qed.

Lemma belowb_sound l x y : belowb l x y = true -> below l x y.
Proof.
  unfold belowb. destruct (split_at x l) as [[a r]|] eqn:E; [|discriminate]. intros H. apply zmem_In in H.
  apply split_at_sound in E. apply in_split in H. destruct H as [b [c Er]]. subst. exists a, b, c. reflexivity.
Qed.

Lemma layers_okb_sound lu lm lc ls lo : layers_okb layers lu lm lc ls lo = true ->
  NoDup layers /\ below layers lc ls /\ below layers lc lo /\ below layers lm ls /\ below layers lm lo /\
  below layers lu ls /\ below layers lu lo.
Proof.
  unfold layers_okb. intros H. repeat (apply andb_true_iff in H; destruct H as [H ?]).
  split; [now apply znodupb_NoDup|]. repeat split; now apply belowb_sound.
Qed.

End Mgr.

Lemma nodup_disjoint {A} (a b : list A) x : NoDup (a ++ b) -> In x a -> In x b -> False.
Proof.
  induction a as [|y r IH]; simpl; intros Hn Ha Hb; [contradiction|]. inversion Hn as [|? ? Hy Hr]; subst.
  destruct Ha as [E|Ha]; [subst; apply Hy; apply in_or_app; now right | eauto].
Qed.

Lemma nodup_split_unique {A} (l : list A) x : forall a b a' b', NoDup l -> l = a ++ x :: b -> l = a' ++ x :: b' -> a = a' /\ b = b'.
Proof.
  intros a. revert l. induction a as [|y a0 IH]; intros l b a' b' Hn E1 E2; subst l.
  - destruct a' as [|y' a0']; simpl in E2.
    + inversion E2. auto.
    + inversion E2; subst. exfalso. inversion Hn as [|? ? Hx _]; subst. apply Hx. apply in_or_app. right. now left.
  - destruct a' as [|y' a0']; simpl in E2.
    + inversion E2; subst. exfalso. simpl in Hn. inversion Hn as [|? ? Hx _]; subst. apply Hx. apply in_or_app. right. now left.
    + inversion E2; subst. simpl in Hn. inversion Hn as [|? ? _ Hr]; subst.
      destruct (IH _ b a0' b' Hr eq_refl H1) as [Ea Eb]. subst. auto.
Qed.

(* a layer that occurs at or before [b] in the duplicate-free layer list is not above [b] *)
Lemma not_above (l : list Z) a b P Q L H : NoDup l -> l = P ++ a :: Q -> In b (a :: Q) -> l = L ++ b :: H -> ~ In a H.
Proof.
  intros Hn E1 Hb E2 Ha. apply in_split in Ha. destruct Ha as [H1 [H2 Eh]]. subst H.
  assert (E3 : l = (L ++ b :: H1) ++ a :: H2) by (rewrite E2, <- app_assoc; reflexivity).
  destruct (nodup_split_unique l a P Q (L ++ b :: H1) H2 Hn E1 E3) as [EP EQ]. subst P Q.
  rewrite E3 in Hn. apply (nodup_disjoint _ _ b Hn); [apply in_or_app; right; now left | assumption].
Qed.

(* ---------------------------------------------------------------------------------------------------------- *)
(* reading respects the view equivalence of configurations                                                     *)
Lemma first_some_value ls v1 v2 : (forall l, option_map snd (zassoc l v1) = option_map snd (zassoc l v2)) ->
  option_map snd (first_some ls v1) = option_map snd (first_some ls v2).
Proof.
  intros H. induction ls as [|l r IH]; simpl; [reflexivity|]. specialize (H l).
  destruct (zassoc l v1) as [[s1 x1]|]; destruct (zassoc l v2) as [[s2 x2]|]; simpl in *; try discriminate; auto.
Qed.

Lemma get_veq layers t1 t2 p : veq (Some t1) (Some t2) -> get layers t1 p = get layers t2 p.
Proof.
  intros [Hk Ha]. specialize (Hk p). unfold okind in Hk. rewrite !ofind_tfind in Hk.
  unfold get. destruct (tfind t1 p) as [[f1 v1|f1 c1]|] eqn:E1; destruct (tfind t2 p) as [[f2 v2|f2 c2]|] eqn:E2;
    simpl in Hk; try discriminate; try reflexivity.
  assert (Hv : forall l, option_map snd (zassoc l v1) = option_map snd (zassoc l v2)).
  { intros l. specialize (Ha p l). unfold oat in Ha. rewrite !ofind_tfind, E1, E2 in Ha. exact Ha. }
  unfold top_value. pose proof (first_some_value (rev layers) v1 v2 Hv) as H.
  destruct (first_some (rev layers) v1) as [[s1 x1]|]; destruct (first_some (rev layers) v2) as [[s2 x2]|];
    simpl in H; try discriminate; [inversion H; reflexivity | reflexivity].
Qed.

(* ---------------------------------------------------------------------------------------------------------- *)
(* USER CONFIGURATION WINS                                                                                     *)
Section Wins.
Variable layers : list Z.
Variables lu lm lc ls lo : Z.
Hypothesis Hnd : NoDup layers.
Hypothesis Hus : below layers lu ls.
Hypothesis Huo : below layers lu lo.
Hypothesis Hcs : below layers lc ls.
Hypothesis Hco : below layers lc lo.
Hypothesis Hms : below layers lm ls.
Hypothesis Hmo : below layers lm lo.

Definition wf_entries (cs : list centry) : Prop := forall n d, In (n, d) cs -> wf_data (DDict d).
Definition default_updates (mgrs : list centry) (is : list item) : list upd :=
  map (upd_of lm) mgrs ++ map (upd_of lc) (pre_all is).

Lemma below_in x y : below layers x y -> In x layers /\ In y layers.
Proof.
  intros [A [B [C E]]]. rewrite E. split; apply in_or_app; right; [now left|]. right. apply in_or_app. right. now left.
Qed.
Lemma in_layers : In lm layers /\ In lc layers /\ In ls layers /\ In lo layers.
Proof.
  destruct (below_in _ _ Hcs). destruct (below_in _ _ Hmo). tauto.
Qed.
Lemma in_layers_user : In lu layers.
Proof. apply (below_in _ _ Hus). Qed.

(* a layer below [b] (or [b] itself) does not lie above [b] *)
Lemma below_not_above x b L H : below layers x b -> layers = L ++ b :: H -> ~ In x H.
Proof.
  intros [A [B [C E]]] E2. apply (not_above layers x b A (B ++ b :: C) L H Hnd E); [|exact E2].
  right. apply in_or_app. right. now left.
Qed.
Lemma self_not_above b L H : layers = L ++ b :: H -> ~ In b H.
Proof. intros E. apply (not_above layers b b L H L H Hnd E); [now left | exact E]. Qed.

Lemma in_all_updates mgrs user spec over is u : In u (all_updates lu lm lc ls lo mgrs user spec over is) <->
  u = (user, lu, 0) \/ u = (spec, ls, 0) \/ u = (over, lo, 0) \/ In u (default_updates mgrs is).
Proof. unfold all_updates, default_updates. simpl. split; intros [H|[H|[H|H]]]; auto. Qed.

Lemma in_default_updates mgrs is d l n : In (d, l, n) (default_updates mgrs is) ->
  (l = lm /\ In (n, d) mgrs) \/ (l = lc /\ In (n, d) (pre_all is)).
Proof.
  unfold default_updates. intros H. apply in_app_or in H. destruct H as [H|H]; apply in_map_iff in H;
    destruct H as [[n' d'] [E H]]; unfold upd_of in E; simpl in E; inversion E; subst; auto.
Qed.

Lemma all_good mgrs user spec over is : wf_data (DDict user) -> wf_data (DDict spec) -> wf_data (DDict over) -> wf_entries mgrs ->
  wf_entries (pre_all is) -> forall u, In u (all_updates lu lm lc ls lo mgrs user spec over is) -> good layers u.
Proof.
  intros W0 W1 W2 W3 W4 [[d l] n] H. destruct in_layers as [I1 [I2 [I3 I4]]]. pose proof in_layers_user as I0.
  apply in_all_updates in H.
  destruct H as [H|[H|[H|H]]]; try (injection H as Ed El En; subst d l n; split; assumption).
  apply in_default_updates in H. destruct H as [[-> H]|[-> H]]; split; auto; [apply (W3 n d H) | apply (W4 n d H)].
Qed.

(* two distinct layers of a duplicate-free list: one lies below the other *)
Lemma below_total x y : In x layers -> In y layers -> x <> y -> below layers x y \/ below layers y x.
Proof.
  intros Hx Hy Hne. apply in_split in Hx. destruct Hx as [A [R E]]. rewrite E in Hy.
  apply in_app_or in Hy. destruct Hy as [Hy|[Hy|Hy]].
  - right. apply in_split in Hy. destruct Hy as [A1 [A2 EA]]. subst A. exists A1, A2, R. rewrite E, <- app_assoc. reflexivity.
  - congruence.
  - left. apply in_split in Hy. destruct Hy as [R1 [R2 ER]]. subst R. exists A, R1, R2. exact E.
Qed.

Theorem user_wins mgrs user spec over is ctx p :
  wf_data (DDict user) -> wf_data (DDict spec) -> wf_data (DDict over) -> wf_entries mgrs -> wf_entries (pre_all is) ->
  build_context layers lu lm lc ls lo mgrs user spec over is = Ok ctx ->
  (* a keyword argument wins over every default (and over the model specification if that lies below) *)
  (forall v, dleaf (DDict over) p = Some v -> dleaf (DDict spec) p = None \/ below layers ls lo ->
             get layers (c_cfg ctx) p = LVal v) /\
  (* a model-specification value wins over every default (and over the keyword argument if that lies below) *)
  (forall v, dleaf (DDict spec) p = Some v -> dleaf (DDict over) p = None \/ below layers lo ls ->
             get layers (c_cfg ctx) p = LVal v) /\
  (* whenever the user gives a value - either way - the key reads as a value the user gave, never as a default *)
  (forall vo vs, dleaf (DDict over) p = Some vo -> dleaf (DDict spec) p = Some vs ->
             get layers (c_cfg ctx) p = LVal vo \/ get layers (c_cfg ctx) p = LVal vs) /\
  (* else the default of the one manager / component that sets the key (whatever a ~/vivarium.yaml below it says) *)
  (forall X d l n Y v, dleaf (DDict over) p = None -> dleaf (DDict spec) p = None ->
     dleaf (DDict user) p = None \/ below layers lu l ->
     default_updates mgrs is = X ++ (d, l, n) :: Y -> dleaf (DDict d) p = Some v ->
     (forall d' l' n', In (d', l', n') (X ++ Y) -> dleaf (DDict d') p = None) ->
     get layers (c_cfg ctx) p = LVal v) /\
  (* else - nobody else sets the key - the value of ~/vivarium.yaml *)
  (forall v, dleaf (DDict over) p = None -> dleaf (DDict spec) p = None ->
     (forall d' l' n', In (d', l', n') (default_updates mgrs is) -> dleaf (DDict d') p = None) ->
     dleaf (DDict user) p = Some v -> get layers (c_cfg ctx) p = LVal v).
Proof.
  intros W0 W1 W2 W3 W4 Hb. destruct (build_context_ok layers _ _ _ _ _ _ _ _ _ _ _ Hb) as [Hu _].
  pose proof (all_good mgrs user spec over is W0 W1 W2 W3 W4) as Hg. destruct in_layers as [I1 [I2 [I3 I4]]].
  pose proof in_layers_user as I0.
  assert (Hover : forall v, dleaf (DDict over) p = Some v -> dleaf (DDict spec) p = None \/ below layers ls lo ->
                            get layers (c_cfg ctx) p = LVal v).
  { intros v Hv Hs. pose proof I4 as I4'. apply in_split in I4'. destruct I4' as [L [H E]].
    apply (precedence layers _ _ L lo H over 0 p v Hg Hu E); [apply in_all_updates; auto | now rewrite <- dleaf_odleaf|].
    intros d' l' n' Hin Hl. apply in_all_updates in Hin. destruct Hin as [Hin|[Hin|[Hin|Hin]]].
    + injection Hin as Ed' El' En'; subst d' l' n'. exfalso. apply (below_not_above _ _ L H Huo E Hl).
    + injection Hin as Ed' El' En'; subst d' l' n'. destruct Hs as [Hs|Hs]; [now rewrite <- dleaf_odleaf|].
      exfalso. apply (below_not_above _ _ L H Hs E Hl).
    + injection Hin as Ed' El' En'; subst d' l' n'. exfalso. apply (self_not_above _ L H E Hl).
    + exfalso. apply in_default_updates in Hin. destruct Hin as [[-> _]|[-> _]];
        [apply (below_not_above _ _ L H Hmo E Hl) | apply (below_not_above _ _ L H Hco E Hl)]. }
  assert (Hspec : forall v, dleaf (DDict spec) p = Some v -> dleaf (DDict over) p = None \/ below layers lo ls ->
                            get layers (c_cfg ctx) p = LVal v).
  { intros v Hv Ho. pose proof I3 as I3'. apply in_split in I3'. destruct I3' as [L [H E]].
    apply (precedence layers _ _ L ls H spec 0 p v Hg Hu E); [apply in_all_updates; auto | now rewrite <- dleaf_odleaf|].
    intros d' l' n' Hin Hl. apply in_all_updates in Hin. destruct Hin as [Hin|[Hin|[Hin|Hin]]].
    + injection Hin as Ed' El' En'; subst d' l' n'. exfalso. apply (below_not_above _ _ L H Hus E Hl).
    + injection Hin as Ed' El' En'; subst d' l' n'. exfalso. apply (self_not_above _ L H E Hl).
    + injection Hin as Ed' El' En'; subst d' l' n'. destruct Ho as [Ho|Ho]; [now rewrite <- dleaf_odleaf|].
      exfalso. apply (below_not_above _ _ L H Ho E Hl).
    + exfalso. apply in_default_updates in Hin. destruct Hin as [[-> _]|[-> _]];
        [apply (below_not_above _ _ L H Hms E Hl) | apply (below_not_above _ _ L H Hcs E Hl)]. }
  split; [exact Hover|]. split; [exact Hspec|]. split; [|split].
  - intros vo vs Ho Hs. destruct (Z.eq_dec ls lo) as [E|E].
    + (* one layer for both writers: the second update would have been refused *)
      exfalso. subst lo. unfold all_updates in Hu, Hg. rewrite dleaf_odleaf in Ho, Hs.
      destruct (apply_updates_clash layers [(user, lu, 0)] [] (map (upd_of lm) mgrs ++ map (upd_of lc) (pre_all is)) spec over ls 0 0 p vs vo
                  empty_tree Hg unfrozen_empty Hs Ho) as [e [He _]].
      pose proof (eq_trans (eq_sym Hu) He) as HH. discriminate HH.
    + destruct (below_total ls lo I3 I4 E) as [Hb'|Hb']; [left; apply Hover; auto | right; apply Hspec; auto].
  - intros X d l n Y v Ho Hs Hlu Ed Hv Hoth.
    assert (Hin : In (d, l, n) (default_updates mgrs is)) by (rewrite Ed; apply in_or_app; right; now left).
    assert (Il : In l layers) by (apply in_default_updates in Hin; destruct Hin as [[-> _]|[-> _]]; assumption).
    apply in_split in Il. destruct Il as [L [H E]].
    assert (Nl : ~ In l H) by (apply (self_not_above _ L H E)).
    apply (precedence layers _ _ L l H d n p v Hg Hu E); [apply in_all_updates; auto | now rewrite <- dleaf_odleaf|].
    intros d' l' n' Hin' Hl. apply in_all_updates in Hin'. destruct Hin' as [Hin'|[Hin'|[Hin'|Hin']]].
    + injection Hin' as Ed' El' En'; subst d' l' n'. destruct Hlu as [Hlu|Hlu]; [now rewrite <- dleaf_odleaf|].
      exfalso. apply (below_not_above _ _ L H Hlu E Hl).
    + injection Hin' as Ed' El' En'; subst d' l' n'. now rewrite <- dleaf_odleaf.
    + injection Hin' as Ed' El' En'; subst d' l' n'. now rewrite <- dleaf_odleaf.
    + rewrite Ed in Hin'. apply in_app_or in Hin'. destruct Hin' as [Hin'|[Hin'|Hin']].
      * rewrite <- dleaf_odleaf. apply (Hoth d' l' n'). apply in_or_app. now left.
      * injection Hin' as Ed' El' En'; subst d' l' n'. contradiction.
      * rewrite <- dleaf_odleaf. apply (Hoth d' l' n'). apply in_or_app. now right.
  - intros v Ho Hs Hd Hv. pose proof I0 as I0'. apply in_split in I0'. destruct I0' as [L [H E]].
    apply (precedence layers _ _ L lu H user 0 p v Hg Hu E); [apply in_all_updates; auto | now rewrite <- dleaf_odleaf|].
    intros d' l' n' Hin' Hl. apply in_all_updates in Hin'. destruct Hin' as [Hin'|[Hin'|[Hin'|Hin']]].
    + injection Hin' as Ed' El' En'; subst d' l' n'. exfalso. apply (self_not_above _ L H E Hl).
    + injection Hin' as Ed' El' En'; subst d' l' n'. now rewrite <- dleaf_odleaf.
    + injection Hin' as Ed' El' En'; subst d' l' n'. now rewrite <- dleaf_odleaf.
    + rewrite <- dleaf_odleaf. apply (Hd d' l' n' Hin').
Qed.

Lemma build_context_not_oof mgrs user spec over is : build_context layers lu lm lc ls lo mgrs user spec over is <> OutOfFuel.
Proof.
  unfold build_context. destruct (build_cfg layers lu ls lo user spec over); [|discriminate].
  destruct (add_flat layers lm a [] mgrs) as [[t3 mn]|e|] eqn:E3; [|discriminate | exfalso; eapply add_flat_not_oof; eauto].
  rewrite add_items_flat. destruct (add_flat layers lc t3 [] (pre_all is)) as [[t4 cn]|e|] eqn:E4;
    [discriminate | discriminate | exfalso; eapply add_flat_not_oof; eauto].
Qed.

(* TWO DEFAULTS FOR ONE KEY (at one layer) ARE REJECTED, wherever the two components stand *)
Theorem default_clash_rejected mgrs user spec over is X Y Z d1 d2 l n1 n2 p v1 v2 :
  wf_data (DDict user) -> wf_data (DDict spec) -> wf_data (DDict over) -> wf_entries mgrs -> wf_entries (pre_all is) ->
  default_updates mgrs is = X ++ (d1, l, n1) :: Y ++ (d2, l, n2) :: Z ->
  dleaf (DDict d1) p = Some v1 -> dleaf (DDict d2) p = Some v2 ->
  exists e, build_context layers lu lm lc ls lo mgrs user spec over is = Rejected e.
Proof.
  intros W0 W1 W2 W3 W4 Ed L1 L2.
  destruct (build_context layers lu lm lc ls lo mgrs user spec over is) as [ctx|e|] eqn:Hb; [|eauto|exfalso; eapply build_context_not_oof; eauto].
  exfalso. destruct (build_context_ok layers _ _ _ _ _ _ _ _ _ _ _ Hb) as [Hu _].
  pose proof (all_good mgrs user spec over is W0 W1 W2 W3 W4) as Hg.
  assert (E : all_updates lu lm lc ls lo mgrs user spec over is = ((user, lu, 0) :: (spec, ls, 0) :: (over, lo, 0) :: X) ++ (d1, l, n1) :: Y ++ (d2, l, n2) :: Z).
  { unfold all_updates. fold (default_updates mgrs is). rewrite Ed. reflexivity. }
  rewrite E in Hu, Hg. rewrite dleaf_odleaf in L1, L2.
  destruct (apply_updates_clash layers ((user, lu, 0) :: (spec, ls, 0) :: (over, lo, 0) :: X) Y Z d1 d2 l n1 n2 p v1 v2 empty_tree
              Hg unfrozen_empty L1 L2) as [e [He _]].
  pose proof (eq_trans (eq_sym Hu) He) as HH. discriminate HH.
Qed.

End Wins.

(* ---------------------------------------------------------------------------------------------------------- *)
(* THE ORDER IN WHICH THE COMPONENTS ARE SUPPLIED IS IRRELEVANT                                                *)
Theorem order_irrelevant layers l t cs cs' t1 n1 : unfrozen (Some t) -> In l layers ->
  (forall e, In e cs -> wf_data (DDict (snd e))) -> Permutation cs cs' ->
  add_flat layers l t [] cs = Ok (t1, n1) ->
  exists t2, add_flat layers l t [] cs' = Ok (t2, names cs') /\ veq (Some t1) (Some t2) /\
             forall p, get layers t2 p = get layers t1 p.
Proof.
  intros Hu Hl Hw HP H. destruct (add_flat_ok layers l cs _ _ _ _ H) as [H1 [H2 H3]]. simpl in H1. subst n1.
  assert (Hg : forall u, In u (map (upd_of l) cs) -> good layers u).
  { intros u Hin. apply in_map_iff in Hin. destruct Hin as [[n d] [E Hin]]. subst u. simpl. split; [apply (Hw _ Hin) | assumption]. }
  destruct (apply_updates_perm layers _ _ (Permutation_map (upd_of l) HP) Hg t t t1 Hu Hu (veq_refl _) H3) as [t2 [E2 V]].
  exists t2. split; [|split; [assumption | intros p; symmetry; now apply get_veq]].
  apply (add_flat_complete layers l cs' t [] t2 E2). simpl.
  apply (Permutation_NoDup (Permutation_map fst HP)). apply H2. constructor.
Qed.

(* ---------------------------------------------------------------------------------------------------------- *)
(* SET-UP ORDER, FROZEN CONFIGURATION                                                                          *)
Theorem setup_once_after_managers layers lu lm lc ls lo mgrs user spec over is ctx t order :
  build_context layers lu lm lc ls lo mgrs user spec over is = Ok ctx -> setup_context ctx = Ok (t, order) ->
  order = names mgrs ++ names (pre_all is) /\ NoDup order /\
  (forall p c, In (p, c) (edges_all is) -> occurs_before p c (names (pre_all is))) /\
  log_ok (names mgrs) is order = true /\ t = freeze (c_cfg ctx).
Proof.
  intros Hb Hs. destruct (build_context_ok layers _ _ _ _ _ _ _ _ _ _ _ Hb) as [_ [Em [Ec [Nm Nc]]]].
  unfold setup_context in Hs. destruct (znodupb (c_managers ctx ++ c_components ctx)) eqn:E; [|discriminate].
  inversion Hs; subst. rewrite Em, Ec in *. apply znodupb_NoDup in E.
  repeat split; auto; [intros p c; apply parent_first | now apply log_ok_preorder].
Qed.

(* a component named like a manager is rejected when set-up begins *)
Theorem manager_name_clash_rejected layers lu lm lc ls lo mgrs user spec over is ctx n :
  build_context layers lu lm lc ls lo mgrs user spec over is = Ok ctx ->
  In n (names mgrs) -> In n (names (pre_all is)) -> setup_context ctx = Rejected EConfig.
Proof.
  intros Hb H1 H2. destruct (build_context_ok layers _ _ _ _ _ _ _ _ _ _ _ Hb) as [_ [Em [Ec _]]].
  unfold setup_context. rewrite Em, Ec. destruct (znodupb (names mgrs ++ names (pre_all is))) eqn:E; [|reflexivity].
  exfalso. apply znodupb_NoDup in E. apply (nodup_disjoint _ _ n E H1 H2).
Qed.

Theorem frozen_after_setup layers ctx t order : setup_context ctx = Ok (t, order) ->
  (forall p, get layers t p = get layers (c_cfg ctx) p) /\
  (forall p f ch k dk r layer src, tfind t p = Some (Tree f ch) ->
     update layers (Tree f ch) ((k, dk) :: r) layer src = CErr CFrozen) /\
  (forall p sub items layer src, tfind t p = Some sub ->
     match update layers sub items layer src with
     | COk sub' => items = [] /\ sub' = sub
     | CErr e => e = CFrozen \/ e = CStruct
     end).
Proof.
  unfold setup_context. destruct (znodupb (c_managers ctx ++ c_components ctx)); [|discriminate].
  intros H. inversion H; subst. split; [intros p; apply get_freeze|]. split.
  - intros p f ch k dk r layer src Hf. eapply frozen_tree_update; eauto.
  - intros p sub items layer src Hf. eapply frozen_update; eauto.
Qed.

(* computable well-formedness of a defaults table (used on the generated manager table) *)
Lemma wf_entries_b_sound cs : forallb (fun e : centry => wf_datab (DDict (snd e))) cs = true -> wf_entries cs.
Proof.
  intros H n d Hin. rewrite forallb_forall in H. apply wf_datab_sound. apply (H (n, d) Hin).
Qed.
Lemma wf_itemb_entries i : wf_itemb i = true -> wf_entries (pre i).
Proof.
  induction i as [n d subs IH|ms IH] using item_ind'; intros H.
  - cbn [wf_itemb] in H. apply andb_true_iff in H. destruct H as [Hd Hs]. intros n' d' Hin. simpl in Hin. destruct Hin as [E|Hin].
    + inversion E; subst. now apply wf_datab_sound.
    + apply in_flat_map in Hin. destruct Hin as [s [Hs' Hin]].
      assert (Hw : wf_itemb s = true).
      { clear - Hs Hs'. induction subs as [|x r IHr]; [destruct Hs'|]. apply andb_true_iff in Hs. destruct Hs as [H1 H2].
        destruct Hs' as [E|Hs']; [now subst | auto]. }
      apply (IH s Hs' Hw n' d' Hin).
  - cbn [wf_itemb] in H. intros n' d' Hin. simpl in Hin. apply in_flat_map in Hin. destruct Hin as [s [Hs' Hin]].
    assert (Hw : wf_itemb s = true).
    { clear - H Hs'. induction ms as [|x r IHr]; [destruct Hs'|]. apply andb_true_iff in H. destruct H as [H1 H2].
      destruct Hs' as [E|Hs']; [now subst | auto]. }
    apply (IH s Hs' Hw n' d' Hin).
Qed.
Lemma wf_forest_entries is : forallb wf_itemb is = true -> wf_entries (pre_all is).
Proof.
  intros H n d Hin. unfold pre_all in Hin. apply in_flat_map in Hin. destruct Hin as [s [Hs Hin]].
  rewrite forallb_forall in H. apply (wf_itemb_entries s (H s Hs) n d Hin).
Qed.
