(* Common definitions shared by all models (DESIGN.md section 4). Stdlib only. *)
From Coq Require Export List ZArith Bool Lia.
Export ListNotations.

(* Error classes: the harness maps Python exception classes to the same enum. *)
Inductive err : Set :=
  | EInvalidTransition | EUnknownState | EConstraint | EPopulation | ERandomness
  | EResource | EDynamicValue | EArtifact | EConfig | EOther.

Definition err_eqb (a b : err) : bool :=
  match a, b with
  | EInvalidTransition, EInvalidTransition | EUnknownState, EUnknownState
  | EConstraint, EConstraint | EPopulation, EPopulation | ERandomness, ERandomness
  | EResource, EResource | EDynamicValue, EDynamicValue | EArtifact, EArtifact
  | EConfig, EConfig | EOther, EOther => true
  | _, _ => false
  end.

Lemma err_eqb_eq a b : err_eqb a b = true <-> a = b.
Proof. destruct a, b; simpl; split; intro H; try reflexivity; try discriminate. Qed.

(* Three-valued result: "the real code raises here" and "the model ran out of fuel" are distinct. *)
Inductive result (A : Type) : Type :=
  | Ok (a : A)
  | Rejected (e : err)
  | OutOfFuel.
Arguments Ok {A} a.
Arguments Rejected {A} e.
Arguments OutOfFuel {A}.

(* ---- correspondence batches: indices of the cases on which model and implementation disagree ---- *)
Fixpoint failing_from {A : Type} (chk : A -> bool) (n : nat) (l : list A) : list nat :=
  match l with
  | [] => []
  | x :: r => if chk x then failing_from chk (S n) r else n :: failing_from chk (S n) r
  end.
Definition failing_cases {A : Type} (chk : A -> bool) (l : list A) : list nat := failing_from chk 0 l.

Lemma failing_from_nil {A} (chk : A -> bool) l : forall n, failing_from chk n l = [] <-> forallb chk l = true.
Proof.
  induction l as [|x r IH]; intros n; simpl; [tauto|].
  destruct (chk x); simpl; [apply IH|]. split; discriminate.
Qed.

(* ---- list equality helpers (boolean, computable) ---- *)
Fixpoint list_eqb {A : Type} (eqb : A -> A -> bool) (l1 l2 : list A) : bool :=
  match l1, l2 with
  | [], [] => true
  | x :: r, y :: s => eqb x y && list_eqb eqb r s
  | _, _ => false
  end.

Lemma list_eqb_eq {A} (eqb : A -> A -> bool) (H : forall a b, eqb a b = true <-> a = b) l1 l2 :
  list_eqb eqb l1 l2 = true <-> l1 = l2.
Proof.
  revert l2; induction l1 as [|x r IH]; intros [|y s]; simpl; split; intro E;
    try reflexivity; try discriminate.
  - apply andb_true_iff in E as [E1 E2]. apply H in E1. apply IH in E2. now subst.
  - inversion E; subst. apply andb_true_iff. split; [now apply H | now apply IH].
Qed.

Definition zlist_eqb := list_eqb Z.eqb.
Lemma zlist_eqb_eq l1 l2 : zlist_eqb l1 l2 = true <-> l1 = l2.
Proof. apply list_eqb_eq. intros; apply Z.eqb_eq. Qed.

Definition option_eqb {A} (eqb : A -> A -> bool) (a b : option A) : bool :=
  match a, b with Some x, Some y => eqb x y | None, None => true | _, _ => false end.

Definition zmem (x : Z) (l : list Z) : bool := existsb (Z.eqb x) l.
Lemma zmem_In x l : zmem x l = true <-> In x l.
Proof.
  unfold zmem. rewrite existsb_exists. split.
  - intros [y [Hy E]]. apply Z.eqb_eq in E. now subst.
  - intros H. exists x. split; [assumption | apply Z.eqb_refl].
Qed.

(* association lists keyed by Z, first binding wins *)
Fixpoint zassoc {A} (k : Z) (m : list (Z * A)) : option A :=
  match m with [] => None | (a, v) :: r => if Z.eqb a k then Some v else zassoc k r end.
