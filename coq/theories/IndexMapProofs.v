(* Lemmas about the IndexMap model (DESIGN.md C03, C04).  Statements exposed in props/C03.v and props/C04.v. *)
From Viv Require Import Common IndexMap.
From Coq Require Import Permutation Znumtheory.
Local Open Scope Z_scope.

(* ------------------------------------------------------------------------------------------------------------ *)
(* equality tests                                                                                                *)
(* ------------------------------------------------------------------------------------------------------------ *)
Lemma cell_eqb_eq a b : cell_eqb a b = true <-> a = b.
Proof.
  destruct a, b; simpl; split; intro H; try discriminate; try reflexivity.
  - apply Z.eqb_eq in H. now subst.
  - inversion H. apply Z.eqb_refl.
  - apply Z.eqb_eq in H. now subst.
  - inversion H. apply Z.eqb_refl.
  - apply andb_true_iff in H as [H1 H2]. apply Z.eqb_eq in H1, H2. now subst.
  - inversion H. now rewrite !Z.eqb_refl.
Qed.

Lemma key_eqb_eq a b : key_eqb a b = true <-> a = b.
Proof. apply list_eqb_eq. exact cell_eqb_eq. Qed.

Lemma key_eqb_refl a : key_eqb a a = true.
Proof. now apply key_eqb_eq. Qed.

Lemma key_eqb_neq a b : key_eqb a b = false <-> a <> b.
Proof.
  split; intro H.
  - intro E. apply key_eqb_eq in E. congruence.
  - destruct (key_eqb a b) eqn:E; [|reflexivity]. apply key_eqb_eq in E. contradiction.
Qed.

Lemma key_mem_In k l : key_mem k l = true <-> In k l.
Proof.
  unfold key_mem. rewrite existsb_exists. split.
  - intros [y [Hy E]]. apply key_eqb_eq in E. now subst.
  - intros H. exists k. split; [assumption | apply key_eqb_refl].
Qed.

Lemma key_mem_nIn k l : key_mem k l = false <-> ~ In k l.
Proof. rewrite <- key_mem_In. destruct (key_mem k l); split; congruence. Qed.

Lemma zmem_nIn x l : zmem x l = false <-> ~ In x l.
Proof. rewrite <- zmem_In. destruct (zmem x l); split; congruence. Qed.

Lemma nodup_keys_NoDup l : nodup_keys l = true <-> NoDup l.
Proof.
  induction l as [|k r IH]; simpl.
  - split; [constructor | reflexivity].
  - rewrite andb_true_iff, negb_true_iff, key_mem_nIn, IH. split.
    + intros [H1 H2]. now constructor.
    + intros H. inversion H; subst. now split.
Qed.

Lemma nodup_app {A} (l1 l2 : list A) :
  NoDup l1 -> NoDup l2 -> (forall x, In x l1 -> ~ In x l2) -> NoDup (l1 ++ l2).
Proof.
  induction l1 as [|a l1 IH]; simpl; intros H1 H2 Hd; [assumption|].
  inversion H1 as [|? ? Ha H1']; subst. constructor.
  - intro Hi. apply in_app_or in Hi as [Hi|Hi]; [contradiction|]. apply (Hd a); auto.
  - apply IH; auto.
Qed.

Lemma nodup_app_l {A} (l1 l2 : list A) : NoDup (l1 ++ l2) -> NoDup l1.
Proof.
  induction l1 as [|a l1 IH]; simpl; intro H; [constructor|].
  inversion H; subst. constructor; [|auto]. intro Hi. apply H2. apply in_or_app. now left.
Qed.

Lemma nodup_app_r {A} (l1 l2 : list A) : NoDup (l1 ++ l2) -> NoDup l2.
Proof. induction l1 as [|a l1 IH]; simpl; intro H; [assumption|]. inversion H; auto. Qed.

Lemma nodup_app_disj {A} (l1 l2 : list A) x : NoDup (l1 ++ l2) -> In x l1 -> ~ In x l2.
Proof.
  induction l1 as [|a l1 IH]; simpl; intros H Hi; [contradiction|].
  inversion H; subst. destruct Hi as [<-|Hi].
  - intro Hx. apply H2. apply in_or_app. now right.
  - now apply IH.
Qed.

(* ------------------------------------------------------------------------------------------------------------ *)
(* arithmetic of the hash                                                                                        *)
(* ------------------------------------------------------------------------------------------------------------ *)
Lemma wrap64_mod x : wrap64 x = (x + two63) mod two64 - two63.
Proof.
  unfold wrap64. change mask64 with (Z.ones 64). rewrite Z.land_ones by lia. reflexivity.
Qed.

Lemma wrap64_range x : - two63 <= wrap64 x < two63.
Proof.
  rewrite wrap64_mod. assert (H : 0 <= (x + two63) mod two64 < two64) by (apply Z.mod_pos_bound; reflexivity).
  unfold two63, two64 in *. lia.
Qed.

Lemma wrap64_id x : - two63 <= x < two63 -> wrap64 x = x.
Proof.
  intro H. rewrite wrap64_mod. rewrite Z.mod_small; [lia|]. unfold two63, two64 in *. lia.
Qed.

(* the digit walk of [col_prod] is the digit extraction of _digit *)
Lemma col_prod_digits ps : forall c10 idx out, 0 <= idx ->
  col_prod (c10 / 10 ^ idx) ps out = col_prod_spec c10 idx ps out.
Proof.
  induction ps as [|p r IH]; intros c10 idx out Hi; simpl; [reflexivity|].
  destruct (Z.div_eucl (c10 / 10 ^ idx) 10) as [q d] eqn:E.
  assert (Hq : q = c10 / 10 ^ idx / 10) by (unfold Z.div at 1; now rewrite E).
  assert (Hd : d = (c10 / 10 ^ idx) mod 10) by (unfold Z.modulo; now rewrite E).
  assert (Hp : 0 < 10 ^ idx) by (apply Z.pow_pos_nonneg; lia).
  rewrite Hq, Z.div_div by lia.
  replace (10 ^ idx * 10) with (10 ^ (idx + 1)) by (rewrite Z.pow_add_r by lia; reflexivity).
  rewrite IH by lia. unfold digit. now rewrite Hd.
Qed.

Lemma col_prod_is_spec c10 : col_prod c10 primes 1 = col_prod_spec c10 0 primes 1.
Proof. rewrite <- col_prod_digits by lia. now rewrite Z.pow_0_r, Z.div_1_r. Qed.

Lemma hash_range size k s : 0 < size -> 0 <= hash size k s < size.
Proof. intro H. unfold hash. now apply Z.mod_pos_bound. Qed.

(* ------------------------------------------------------------------------------------------------------------ *)
(* drop_duplicates                                                                                               *)
(* ------------------------------------------------------------------------------------------------------------ *)
Notation kposs := (map (@snd key Z)).
Notation kkeys := (map (@fst key Z)).

Lemma dedup_poss_nodup l : forall seen,
  NoDup (kposs (dedup seen l)) /\ forall p, In p (kposs (dedup seen l)) -> ~ In p seen.
Proof.
  induction l as [|[k p] l IH]; intros seen; simpl.
  - split; [constructor | contradiction].
  - destruct (zmem p seen) eqn:E.
    + apply IH.
    + destruct (IH (p :: seen)) as [Hn Hs]. simpl. split.
      * constructor; auto. intro Hi. apply (Hs p Hi). simpl; auto.
      * intros q [<-|Hq]; [now apply zmem_nIn|]. intro Hq'. apply (Hs q Hq). simpl; auto.
Qed.

Lemma dedup_incl l : forall seen e, In e (dedup seen l) -> In e l.
Proof.
  induction l as [|[k p] l IH]; intros seen e; simpl; [auto|].
  destruct (zmem p seen); [right; eauto|]. intros [<-|H]; [auto | right; eauto].
Qed.

Lemma dedup_keys_nodup l : forall seen, NoDup (kkeys l) -> NoDup (kkeys (dedup seen l)).
Proof.
  induction l as [|[k p] l IH]; intros seen H; simpl; [constructor|].
  inversion H as [|? ? Hk Hn]; subst. destruct (zmem p seen); [auto|]. simpl. constructor; [|auto].
  intro Hi. apply Hk. apply in_map_iff in Hi as [[k' p'] [E Hi]]. simpl in E; subst.
  apply dedup_incl in Hi. apply in_map_iff. now exists (k, p').
Qed.

(* a prefix whose positions are duplicate-free and unseen survives unchanged: old entries are never displaced *)
Lemma dedup_prefix (l1 l2 : list kp) : forall seen,
  NoDup (kposs l1) -> (forall p, In p (kposs l1) -> ~ In p seen) ->
  dedup seen (l1 ++ l2) = l1 ++ dedup (rev (kposs l1) ++ seen) l2.
Proof.
  induction l1 as [|[k p] l1 IH]; intros seen Hn Hs; simpl; [reflexivity|].
  inversion Hn as [|? ? Hp Hn']; subst.
  assert (E : zmem p seen = false) by (apply zmem_nIn, Hs; simpl; auto).
  rewrite E. f_equal. rewrite IH; auto.
  - now rewrite <- app_assoc.
  - intros q Hq [<-|Hq']; [contradiction|]. apply (Hs q); simpl; auto.
Qed.

(* the first row carrying a position that was not seen before is kept *)
Lemma dedup_keeps l1 : forall seen k p l2,
  ~ In p seen -> ~ In p (kposs l1) -> In (k, p) (dedup seen (l1 ++ (k, p) :: l2)).
Proof.
  induction l1 as [|[k1 p1] l1 IH]; intros seen k p l2 Hs Hl; simpl.
  - apply zmem_nIn in Hs. rewrite Hs. now left.
  - simpl in Hl. destruct (zmem p1 seen).
    + apply IH; auto.
    + right. apply IH; [|auto]. intros [E|Hi]; [apply Hl; now left | contradiction].
Qed.

(* only membership in [seen] matters *)
Lemma dedup_seen_ext l : forall seen seen', (forall p, In p seen <-> In p seen') -> dedup seen l = dedup seen' l.
Proof.
  induction l as [|[k p] l IH]; intros seen seen' H; simpl; [reflexivity|].
  assert (E : zmem p seen = zmem p seen').
  { destruct (zmem p seen) eqn:E1, (zmem p seen') eqn:E2; auto.
    - apply zmem_In, H, zmem_In in E1. congruence.
    - apply zmem_In, H, zmem_In in E2. congruence. }
  rewrite E. destruct (zmem p seen'); [now apply IH|]. f_equal. apply IH.
  intro q. simpl. rewrite H. tauto.
Qed.

(* ------------------------------------------------------------------------------------------------------------ *)
(* sorting                                                                                                       *)
(* ------------------------------------------------------------------------------------------------------------ *)
Lemma insert_key_perm k l : Permutation (insert_key k l) (k :: l).
Proof.
  induction l as [|x r IH]; simpl; [apply Permutation_refl|].
  destruct (key_leb k x); [apply Permutation_refl|].
  eapply Permutation_trans; [apply perm_skip, IH | apply perm_swap].
Qed.

Lemma sort_keys_perm l : Permutation (sort_keys l) l.
Proof.
  induction l as [|x r IH]; simpl; [constructor|].
  eapply Permutation_trans; [apply insert_key_perm | now apply perm_skip].
Qed.

Lemma insert_entry_perm e l : Permutation (insert_entry e l) (e :: l).
Proof.
  induction l as [|x r IH]; simpl; [apply Permutation_refl|].
  destruct (e_sim e <=? e_sim x); [apply Permutation_refl|].
  eapply Permutation_trans; [apply perm_skip, IH | apply perm_swap].
Qed.

Lemma sort_by_sim_perm m : Permutation (sort_by_sim m) m.
Proof.
  induction m as [|x r IH]; simpl; [constructor|].
  eapply Permutation_trans; [apply insert_entry_perm | now apply perm_skip].
Qed.

Lemma map_fst_hash_keys h ks : kkeys (hash_keys h ks) = ks.
Proof. unfold hash_keys. rewrite map_map. simpl. apply map_id. Qed.

Lemma in_hash_keys h ks k p : In (k, p) (hash_keys h ks) <-> In k ks /\ p = h k.
Proof.
  unfold hash_keys. rewrite in_map_iff. split.
  - intros [x [E Hx]]. inversion E; subst. auto.
  - intros [Hk ->]. now exists k.
Qed.

Lemma difference_In ks cur k : In k (difference ks cur) <-> In k ks /\ ~ In k (kkeys cur).
Proof.
  unfold difference. split.
  - intro H. apply (Permutation_in _ (sort_keys_perm _)) in H. apply filter_In in H as [H1 H2].
    apply negb_true_iff, key_mem_nIn in H2. auto.
  - intros [H1 H2]. apply (Permutation_in _ (Permutation_sym (sort_keys_perm _))).
    apply filter_In. split; [assumption|]. now apply negb_true_iff, key_mem_nIn.
Qed.

Lemma difference_nodup ks cur : NoDup ks -> NoDup (difference ks cur).
Proof.
  intro H. unfold difference. eapply Permutation_NoDup; [apply Permutation_sym, sort_keys_perm|].
  now apply NoDup_filter.
Qed.

(* ------------------------------------------------------------------------------------------------------------ *)
(* the collision loop                                                                                            *)
(* ------------------------------------------------------------------------------------------------------------ *)
Section Resolve.
Variable hs : Z -> key -> Z.

Lemma resolve_spec fuel : forall salt coll cur res,
  NoDup (kposs cur) -> NoDup (kkeys cur) -> NoDup coll -> (forall k, In k coll -> ~ In k (kkeys cur)) ->
  resolve hs fuel salt coll cur = Some res ->
  exists ext, res = cur ++ ext /\ NoDup (kposs res) /\ NoDup (kkeys res) /\
              (forall k, In k coll -> In k (kkeys res)) /\
              (forall k p, In (k, p) ext -> In k coll /\ exists s, p = hs s k).
Proof.
  induction fuel as [|f IH]; intros salt coll cur res Hp Hk Hc Hd; simpl.
  - destruct coll; [|discriminate]. intros [= <-]. exists []. rewrite app_nil_r.
    repeat split; auto; simpl; contradiction.
  - destruct coll as [|c coll'].
    { intros [= <-]. exists []. rewrite app_nil_r. repeat split; auto; simpl; contradiction. }
    set (coll := c :: coll') in *.
    set (upd := hash_keys (hs salt) coll).
    set (cur' := dedup [] (cur ++ upd)).
    intros Hr.
    assert (Hcur' : cur' = cur ++ dedup (rev (kposs cur) ++ []) upd) by (unfold cur'; apply dedup_prefix; auto).
    set (d := dedup (rev (kposs cur) ++ []) upd) in *.
    assert (Hdu : forall e, In e d -> In e upd) by (intros e; apply dedup_incl).
    assert (Hp' : NoDup (kposs cur')) by apply (dedup_poss_nodup _ []).
    assert (Hk' : NoDup (kkeys cur')).
    { rewrite Hcur', map_app. apply nodup_app; auto.
      - apply dedup_keys_nodup. unfold upd. now rewrite map_fst_hash_keys.
      - intros k Hk1 Hk2. apply in_map_iff in Hk2 as [[k' p'] [E Hi]]. simpl in E; subst.
        apply Hdu, in_hash_keys in Hi as [Hi _]. now apply (Hd k). }
    fold cur' in Hr. replace (kkeys upd) with coll in Hr by (unfold upd; now rewrite map_fst_hash_keys).
    assert (Hc2 : NoDup (difference coll cur')) by now apply difference_nodup.
    assert (Hd2 : forall k, In k (difference coll cur') -> ~ In k (kkeys cur')) by (intros k Hk2; now apply difference_In in Hk2).
    destruct (IH _ _ _ _ Hp' Hk' Hc2 Hd2 Hr) as [ext [R1 [R2 [R3 [R4 R5]]]]].
    exists (d ++ ext). repeat split; auto.
    + now rewrite R1, Hcur', <- app_assoc.
    + intros k Hk1. destruct (key_mem k (kkeys cur')) eqn:E.
      * apply key_mem_In in E. rewrite R1, map_app. apply in_or_app. now left.
      * apply R4. apply difference_In. split; [assumption | now apply key_mem_nIn].
    + apply in_app_or in H as [H|H].
      * now apply Hdu, in_hash_keys in H.
      * apply R5 in H as [H _]. now apply difference_In in H.
    + apply in_app_or in H as [H|H].
      * apply Hdu, in_hash_keys in H as [_ ->]. now exists salt.
      * now apply R5 in H.
Qed.

(* old: the key-indexed old map; hb: the new keys with their initial hash *)
Lemma build_spec fuel old hb res :
  NoDup (kposs old) -> NoDup (kkeys old ++ kkeys hb) ->
  build hs fuel old hb = Some res ->
  exists ext, res = old ++ ext /\ NoDup (kposs res) /\ NoDup (kkeys res) /\
              (forall k, In k (kkeys hb) -> In k (kkeys res)) /\
              (forall k p, In (k, p) ext -> In k (kkeys hb) /\ (In (k, p) hb \/ exists s, p = hs s k)) /\
              (forall k p, In (k, p) hb -> ~ In p (kposs old) ->
                           (forall k' p', In (k', p') hb -> k' <> k -> p' <> p) -> In (k, p) res).
Proof.
  unfold build. intros Hp Hk Hr.
  set (cur := dedup [] (old ++ hb)) in *.
  assert (Hcur : cur = old ++ dedup (rev (kposs old) ++ []) hb) by (unfold cur; apply dedup_prefix; auto).
  set (d := dedup (rev (kposs old) ++ []) hb) in *.
  assert (Hdu : forall e, In e d -> In e hb) by (intros e; apply dedup_incl).
  assert (Hp' : NoDup (kposs cur)) by apply (dedup_poss_nodup _ []).
  assert (Hko : NoDup (kkeys old)) by now apply nodup_app_l in Hk.
  assert (Hkb : NoDup (kkeys hb)) by now apply nodup_app_r in Hk.
  assert (Hk' : NoDup (kkeys cur)).
  { rewrite Hcur, map_app. apply nodup_app; auto.
    - now apply dedup_keys_nodup.
    - intros k Hk1 Hk2. apply in_map_iff in Hk2 as [[k' p'] [E Hi]]. simpl in E; subst.
      apply Hdu in Hi. apply (nodup_app_disj _ _ k Hk Hk1). apply in_map_iff. now exists (k, p'). }
  assert (Hc2 : NoDup (difference (kkeys hb) cur)) by now apply difference_nodup.
  assert (Hd2 : forall k, In k (difference (kkeys hb) cur) -> ~ In k (kkeys cur)) by (intros k Hk2; now apply difference_In in Hk2).
  destruct (resolve_spec _ _ _ _ _ Hp' Hk' Hc2 Hd2 Hr) as [ext [R1 [R2 [R3 [R4 R5]]]]].
  exists (d ++ ext). repeat split; auto.
  - now rewrite R1, Hcur, <- app_assoc.
  - intros k Hk1. destruct (key_mem k (kkeys cur)) eqn:E.
    + apply key_mem_In in E. rewrite R1, map_app. apply in_or_app. now left.
    + apply R4. apply difference_In. split; [assumption | now apply key_mem_nIn].
  - apply in_app_or in H as [H|H].
    + apply Hdu in H. apply in_map_iff. now exists (k, p).
    + apply R5 in H as [H _]. now apply difference_In in H.
  - apply in_app_or in H as [H|H].
    + left. now apply Hdu.
    + right. now apply R5 in H.
  - intros k p Hi Ho Hu. rewrite R1. apply in_or_app. left. rewrite Hcur. apply in_or_app. right.
    destruct (in_split _ _ Hi) as [l1 [l2 E]]. unfold d. rewrite E. apply dedup_keeps.
    + rewrite app_nil_r. intro Hq. apply Ho. now apply in_rev.
    + intro Hq. apply in_map_iff in Hq as [[k' p'] [E' Hq]]. simpl in E'; subst p'.
      destruct (key_eqb k' k) eqn:Ek.
      * apply key_eqb_eq in Ek; subst k'.
        rewrite E, map_app in Hkb. simpl in Hkb. apply NoDup_remove_2 in Hkb. apply Hkb.
        apply in_or_app. left. apply in_map_iff. now exists (k, p).
      * apply key_eqb_neq in Ek. apply (Hu k' p); auto. rewrite E. apply in_or_app. now left.
Qed.
End Resolve.

(* ------------------------------------------------------------------------------------------------------------ *)
(* the join on the key levels                                                                                    *)
(* ------------------------------------------------------------------------------------------------------------ *)
Lemma find_sim_Some k idx s : find_sim k idx = Some s -> In (s, k) idx.
Proof.
  unfold find_sim. destruct (find (fun sk : Z * key => key_eqb (snd sk) k) idx) as [[s' k']|] eqn:E; [|discriminate].
  intros [= <-]. apply find_some in E as [Hi Ek]. simpl in Ek. apply key_eqb_eq in Ek. now subst.
Qed.

Lemma find_sim_unique idx : NoDup (map snd idx) -> forall s k, In (s, k) idx -> find_sim k idx = Some s.
Proof.
  induction idx as [|[s0 k0] idx IH]; simpl; intros Hn s k Hi; [contradiction|].
  inversion Hn as [|? ? Hk0 Hn']; subst. unfold find_sim. simpl. destruct (key_eqb k0 k) eqn:E.
  - apply key_eqb_eq in E. subst k0. destruct Hi as [Hi|Hi]; [now inversion Hi|].
    exfalso. apply Hk0. apply in_map_iff. now exists (s, k).
  - destruct Hi as [Hi|Hi].
    + inversion Hi; subst. rewrite key_eqb_refl in E. discriminate.
    + apply (IH Hn' s k Hi).
Qed.

Lemma join_In fm idx s k p : In (s, k, p) (join fm idx) <-> In (k, p) fm /\ find_sim k idx = Some s.
Proof.
  unfold join. rewrite in_flat_map. split.
  - intros [[k' p'] [Hi Hx]]. simpl in Hx. destruct (find_sim k' idx) as [s'|] eqn:E; [|contradiction].
    destruct Hx as [Hx|[]]. inversion Hx; subst. auto.
  - intros [Hi E]. exists (k, p). split; [assumption|]. simpl. rewrite E. now left.
Qed.

Lemma join_cols fm idx : (forall e, In e fm -> find_sim (fst e) idx <> None) ->
  map e_pos (join fm idx) = kposs fm /\ map e_key (join fm idx) = kkeys fm.
Proof.
  induction fm as [|[k p] fm IH]; intros H; simpl; [auto|].
  destruct (find_sim k idx) as [s|] eqn:E.
  - simpl. destruct IH as [I1 I2]; [intros e He; apply H; now right|]. unfold e_pos, e_key in *. simpl. now rewrite I1, I2.
  - exfalso. apply (H (k, p)); [now left | exact E].
Qed.

Lemma map_snd_sk_of m : map snd (sk_of m) = keys_of m.
Proof. unfold sk_of, keys_of, e_key. now rewrite map_map. Qed.
Lemma kposs_kp_of m : kposs (kp_of m) = poss m.
Proof. unfold kp_of, poss. rewrite map_map. reflexivity. Qed.
Lemma kkeys_kp_of m : kkeys (kp_of m) = keys_of m.
Proof. unfold kp_of, keys_of. rewrite map_map. reflexivity. Qed.

Lemma in_kp_of m k p : In (k, p) (kp_of m) <-> exists s, In (s, k, p) m.
Proof.
  unfold kp_of. rewrite in_map_iff. split.
  - intros [[[s k'] p'] [E Hi]]. unfold e_key, e_pos in E. simpl in E. inversion E; subst. now exists s.
  - intros [s Hi]. now exists (s, k, p).
Qed.

Lemma in_sk_of m s k : In (s, k) (sk_of m) <-> exists p, In (s, k, p) m.
Proof.
  unfold sk_of. rewrite in_map_iff. split.
  - intros [[[s' k'] p] [E Hi]]. simpl in E. inversion E; subst. now exists p.
  - intros [p Hi]. now exists (s, k, p).
Qed.

(* ------------------------------------------------------------------------------------------------------------ *)
(* clean keys                                                                                                    *)
(* ------------------------------------------------------------------------------------------------------------ *)
Lemma kp_assoc_In k l p : kp_assoc k l = Some p -> In (k, p) l.
Proof.
  induction l as [|[k' p'] l IH]; simpl; [discriminate|].
  destruct (key_eqb k' k) eqn:E.
  - intros [= <-]. apply key_eqb_eq in E. subst. now left.
  - intro H. right. auto.
Qed.

Lemma clean_in_spec occ hb k : clean_in occ hb k = true ->
  exists p, In (k, p) hb /\ ~ In p occ /\ forall k' p', In (k', p') hb -> k' <> k -> p' <> p.
Proof.
  unfold clean_in. destruct (kp_assoc k hb) as [p|] eqn:E; [|discriminate].
  intro H. apply andb_true_iff in H as [H1 H2]. exists p. split; [now apply kp_assoc_In|]. split.
  - now apply negb_true_iff, zmem_nIn in H1.
  - intros k' p' Hi Hne. rewrite forallb_forall in H2. specialize (H2 _ Hi). simpl in H2.
    apply orb_true_iff in H2 as [H2|H2].
    + apply key_eqb_eq in H2. contradiction.
    + apply negb_true_iff, Z.eqb_neq in H2. exact H2.
Qed.

Lemma clean_spec size m b t k : clean size m b t k = true ->
  In k (map snd b) /\ ~ In (h_clock size t k) (poss m) /\
  forall k', In k' (map snd b) -> k' <> k -> h_clock size t k' <> h_clock size t k.
Proof.
  unfold clean, batch_hashes. intro H. apply clean_in_spec in H as [p [H1 [H2 H3]]].
  apply in_hash_keys in H1 as [H1 ->]. repeat split; auto.
  intros k' Hk' Hne. apply (H3 k' (h_clock size t k')); [|assumption]. now apply in_hash_keys.
Qed.

(* and conversely: the boolean is exactly the permitted-exception predicate of the property *)
Lemma clean_complete size m b t k : NoDup (map snd b) ->
  In k (map snd b) -> ~ In (h_clock size t k) (poss m) ->
  (forall k', In k' (map snd b) -> k' <> k -> h_clock size t k' <> h_clock size t k) ->
  clean size m b t k = true.
Proof.
  intros Hn Hi Ho Hu. unfold clean, clean_in, batch_hashes.
  assert (E : kp_assoc k (hash_keys (h_clock size t) (map snd b)) = Some (h_clock size t k)).
  { clear Hn Hu. induction (map snd b) as [|k0 l IH]; simpl in *; [contradiction|].
    destruct (key_eqb k0 k) eqn:Ek; [apply key_eqb_eq in Ek; now subst|].
    destruct Hi as [->|Hi]; [rewrite key_eqb_refl in Ek; discriminate | auto]. }
  rewrite E. apply andb_true_iff. split; [now apply negb_true_iff, zmem_nIn|].
  apply forallb_forall. intros [k' p'] Hx. apply in_hash_keys in Hx as [Hk' ->]. simpl.
  destruct (key_eqb k' k) eqn:Ek; [reflexivity|]. simpl. apply negb_true_iff, Z.eqb_neq.
  apply Hu; [assumption | now apply key_eqb_neq].
Qed.

(* ------------------------------------------------------------------------------------------------------------ *)
(* one update                                                                                                    *)
(* ------------------------------------------------------------------------------------------------------------ *)
Lemma update_nil size crn m t fuel : update size crn m [] t fuel = Ok m.
Proof. reflexivity. Qed.

Lemma update_crn_off size m b t fuel : update size false m b t fuel = Ok m.
Proof. unfold update, update_h. now rewrite orb_true_r. Qed.

Lemma update_dup_rejected size m b t fuel :
  b <> [] -> ~ NoDup (keys_of m ++ map snd b) -> update size true m b t fuel = Rejected ERandomness.
Proof.
  intros Hb Hd. unfold update, update_h. destruct b; [contradiction|]. simpl is_nil. simpl orb. cbv iota.
  rewrite map_app, map_snd_sk_of.
  destruct (nodup_keys (keys_of m ++ map snd (p :: b))) eqn:E; [|reflexivity].
  apply nodup_keys_NoDup in E. contradiction.
Qed.

Lemma update_bad_rejected size m b t fuel :
  b <> [] -> (forallb key_ok (map snd b) && cell_ok t = false) -> update size true m b t fuel = Rejected ERandomness.
Proof.
  intros Hb Hd. unfold update, update_h. destruct b; [contradiction|]. simpl is_nil. simpl orb. cbv iota.
  destruct (negb (nodup_keys (map snd (sk_of m ++ p :: b)))); [reflexivity|]. now rewrite Hd.
Qed.

(* unique, hashable keys are never refused *)
Lemma update_not_rejected size m b t fuel e :
  NoDup (keys_of m ++ map snd b) -> forallb key_ok (map snd b) && cell_ok t = true ->
  update size true m b t fuel <> Rejected e.
Proof.
  intros Hn Hk. unfold update, update_h. destruct b; [discriminate|]. simpl is_nil. simpl orb. cbv iota.
  rewrite map_app, map_snd_sk_of. apply nodup_keys_NoDup in Hn. rewrite Hn, Hk. simpl.
  destruct (build _ _ _ _); discriminate.
Qed.

Lemma update_rejected_class size crn m b t fuel e : update size crn m b t fuel = Rejected e -> e = ERandomness.
Proof.
  unfold update, update_h. destruct (is_nil b || negb crn); [discriminate|].
  destruct (negb (nodup_keys _)); [now intros [= <-]|].
  destruct (negb _); [now intros [= <-]|]. destruct (build _ _ _ _); discriminate.
Qed.

Theorem update_ok_spec size m b t fuel m' :
  b <> [] -> NoDup (poss m) -> update size true m b t fuel = Ok m' ->
  NoDup (keys_of m ++ map snd b) /\
  NoDup (poss m') /\ NoDup (keys_of m') /\
  (forall e, In e m -> In e m') /\
  Permutation (sk_of m') (sk_of m ++ b) /\
  (forall s k p, In (s, k, p) m' ->
     In (s, k, p) m \/ (In (s, k) b /\ (p = h_clock size t k \/ exists salt, p = h_salt size salt k))) /\
  (forall s k, In (s, k) b -> clean size m b t k = true -> In (s, k, h_clock size t k) m').
Proof.
  intros Hb Hinj H. unfold update, update_h in H. destruct b as [|b0 b']; [contradiction|].
  set (b := b0 :: b') in *. cbn [is_nil orb negb] in H.
  destruct (nodup_keys (map snd (sk_of m ++ b))) eqn:End; cbn [negb] in H; [|discriminate].
  destruct (negb (forallb key_ok (map snd b) && cell_ok t)); [discriminate|].
  destruct (build (h_salt size) fuel (kp_of m) (batch_hashes size t b)) as [fm|] eqn:Eb; [|discriminate].
  injection H as <-.
  apply nodup_keys_NoDup in End.
  assert (Hnd : NoDup (keys_of m ++ map snd b)) by (now rewrite map_app, map_snd_sk_of in End).
  set (fidx := sk_of m ++ b) in *.
  set (hb := batch_hashes size t b) in *.
  assert (Hkb : kkeys hb = map snd b) by (unfold hb, batch_hashes; apply map_fst_hash_keys).
  destruct (build_spec (h_salt size) fuel (kp_of m) hb fm) as [ext [R1 [R2 [R3 [R4 [R5 R6]]]]]]; auto.
  { now rewrite kposs_kp_of. }
  { now rewrite kkeys_kp_of, Hkb. }
  set (J := join fm fidx).
  assert (HP : Permutation (sort_by_sim J) J) by apply sort_by_sim_perm.
  assert (Hfound : forall k p, In (k, p) fm -> exists s, In (s, k) fidx).
  { intros k p Hi. rewrite R1 in Hi. apply in_app_or in Hi as [Hi|Hi].
    - apply in_kp_of in Hi as [s Hi]. exists s. apply in_or_app. left. apply in_sk_of. now exists p.
    - apply R5 in Hi as [Hi _]. rewrite Hkb in Hi. apply in_map_iff in Hi as [[s k'] [E Hi]]. simpl in E; subst.
      exists s. apply in_or_app. now right. }
  assert (Hfs : forall e, In e fm -> find_sim (fst e) fidx <> None).
  { intros [k p] Hi. simpl. destruct (Hfound k p Hi) as [s Hs]. now rewrite (find_sim_unique fidx End s k Hs). }
  destruct (join_cols fm fidx Hfs) as [Jp Jk]. fold J in Jp, Jk.
  assert (U1 : NoDup (poss (sort_by_sim J))).
  { unfold poss. eapply Permutation_NoDup; [apply Permutation_map, Permutation_sym, HP|]. now rewrite Jp. }
  assert (U2 : NoDup (keys_of (sort_by_sim J))).
  { unfold keys_of. eapply Permutation_NoDup; [apply Permutation_map, Permutation_sym, HP|]. now rewrite Jk. }
  assert (U3 : forall e, In e m -> In e (sort_by_sim J)).
  { intros [[s k] p] Hi. apply (Permutation_in _ (Permutation_sym HP)). apply join_In. split.
    - rewrite R1. apply in_or_app. left. apply in_kp_of. now exists s.
    - apply find_sim_unique; [assumption|]. apply in_or_app. left. apply in_sk_of. now exists p. }
  assert (U5 : forall s k p, In (s, k, p) (sort_by_sim J) ->
     In (s, k, p) m \/ (In (s, k) b /\ (p = h_clock size t k \/ exists salt, p = h_salt size salt k))).
  { intros s k p Hi. apply (Permutation_in _ HP), join_In in Hi as [Hi Hf].
    apply find_sim_Some in Hf. rewrite R1 in Hi. apply in_app_or in Hi as [Hi|Hi].
    - left. apply in_kp_of in Hi as [s0 Hi].
      assert (Hs0 : In (s0, k) fidx) by (apply in_or_app; left; apply in_sk_of; now exists p).
      pose proof (find_sim_unique fidx End _ _ Hs0) as F0. pose proof (find_sim_unique fidx End _ _ Hf) as F1.
      rewrite F0 in F1. now inversion F1; subst.
    - right. destruct (R5 _ _ Hi) as [Hk Hp]. rewrite Hkb in Hk. split.
      + apply in_app_or in Hf as [Hf|Hf]; [|assumption]. exfalso.
        apply (nodup_app_disj _ _ k Hnd); [|assumption]. apply in_sk_of in Hf as [p0 Hf].
        unfold keys_of. apply in_map_iff. now exists (s, k, p0).
      + destruct Hp as [Hp|Hp]; [|now right]. left. unfold hb, batch_hashes in Hp. now apply in_hash_keys in Hp. }
  repeat split; auto.
  - (* complete *)
    apply NoDup_Permutation.
    + apply (NoDup_map_inv snd). now rewrite map_snd_sk_of.
    + now apply (NoDup_map_inv snd).
    + intros [s k]. split.
      * intro Hi. apply in_sk_of in Hi as [p Hi]. apply (Permutation_in _ HP), join_In in Hi as [_ Hf].
        now apply find_sim_Some.
      * intro Hi. apply in_sk_of.
        assert (Hk : In k (kkeys fm)).
        { apply in_app_or in Hi as [Hi|Hi].
          - rewrite R1, map_app. apply in_or_app. left. rewrite kkeys_kp_of. apply in_sk_of in Hi as [p Hi].
            unfold keys_of. apply in_map_iff. now exists (s, k, p).
          - apply R4. rewrite Hkb. apply in_map_iff. now exists (s, k). }
        apply in_map_iff in Hk as [[k' p] [E Hk]]. simpl in E; subst. exists p.
        apply (Permutation_in _ (Permutation_sym HP)). apply join_In. split; [assumption|].
        now apply find_sim_unique.
  - (* clean keys sit at their own hash *)
    intros s k Hi Hc. apply (Permutation_in _ (Permutation_sym HP)). apply join_In. split.
    + unfold clean in Hc. fold hb in Hc. apply clean_in_spec in Hc as [p [H1 [H2 H3]]].
      assert (Hp : p = h_clock size t k) by (unfold hb, batch_hashes in H1; now apply in_hash_keys in H1).
      subst p. apply R6; auto. now rewrite kposs_kp_of.
    + apply find_sim_unique; [assumption|]. apply in_or_app. now right.
Qed.

(* ------------------------------------------------------------------------------------------------------------ *)
(* single-step corollaries                                                                                       *)
(* ------------------------------------------------------------------------------------------------------------ *)
Definition Inj (m : imap) : Prop := NoDup (poss m).
Definition InRange (size : Z) (m : imap) : Prop := forall e, In e m -> 0 <= e_pos e < size.
Definition inv (size : Z) (m : imap) : Prop := Inj m /\ NoDup (keys_of m) /\ (0 < size -> InRange size m).

Lemma inv_nil size : inv size [].
Proof. split; [constructor | split; [constructor|]]. intros _ e []. Qed.

(* every accepted update, CRN on or off, empty batch or not *)
Lemma update_cases size crn m b t fuel m' : update size crn m b t fuel = Ok m' ->
  m' = m \/ (crn = true /\ b <> []).
Proof.
  unfold update, update_h. destruct b; simpl; [intros [= <-]; now left|].
  destruct crn; simpl; [|intros [= <-]; now left]. intros _. right. split; [reflexivity | discriminate].
Qed.

Lemma update_injective size crn m b t fuel m' : Inj m -> update size crn m b t fuel = Ok m' -> Inj m'.
Proof.
  intros Hi H. destruct (update_cases _ _ _ _ _ _ _ H) as [->|[-> Hb]]; [assumption|].
  now apply (update_ok_spec size m b t fuel m' Hb Hi H).
Qed.

Lemma update_stable size crn m b t fuel m' : Inj m -> update size crn m b t fuel = Ok m' -> forall e, In e m -> In e m'.
Proof.
  intros Hi H. destruct (update_cases _ _ _ _ _ _ _ H) as [->|[-> Hb]]; [auto|].
  apply (update_ok_spec size m b t fuel m' Hb Hi H).
Qed.

Lemma update_in_range size crn m b t fuel m' : 0 < size -> Inj m -> InRange size m ->
  update size crn m b t fuel = Ok m' -> InRange size m'.
Proof.
  intros Hs Hi Hr H. destruct (update_cases _ _ _ _ _ _ _ H) as [->|[-> Hb]]; [assumption|].
  destruct (update_ok_spec size m b t fuel m' Hb Hi H) as [_ [_ [_ [_ [_ [U5 _]]]]]].
  intros [[s k] p] He. unfold e_pos. simpl. destruct (U5 s k p He) as [Ho|[_ [->|[salt ->]]]].
  - apply (Hr _ Ho).
  - now apply hash_range.
  - now apply hash_range.
Qed.

Lemma update_keys_unique size crn m b t fuel m' : Inj m -> NoDup (keys_of m) -> update size crn m b t fuel = Ok m' -> NoDup (keys_of m').
Proof.
  intros Hi Hk H. destruct (update_cases _ _ _ _ _ _ _ H) as [->|[-> Hb]]; [assumption|].
  now apply (update_ok_spec size m b t fuel m' Hb Hi H).
Qed.

Lemma update_inv size crn m b t fuel m' : inv size m -> update size crn m b t fuel = Ok m' -> inv size m'.
Proof.
  intros [Hi [Hk Hr]] H. split; [|split].
  - eapply update_injective; eauto.
  - eapply update_keys_unique; eauto.
  - intro Hs. eapply update_in_range; eauto.
Qed.

Lemma update_complete size m b t fuel m' : Inj m -> update size true m b t fuel = Ok m' ->
  Permutation (sk_of m') (sk_of m ++ b).
Proof.
  intros Hi H. destruct b as [|b0 b'].
  - rewrite update_nil in H. injection H as <-. now rewrite app_nil_r.
  - apply (update_ok_spec size m _ t fuel m'); [discriminate | assumption | assumption].
Qed.

Lemma update_join_by_key size crn m b t fuel m' : Inj m -> update size crn m b t fuel = Ok m' ->
  forall s k p, In (s, k, p) m' -> In (s, k) (sk_of m ++ b).
Proof.
  intros Hi H s k p He. destruct (update_cases _ _ _ _ _ _ _ H) as [->|[-> Hb]].
  - apply in_or_app. left. apply in_sk_of. now exists p.
  - destruct (update_ok_spec size m b t fuel m' Hb Hi H) as [_ [_ [_ [_ [_ [U5 _]]]]]].
    apply in_or_app. destruct (U5 s k p He) as [Ho|[Hb' _]]; [left | now right]. apply in_sk_of. now exists p.
Qed.

Lemma pos_of_key_In m : NoDup (keys_of m) -> forall s k p, In (s, k, p) m -> pos_of_key m k = Some p.
Proof.
  induction m as [|[[s0 k0] p0] m IH]; simpl; intros Hn s k p Hi; [contradiction|].
  inversion Hn as [|? ? Hk Hn']; subst. cbn [e_key e_pos fst snd]. destruct (key_eqb k0 k) eqn:E.
  - apply key_eqb_eq in E. subst k0. destruct Hi as [Hi|Hi]; [now inversion Hi|].
    exfalso. apply Hk. unfold keys_of. apply in_map_iff. now exists (s, k, p).
  - destruct Hi as [Hi|Hi].
    + inversion Hi; subst. rewrite key_eqb_refl in E. discriminate.
    + apply (IH Hn' s k p Hi).
Qed.

Lemma pos_of_key_Some m k p : pos_of_key m k = Some p -> exists s, In (s, k, p) m.
Proof.
  induction m as [|[[s0 k0] p0] m IH]; simpl; [discriminate|]. cbn [e_key e_pos fst snd].
  destruct (key_eqb k0 k) eqn:E.
  - intros [= <-]. apply key_eqb_eq in E. subst. exists s0. now left.
  - intro H. destruct (IH H) as [s Hs]. exists s. now right.
Qed.

Lemma pos_of_sim_In m : NoDup (map e_sim m) -> forall s k p, In (s, k, p) m -> pos_of_sim m s = Some p.
Proof.
  induction m as [|[[s0 k0] p0] m IH]; simpl; intros Hn s k p Hi; [contradiction|].
  inversion Hn as [|? ? Hk Hn']; subst. cbn [e_sim e_pos fst snd]. destruct (s0 =? s) eqn:E.
  - apply Z.eqb_eq in E. subst s0. destruct Hi as [Hi|Hi]; [now inversion Hi|].
    exfalso. apply Hk. apply in_map_iff. now exists (s, k, p).
  - destruct Hi as [Hi|Hi].
    + inversion Hi; subst. rewrite Z.eqb_refl in E. discriminate.
    + apply (IH Hn' s k p Hi).
Qed.

(* ------------------------------------------------------------------------------------------------------------ *)
(* registration histories                                                                                        *)
(* ------------------------------------------------------------------------------------------------------------ *)
Lemma run_app size fuel h1 : forall m h2,
  run size fuel m (h1 ++ h2) = match run size fuel m h1 with Some m1 => run size fuel m1 h2 | None => None end.
Proof.
  induction h1 as [|[b t] h1 IH]; intros m h2; simpl; [reflexivity|].
  destruct (update size true m b t fuel); auto.
Qed.

Lemma run_inv size fuel h : forall m m', inv size m -> run size fuel m h = Some m' -> inv size m'.
Proof.
  induction h as [|[b t] h IH]; intros m m' Hi; simpl; [now intros [= <-]|].
  destruct (update size true m b t fuel) as [m1| |] eqn:E; [| eauto | discriminate].
  intro H. apply (IH m1 m'); [|assumption]. eapply update_inv; eauto.
Qed.

Lemma run_stable size fuel h : forall m m', inv size m -> run size fuel m h = Some m' -> forall e, In e m -> In e m'.
Proof.
  induction h as [|[b t] h IH]; intros m m' Hi; simpl; [now intros [= <-]|].
  destruct (update size true m b t fuel) as [m1| |] eqn:E; [| eauto | discriminate].
  intros H e He. apply (IH m1 m'); [eapply update_inv; eauto | assumption |].
  destruct Hi as [Hi _]. eapply update_stable; eauto.
Qed.

(* every simulant/key pair of the map was offered by some batch of the history *)
Lemma run_join_by_key size fuel h : forall m m', inv size m -> run size fuel m h = Some m' ->
  forall s k p, In (s, k, p) m' -> In (s, k) (sk_of m) \/ exists b t, In (b, t) h /\ In (s, k) b.
Proof.
  induction h as [|[b t] h IH]; intros m m' Hi; simpl.
  - intros [= <-] s k p He. left. apply in_sk_of. now exists p.
  - destruct (update size true m b t fuel) as [m1| |] eqn:E; [| | discriminate].
    + intros H s k p He. destruct (IH m1 m' (update_inv _ _ _ _ _ _ _ Hi E) H s k p He) as [Ho|[b' [t' [Hb Hs]]]].
      * apply in_sk_of in Ho as [p1 Ho]. destruct Hi as [Hi _].
        apply (update_join_by_key _ _ _ _ _ _ _ Hi E) in Ho. apply in_app_or in Ho as [Ho|Ho]; [now left|].
        right. exists b, t. split; [now left | assumption].
      * right. exists b', t'. split; [now right | assumption].
    + intros H s k p He. destruct (IH m m' Hi H s k p He) as [Ho|[b' [t' [Hb Hs]]]]; [now left|].
      right. exists b', t'. split; [now right | assumption].
Qed.

(* a key registered at clock time t by simulant s in a batch that was accepted, colliding with nothing *)
Definition registered_clean (size : Z) (fuel : nat) (h : list (batch * cell)) (s : Z) (k : key) (t : cell) : Prop :=
  exists h1 b h2 m1 m1', h = h1 ++ (b, t) :: h2 /\ run size fuel [] h1 = Some m1 /\
                         update size true m1 b t fuel = Ok m1' /\ In (s, k) b /\ clean size m1 b t k = true.

Theorem clean_position_history size fuel h s k t m :
  registered_clean size fuel h s k t -> run size fuel [] h = Some m ->
  In (s, k, hash size k (conv10 t)) m /\ pos_of_key m k = Some (hash size k (conv10 t)).
Proof.
  intros [h1 [b [h2 [m1 [m1' [-> [R1 [U [Hi Hc]]]]]]]]] R.
  rewrite run_app, R1 in R. simpl in R. rewrite U in R.
  pose proof (run_inv size fuel h1 [] m1 (inv_nil size) R1) as I1.
  pose proof (update_inv _ _ _ _ _ _ _ I1 U) as I1'.
  assert (Hb : b <> []) by (intro E; subst; contradiction).
  destruct I1 as [J1 _].
  destruct (update_ok_spec size m1 b t fuel m1' Hb J1 U) as [_ [_ [_ [_ [_ [_ U6]]]]]].
  pose proof (U6 s k Hi Hc) as He. unfold h_clock in He.
  pose proof (run_stable size fuel h2 m1' m I1' R _ He) as Hm.
  split; [assumption|]. apply (pos_of_key_In m) with (s := s); [|assumption].
  now apply (run_inv size fuel h2 m1' m I1' R).
Qed.

(* the permitted-exception predicate does not depend on the order of the batch, nor on the labels in it *)
Lemma clean_perm size m b b' t k : NoDup (map snd b) -> Permutation (map snd b) (map snd b') ->
  clean size m b t k = true -> clean size m b' t k = true.
Proof.
  intros Hn HP Hc. apply clean_spec in Hc as [H1 [H2 H3]]. apply clean_complete.
  - eapply Permutation_NoDup; eauto.
  - eapply Permutation_in; eauto.
  - assumption.
  - intros k' Hk'. apply H3. eapply Permutation_in; [apply Permutation_sym|]; eauto.
Qed.

(* acceptance does not depend on the order of the batch either *)
Lemma update_rejected_perm size m b b' t fuel e :
  Permutation (map snd b) (map snd b') -> update size true m b t fuel = Rejected e ->
  exists e', update size true m b' t fuel = Rejected e'.
Proof.
  intros HP H.
  assert (Hb : b <> []) by (intro E; subst; discriminate).
  assert (Hb' : b' <> []).
  { intro E; subst. apply Permutation_sym, Permutation_nil in HP. destruct b; [contradiction | discriminate]. }
  destruct (nodup_keys (keys_of m ++ map snd b)) eqn:E1.
  - destruct (forallb key_ok (map snd b) && cell_ok t) eqn:E2.
    + exfalso. apply nodup_keys_NoDup in E1. now apply (update_not_rejected size m b t fuel e E1 E2).
    + exists ERandomness. apply update_bad_rejected; [assumption|].
      apply andb_false_iff in E2 as [E2|E2]; [|rewrite E2; apply andb_false_r].
      apply andb_false_iff. left. destruct (forallb key_ok (map snd b')) eqn:E3; [|reflexivity].
      rewrite <- E2. symmetry. apply forallb_forall. intros x Hx. rewrite forallb_forall in E3. apply E3.
      eapply Permutation_in; eauto.
  - exists ERandomness. apply update_dup_rejected; [assumption|]. intro Hn.
    assert (NoDup (keys_of m ++ map snd b)).
    { eapply Permutation_NoDup; [|exact Hn]. apply Permutation_app_head. now apply Permutation_sym. }
    apply nodup_keys_NoDup in H0. congruence.
Qed.

(* ------------------------------------------------------------------------------------------------------------ *)
(* simulant labels (and therefore the row order of _map, which is sorted by label) are irrelevant                *)
(* ------------------------------------------------------------------------------------------------------------ *)
Lemma filter_ext_in' {A} (f g : A -> bool) l : (forall x, In x l -> f x = g x) -> filter f l = filter g l.
Proof.
  induction l as [|a l IH]; intros H; simpl; [reflexivity|].
  rewrite (H a) by now left. destruct (g a); [f_equal|]; apply IH; intros x Hx; apply H; now right.
Qed.

Lemma key_mem_ext k l l' : (forall x, In x l <-> In x l') -> key_mem k l = key_mem k l'.
Proof.
  intro H. destruct (key_mem k l) eqn:E1, (key_mem k l') eqn:E2; auto.
  - apply key_mem_In, H, key_mem_In in E1. congruence.
  - apply key_mem_In, H, key_mem_In in E2. congruence.
Qed.

Lemma difference_ext ks cur cur' : (forall k, In k (kkeys cur) <-> In k (kkeys cur')) -> difference ks cur = difference ks cur'.
Proof.
  intro H. unfold difference. f_equal. apply filter_ext_in'. intros k _. f_equal. now apply key_mem_ext.
Qed.

Section ResolvePerm.
Variable hs : Z -> key -> Z.

Lemma resolve_old_perm fuel : forall salt coll (old old' e : list kp) res,
  (forall p, In p (kposs old) <-> In p (kposs old')) -> (forall k, In k (kkeys old) <-> In k (kkeys old')) ->
  NoDup (kposs (old ++ e)) -> NoDup (kposs (old' ++ e)) ->
  resolve hs fuel salt coll (old ++ e) = Some res ->
  exists x, res = old ++ e ++ x /\ resolve hs fuel salt coll (old' ++ e) = Some (old' ++ e ++ x).
Proof.
  induction fuel as [|f IH]; intros salt coll old old' e res Hp Hk Hn Hn'; simpl.
  - destruct coll; [|discriminate]. intros [= <-]. exists []. now rewrite !app_nil_r.
  - destruct coll as [|c coll']; [intros [= <-]; exists []; now rewrite !app_nil_r|].
    cbn [resolve]. set (coll := c :: coll') in *. rewrite !map_fst_hash_keys.
    set (upd := hash_keys (hs salt) coll).
    rewrite (dedup_prefix (old ++ e) upd []) by (auto; intros ? ? []).
    rewrite (dedup_prefix (old' ++ e) upd []) by (auto; intros ? ? []).
    assert (Es : dedup (rev (kposs (old ++ e)) ++ []) upd = dedup (rev (kposs (old' ++ e)) ++ []) upd).
    { apply dedup_seen_ext. intro p. rewrite !app_nil_r, <- !in_rev, !map_app, !in_app_iff, Hp. tauto. }
    rewrite <- Es. set (d := dedup (rev (kposs (old ++ e)) ++ []) upd) in *.
    assert (Ed : difference coll ((old ++ e) ++ d) = difference coll ((old' ++ e) ++ d)).
    { apply difference_ext. intro k. rewrite !map_app, !in_app_iff, Hk. tauto. }
    rewrite <- Ed. rewrite <- !app_assoc. intro Hr.
    assert (N1 : NoDup (kposs (old ++ e ++ d))).
    { rewrite app_assoc. unfold d. rewrite <- (dedup_prefix (old ++ e) upd []) by (auto; intros ? ? []).
      apply (dedup_poss_nodup _ []). }
    assert (N2 : NoDup (kposs (old' ++ e ++ d))).
    { rewrite app_assoc. rewrite Es. rewrite <- (dedup_prefix (old' ++ e) upd []) by (auto; intros ? ? []).
      apply (dedup_poss_nodup _ []). }
    destruct (IH _ _ old old' (e ++ d) res Hp Hk N1 N2 Hr) as [x [R1 R2]].
    exists (d ++ x). rewrite R1, R2. now rewrite <- !app_assoc.
Qed.

Lemma build_old_perm fuel (old old' hb : list kp) res :
  (forall p, In p (kposs old) <-> In p (kposs old')) -> (forall k, In k (kkeys old) <-> In k (kkeys old')) ->
  NoDup (kposs old) -> NoDup (kposs old') ->
  build hs fuel old hb = Some res ->
  exists x, res = old ++ x /\ build hs fuel old' hb = Some (old' ++ x).
Proof.
  unfold build. intros Hp Hk Hn Hn'.
  rewrite (dedup_prefix old hb []) by (auto; intros ? ? []).
  rewrite (dedup_prefix old' hb []) by (auto; intros ? ? []).
  assert (Es : dedup (rev (kposs old) ++ []) hb = dedup (rev (kposs old') ++ []) hb).
  { apply dedup_seen_ext. intro p. rewrite !app_nil_r, <- !in_rev. apply Hp. }
  rewrite <- Es. set (d := dedup (rev (kposs old) ++ []) hb) in *.
  assert (Ed : difference (kkeys hb) (old ++ d) = difference (kkeys hb) (old' ++ d)).
  { apply difference_ext. intro k. rewrite !map_app, !in_app_iff, Hk. tauto. }
  rewrite <- Ed. intro Hr.
  assert (N1 : NoDup (kposs (old ++ d))).
  { unfold d. rewrite <- (dedup_prefix old hb []) by (auto; intros ? ? []). apply (dedup_poss_nodup _ []). }
  assert (N2 : NoDup (kposs (old' ++ d))).
  { rewrite Es. rewrite <- (dedup_prefix old' hb []) by (auto; intros ? ? []). apply (dedup_poss_nodup _ []). }
  destruct (resolve_old_perm fuel 1 _ old old' d res Hp Hk N1 N2 Hr) as [x [R1 R2]].
  exists (d ++ x). now rewrite R1, R2.
Qed.
End ResolvePerm.

Lemma kp_of_join fm idx : (forall e, In e fm -> find_sim (fst e) idx <> None) -> kp_of (join fm idx) = fm.
Proof.
  induction fm as [|[k p] fm IH]; intros H; simpl; [reflexivity|].
  destruct (find_sim k idx) as [s|] eqn:E.
  - simpl. unfold e_key, e_pos. simpl. f_equal. apply IH. intros e He. apply H. now right.
  - exfalso. apply (H (k, p)); [now left | exact E].
Qed.

(* what an accepted non-trivial update returns, as a key-indexed mapping: the old rows followed by the new ones *)
Lemma update_ok_kp size m b t fuel m' : b <> [] -> NoDup (poss m) -> update size true m b t fuel = Ok m' ->
  exists fm, build (h_salt size) fuel (kp_of m) (batch_hashes size t b) = Some fm /\ Permutation (kp_of m') fm.
Proof.
  intros Hb Hinj H. unfold update, update_h in H. destruct b as [|b0 b']; [contradiction|].
  set (b := b0 :: b') in *. cbn [is_nil orb negb] in H.
  destruct (nodup_keys (map snd (sk_of m ++ b))) eqn:End; cbn [negb] in H; [|discriminate].
  destruct (negb (forallb key_ok (map snd b) && cell_ok t)); [discriminate|].
  destruct (build (h_salt size) fuel (kp_of m) (batch_hashes size t b)) as [fm|] eqn:Eb; [|discriminate].
  injection H as <-. exists fm. split; [reflexivity|].
  apply nodup_keys_NoDup in End.
  assert (Hnd : NoDup (keys_of m ++ map snd b)) by (now rewrite map_app, map_snd_sk_of in End).
  set (fidx := sk_of m ++ b) in *.
  assert (Hkb : kkeys (batch_hashes size t b) = map snd b) by (unfold batch_hashes; apply map_fst_hash_keys).
  destruct (build_spec (h_salt size) fuel (kp_of m) (batch_hashes size t b) fm) as [ext [R1 [R2 [R3 [R4 [R5 R6]]]]]]; auto.
  { now rewrite kposs_kp_of. }
  { now rewrite kkeys_kp_of, Hkb. }
  assert (Hfs : forall e, In e fm -> find_sim (fst e) fidx <> None).
  { intros [k p] Hi. simpl. rewrite R1 in Hi. apply in_app_or in Hi as [Hi|Hi].
    - apply in_kp_of in Hi as [s Hi].
      rewrite (find_sim_unique fidx End s k); [discriminate|]. apply in_or_app. left. apply in_sk_of. now exists p.
    - apply R5 in Hi as [Hi _]. rewrite Hkb in Hi. apply in_map_iff in Hi as [[s k'] [E Hi]]. simpl in E; subst.
      rewrite (find_sim_unique fidx End s k); [discriminate|]. apply in_or_app. now right. }
  rewrite <- (kp_of_join fm fidx Hfs) at 2. unfold kp_of. apply Permutation_map. apply sort_by_sim_perm.
Qed.

Lemma nodup_keys_perm l l' : Permutation l l' -> nodup_keys l = nodup_keys l'.
Proof.
  intro HP. destruct (nodup_keys l) eqn:E1, (nodup_keys l') eqn:E2; auto.
  - apply nodup_keys_NoDup in E1. apply (Permutation_NoDup HP), nodup_keys_NoDup in E1. congruence.
  - apply nodup_keys_NoDup in E2. apply (Permutation_NoDup (Permutation_sym HP)), nodup_keys_NoDup in E2. congruence.
Qed.

Definition same_content (m1 m2 : imap) : Prop := Permutation (kp_of m1) (kp_of m2).

Definition outcomes_agree (r1 r2 : result imap) : Prop :=
  match r1, r2 with
  | Ok a, Ok b => same_content a b
  | Rejected _, Rejected _ => True
  | OutOfFuel, OutOfFuel => True
  | _, _ => False
  end.

Lemma same_content_facts m1 m2 : same_content m1 m2 ->
  Permutation (poss m1) (poss m2) /\ Permutation (keys_of m1) (keys_of m2).
Proof.
  intro H. split.
  - rewrite <- !kposs_kp_of. now apply Permutation_map.
  - rewrite <- !kkeys_kp_of. now apply Permutation_map.
Qed.

(* one update on two maps with the same key -> position content, fed the same keys under ANY labels *)
Theorem update_labels_irrelevant size m1 m2 b1 b2 t fuel :
  same_content m1 m2 -> Inj m1 -> map snd b1 = map snd b2 ->
  outcomes_agree (update size true m1 b1 t fuel) (update size true m2 b2 t fuel).
Proof.
  intros HC Hi1 Hb.
  destruct (same_content_facts _ _ HC) as [HPp HPk].
  assert (Hi2 : Inj m2) by (unfold Inj; eapply Permutation_NoDup; eauto).
  destruct b1 as [|x1 b1'].
  { destruct b2; [|discriminate]. rewrite !update_nil. exact HC. }
  destruct b2 as [|x2 b2']; [discriminate|].
  set (b1 := x1 :: b1') in *. set (b2 := x2 :: b2') in *.
  assert (Hhb : batch_hashes size t b1 = batch_hashes size t b2) by (unfold batch_hashes; now rewrite Hb).
  assert (Hnd : nodup_keys (map snd (sk_of m1 ++ b1)) = nodup_keys (map snd (sk_of m2 ++ b2))).
  { apply nodup_keys_perm. rewrite !map_app, !map_snd_sk_of, Hb. now apply Permutation_app_tail. }
  assert (Hmem_p : forall p, In p (kposs (kp_of m1)) <-> In p (kposs (kp_of m2))).
  { intro p. rewrite !kposs_kp_of. split; apply Permutation_in; [|apply Permutation_sym]; assumption. }
  assert (Hmem_k : forall k, In k (kkeys (kp_of m1)) <-> In k (kkeys (kp_of m2))).
  { intro k. rewrite !kkeys_kp_of. split; apply Permutation_in; [|apply Permutation_sym]; assumption. }
  assert (N1 : NoDup (kposs (kp_of m1))) by now rewrite kposs_kp_of.
  assert (N2 : NoDup (kposs (kp_of m2))) by now rewrite kposs_kp_of.
  destruct (update size true m1 b1 t fuel) as [m1'| |] eqn:U1;
    destruct (update size true m2 b2 t fuel) as [m2'| |] eqn:U2; simpl; auto.
  - (* both accepted *)
    destruct (update_ok_kp size m1 b1 t fuel m1') as [fm1 [B1 P1]]; [discriminate | assumption | assumption |].
    destruct (update_ok_kp size m2 b2 t fuel m2') as [fm2 [B2 P2]]; [discriminate | assumption | assumption |].
    destruct (build_old_perm (h_salt size) fuel _ (kp_of m2) _ fm1 Hmem_p Hmem_k N1 N2 B1) as [x [E1 E2]].
    rewrite Hhb, B2 in E2. injection E2 as ->. subst fm1.
    unfold same_content. eapply Permutation_trans; [exact P1|]. eapply Permutation_trans; [|apply Permutation_sym, P2].
    now apply Permutation_app_tail.
  - (* Ok / Rejected *)
    unfold update, update_h in U1, U2. cbn [is_nil orb negb] in U1, U2. rewrite <- Hnd, <- Hb in U2.
    destruct (negb (nodup_keys (map snd (sk_of m1 ++ b1)))); [discriminate|].
    destruct (negb (forallb key_ok (map snd b1) && cell_ok t)); [discriminate|].
    destruct (build _ _ (kp_of m2) _); discriminate.
  - (* Ok / OutOfFuel *)
    destruct (update_ok_kp size m1 b1 t fuel m1') as [fm1 [B1 P1]]; [discriminate | assumption | assumption |].
    destruct (build_old_perm (h_salt size) fuel _ (kp_of m2) _ fm1 Hmem_p Hmem_k N1 N2 B1) as [x [E1 E2]].
    unfold update, update_h in U2. cbn [is_nil orb negb] in U2. rewrite <- Hhb, E2 in U2.
    destruct (negb (nodup_keys _)); [discriminate|]. destruct (negb (forallb _ _ && _)); discriminate.
  - (* Rejected / Ok *)
    unfold update, update_h in U1, U2. cbn [is_nil orb negb] in U1, U2. rewrite <- Hnd, <- Hb in U2.
    destruct (negb (nodup_keys (map snd (sk_of m1 ++ b1)))); [discriminate|].
    destruct (negb (forallb key_ok (map snd b1) && cell_ok t)); [discriminate|].
    destruct (build _ _ (kp_of m1) _); discriminate.
  - (* Rejected / OutOfFuel *)
    unfold update, update_h in U1, U2. cbn [is_nil orb negb] in U1, U2. rewrite <- Hnd, <- Hb in U2.
    destruct (negb (nodup_keys (map snd (sk_of m1 ++ b1)))); [discriminate|].
    destruct (negb (forallb key_ok (map snd b1) && cell_ok t)); [discriminate|].
    destruct (build _ _ (kp_of m1) _); discriminate.
  - (* OutOfFuel / Ok *)
    destruct (update_ok_kp size m2 b2 t fuel m2') as [fm2 [B2 P2]]; [discriminate | assumption | assumption |].
    assert (Hmem_p' : forall p, In p (kposs (kp_of m2)) <-> In p (kposs (kp_of m1))) by (intro; symmetry; apply Hmem_p).
    assert (Hmem_k' : forall k, In k (kkeys (kp_of m2)) <-> In k (kkeys (kp_of m1))) by (intro; symmetry; apply Hmem_k).
    destruct (build_old_perm (h_salt size) fuel _ (kp_of m1) _ fm2 Hmem_p' Hmem_k' N2 N1 B2) as [x [E1 E2]].
    unfold update, update_h in U1. cbn [is_nil orb negb] in U1. rewrite Hhb, E2 in U1.
    destruct (negb (nodup_keys _)); [discriminate|]. destruct (negb (forallb _ _ && _)); discriminate.
  - (* OutOfFuel / Rejected *)
    unfold update, update_h in U1, U2. cbn [is_nil orb negb] in U1, U2. rewrite <- Hnd, <- Hb in U2.
    destruct (negb (nodup_keys (map snd (sk_of m1 ++ b1)))); [discriminate|].
    destruct (negb (forallb key_ok (map snd b1) && cell_ok t)); [discriminate|].
    destruct (build _ _ (kp_of m2) _); discriminate.
Qed.

(* two histories that offer the same keys at the same times, batch for batch, under arbitrary labels *)
Definition same_keys (h1 h2 : list (batch * cell)) : Prop :=
  Forall2 (fun x y : batch * cell => map snd (fst x) = map snd (fst y) /\ snd x = snd y) h1 h2.

Theorem run_labels_irrelevant size fuel h1 : forall h2 m1 m2 r1,
  same_keys h1 h2 -> same_content m1 m2 -> inv size m1 ->
  run size fuel m1 h1 = Some r1 -> exists r2, run size fuel m2 h2 = Some r2 /\ same_content r1 r2.
Proof.
  induction h1 as [|[b1 t1] h1 IH]; intros h2 m1 m2 r1 HS HC HI.
  - inversion HS; subst. simpl. intros [= <-]. now exists m2.
  - inversion HS as [|x y l1' h2' Hxy HS']; subst. destruct y as [b2 t2]. simpl in Hxy. destruct Hxy as [Hb Ht].
    subst t2. simpl. destruct HI as [Hi1 HI'].
    pose proof (update_labels_irrelevant size m1 m2 b1 b2 t1 fuel HC Hi1 Hb) as HA.
    destruct (update size true m1 b1 t1 fuel) as [m1'| |] eqn:U1;
      destruct (update size true m2 b2 t1 fuel) as [m2'| |] eqn:U2; simpl in HA; try contradiction; try discriminate.
    + intro R. apply (IH h2' m1' m2' r1 HS' HA); [|assumption]. eapply update_inv; [|exact U1]. now split.
    + intro R. apply (IH h2' m1 m2 r1 HS' HC); [|assumption]. now split.
Qed.

Lemma same_content_pos m1 m2 : same_content m1 m2 -> NoDup (keys_of m1) -> NoDup (keys_of m2) ->
  forall k, pos_of_key m1 k = pos_of_key m2 k.
Proof.
  intros HC N1 N2 k.
  assert (F : forall a b, Permutation (kp_of a) (kp_of b) -> NoDup (keys_of b) ->
              forall p, pos_of_key a k = Some p -> pos_of_key b k = Some p).
  { intros a b HP Nb p H. apply pos_of_key_Some in H as [s Hs].
    assert (Hi : In (k, p) (kp_of b)) by (apply (Permutation_in _ HP), in_kp_of; now exists s).
    apply in_kp_of in Hi as [s' Hs']. now apply (pos_of_key_In b Nb s'). }
  destruct (pos_of_key m1 k) as [p|] eqn:E1.
  - symmetry. now apply (F m1 m2 HC N2).
  - destruct (pos_of_key m2 k) as [p|] eqn:E2; [|reflexivity].
    apply (F m2 m1 (Permutation_sym HC) N1) in E2. congruence.
Qed.

Theorem run_labels_irrelevant_pos size fuel h1 h2 m1 :
  same_keys h1 h2 -> run size fuel [] h1 = Some m1 ->
  exists m2, run size fuel [] h2 = Some m2 /\ forall k, pos_of_key m1 k = pos_of_key m2 k.
Proof.
  intros HS R1.
  destruct (run_labels_irrelevant size fuel h1 h2 [] [] m1 HS (Permutation_refl _) (inv_nil size) R1) as [m2 [R2 HC]].
  exists m2. split; [assumption|].
  destruct (run_inv size fuel h1 [] m1 (inv_nil size) R1) as [_ [K1 _]].
  destruct (run_inv size fuel h2 [] m2 (inv_nil size) R2) as [_ [K2 _]].
  now apply same_content_pos.
Qed.

(* ------------------------------------------------------------------------------------------------------------ *)
(* liveness of the collision loop, under a coverage assumption on the salted hash (C03_fuel_partial)             *)
(* ------------------------------------------------------------------------------------------------------------ *)
Lemma dedup_nil_seen l : forall seen, dedup seen l = [] -> forall k p, In (k, p) l -> In p seen.
Proof.
  induction l as [|[k0 p0] l IH]; intros seen H k p Hi; simpl in *; [contradiction|].
  destruct (zmem p0 seen) eqn:E; [|discriminate].
  destruct Hi as [Hi|Hi]; [inversion Hi; subst; now apply zmem_In | eauto].
Qed.

Lemma nodup_strict_length {A} (l' l : list A) x : NoDup l' -> incl l' l -> In x l -> ~ In x l' -> (length l' < length l)%nat.
Proof.
  intros Hn Hi Hx Hnx.
  assert (H : (length (x :: l') <= length l)%nat).
  { apply NoDup_incl_length; [now constructor|]. intros y [<-|Hy]; auto. }
  simpl in H. lia.
Qed.

Lemma forallb_false_ex {A} (f : A -> bool) l : forallb f l = false -> exists x, In x l /\ f x = false.
Proof.
  induction l as [|a l IH]; simpl; [discriminate|]. destruct (f a) eqn:E.
  - intro H. destruct (IH H) as [x [Hx Fx]]. exists x. auto.
  - intros _. exists a. auto.
Qed.

Definition zrange (n : nat) : list Z := map Z.of_nat (seq 0 n).
Lemma zrange_In n p : In p (zrange n) <-> 0 <= p < Z.of_nat n.
Proof.
  unfold zrange. rewrite in_map_iff. split.
  - intros [i [<- Hi]]. apply in_seq in Hi. lia.
  - intros H. exists (Z.to_nat p). split; [lia|]. apply in_seq. lia.
Qed.
Lemma zrange_nodup n : NoDup (zrange n).
Proof. unfold zrange. apply FinFun.Injective_map_NoDup; [intros a b; lia | apply seq_NoDup]. Qed.

(* pigeonhole: fewer distinct occupied positions than positions -> a free one *)
Lemma free_position size (occ : list Z) : 0 <= size -> NoDup occ -> Z.of_nat (length occ) < size ->
  exists p, 0 <= p < size /\ ~ In p occ.
Proof.
  intros Hs Hn Hl. set (n := Z.to_nat size).
  destruct (forallb (fun p => zmem p occ) (zrange n)) eqn:E.
  - exfalso. rewrite forallb_forall in E.
    assert (Hi : incl (zrange n) occ) by (intros p Hp; now apply zmem_In, E).
    pose proof (NoDup_incl_length (zrange_nodup n) Hi) as HL. unfold zrange in HL. rewrite map_length, seq_length in HL. lia.
  - apply forallb_false_ex in E as [p [Hp Fp]]. exists p. split; [apply zrange_In in Hp; lia | now apply zmem_nIn].
Qed.

Section Fuel.
Variable hs : Z -> key -> Z.
Variable size : Z.
Variable W : nat.
Variable K : key -> Prop.          (* the keys the coverage assumption is about *)
Variable lo hi : Z.                (* ... and the salts: windows [s0, s0 + W) inside [lo, hi) *)
(* every such key reaches every position within any window of W consecutive salts *)
Hypothesis cover : forall k s0 p, K k -> lo <= s0 -> s0 + Z.of_nat W <= hi -> 0 <= p < size ->
  exists j, (j < W)%nat /\ hs (s0 + Z.of_nat j) k = p.

Definition live_inv (U : list key) (coll : list key) (cur : list kp) : Prop :=
  NoDup (kposs cur) /\ NoDup (kkeys cur ++ coll) /\ incl (kkeys cur ++ coll) U.

Lemma live_inv_parts U coll cur : live_inv U coll cur ->
  NoDup (kkeys cur) /\ NoDup coll /\ (forall k, In k coll -> ~ In k (kkeys cur)).
Proof.
  intros [_ [H _]]. split; [now apply nodup_app_l in H|]. split; [now apply nodup_app_r in H|].
  intros k Hk Hc. now apply (nodup_app_disj _ _ k H).
Qed.

(* one round of the loop *)
Lemma round_facts U salt coll cur : live_inv U coll cur ->
  let upd := hash_keys (hs salt) coll in
  let cur' := dedup [] (cur ++ upd) in
  let coll' := difference coll cur' in
  live_inv U coll' cur' /\ incl coll' coll /\
  ((exists k, In k coll /\ ~ In (hs salt k) (kposs cur)) -> (length coll' < length coll)%nat) /\
  ((forall k, In k coll -> In (hs salt k) (kposs cur)) -> cur' = cur /\ forall k, In k coll -> In k coll').
Proof.
  intros HI upd cur' coll'. pose proof HI as [Hp [Hk Hu]].
  destruct (live_inv_parts _ _ _ HI) as [Hkc [Hc Hd]].
  assert (Hcur' : cur' = cur ++ dedup (rev (kposs cur) ++ []) upd) by (unfold cur'; apply dedup_prefix; auto; intros ? ? []).
  set (d := dedup (rev (kposs cur) ++ []) upd) in *.
  assert (Hdu : forall e, In e d -> In e upd) by (intros e; apply dedup_incl).
  assert (Hk' : NoDup (kkeys cur')).
  { rewrite Hcur', map_app. apply nodup_app; auto.
    - apply dedup_keys_nodup. unfold upd. now rewrite map_fst_hash_keys.
    - intros k Hk1 Hk2. apply in_map_iff in Hk2 as [[k' p'] [E Hi]]. simpl in E; subst.
      apply Hdu, in_hash_keys in Hi as [Hi _]. now apply (Hd k). }
  assert (Hsub : incl coll' coll) by (intros k Hk2; now apply difference_In in Hk2).
  assert (Hkeys' : forall k, In k (kkeys cur') -> In k (kkeys cur) \/ In k coll).
  { intros k Hk1. rewrite Hcur', map_app in Hk1. apply in_app_or in Hk1 as [Hk1|Hk1]; [now left|]. right.
    apply in_map_iff in Hk1 as [[k' p'] [E Hi]]. simpl in E; subst. now apply Hdu, in_hash_keys in Hi. }
  split; [|split; [assumption|split]].
  - split; [apply (dedup_poss_nodup _ [])|]. split.
    + apply nodup_app; auto; [now apply difference_nodup|]. intros k Hk1 Hk2. now apply difference_In in Hk2.
    + intros k Hk1. apply Hu. apply in_or_app. apply in_app_or in Hk1 as [Hk1|Hk1]; [now apply Hkeys' | right; now apply Hsub].
  - intros [k [Hk1 Hfree]].
    destruct d as [|[k0 p0] d'] eqn:Ed.
    + exfalso. apply Hfree. assert (Hin : In (hs salt k) (rev (kposs cur) ++ [])).
      { apply (dedup_nil_seen upd _ Ed k). now apply in_hash_keys. }
      rewrite app_nil_r in Hin. now apply in_rev.
    + assert (Hk0 : In (k0, p0) upd) by (apply Hdu; now left). apply in_hash_keys in Hk0 as [Hk0 _].
      apply (nodup_strict_length coll' coll k0); auto; [now apply difference_nodup|].
      intro Hx. apply difference_In in Hx as [_ Hx]. apply Hx. rewrite Hcur', map_app. apply in_or_app. right. now left.
  - intros Hall. assert (Ed : d = []).
    { unfold d. clear -Hall. assert (Hs : forall k p, In (k, p) upd -> In p (rev (kposs cur) ++ [])).
      { intros k p Hi. apply in_hash_keys in Hi as [Hi ->]. rewrite app_nil_r. apply -> in_rev. now apply Hall. }
      revert Hs. generalize (rev (kposs cur) ++ []). induction upd as [|[k p] l IH]; intros seen Hs; simpl; [reflexivity|].
      assert (E : zmem p seen = true) by (apply zmem_In, (Hs k); now left). rewrite E. apply IH. intros; eapply Hs; right; eauto. }
    rewrite Ed, app_nil_r in Hcur'. split; [assumption|]. intros k Hk1. apply difference_In. split; [assumption|].
    rewrite Hcur'. now apply Hd.
Qed.

(* within a window in which some colliding key meets a free position, the set of colliding keys shrinks *)
Lemma window_progress U : forall w salt coll cur fuel F res_none,
  live_inv U coll cur -> coll <> [] ->
  (exists k j, In k coll /\ (j < w)%nat /\ ~ In (hs (salt + Z.of_nat j) k) (kposs cur)) ->
  (w + F <= fuel)%nat -> res_none = resolve hs fuel salt coll cur ->
  exists fuel' salt' coll' cur', res_none = resolve hs fuel' salt' coll' cur' /\ live_inv U coll' cur' /\
                                 (length coll' < length coll)%nat /\ (F <= fuel')%nat /\
                                 incl coll' coll /\ salt <= salt' <= salt + Z.of_nat w.
Proof.
  induction w as [|w IH]; intros salt coll cur fuel F r HI Hne [k [j [Hk [Hj Hfree]]]] Hf Hr; [lia|].
  destruct fuel as [|f]; [lia|]. destruct coll as [|c coll0]; [contradiction|]. set (coll := c :: coll0) in *.
  simpl in Hr. fold coll in Hr. rewrite map_fst_hash_keys in Hr.
  destruct (round_facts U salt coll cur HI) as [HI' [Hsub [Hprog Hstall]]].
  set (cur' := dedup [] (cur ++ hash_keys (hs salt) coll)) in *.
  set (coll' := difference coll cur') in *.
  destruct (forallb (fun k => zmem (hs salt k) (kposs cur)) coll) eqn:E.
  - (* nobody met a free position in this round: same state, next salt *)
    rewrite forallb_forall in E. assert (Hall : forall k, In k coll -> In (hs salt k) (kposs cur)) by (intros x Hx; now apply zmem_In, E).
    destruct (Hstall Hall) as [Ec Hkeep]. destruct j as [|j'].
    { exfalso. apply Hfree. rewrite Z.add_0_r. now apply Hall. }
    assert (Hlen : length coll' = length coll).
    { apply Nat.le_antisymm.
      - apply NoDup_incl_length; [|assumption]. destruct (live_inv_parts _ _ _ HI') as [_ [H _]]. exact H.
      - apply NoDup_incl_length; [|exact Hkeep]. destruct (live_inv_parts _ _ _ HI) as [_ [H _]]. exact H. }
    assert (Hne' : coll' <> []) by (intro E0; rewrite E0 in Hlen; discriminate).
    destruct (IH (salt + 1) coll' cur' f F r HI' Hne') as [fuel' [salt' [coll'' [cur'' [R1 [R2 [R3 [R4 [R5 R6]]]]]]]]]; auto.
    + exists k, j'. split; [now apply Hkeep|]. split; [lia|]. rewrite Ec.
      replace (salt + 1 + Z.of_nat j') with (salt + Z.of_nat (S j')) by lia. exact Hfree.
    + lia.
    + exists fuel', salt', coll'', cur''. split; [exact R1|]. split; [exact R2|]. split; [rewrite <- Hlen; exact R3|].
      split; [exact R4|]. split; [intros x Hx; apply Hsub, R5, Hx | lia].
  - apply forallb_false_ex in E as [k1 [Hk1 F1]]. apply zmem_nIn in F1.
    exists f, (salt + 1), coll', cur'. split; [exact Hr|]. split; [exact HI'|]. split; [apply Hprog; now exists k1|].
    split; [lia|]. split; [exact Hsub | lia].
Qed.

Theorem resolve_terminates U : forall n coll cur salt fuel,
  length coll = n -> live_inv U coll cur -> Z.of_nat (length U) <= size -> (forall k, In k coll -> K k) ->
  lo <= salt -> salt + Z.of_nat (W * n) <= hi ->
  (W * n <= fuel)%nat -> resolve hs fuel salt coll cur <> None.
Proof.
  induction n as [n IHn] using lt_wf_ind. intros coll cur salt fuel Hn HI HU HK Hlo Hhi Hf.
  destruct coll as [|c coll0] eqn:Ec.
  { destruct fuel; simpl; discriminate. }
  rewrite <- Ec in *. assert (Hne : coll <> []) by (rewrite Ec; discriminate).
  pose proof HI as [Hp [Hk Hu]].
  (* a free position exists *)
  assert (Hlen : Z.of_nat (length (kposs cur)) < size).
  { pose proof (NoDup_incl_length Hk Hu) as HL. rewrite app_length, map_length in HL. rewrite map_length.
    assert (0 < length coll)%nat by (rewrite Ec; simpl; lia). lia. }
  assert (Hs0 : 0 <= size) by lia.
  destruct (free_position size (kposs cur) Hs0 Hp Hlen) as [p [Hpr Hfree]].
  destruct n as [|n']; [rewrite Ec in Hn; discriminate|].
  assert (Hc : In c coll) by (rewrite Ec; now left).
  destruct (cover c salt p (HK c Hc) Hlo) as [j [Hj Hhit]]; [nia | assumption |].
  destruct (window_progress U W salt coll cur fuel (W * n') (resolve hs fuel salt coll cur) HI Hne) as
      [fuel' [salt' [coll' [cur' [R1 [R2 [R3 [R4 [R5 R6]]]]]]]]]; auto.
  - exists c, j. split; [assumption|]. split; [assumption|]. now rewrite Hhit.
  - lia.
  - rewrite R1. apply (IHn (length coll')) with (salt := salt'); auto; try lia; try nia.
Qed.
End Fuel.

(* IndexMap.update finishes within W * |batch| collision rounds when the salt walk of every key of the batch covers all
   positions in every window of W salts among the salts the loop can reach (1 .. W * |batch|), and the map has room *)
Theorem update_terminates_gen size W m b t fuel :
  (forall k s0 p, In k (map snd b) -> 1 <= s0 -> s0 + Z.of_nat W <= 1 + Z.of_nat (W * length b) -> 0 <= p < size ->
     exists j, (j < W)%nat /\ h_salt size (s0 + Z.of_nat j) k = p) ->
  Inj m -> Z.of_nat (length m + length b) <= size -> (W * length b <= fuel)%nat ->
  update size true m b t fuel <> OutOfFuel.
Proof.
  intros Hcov Hinj Hroom Hf. unfold update, update_h.
  destruct (is_nil b || negb true); [discriminate|].
  destruct (nodup_keys (map snd (sk_of m ++ b))) eqn:End; cbn [negb]; [|discriminate].
  destruct (negb (forallb key_ok (map snd b) && cell_ok t)); [discriminate|].
  apply nodup_keys_NoDup in End. rewrite map_app, map_snd_sk_of in End.
  set (hb := batch_hashes size t b).
  assert (Hkb : kkeys hb = map snd b) by (unfold hb, batch_hashes; apply map_fst_hash_keys).
  destruct (build (h_salt size) fuel (kp_of m) hb) eqn:Eb; [discriminate|]. exfalso.
  unfold build in Eb. set (old := kp_of m) in *.
  assert (Hpo : NoDup (kposs old)) by (unfold old; now rewrite kposs_kp_of).
  assert (Hko : kkeys old = keys_of m) by apply kkeys_kp_of.
  set (cur := dedup [] (old ++ hb)) in *.
  assert (Hcur : cur = old ++ dedup (rev (kposs old) ++ []) hb) by (unfold cur; apply dedup_prefix; auto; intros ? ? []).
  set (d := dedup (rev (kposs old) ++ []) hb) in *.
  assert (Hdu : forall e, In e d -> In e hb) by (intros e; apply dedup_incl).
  assert (Hkb' : NoDup (kkeys hb)) by (rewrite Hkb; now apply nodup_app_r in End).
  assert (Hk' : NoDup (kkeys cur)).
  { rewrite Hcur, map_app. apply nodup_app.
    - assert (X : NoDup (keys_of m)) by now apply nodup_app_l in End. rewrite <- Hko in X. exact X.
    - now apply dedup_keys_nodup.
    - intros k Hk1 Hk2. apply in_map_iff in Hk2 as [[k' p'] [E Hi]]. simpl in E; subst.
      apply Hdu in Hi. assert (Hk1' : In k (keys_of m)) by (rewrite <- Hko; exact Hk1).
      apply (nodup_app_disj _ _ k End Hk1'). rewrite <- Hkb. apply in_map_iff. now exists (k, p'). }
  set (coll := difference (kkeys hb) cur) in *.
  assert (HI : live_inv (keys_of m ++ map snd b) coll cur).
  { split; [apply (dedup_poss_nodup _ [])|]. split.
    - apply nodup_app; auto; [now apply difference_nodup|]. intros k Hk1 Hk2. now apply difference_In in Hk2.
    - intros k Hk1. apply in_or_app. apply in_app_or in Hk1 as [Hk1|Hk1].
      + rewrite Hcur, map_app in Hk1. apply in_app_or in Hk1 as [Hk1|Hk1]; [left; rewrite <- Hko; exact Hk1|]. right.
        apply in_map_iff in Hk1 as [[k' p'] [E Hi]]. simpl in E; subst. apply Hdu in Hi. rewrite <- Hkb. apply in_map_iff. now exists (k, p').
      + right. apply difference_In in Hk1 as [Hk1 _]. now rewrite <- Hkb. }
  assert (Hlen : (length coll <= length b)%nat).
  { rewrite <- (map_length snd b), <- Hkb. apply NoDup_incl_length; [now apply difference_nodup|].
    intros k Hk1. now apply difference_In in Hk1. }
  apply (resolve_terminates (h_salt size) size W (fun k => In k (map snd b)) 1 (1 + Z.of_nat (W * length b)) Hcov
           (keys_of m ++ map snd b) (length coll) coll cur 1 fuel); auto.
  - unfold keys_of. rewrite app_length, !map_length. exact Hroom.
  - intros k Hk1. apply difference_In in Hk1 as [Hk1 _]. now rewrite <- Hkb.
  - lia.
  - nia.
  - nia.
Qed.

Theorem update_terminates size W m b t fuel :
  (forall k s0 p, 0 <= p < size -> exists j, (j < W)%nat /\ h_salt size (s0 + Z.of_nat j) k = p) ->
  Inj m -> Z.of_nat (length m + length b) <= size -> (W * length b <= fuel)%nat ->
  update size true m b t fuel <> OutOfFuel.
Proof. intros Hcov. apply update_terminates_gen. intros k s0 p _ _ _. apply Hcov. Qed.

(* ------------------------------------------------------------------------------------------------------------ *)
(* the coverage assumption, proved for the concrete hash: ONE key column, block size coprime to 111111            *)
(* ------------------------------------------------------------------------------------------------------------ *)
Lemma col_prod_range ps : forall m out, - two63 <= out < two63 -> - two63 <= col_prod m ps out < two63.
Proof.
  induction ps as [|p r IH]; intros m out H; simpl; [assumption|].
  destruct (Z.div_eucl m 10) as [q d]. apply IH. apply wrap64_range.
Qed.

(* adding the (ten-digit) salt to the column's prime-power product does not leave the int64 range *)
Definition no_wrap (c : cell) : Prop := col_prod (conv10 c) primes 1 < two63 - TEN.

Lemma h_salt_single size c s : 0 <= 111111 * s < two63 -> no_wrap c ->
  h_salt size s [c] = (col_prod (conv10 c) primes 1 + (111111 * s) mod TEN) mod size.
Proof.
  intros Hs Hc. unfold h_salt, hash, hash_raw. cbn [fold_left conv10].
  rewrite (wrap64_id (111111 * s)) by (unfold two63 in *; lia).
  set (P := col_prod (conv10 c) primes 1) in *. unfold no_wrap in Hc. fold P in Hc.
  assert (HP : - two63 <= P < two63) by (apply col_prod_range; unfold two63; lia).
  assert (Hm : 0 <= (111111 * s) mod TEN < TEN) by (apply Z.mod_pos_bound; reflexivity).
  rewrite (wrap64_id (P + _)) by (unfold two63, TEN in *; lia).
  rewrite Z.add_0_l, wrap64_id by (unfold two63, TEN in *; lia). reflexivity.
Qed.

Lemma salt_residue size x : 0 < size -> (size | TEN) \/ 0 <= x < TEN -> (x mod TEN) mod size = x mod size.
Proof.
  intros Hs [Hd|Hx]; [|now rewrite (Z.mod_small x TEN)].
  symmetry. apply Zmod_div_mod; [assumption | reflexivity | assumption].
Qed.

Lemma mod_eq_divide a b n : n <> 0 -> a mod n = b mod n -> (n | a - b).
Proof.
  intros Hn H. exists (a / n - b / n).
  pose proof (Z_div_mod_eq_full a n) as Ea. pose proof (Z_div_mod_eq_full b n) as Eb. rewrite H in Ea. lia.
Qed.

Lemma nodup_map_seq {A} (f : nat -> A) n : forall a,
  (forall i j, (a <= i < a + n)%nat -> (a <= j < a + n)%nat -> f i = f j -> i = j) -> NoDup (map f (seq a n)).
Proof.
  induction n as [|n IH]; intros a H; simpl; [constructor|]. constructor.
  - intro Hi. apply in_map_iff in Hi as [j [E Hj]]. apply in_seq in Hj. assert (j = a) by (apply H; [lia | lia | exact E]). lia.
  - apply IH. intros i j Hi Hj. apply H; lia.
Qed.

Lemma single_column_cover size c s0 p :
  0 < size -> Z.gcd 111111 size = 1 -> no_wrap c -> 0 <= s0 -> 111111 * (s0 + size) <= two63 ->
  ((size | TEN) \/ 111111 * (s0 + size) <= TEN) -> 0 <= p < size ->
  exists j, (j < Z.to_nat size)%nat /\ h_salt size (s0 + Z.of_nat j) [c] = p.
Proof.
  intros Hs Hg Hc H0 Hmax Hres Hp.
  set (P := col_prod (conv10 c) primes 1).
  set (n := Z.to_nat size).
  set (f := fun j : nat => (P + 111111 * (s0 + Z.of_nat j)) mod size).
  assert (Hh : forall j, (j < n)%nat -> h_salt size (s0 + Z.of_nat j) [c] = f j).
  { intros j Hj. assert (Hr : 0 <= 111111 * (s0 + Z.of_nat j) < two63) by (unfold n in Hj; nia).
    rewrite h_salt_single by assumption. fold P. unfold f.
    rewrite Z.add_mod by lia. rewrite salt_residue; [|assumption|].
    - now rewrite <- Z.add_mod by lia.
    - destruct Hres as [Hd|Hd]; [now left | right; unfold n in Hj; nia]. }
  assert (Hinj : forall i j, (0 <= i < 0 + n)%nat -> (0 <= j < 0 + n)%nat -> f i = f j -> i = j).
  { intros i j Hi Hj E. unfold f in E. apply mod_eq_divide in E; [|lia].
    replace (P + 111111 * (s0 + Z.of_nat i) - (P + 111111 * (s0 + Z.of_nat j)))
      with ((Z.of_nat i - Z.of_nat j) * 111111) in E by ring.
    assert (Hrp : rel_prime size 111111) by (apply Zgcd_1_rel_prime; now rewrite Z.gcd_comm).
    rewrite Z.mul_comm in E. apply Gauss in E; [|assumption]. destruct E as [q Eq].
    assert (q = 0) by (unfold n in Hi, Hj; nia). subst q. lia. }
  assert (Hnd : NoDup (map f (seq 0 n))) by now apply nodup_map_seq.
  assert (Hin : incl (zrange n) (map f (seq 0 n))).
  { apply NoDup_length_incl; [assumption | unfold zrange; now rewrite !map_length |].
    intros x Hx. apply in_map_iff in Hx as [j [<- _]]. apply zrange_In. unfold f, n.
    rewrite Z2Nat.id by lia. now apply Z.mod_pos_bound. }
  assert (Hpz : In p (zrange n)) by (apply zrange_In; unfold n; rewrite Z2Nat.id; lia).
  apply Hin, in_map_iff in Hpz as [j [E Hj]]. apply in_seq in Hj. exists j. split; [lia|].
  rewrite Hh by lia. exact E.
Qed.

(* C03_fuel for the concrete hash: a batch of ONE-column keys in a block whose size is coprime to 111111 = 3*7*11*13*37
   is registered within size * |batch| collision rounds.  [no_wrap]: the int64 sum "prime-power product + salt" of
   the key does not wrap (it holds for every key whose product lies below 2^63 - 10^10, i.e. all but a 1.1e-9
   fraction of the int64 range); the last two hypotheses keep 111111 * salt below 2^63 and, unless the size divides
   10^10 (as the default 10^6 does), below 10^10, where the ten-digit reduction of the salt would restart the walk. *)
Theorem update_terminates_single_column size m b t fuel :
  0 < size -> Z.gcd 111111 size = 1 ->
  (forall k, In k (map snd b) -> exists c, k = [c] /\ no_wrap c) ->
  Inj m -> Z.of_nat (length m + length b) <= size ->
  111111 * (1 + size * Z.of_nat (length b)) <= two63 ->
  ((size | TEN) \/ 111111 * (1 + size * Z.of_nat (length b)) <= TEN) ->
  (Z.to_nat size * length b <= fuel)%nat ->
  update size true m b t fuel <> OutOfFuel.
Proof.
  intros Hs Hg Hk Hinj Hroom Hmax Hres Hf. apply (update_terminates_gen size (Z.to_nat size)); auto.
  intros k s0 p Hin H1 Hw Hp. destruct (Hk k Hin) as [c [-> Hc]].
  rewrite Nat2Z.inj_mul, Z2Nat.id in Hw by lia.
  assert (Hmono : 111111 * (s0 + size) <= 111111 * (1 + size * Z.of_nat (length b))) by (apply Z.mul_le_mono_nonneg_l; [lia | exact Hw]).
  apply single_column_cover; [assumption | assumption | assumption | lia | | | assumption].
  - eapply Z.le_trans; eassumption.
  - destruct Hres as [Hd|Hd]; [now left | right; eapply Z.le_trans; eassumption].
Qed.

(* ------------------------------------------------------------------------------------------------------------ *)
(* IndexMap.__getitem__                                                                                          *)
(* ------------------------------------------------------------------------------------------------------------ *)
Lemma pos_of_sim_Some m s p : pos_of_sim m s = Some p -> exists k, In (s, k, p) m.
Proof.
  induction m as [|[[s0 k0] p0] m IH]; simpl; [discriminate|]. cbn [e_sim e_pos fst snd].
  destruct (s0 =? s) eqn:E.
  - intros [= <-]. apply Z.eqb_eq in E. subst. exists k0. now left.
  - intro H. destruct (IH H) as [k Hk]. exists k. now right.
Qed.

Lemma nodup_map_in {A B} (f : A -> B) l : NoDup l -> (forall x y, In x l -> In y l -> f x = f y -> x = y) -> NoDup (map f l).
Proof.
  induction l as [|a l IH]; intros Hn Hi; simpl; [constructor|]. inversion Hn; subst. constructor.
  - intro Hx. apply in_map_iff in Hx as [y [E Hy]]. assert (y = a) by (apply Hi; [now right | now left | exact E]). now subst.
  - apply IH; [assumption|]. intros x y Hx Hy. apply Hi; now right.
Qed.

Lemma nodup_map_eq {A B} (f : A -> B) l a b : NoDup (map f l) -> In a l -> In b l -> f a = f b -> a = b.
Proof.
  induction l as [|x l IH]; simpl; intros Hn Ha Hb E; [contradiction|]. inversion Hn as [|? ? Hx Hn']; subst.
  destruct Ha as [->|Ha], Hb as [->|Hb]; auto.
  - exfalso. apply Hx. rewrite E. now apply in_map.
  - exfalso. apply Hx. rewrite <- E. now apply in_map.
Qed.

Definition lookup_default (m : imap) (s : Z) : Z := match pos_of_sim m s with Some p => p | None => 0 end.

Lemma getitem_all_ok m idx : m <> [] ->
  (forall s, In s idx -> exists p, pos_of_sim m s = Some p) -> getitem_all true m idx = Ok (map (lookup_default m) idx).
Proof.
  intros Hm H. unfold getitem_all. cbn [negb]. destruct m as [|e m']; [contradiction|].
  replace (forallb _ idx) with true; [reflexivity|]. symmetry. apply forallb_forall. intros s Hs.
  destruct (H s Hs) as [p ->]. reflexivity.
Qed.

Lemma getitem_all_inv m idx ps : getitem_all true m idx = Ok ps ->
  m <> [] /\ ps = map (lookup_default m) idx /\ forall s, In s idx -> exists p, pos_of_sim m s = Some p.
Proof.
  unfold getitem_all. cbn [negb]. destruct m as [|e m']; [discriminate|].
  destruct (forallb _ idx) eqn:E; [|discriminate]. intros [= <-]. split; [discriminate|]. split; [reflexivity|].
  intros s Hs. rewrite forallb_forall in E. specialize (E s Hs). destruct (pos_of_sim (e :: m') s) as [p|]; [now exists p | discriminate].
Qed.

(* every registered simulant can be looked up, and gets the position of its own row, in request order *)
Theorem getitem_all_spec m idx : NoDup (map e_sim m) -> (forall s, In s idx -> exists k p, In (s, k, p) m) -> idx <> [] ->
  exists ps, getitem_all true m idx = Ok ps /\ Forall2 (fun s p => exists k, In (s, k, p) m) idx ps.
Proof.
  intros Hn H Hne. assert (Hm : m <> []).
  { destruct idx as [|s r]; [contradiction|]. destruct (H s (or_introl eq_refl)) as [k [p Hi]]. intro E; subst; contradiction. }
  exists (map (lookup_default m) idx). split.
  - apply getitem_all_ok; [assumption|]. intros s Hs. destruct (H s Hs) as [k [p Hi]]. exists p. now apply (pos_of_sim_In m Hn s k).
  - clear Hne. induction idx as [|s r IH]; simpl; constructor.
    + destruct (H s (or_introl eq_refl)) as [k [p Hi]]. unfold lookup_default. rewrite (pos_of_sim_In m Hn s k p Hi). now exists k.
    + apply IH. intros x Hx. apply H. now right.
Qed.

(* distinct simulants get distinct positions through the lookup the streams use *)
Theorem getitem_all_injective m idx ps : Inj m -> NoDup idx -> getitem_all true m idx = Ok ps -> NoDup ps.
Proof.
  intros Hi Hn H. apply getitem_all_inv in H as [_ [-> Hf]]. apply nodup_map_in; [assumption|].
  intros x y Hx Hy E. unfold lookup_default in E.
  destruct (Hf x Hx) as [px Ex], (Hf y Hy) as [py Ey]. rewrite Ex, Ey in E. subst py.
  apply pos_of_sim_Some in Ex as [kx Hkx]. apply pos_of_sim_Some in Ey as [ky Hky].
  assert (Eq : (x, kx, px) = (y, ky, px)) by (apply (nodup_map_eq e_pos m); auto). now inversion Eq.
Qed.

(* a lookup that succeeded gives the same answer after any later registration *)
Theorem getitem_all_stable size crn m b t fuel m' idx ps : Inj m -> NoDup (map e_sim m') ->
  update size crn m b t fuel = Ok m' -> getitem_all true m idx = Ok ps -> getitem_all true m' idx = Ok ps.
Proof.
  intros Hi Hn U H. apply getitem_all_inv in H as [Hm [-> Hf]].
  assert (Hkeep : forall s p, pos_of_sim m s = Some p -> pos_of_sim m' s = Some p).
  { intros s p E. apply pos_of_sim_Some in E as [k Hk]. apply (pos_of_sim_In m' Hn s k). eapply update_stable; eauto. }
  assert (Hm' : m' <> []).
  { destruct m as [|e r]; [contradiction|]. intro E. subst m'. apply (update_stable _ _ _ _ _ _ _ Hi U e). now left. }
  rewrite getitem_all_ok; [|assumption|].
  - f_equal. apply map_ext_in. intros s Hs. destruct (Hf s Hs) as [p E]. unfold lookup_default. now rewrite E, (Hkeep s p E).
  - intros s Hs. destruct (Hf s Hs) as [p E]. exists p. now apply Hkeep.
Qed.

(* ------------------------------------------------------------------------------------------------------------ *)
(* RandomnessManager                                                                                             *)
(* ------------------------------------------------------------------------------------------------------------ *)
Lemma manager_size_floor cfg pop : 10 * pop <= manager_size cfg pop /\ cfg <= manager_size cfg pop.
Proof. unfold manager_size. lia. Qed.

Lemma select_cols_ext kcols f f' : (forall c, In c kcols -> zassoc c f = zassoc c f') -> select_cols kcols f = select_cols kcols f'.
Proof.
  induction kcols as [|c r IH]; intros H; simpl; [reflexivity|].
  rewrite (H c) by now left. rewrite IH; [reflexivity|]. intros x Hx. apply H. now right.
Qed.

Lemma select_cols_missing kcols f c : In c kcols -> zassoc c f = None -> select_cols kcols f = None.
Proof.
  induction kcols as [|x r IH]; intros Hi Hz; simpl; [contradiction|]. destruct Hi as [->|Hi].
  - now rewrite Hz.
  - rewrite (IH Hi Hz). now destruct (zassoc x f).
Qed.

Lemma zassoc_In {A} c (f : list (Z * A)) v : zassoc c f = Some v -> In (c, v) f.
Proof.
  induction f as [|[a x] f IH]; simpl; [discriminate|]. destruct (a =? c) eqn:E.
  - intros [= <-]. apply Z.eqb_eq in E. subst. now left.
  - intro H. right. auto.
Qed.

Lemma zassoc_unique {A} c (f : list (Z * A)) v : NoDup (map fst f) -> In (c, v) f -> zassoc c f = Some v.
Proof.
  induction f as [|[a x] f IH]; simpl; intros Hn Hi; [contradiction|]. inversion Hn as [|? ? Ha Hn']; subst.
  destruct (a =? c) eqn:E.
  - apply Z.eqb_eq in E. subst a. destruct Hi as [Hi|Hi]; [now inversion Hi|]. exfalso. apply Ha. apply in_map_iff. now exists (c, v).
  - destruct Hi as [Hi|Hi]; [inversion Hi; subst; rewrite Z.eqb_refl in E; discriminate | auto].
Qed.

Lemma zassoc_perm {A} c (f f' : list (Z * A)) : NoDup (map fst f) -> Permutation f f' -> zassoc c f = zassoc c f'.
Proof.
  intros Hn HP. assert (Hn' : NoDup (map fst f')) by (eapply Permutation_NoDup; [apply Permutation_map; exact HP | exact Hn]).
  destruct (zassoc c f) as [v|] eqn:E.
  - symmetry. apply zassoc_unique; [assumption|]. apply (Permutation_in _ HP). now apply zassoc_In.
  - destruct (zassoc c f') as [v|] eqn:E'; [|reflexivity].
    apply zassoc_In, (Permutation_in _ (Permutation_sym HP)), (zassoc_unique c f v Hn) in E'. congruence.
Qed.

(* a frame that lacks a key column is refused with a RandomnessError (the map, argument of a function, is untouched) *)
Theorem register_missing_column size kcols m labels f t fuel c :
  In c kcols -> zassoc c f = None -> register size kcols m labels f t fuel = Rejected ERandomness.
Proof. intros Hi Hz. unfold register. now rewrite (select_cols_missing kcols f c Hi Hz). Qed.

(* only the key columns of the frame matter, found by label: other columns and the column order are irrelevant *)
Theorem register_key_columns_only size kcols m labels f f' t fuel :
  (forall c, In c kcols -> zassoc c f = zassoc c f') ->
  register size kcols m labels f t fuel = register size kcols m labels f' t fuel.
Proof. intro H. unfold register. now rewrite (select_cols_ext kcols f f' H). Qed.

Theorem register_column_order_irrelevant size kcols m labels f f' t fuel :
  NoDup (map fst f) -> Permutation f f' ->
  register size kcols m labels f t fuel = register size kcols m labels f' t fuel.
Proof. intros Hn HP. apply register_key_columns_only. intros c _. now apply zassoc_perm. Qed.

(* no key columns configured = CRN off: registration is a no-op *)
Theorem register_without_key_columns size m labels f t fuel : register size [] m labels f t fuel = Ok m.
Proof. unfold register. simpl. apply update_crn_off. Qed.

(* the registered batch is the frame's rows restricted to the key columns in configuration order *)
Theorem register_is_update size kcols m labels f t fuel cols : select_cols kcols f = Some cols ->
  register size kcols m labels f t fuel = update size (negb (is_nil kcols)) m (batch_of labels cols) t fuel.
Proof. intro H. unfold register. now rewrite H. Qed.

(* ------------------------------------------------------------------------------------------------------------ *)
(* the hash is symmetric in the key columns (the per-column terms are summed in wrapping arithmetic)             *)
(* ------------------------------------------------------------------------------------------------------------ *)
Lemma wrap64_add_l a b : wrap64 (wrap64 a + b) = wrap64 (a + b).
Proof.
  rewrite !wrap64_mod. f_equal.
  replace ((a + two63) mod two64 - two63 + b + two63) with ((a + two63) mod two64 + b) by ring.
  rewrite Z.add_mod_idemp_l by (unfold two64; lia). f_equal. ring.
Qed.

Lemma hash_fold_perm (g : cell -> Z) k k' : Permutation k k' -> forall a,
  fold_left (fun acc c => wrap64 (acc + g c)) k (wrap64 a) = fold_left (fun acc c => wrap64 (acc + g c)) k' (wrap64 a).
Proof.
  induction 1 as [|c l l' HP IH|c d l|l l' l'' H1 IH1 H2 IH2]; intros a; simpl.
  - reflexivity.
  - rewrite wrap64_add_l. apply IH.
  - rewrite !wrap64_add_l. f_equal. f_equal. ring.
  - rewrite IH1. apply IH2.
Qed.

Theorem hash_raw_perm k k' s : Permutation k k' -> hash_raw k s = hash_raw k' s.
Proof.
  intro HP. unfold hash_raw.
  exact (hash_fold_perm (fun c => wrap64 (col_prod (conv10 c) primes 1 + s)) k k' HP 0).
Qed.

Theorem hash_perm size k k' s : Permutation k k' -> hash size k s = hash size k' s.
Proof. intro HP. unfold hash. now rewrite (hash_raw_perm k k' s HP). Qed.

(* an integer key enters the hash only through its value modulo 2^64: reinterpreting a uint64 above 2^63 as int64
   (what column.astype(int) does) is harmless *)
Lemma wrap64_mul_r a b : wrap64 (a * wrap64 b) = wrap64 (a * b).
Proof.
  rewrite !wrap64_mod. f_equal.
  replace (a * ((b + two63) mod two64 - two63) + two63) with (a * ((b + two63) mod two64) + (two63 - a * two63)) by ring.
  replace (a * b + two63) with (a * (b + two63) + (two63 - a * two63)) by ring.
  rewrite <- (Z.add_mod_idemp_l (a * ((b + two63) mod two64))) by (unfold two64; lia).
  rewrite Z.mul_mod_idemp_r by (unfold two64; lia).
  now rewrite Z.add_mod_idemp_l by (unfold two64; lia).
Qed.

Theorem conv10_int_mod64 v : conv10 (KInt (wrap64 v)) = conv10 (KInt v).
Proof. cbn [conv10]. now rewrite wrap64_mul_r. Qed.
