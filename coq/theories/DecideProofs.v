(* Lemmas about the decision model (DESIGN.md C05).  Exact integer arithmetic over a common denominator. *)
From Viv Require Import Common Decide.
Local Open Scope Z_scope.

(* ---------- order-preserving sub-lists ---------- *)
Inductive sublist {A : Type} : list A -> list A -> Prop :=
  | sub_nil : sublist [] []
  | sub_skip x l1 l2 : sublist l1 l2 -> sublist l1 (x :: l2)
  | sub_keep x l1 l2 : sublist l1 l2 -> sublist (x :: l1) (x :: l2).

Lemma sublist_nil_l {A} (l : list A) : sublist [] l.
Proof. induction l as [|x l IH]; [constructor | now apply sub_skip]. Qed.

Lemma sublist_refl {A} (l : list A) : sublist l l.
Proof. induction l as [|x l IH]; [constructor | now apply sub_keep]. Qed.

Lemma sublist_In {A} (l1 l2 : list A) x : sublist l1 l2 -> In x l1 -> In x l2.
Proof.
  induction 1 as [|y l1 l2 _ IH|y l1 l2 _ IH]; intros Hin; [assumption | right; auto |].
  destruct Hin as [->|Hin]; [now left | right; auto].
Qed.

Lemma sublist_length {A} (l1 l2 : list A) : sublist l1 l2 -> (length l1 <= length l2)%nat.
Proof. induction 1; simpl; lia. Qed.

(* ---------- the positional mask ---------- *)
Definition keep_row {A} (t : A * (Z * Z)) : bool := fst (snd t) <? snd (snd t).

Lemma mask_filter_spec {A} (xs : list A) : forall ds ps,
  mask_filter xs ds ps = map fst (filter keep_row (combine xs (combine ds ps))).
Proof.
  induction xs as [|x xs IH]; intros [|d ds] [|p ps]; simpl; try reflexivity.
  unfold keep_row at 1. simpl. destruct (d <? p); simpl; now rewrite IH.
Qed.

Lemma mask_filter_sublist {A} (xs : list A) : forall ds ps, sublist (mask_filter xs ds ps) xs.
Proof.
  induction xs as [|x xs IH]; intros ds ps; simpl; [constructor|].
  destruct ds as [|d ds]; [apply sublist_nil_l|]. destruct ps as [|p ps]; [apply sublist_nil_l|].
  destruct (d <? p); [apply sub_keep | apply sub_skip]; apply IH.
Qed.

Lemma mask_filter_fun {A} (key : A -> Z) (draw pr : Z -> Z) (xs : list A) :
  mask_filter xs (map (fun x => draw (key x)) xs) (map (fun x => pr (key x)) xs)
  = filter (fun x => draw (key x) <? pr (key x)) xs.
Proof. induction xs as [|x xs IH]; simpl; [reflexivity|]. now rewrite IH. Qed.

Lemma mask_filter_monotone {A} (xs : list A) : forall ds ps ps', Forall2 Z.le ps ps' ->
  sublist (mask_filter xs ds ps) (mask_filter xs ds ps').
Proof.
  induction xs as [|x xs IH]; intros ds ps ps' H; simpl; [constructor|].
  destruct ds as [|d ds]; [constructor|].
  inversion H as [|p p' qs qs' Hp Hq]; subst; [constructor|].
  destruct (Z.ltb_spec d p), (Z.ltb_spec d p'); try lia.
  - apply sub_keep, IH, Hq.
  - apply sub_skip, IH, Hq.
  - apply IH, Hq.
Qed.

Lemma mask_filter_zero {A} (xs : list A) : forall ds ps,
  Forall (fun d => 0 <= d) ds -> Forall (fun p => p <= 0) ps -> mask_filter xs ds ps = [].
Proof.
  induction xs as [|x xs IH]; intros ds ps Hd Hp; simpl; [reflexivity|].
  destruct ds as [|d ds]; [reflexivity|]. destruct ps as [|p ps]; [reflexivity|].
  inversion Hd; inversion Hp; subst. destruct (Z.ltb_spec d p); [lia|]. now apply IH.
Qed.

Lemma mask_filter_one {A} (D : Z) (xs : list A) : forall ds ps, length ds = length xs -> length ps = length xs ->
  Forall (fun d => d < D) ds -> Forall (fun p => D <= p) ps -> mask_filter xs ds ps = xs.
Proof.
  induction xs as [|x xs IH]; intros ds ps Ld Lp Hd Hp; simpl; [reflexivity|].
  destruct ds as [|d ds]; [discriminate|]. destruct ps as [|p ps]; [discriminate|].
  inversion Hd; inversion Hp; subst. simpl in Ld, Lp. destruct (Z.ltb_spec d p); [|lia].
  f_equal. apply IH; auto; lia.
Qed.

(* ---------- the probability argument ---------- *)
Lemma expand_p_length idx p ps : expand_p idx p = Ok ps -> length ps = length idx.
Proof.
  destruct p as [x|qs|ls qs]; simpl.
  - intros [= <-]. apply map_length.
  - destruct (Nat.eqb_spec (length qs) (length idx)); [|discriminate]. now intros [= <-].
  - destruct (zlist_eqb ls idx) eqn:E; simpl; [|discriminate]. apply zlist_eqb_eq in E. subst ls.
    destruct (Nat.eqb_spec (length qs) (length idx)); [|discriminate]. now intros [= <-].
Qed.

Lemma expand_p_scalar idx x : expand_p idx (PScalar x) = Ok (map (fun _ => x) idx).
Proof. reflexivity. Qed.

Lemma expand_p_array idx f : expand_p idx (PArray (map f idx)) = Ok (map f idx).
Proof. simpl. now rewrite map_length, Nat.eqb_refl. Qed.

Lemma zlist_eqb_refl l : zlist_eqb l l = true.
Proof. now apply zlist_eqb_eq. Qed.

Lemma expand_p_series idx f : expand_p idx (PSeries idx (map f idx)) = Ok (map f idx).
Proof. simpl. now rewrite zlist_eqb_refl, map_length, Nat.eqb_refl. Qed.

(* ---------- filter_p ---------- *)
Lemma filter_p_expand {A} (pop : list (label * A)) ds p ps :
  expand_p (map fst pop) p = Ok ps -> filter_p pop ds p = Ok (mask_filter pop ds ps).
Proof. intros H. destruct pop as [|r pop]; [reflexivity|]. unfold filter_p. now rewrite H. Qed.

Lemma filter_p_ok {A} (pop : list (label * A)) ds p sel : filter_p pop ds p = Ok sel ->
  (pop = [] /\ sel = []) \/ exists ps, expand_p (map fst pop) p = Ok ps /\ sel = mask_filter pop ds ps.
Proof.
  destruct pop as [|r pop]; [intros [= <-]; now left|]. unfold filter_p.
  destruct (expand_p (map fst (r :: pop)) p) as [ps| |] eqn:E; simpl; try discriminate.
  intros [= <-]. right. now exists ps.
Qed.

Lemma filter_p_rejected {A} (pop : list (label * A)) ds p e : pop <> [] ->
  expand_p (map fst pop) p = Rejected e -> filter_p pop ds p = Rejected e.
Proof. intros Hne H. destruct pop as [|r pop]; [contradiction|]. unfold filter_p. now rewrite H. Qed.

Lemma filter_p_sublist {A} (pop : list (label * A)) ds p sel : filter_p pop ds p = Ok sel -> sublist sel pop.
Proof.
  intros H. apply filter_p_ok in H as [[-> ->]|[ps [_ ->]]]; [constructor | apply mask_filter_sublist].
Qed.

Lemma filter_p_fun {A} (pop : list (label * A)) (draw prf : label -> Z) p :
  expand_p (map fst pop) p = Ok (map prf (map fst pop)) ->
  filter_p pop (map (fun r => draw (fst r)) pop) p = Ok (filter (fun r => draw (fst r) <? prf (fst r)) pop).
Proof.
  intros H. rewrite (filter_p_expand pop _ p _ H). f_equal. rewrite map_map.
  apply (mask_filter_fun fst draw prf pop).
Qed.

(* the three shapes of a per-simulant probability [pr]: exactly the rows whose own draw is below their own probability *)
Lemma filter_p_exact {A} (pop : list (label * A)) (draw pr : label -> Z) :
  filter_p pop (map (fun r => draw (fst r)) pop) (PArray (map pr (map fst pop)))
    = Ok (filter (fun r => draw (fst r) <? pr (fst r)) pop) /\
  filter_p pop (map (fun r => draw (fst r)) pop) (PSeries (map fst pop) (map pr (map fst pop)))
    = Ok (filter (fun r => draw (fst r) <? pr (fst r)) pop) /\
  forall x, filter_p pop (map (fun r => draw (fst r)) pop) (PScalar x)
    = Ok (filter (fun r => draw (fst r) <? x) pop).
Proof.
  repeat split.
  - apply filter_p_fun, expand_p_array.
  - apply filter_p_fun, expand_p_series.
  - intros x. apply (filter_p_fun pop draw (fun _ => x)). rewrite expand_p_scalar. now rewrite map_map.
Qed.

Lemma filter_p_monotone {A} (pop : list (label * A)) ds p p' ps ps' s s' :
  expand_p (map fst pop) p = Ok ps -> expand_p (map fst pop) p' = Ok ps' -> Forall2 Z.le ps ps' ->
  filter_p pop ds p = Ok s -> filter_p pop ds p' = Ok s' -> sublist s s'.
Proof.
  intros E E' Hle H H'. rewrite (filter_p_expand pop ds p ps E) in H. rewrite (filter_p_expand pop ds p' ps' E') in H'.
  injection H as <-. injection H' as <-. now apply mask_filter_monotone.
Qed.

Lemma filter_p_zero {A} (pop : list (label * A)) ds p ps : Forall (fun d => 0 <= d) ds ->
  expand_p (map fst pop) p = Ok ps -> Forall (fun q => q <= 0) ps -> filter_p pop ds p = Ok [].
Proof. intros Hd E Hp. rewrite (filter_p_expand pop ds p ps E). f_equal. now apply mask_filter_zero. Qed.

Lemma filter_p_one {A} (D : Z) (pop : list (label * A)) ds p ps : length ds = length pop ->
  Forall (fun d => d < D) ds -> expand_p (map fst pop) p = Ok ps -> Forall (fun q => D <= q) ps ->
  filter_p pop ds p = Ok pop.
Proof.
  intros L Hd E Hp. rewrite (filter_p_expand pop ds p ps E). f_equal. apply (mask_filter_one D); auto.
  apply expand_p_length in E. now rewrite E, map_length.
Qed.

Lemma Forall_const {A} (P : Z -> Prop) (x : Z) (l : list A) : P x -> Forall P (map (fun _ => x) l).
Proof. intros H. induction l; simpl; constructor; auto. Qed.

(* ---------- rates ---------- *)
Lemma r2p_monotone D cap (expneg : Z -> Z) : (forall r r', r <= r' -> expneg r' <= expneg r) ->
  forall r r', r <= r' -> r2p D cap expneg r <= r2p D cap expneg r'.
Proof.
  intros Hexp r r' H. unfold r2p. assert (Hm : Z.min r cap <= Z.min r' cap) by lia.
  specialize (Hexp _ _ Hm). lia.
Qed.

Lemma r2p_zero D cap (expneg : Z -> Z) : expneg 0 = D -> 0 <= cap -> r2p D cap expneg 0 = 0.
Proof. intros H Hc. unfold r2p. rewrite Z.min_l by lia. lia. Qed.

Lemma r2p_capped D cap (expneg : Z -> Z) r : cap <= r -> r2p D cap expneg r = r2p D cap expneg cap.
Proof. intros H. unfold r2p. now rewrite Z.min_r, Z.min_id by lia. Qed.

Lemma Forall2_map_mono (f : Z -> Z) : (forall r r', r <= r' -> f r <= f r') ->
  forall rs rs', Forall2 Z.le rs rs' -> Forall2 Z.le (map f rs) (map f rs').
Proof. intros Hf rs rs' H. induction H; simpl; constructor; auto. Qed.

Lemma expand_r2p_spec D cap expneg idx r rs : expand_p idx r = Ok rs ->
  expand_p idx (r2p_spec D cap expneg r) = Ok (map (r2p D cap expneg) rs).
Proof.
  destruct r as [x|qs|ls qs]; simpl.
  - intros [= <-]. now rewrite map_map.
  - destruct (Nat.eqb_spec (length qs) (length idx)); [|discriminate]. intros [= <-].
    now rewrite map_length, (proj2 (Nat.eqb_eq _ _) e).
  - destruct (zlist_eqb ls idx) eqn:E; simpl; [|discriminate]. apply zlist_eqb_eq in E. subst ls.
    destruct (Nat.eqb_spec (length qs) (length idx)); [|discriminate]. intros [= <-].
    now rewrite map_length, (proj2 (Nat.eqb_eq _ _) e).
Qed.

(* ---------- cumulative weights ---------- *)
Definition nonneg (ws : list Z) : Prop := Forall (fun w => 0 <= w) ws.
Definition cum (ws : list Z) (k : nat) : Z := sumZ (firstn (S k) ws).

Lemma sumZ_nonneg ws : nonneg ws -> 0 <= sumZ ws.
Proof. induction 1; simpl; lia. Qed.

Lemma sumZ_firstn_mono ws : nonneg ws -> forall n m, (n <= m)%nat -> sumZ (firstn n ws) <= sumZ (firstn m ws).
Proof.
  induction 1 as [|w ws Hw Hn IH]; intros n m Hle.
  - rewrite !firstn_nil. lia.
  - destruct n as [|n], m as [|m]; simpl; try lia.
    + specialize (IH 0%nat m ltac:(lia)). simpl in IH. lia.
    + specialize (IH n m ltac:(lia)). lia.
Qed.

Lemma cum_mono ws j k : nonneg ws -> (j <= k)%nat -> cum ws j <= cum ws k.
Proof. intros H Hle. unfold cum. apply sumZ_firstn_mono; [assumption | lia]. Qed.

Lemma cum_cons_0 w r : cum (w :: r) 0 = w.
Proof. unfold cum. simpl. lia. Qed.

Lemma cum_cons_S w r j : cum (w :: r) (S j) = w + cum r j.
Proof. reflexivity. Qed.

Lemma cum_0 ws : ws <> [] -> cum ws 0 = nth 0 ws 0.
Proof. destruct ws as [|w r]; [contradiction|]. intros _. apply cum_cons_0. Qed.

Lemma cum_S ws k : (S k < length ws)%nat -> cum ws (S k) = cum ws k + nth (S k) ws 0.
Proof.
  revert k. induction ws as [|w r IH]; intros k Hk; simpl in Hk; [lia|].
  rewrite cum_cons_S. destruct k as [|k].
  - rewrite cum_cons_0. destruct r as [|w' r']; simpl in *; [lia|]. unfold cum. simpl. lia.
  - rewrite cum_cons_S. rewrite (IH k) by lia. simpl. lia.
Qed.

Lemma cum_last ws k : (length ws <= S k)%nat -> cum ws k = sumZ ws.
Proof. intros H. unfold cum. now rewrite firstn_all2. Qed.

(* ---------- count_below ---------- *)
Lemma count_below_le d D W : forall ws acc, (count_below d D W acc ws <= length ws)%nat.
Proof.
  induction ws as [|w r IH]; intros acc; simpl; [lia|].
  specialize (IH (acc + w)). destruct ((acc + w) * D <? d * W); simpl; lia.
Qed.

(* once the draw is not above a bin it is not above any later bin *)
Lemma count_below_zero d D W : 0 <= D -> forall ws acc, nonneg ws -> d * W <= acc * D ->
  count_below d D W acc ws = O.
Proof.
  intros HD. induction ws as [|w r IH]; intros acc Hn Hle; simpl; [reflexivity|].
  inversion Hn as [|? ? Hw Hr]; subst.
  assert (Hle' : d * W <= (acc + w) * D) by nia.
  destruct (Z.ltb_spec ((acc + w) * D) (d * W)); [lia|]. simpl. now apply IH.
Qed.

Lemma count_below_above d D W : 0 <= D -> forall ws acc k, nonneg ws -> count_below d D W acc ws = k ->
  forall j, (j < k)%nat -> (acc + cum ws j) * D < d * W.
Proof.
  intros HD. induction ws as [|w r IH]; intros acc k Hn Hc j Hj; simpl in Hc; [lia|].
  inversion Hn as [|? ? Hw Hr]; subst.
  destruct (Z.ltb_spec ((acc + w) * D) (d * W)) as [E|E].
  - destruct j as [|j]; [now rewrite cum_cons_0|]. rewrite cum_cons_S, Z.add_assoc.
    apply (IH (acc + w) (count_below d D W (acc + w) r) Hr eq_refl). simpl in Hj. lia.
  - rewrite (count_below_zero d D W HD r (acc + w) Hr E) in Hj. simpl in Hj. lia.
Qed.

Lemma count_below_upper d D W : 0 <= D -> forall ws acc k, nonneg ws -> count_below d D W acc ws = k ->
  (k < length ws)%nat -> d * W <= (acc + cum ws k) * D.
Proof.
  intros HD. induction ws as [|w r IH]; intros acc k Hn Hc Hk; simpl in Hc, Hk; [lia|].
  inversion Hn as [|? ? Hw Hr]; subst.
  destruct (Z.ltb_spec ((acc + w) * D) (d * W)) as [E|E].
  - simpl. rewrite cum_cons_S, Z.add_assoc. apply (IH (acc + w) _ Hr eq_refl). simpl in Hk. lia.
  - rewrite (count_below_zero d D W HD r (acc + w) Hr E). simpl. now rewrite cum_cons_0.
Qed.

Lemma count_below_lt d D W : 0 <= D -> forall ws acc, nonneg ws -> ws <> [] ->
  d * W <= (acc + sumZ ws) * D -> (count_below d D W acc ws < length ws)%nat.
Proof.
  intros HD. induction ws as [|w r IH]; intros acc Hn Hne Hle; [contradiction|]. simpl.
  inversion Hn as [|? ? Hw Hr]; subst. simpl in Hle.
  destruct (Z.ltb_spec ((acc + w) * D) (d * W)) as [E|E].
  - destruct r as [|w' r'].
    + simpl in Hle. exfalso. replace (acc + (w + 0)) with (acc + w) in Hle by lia. lia.
    + assert (Hlt : (count_below d D W (acc + w) (w' :: r') < length (w' :: r'))%nat).
      { apply IH; [assumption | discriminate |]. now rewrite <- Z.add_assoc. }
      simpl in *. lia.
  - rewrite (count_below_zero d D W HD r (acc + w) Hr E). simpl. lia.
Qed.

(* ---------- choice_row: interval, range, scale, zero weights ---------- *)
Lemma choice_row_nonneg_total D d ws : 0 <= sumZ ws -> choice_row D d ws = count_below d D (sumZ ws) 0 ws.
Proof. intros H. unfold choice_row. destruct (Z.ltb_spec (sumZ ws) 0); [lia | reflexivity]. Qed.

Lemma sumZ_opp ws : sumZ (map Z.opp ws) = - sumZ ws.
Proof. induction ws as [|w r IH]; simpl; [reflexivity|]. rewrite IH. lia. Qed.

(* a negative total: the same decision as for the negated weights *)
Lemma choice_row_negative_total D d ws : sumZ ws < 0 -> choice_row D d ws = choice_row D d (map Z.opp ws).
Proof.
  intros H. unfold choice_row. rewrite sumZ_opp.
  destruct (Z.ltb_spec (sumZ ws) 0); [|lia]. destruct (Z.ltb_spec (- sumZ ws) 0); [lia | reflexivity].
Qed.

Lemma choice_row_interval D d ws k : 0 <= D -> nonneg ws -> (k < length ws)%nat ->
  (choice_row D d ws = k <->
   d * sumZ ws <= cum ws k * D /\ forall j, (j < k)%nat -> cum ws j * D < d * sumZ ws).
Proof.
  intros HD Hn Hk. rewrite (choice_row_nonneg_total D d ws (sumZ_nonneg ws Hn)). split.
  - intros Hc. split.
    + exact (count_below_upper d D (sumZ ws) HD ws 0 k Hn Hc Hk).
    + intros j Hj. exact (count_below_above d D (sumZ ws) HD ws 0 k Hn Hc j Hj).
  - intros [Hup Hab]. remember (count_below d D (sumZ ws) 0 ws) as k' eqn:Ek'. symmetry in Ek'.
    destruct (Nat.lt_trichotomy k' k) as [Hlt|[Heq|Hgt]]; [exfalso | assumption | exfalso].
    + pose proof (count_below_upper d D (sumZ ws) HD ws 0 k' Hn Ek' ltac:(lia)) as U. simpl in U.
      specialize (Hab k' Hlt). lia.
    + pose proof (count_below_above d D (sumZ ws) HD ws 0 k' Hn Ek' k Hgt) as A. simpl in A. lia.
Qed.

Lemma choice_row_in_range D d ws : 0 <= D -> d <= D -> nonneg ws -> 0 < sumZ ws ->
  (choice_row D d ws < length ws)%nat.
Proof.
  intros HD Hd Hn HW. rewrite (choice_row_nonneg_total D d ws) by lia. apply count_below_lt; auto.
  - intros ->. simpl in HW. lia.
  - simpl. nia.
Qed.

Lemma sumZ_scale c ws : sumZ (map (Z.mul c) ws) = c * sumZ ws.
Proof. induction ws as [|w r IH]; simpl; [lia|]. rewrite IH. ring. Qed.

Lemma count_below_scale c d D W : 0 < c -> forall ws acc,
  count_below d D (c * W) (c * acc) (map (Z.mul c) ws) = count_below d D W acc ws.
Proof.
  intros Hc. induction ws as [|w r IH]; intros acc; simpl; [reflexivity|].
  replace (c * acc + c * w) with (c * (acc + w)) by ring. rewrite IH. f_equal.
  replace (c * (acc + w) * D) with (c * ((acc + w) * D)) by ring.
  replace (d * (c * W)) with (c * (d * W)) by ring.
  destruct (Z.ltb_spec (c * ((acc + w) * D)) (c * (d * W))), (Z.ltb_spec ((acc + w) * D) (d * W));
    try reflexivity; exfalso; nia.
Qed.

Lemma choice_row_scale c D d ws : 0 < c -> choice_row D d (map (Z.mul c) ws) = choice_row D d ws.
Proof.
  intros Hc. unfold choice_row. rewrite sumZ_scale.
  assert (Hs : (c * sumZ ws <? 0) = (sumZ ws <? 0)).
  { destruct (Z.ltb_spec (c * sumZ ws) 0), (Z.ltb_spec (sumZ ws) 0); try reflexivity; nia. }
  rewrite Hs. destruct (sumZ ws <? 0).
  - replace (map Z.opp (map (Z.mul c) ws)) with (map (Z.mul c) (map Z.opp ws))
      by (rewrite !map_map; apply map_ext; intros; ring).
    replace (- (c * sumZ ws)) with (c * - sumZ ws) by ring. replace 0 with (c * 0) at 1 by ring.
    now apply count_below_scale.
  - replace 0 with (c * 0) at 1 by ring. now apply count_below_scale.
Qed.

Lemma choice_row_proportional a b D d ws ws' : 0 < a -> 0 < b -> map (Z.mul a) ws = map (Z.mul b) ws' ->
  choice_row D d ws = choice_row D d ws'.
Proof. intros Ha Hb E. rewrite <- (choice_row_scale a D d ws Ha), E. now apply choice_row_scale. Qed.

Lemma choice_row_nonzero D d ws : 0 <= D -> 0 <= d <= D -> nonneg ws -> 0 < sumZ ws ->
  (0 < d \/ 0 < nth 0 ws 0) -> nth (choice_row D d ws) ws 0 <> 0.
Proof.
  intros HD Hd Hn HW Hg Hz.
  pose proof (choice_row_in_range D d ws HD (proj2 Hd) Hn HW) as Hk.
  remember (choice_row D d ws) as k eqn:Ek. symmetry in Ek.
  apply (choice_row_interval D d ws k HD Hn Hk) in Ek as [Hup Hab].
  destruct k as [|k].
  - rewrite cum_0 in Hup by (intros ->; simpl in Hk; lia). rewrite Hz in Hup.
    destruct Hg as [Hg|Hg]; [nia | lia].
  - specialize (Hab k ltac:(lia)). rewrite (cum_S ws k Hk), Hz in Hup. lia.
Qed.

(* the corner (finding F-G): a draw of exactly 0 is above no bin, so option 0 is returned whatever its weight *)
Lemma choice_row_zero_draw D ws : 0 <= D -> nonneg ws -> choice_row D 0 ws = O.
Proof.
  intros HD Hn. rewrite (choice_row_nonneg_total D 0 ws (sumZ_nonneg ws Hn)). apply count_below_zero; auto. lia.
Qed.

(* ---------- residual ---------- *)
Lemma fill_gen_Wt (v : Z) l : map (fun x => match x with Wt w => w | Residual => v | _ => 0 end) (map Wt l) = l.
Proof. induction l as [|w l IH]; simpl; [reflexivity | now rewrite IH]. Qed.

Lemma fill_Wt U l : fill U (map Wt l) = l.
Proof. unfold fill. apply fill_gen_Wt. Qed.

Lemma no_res_Wt l : existsb is_res (map Wt l) = false.
Proof. induction l; simpl; auto. Qed.

Lemma sum_fill_gen (v : Z) row :
  sumZ (map (fun x => match x with Wt w => w | Residual => v | _ => 0 end) row)
  = others row + v * Z.of_nat (count_res row).
Proof.
  unfold others, count_res. induction row as [|x row IH]; [simpl; lia|].
  destruct x as [w| | |]; cbn [map sumZ wval filter is_res length]; rewrite IH; lia.
Qed.

Lemma sum_fill_residual U row : count_res row = 1%nat -> sumZ (fill U row) = U.
Proof. intros H. unfold fill. rewrite sum_fill_gen, H. simpl. lia. Qed.

Lemma fill_no_res U row : count_res row = 0%nat -> fill U row = map wval row.
Proof.
  unfold fill, count_res. generalize (U - others row) as v. intros v.
  induction row as [|x row IH]; simpl; [reflexivity|].
  destruct x as [w| | |]; simpl; try discriminate; intros H; now rewrite IH.
Qed.

Lemma set_residual_ok U rows rs : set_residual U rows = Ok rs -> rs = map (fill U) rows.
Proof.
  unfold set_residual. destruct (existsb (existsb is_res) rows).
  - destruct (forallb _ rows); [|discriminate]. destruct (existsb _ rows); [discriminate|]. now intros [= <-].
  - now intros [= <-].
Qed.

Lemma existsb_map_Wt rs : existsb (existsb is_res) (map (map Wt) rs) = false.
Proof. induction rs as [|r rs IH]; simpl; [reflexivity|]. now rewrite no_res_Wt, IH. Qed.

Lemma map_fill_Wt U rs : map (fill U) (map (map Wt) rs) = rs.
Proof. induction rs as [|r rs IH]; simpl; [reflexivity|]. now rewrite fill_Wt, IH. Qed.

(* weights with the residual spelled out resolve to themselves *)
Lemma set_residual_explicit U rs : set_residual U (map (map Wt) rs) = Ok rs.
Proof. unfold set_residual. now rewrite existsb_map_Wt, map_fill_Wt. Qed.

(* errors of the residual logic, row-wise reading (for a single row / 1-d weights) *)
Lemma set_residual_row U row :
  set_residual U [row] =
  if existsb is_res row
  then if Nat.eqb (count_res row) 1 then if U - others row <? 0 then Rejected ERandomness else Ok [fill U row]
       else Rejected ERandomness
  else Ok [fill U row].
Proof.
  unfold set_residual. simpl. rewrite !orb_false_r, !andb_true_r. reflexivity.
Qed.

Lemma map_repeat' {A B} (f : A -> B) x n : map f (repeat x n) = repeat (f x) n.
Proof. induction n; simpl; [reflexivity | now rewrite IHn]. Qed.

Lemma existsb_repeat {A} (f : A -> bool) x n : existsb f (repeat x (S n)) = f x.
Proof. induction n; simpl in *; [apply orb_false_r | rewrite IHn; apply orb_diag]. Qed.

Lemma forallb_repeat {A} (f : A -> bool) x n : forallb f (repeat x (S n)) = f x.
Proof. induction n; simpl in *; [apply andb_true_r | rewrite IHn; apply andb_diag]. Qed.

Lemma set_residual_repeat U row n : set_residual U (repeat row (S n)) =
  match set_residual U [row] with Ok _ => Ok (repeat (fill U row) (S n)) | r => r end.
Proof.
  rewrite set_residual_row. unfold set_residual.
  rewrite existsb_repeat, forallb_repeat, existsb_repeat, map_repeat'.
  destruct (existsb is_res row); [|reflexivity].
  destruct (Nat.eqb (count_res row) 1); [|reflexivity]. now destruct (U - others row <? 0).
Qed.

Lemma initial_rows_W2 n c rows : initial_rows n c (W2 rows) = rows.
Proof. reflexivity. Qed.

(* the result of choice only depends on the resolved weight matrix *)
Lemma choice_residual D U draws c p rows :
  set_residual U (initial_rows (length draws) c p) = Ok rows ->
  choice D U draws c p = choice D U draws c (W2 (map (map Wt) rows)).
Proof.
  intros H. unfold choice. rewrite H, initial_rows_W2, set_residual_explicit. reflexivity.
Qed.

Lemma no_res_filter_nil row : existsb is_res row = false -> filter is_res row = [].
Proof.
  induction row as [|x row IH]; [reflexivity|]. simpl. intros E. apply orb_false_iff in E as [E1 E2].
  rewrite E1. now apply IH.
Qed.

Lemma choice_residual_1d D U draws c row : count_res row = 1%nat -> 0 <= U - others row ->
  choice D U draws c (W1 row) = choice D U draws c (W1 (map Wt (fill U row))).
Proof.
  intros Hc Hr. unfold choice. simpl initial_rows. destruct (length draws) as [|n]; [reflexivity|].
  rewrite !set_residual_repeat, !set_residual_row, no_res_Wt, fill_Wt.
  assert (He : existsb is_res row = true).
  { destruct (existsb is_res row) eqn:E; [reflexivity|]. exfalso.
    unfold count_res in Hc. rewrite (no_res_filter_nil row E) in Hc. discriminate. }
  rewrite He, Hc. simpl. destruct (Z.ltb_spec (U - others row) 0); [lia | reflexivity].
Qed.

(* ---------- choice: row i decides from its own draw and weight row ---------- *)
Lemma rmapM_nth {A B} (f : A -> result B) (dx : A) (dy : B) l : forall ys, rmapM f l = Ok ys ->
  length ys = length l /\ forall i, (i < length l)%nat -> f (nth i l dx) = Ok (nth i ys dy).
Proof.
  induction l as [|x r IH]; intros ys; simpl.
  - intros [= <-]. split; [reflexivity | intros i Hi; simpl in Hi; lia].
  - destruct (f x) as [y| |] eqn:Ex; simpl; try discriminate.
    destruct (rmapM f r) as [zs| |] eqn:Er; simpl; try discriminate.
    intros [= <-]. destruct (IH zs eq_refl) as [L N]. split; [simpl; now rewrite L|].
    intros [|i] Hi; simpl; [assumption | apply N; simpl in Hi; lia].
Qed.

Lemma nth_repeat' {A} (x d : A) n i : (i < n)%nat -> nth i (repeat x n) d = x.
Proof. revert i. induction n; intros [|i] Hi; simpl; try lia; [reflexivity | apply IHn; lia]. Qed.

Lemma broadcast_rows U n c p rows rows' :
  set_residual U (initial_rows n c p) = Ok rows -> broadcast n rows = Ok rows' ->
  length rows' = n /\ forall i, (i < n)%nat -> nth i rows' [] = fill U (row_of c p i) /\ In (nth i rows' []) rows.
Proof.
  intros Hs Hb. apply set_residual_ok in Hs. subst rows. destruct p as [|row|rws]; simpl in Hb.
  - rewrite map_repeat' in Hb. unfold broadcast in Hb. rewrite repeat_length, Nat.eqb_refl in Hb. injection Hb as <-.
    split; [apply repeat_length|]. intros i Hi. rewrite nth_repeat' by assumption. split; [reflexivity|].
    simpl. rewrite map_repeat'. destruct n; [lia | now left].
  - rewrite map_repeat' in Hb. unfold broadcast in Hb. rewrite repeat_length, Nat.eqb_refl in Hb. injection Hb as <-.
    split; [apply repeat_length|]. intros i Hi. rewrite nth_repeat' by assumption. split; [reflexivity|].
    simpl. rewrite map_repeat'. destruct n; [lia | now left].
  - unfold broadcast in Hb. rewrite map_length in Hb. destruct (Nat.eqb_spec (length rws) n) as [E|E].
    + injection Hb as <-. split; [now rewrite map_length|]. intros i Hi. simpl initial_rows.
      assert (Hnth : nth i (map (fill U) rws) [] = fill U (nth i rws [])) by (apply (map_nth (fill U) rws [] i)).
      split.
      * rewrite Hnth. f_equal. simpl. destruct rws as [|r [|r2 rest]]; try reflexivity.
        simpl in E. subst n. assert (i = 0)%nat by lia. now subst i.
      * apply nth_In. rewrite map_length. lia.
    + destruct rws as [|r [|r2 rest]]; simpl in Hb; try discriminate. injection Hb as <-.
      split; [apply repeat_length|]. intros i Hi. rewrite nth_repeat' by assumption. split; [reflexivity|].
      simpl. now left.
Qed.

Lemma pick_ok c k k' : pick c k = Ok k' -> k' = k /\ (k < c)%nat.
Proof. unfold pick. destruct (Nat.ltb_spec k c); [|discriminate]. intros [= <-]. now split. Qed.

Lemma choice_ok D U draws c p ks : choice D U draws c p = Ok ks ->
  length ks = length draws /\
  forall i, (i < length draws)%nat ->
    nth i ks O = choice_row D (nth i draws 0) (fill U (row_of c p i)) /\
    (nth i ks O < c)%nat /\
    sumZ (fill U (row_of c p i)) <> 0.
Proof.
  unfold choice. destruct (set_residual U (initial_rows (length draws) c p)) as [rows| |] eqn:Hs; simpl; try discriminate.
  destruct (existsb (fun ws => sumZ ws =? 0) rows) eqn:Hz; [discriminate|].
  destruct (broadcast (length draws) rows) as [rows'| |] eqn:Hb; simpl; try discriminate.
  intros Hm. destruct (broadcast_rows U (length draws) c p rows rows' Hs Hb) as [L R].
  destruct (rmapM_nth _ (0, []) O _ ks Hm) as [Lk N].
  rewrite combine_length, L, Nat.min_id in Lk, N. split; [assumption|].
  intros i Hi. specialize (N i Hi). rewrite combine_nth in N by (now rewrite L). simpl in N.
  destruct (R i Hi) as [Hrow Hin]. rewrite Hrow in N. apply pick_ok in N as [-> Hlt].
  repeat split; [assumption|].
  rewrite <- Hrow. intros Hsum.
  assert (Hex : existsb (fun ws => sumZ ws =? 0) rows = true).
  { apply existsb_exists. exists (nth i rows' []). split; [assumption | now apply Z.eqb_eq]. }
  congruence.
Qed.

Lemma choice_length_mismatch_inert D U draws c p ks : choice D U draws c p = Ok ks -> length ks = length draws.
Proof. intros H. now apply choice_ok in H. Qed.

(* =====================================================================================================================
   the non-finite corner: nan / +inf / -inf probabilities, rates and weights; negative rates and weights
   ===================================================================================================================== *)
Definition in_range (D : Z) (ds : list Z) : Prop := Forall (fun d => 0 <= d < D) ds.

Lemma x_lt_clamp D d p : 0 <= d < D -> x_lt d p = (d <? clamp D p).
Proof.
  intros H. destruct p; simpl; try reflexivity; symmetry.
  - apply Z.ltb_ge. lia.
  - apply Z.ltb_lt. lia.
  - apply Z.ltb_ge. lia.
Qed.

Lemma mask_filter_x_clamp {A} D (xs : list A) : forall ds ps, in_range D ds ->
  mask_filter_x xs ds ps = mask_filter xs ds (map (clamp D) ps).
Proof.
  induction xs as [|x xs IH]; intros ds ps H; simpl; [reflexivity|].
  destruct ds as [|d ds]; [reflexivity|]. destruct ps as [|p ps]; [reflexivity|].
  inversion H as [|? ? Hd Hr]; subst. simpl. rewrite (x_lt_clamp D d p Hd), (IH ds ps Hr). reflexivity.
Qed.

Lemma expand_x_clamp D idx p :
  expand_p idx (clamp_spec D p) =
  match expand_x idx p with Ok ps => Ok (map (clamp D) ps) | Rejected e => Rejected e | OutOfFuel => OutOfFuel end.
Proof.
  destruct p as [x|ps|ls ps]; simpl.
  - now rewrite map_map.
  - rewrite map_length. now destruct (Nat.eqb (length ps) (length idx)).
  - rewrite map_length. now destruct (zlist_eqb ls idx && Nat.eqb (length ps) (length ls)).
Qed.

(* for draws in [0,1): a nan or -inf probability is probability 0, +inf is probability 1 - everything proved about
   filter_p (order, content, monotonicity, zero, one) carries over *)
Lemma filter_px_clamp {A} D (pop : list (label * A)) ds p : in_range D ds ->
  filter_px pop ds p = filter_p pop ds (clamp_spec D p).
Proof.
  intros H. destruct pop as [|r pop]; [reflexivity|]. unfold filter_px, filter_p. rewrite expand_x_clamp.
  destruct (expand_x (map fst (r :: pop)) p) as [ps| |]; cbn [rbind]; try reflexivity.
  now rewrite (mask_filter_x_clamp D (r :: pop) ds ps H).
Qed.

Lemma mask_filter_x_fun {A} (key : A -> Z) (draw : Z -> Z) (pr : Z -> xnum) (xs : list A) :
  mask_filter_x xs (map (fun x => draw (key x)) xs) (map (fun x => pr (key x)) xs)
  = filter (fun x => x_lt (draw (key x)) (pr (key x))) xs.
Proof. induction xs as [|x xs IH]; simpl; [reflexivity|]. now rewrite IH. Qed.

Lemma filter_px_exact {A} (pop : list (label * A)) (draw : label -> Z) (pr : label -> xnum) :
  filter_px pop (map (fun r => draw (fst r)) pop) (XArray (map pr (map fst pop)))
  = Ok (filter (fun r => x_lt (draw (fst r)) (pr (fst r))) pop).
Proof.
  destruct pop as [|r pop]; [reflexivity|]. unfold filter_px. simpl expand_x.
  rewrite !map_length, Nat.eqb_refl. simpl rbind. f_equal. rewrite map_map.
  apply (mask_filter_x_fun fst draw pr (r :: pop)).
Qed.

Lemma x_lt_nonfinite d : x_lt d XNaN = false /\ x_lt d XNInf = false /\ x_lt d XPInf = true.
Proof. repeat split. Qed.

(* rates *)
Lemma r2p_x_nan D cap expneg : r2p_x D cap expneg XNaN = XNaN /\ r2p_x D cap expneg XNInf = XNInf.
Proof. split; reflexivity. Qed.

Lemma r2p_x_pinf D cap expneg z : cap <= z -> r2p_x D cap expneg XPInf = r2p_x D cap expneg (Fin z).
Proof. intros H. simpl. f_equal. symmetry. now apply r2p_capped. Qed.

Lemma r2p_nonpositive D cap (expneg : Z -> Z) : (forall r r', r <= r' -> expneg r' <= expneg r) ->
  expneg 0 = D -> 0 <= cap -> forall r, r <= 0 -> r2p D cap expneg r <= 0.
Proof.
  intros Hexp H0 Hc r Hr. rewrite <- (r2p_zero D cap expneg H0 Hc). now apply r2p_monotone.
Qed.

(* weights *)
Definition finite_row (row : list wt) : Prop := existsb nonfinite row = false.
Definition finite_spec (p : wspec) : Prop :=
  match p with WNone => True | W1 row => finite_row row | W2 rows => Forall finite_row rows end.

Lemma finite_row_split row : finite_row row -> existsb is_nan row = false /\ existsb is_inf row = false.
Proof.
  unfold finite_row. induction row as [|x row IH]; simpl; [auto|]. intros H.
  apply orb_false_iff in H as [H1 H2]. unfold nonfinite in H1. apply orb_false_iff in H1 as [Hn Hi].
  destruct (IH H2) as [A B]. now rewrite Hn, Hi, A, B.
Qed.

Lemma sanitize_row_id row : existsb is_nan row = false -> sanitize_row row = row.
Proof. intros H. unfold sanitize_row. now rewrite H. Qed.

Lemma existsb_Forall_false {A} (f : A -> bool) l : Forall (fun x => f x = false) l -> existsb f l = false.
Proof. induction 1 as [|x l Hx _ IH]; simpl; [reflexivity | now rewrite Hx, IH]. Qed.

Lemma Forall_repeat {A} (P : A -> Prop) x n : P x -> Forall P (repeat x n).
Proof. intros H. induction n; simpl; constructor; auto. Qed.

Lemma finite_ones c : finite_row (repeat (Wt 1) c).
Proof. unfold finite_row. apply existsb_Forall_false. now apply Forall_repeat. Qed.

Lemma finite_nil : finite_row [].
Proof. reflexivity. Qed.

Lemma finite_initial_rows n c p : finite_spec p -> Forall finite_row (initial_rows n c p).
Proof.
  destruct p as [|row|rows]; simpl; intros H.
  - apply Forall_repeat, finite_ones.
  - now apply Forall_repeat.
  - assumption.
Qed.

Lemma finite_row_of c p i : finite_spec p -> finite_row (row_of c p i).
Proof.
  destruct p as [|row|rows]; simpl; intros H; [apply finite_ones | assumption |].
  destruct rows as [|r [|r2 rest]]; [destruct i; apply finite_nil | now inversion H |].
  destruct (nth_in_or_default i (r :: r2 :: rest) []) as [Hin|Hd].
  - rewrite Forall_forall in H. now apply H.
  - rewrite Hd. apply finite_nil.
Qed.

Lemma sanitize_finite p : finite_spec p -> sanitize p = p.
Proof.
  destruct p as [|row|rows]; simpl; intros H; [reflexivity | |].
  - f_equal. apply sanitize_row_id. now apply finite_row_split.
  - f_equal. induction H as [|r rows Hr _ IH]; simpl; [reflexivity|].
    rewrite IH. f_equal. apply sanitize_row_id. now apply finite_row_split.
Qed.

Lemma override_all_false flags : forall ks, Forall (fun b => b = false) flags -> length flags = length ks ->
  override flags ks = ks.
Proof.
  induction flags as [|f fs IH]; intros [|k ks] H L; simpl in *; try discriminate; [reflexivity|].
  inversion H; subst. f_equal. apply IH; auto.
Qed.

Lemma override_nth flags : forall ks i, length flags = length ks -> (i < length ks)%nat ->
  nth i (override flags ks) O = if nth i flags false then O else nth i ks O.
Proof.
  induction flags as [|f fs IH]; intros [|k ks] i L Hi; simpl in *; try discriminate; try lia.
  destruct i as [|i]; [reflexivity|]. apply IH; lia.
Qed.

Lemma override_length flags : forall ks, length flags = length ks -> length (override flags ks) = length ks.
Proof. induction flags as [|f fs IH]; intros [|k ks] L; simpl in *; try discriminate; [reflexivity|]. f_equal. apply IH. lia. Qed.

Lemma nan_flags_length n c p : length (nan_flags n c p) = n.
Proof. unfold nan_flags. now rewrite map_length, seq_length. Qed.

Lemma nan_flags_nth n c p i : (i < n)%nat -> nth i (nan_flags n c p) false = existsb is_nan (row_of c p i).
Proof.
  intros Hi. unfold nan_flags.
  rewrite (nth_indep _ false (existsb is_nan (row_of c p 0))) by (now rewrite map_length, seq_length).
  rewrite (map_nth (fun i => existsb is_nan (row_of c p i)) (seq 0 n) 0%nat i). now rewrite seq_nth.
Qed.

(* with finite weights the extended function IS the finite one: every theorem about [choice] applies *)
Lemma choice_x_finite D U draws c p : finite_spec p -> choice_x D U draws c p = choice D U draws c p.
Proof.
  intros H. unfold choice_x. pose proof (finite_initial_rows (length draws) c p H) as HF.
  assert (E1 : existsb (existsb nonfinite) (initial_rows (length draws) c p) = false).
  { apply existsb_Forall_false. exact HF. }
  assert (E2 : existsb (fun r => negb (existsb is_nan r) && existsb is_inf r) (initial_rows (length draws) c p) = false).
  { apply existsb_Forall_false. eapply Forall_impl; [|exact HF]. intros r Hr. simpl.
    destruct (finite_row_split r Hr) as [_ ->]. apply andb_false_r. }
  rewrite E1, andb_false_r, E2, (sanitize_finite p H).
  destruct (choice D U draws c p) as [ks| |] eqn:Ec; simpl; try reflexivity. f_equal.
  apply override_all_false.
  - unfold nan_flags. apply Forall_forall. intros b Hb. apply in_map_iff in Hb as [i [<- _]].
    now destruct (finite_row_split _ (finite_row_of c p i H)).
  - rewrite nan_flags_length. symmetry. now apply choice_ok in Ec.
Qed.

Lemma row_of_sanitize c p i : row_of c (sanitize p) i = sanitize_row (row_of c p i).
Proof.
  destruct p as [|row|rows]; simpl.
  - symmetry. apply sanitize_row_id. now destruct (finite_row_split _ (finite_ones c)).
  - reflexivity.
  - destruct rows as [|r [|r2 rest]]; [destruct i; reflexivity | reflexivity |].
    exact (map_nth sanitize_row (r :: r2 :: rest) [] i).
Qed.

(* a weight row containing nan always yields option 0, whatever the draw; every other row decides as before *)
Lemma choice_x_ok D U draws c p ks : choice_x D U draws c p = Ok ks ->
  length ks = length draws /\
  forall i, (i < length draws)%nat ->
    (existsb is_nan (row_of c p i) = true -> nth i ks O = O) /\
    (existsb is_nan (row_of c p i) = false ->
       nth i ks O = choice_row D (nth i draws 0) (fill U (row_of c p i))).
Proof.
  unfold choice_x.
  destruct (existsb (existsb is_res) _ && existsb (existsb nonfinite) _); [discriminate|].
  destruct (existsb (fun r => negb (existsb is_nan r) && existsb is_inf r) _); [discriminate|].
  destruct (choice D U draws c (sanitize p)) as [ks0| |] eqn:Ec; simpl; try discriminate.
  intros [= <-]. destruct (choice_ok D U draws c (sanitize p) ks0 Ec) as [L R].
  assert (LF : length (nan_flags (length draws) c p) = length ks0) by (now rewrite nan_flags_length).
  split; [now rewrite override_length|].
  intros i Hi. rewrite (override_nth _ ks0 i LF) by lia. rewrite (nan_flags_nth _ c p i Hi).
  split; intros Hn; rewrite Hn; [reflexivity|].
  destruct (R i Hi) as [-> _]. now rewrite row_of_sanitize, (sanitize_row_id _ Hn).
Qed.

(* a row with an infinite weight (and no nan) is refused *)
Lemma choice_x_inf D U draws c p r : In r (initial_rows (length draws) c p) ->
  existsb is_nan r = false -> existsb is_inf r = true -> choice_x D U draws c p = Rejected EOther.
Proof.
  intros Hin Hn Hi. unfold choice_x.
  destruct (existsb (existsb is_res) _ && existsb (existsb nonfinite) _); [reflexivity|].
  assert (E : existsb (fun r => negb (existsb is_nan r) && existsb is_inf r) (initial_rows (length draws) c p) = true).
  { apply existsb_exists. exists r. split; [assumption|]. now rewrite Hn, Hi. }
  now rewrite E.
Qed.

(* one weight row given as a 2-d matrix is the same as giving it as 1-d weights (numpy broadcasting), for a non-empty request *)
Lemma choice_one_row D U draws c row : draws <> [] -> choice D U draws c (W2 [row]) = choice D U draws c (W1 row).
Proof.
  intros Hne. destruct draws as [|d0 ds]; [contradiction|]. unfold choice.
  change (length (d0 :: ds)) with (S (length ds)). cbn [initial_rows]. rewrite set_residual_repeat. destruct (set_residual U [row]) as [rows| |] eqn:E; try reflexivity.
  assert (Hrows : rows = [fill U row]) by (apply set_residual_ok in E; exact E). subst rows. cbn [rbind].
  rewrite existsb_repeat. simpl existsb. rewrite orb_false_r.
  destruct (sumZ (fill U row) =? 0); [reflexivity|].
  unfold broadcast at 2. rewrite repeat_length, Nat.eqb_refl.
  unfold broadcast. simpl length. destruct (length ds) as [|m]; reflexivity.
Qed.
