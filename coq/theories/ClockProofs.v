(* Lemmas about the per-simulant clock model (DESIGN.md C10). *)
From Viv Require Import Common Clock.
Local Open Scope Z_scope.

(* ================= the post-processor ================= *)
Lemma min_some_le vals v : In (Some v) vals -> exists w, min_some vals = Some w /\ w <= v.
Proof.
  induction vals as [|[x|] r IH]; intros Hin; simpl in *; [contradiction| |].
  - destruct Hin as [E|Hin].
    + inversion E; subst. destruct (min_some r) as [w|]; eexists; split; try reflexivity; lia.
    + destruct (IH Hin) as [w [-> Hw]]. eexists; split; [reflexivity|]. lia.
  - destruct Hin as [E|Hin]; [discriminate|]. now apply IH.
Qed.

Lemma min_some_in vals w : min_some vals = Some w -> In (Some w) vals.
Proof.
  revert w. induction vals as [|[x|] r IH]; intros w H; simpl in *; [discriminate| |].
  - destruct (min_some r) as [u|] eqn:Eu.
    + inversion H; subst. destruct (Z.min_spec x u) as [[_ ->]|[_ ->]]; [now left | right; now apply IH].
    + inversion H; subst. now left.
  - right. now apply IH.
Qed.

Lemma min_some_none vals : min_some vals = None -> forall v, ~ In (Some v) vals.
Proof.
  intros H v Hin. destruct (min_some_le _ _ Hin) as [w [Hw _]]. congruence.
Qed.

(* each simulant's step is the SMALLEST step requested for it by any modifier, the standard step where none applies *)
Lemma requested_spec std0 vals :
  (forall v, In (Some v) vals -> requested std0 vals <= v) /\
  (In (Some (requested std0 vals)) vals \/ ((forall v, ~ In (Some v) vals) /\ requested std0 vals = std0)).
Proof.
  unfold requested. destruct (min_some vals) as [w|] eqn:E.
  - split.
    + intros v Hv. destruct (min_some_le _ _ Hv) as [u [Hu Hle]]. congruence.
    + left. now apply min_some_in.
  - split.
    + intros v Hv. exfalso. exact (min_some_none _ E v Hv).
    + right. split; [now apply min_some_none | reflexivity].
Qed.

Lemma requested_nonneg std0 vals : 0 <= std0 -> (forall v, In (Some v) vals -> 0 <= v) -> 0 <= requested std0 vals.
Proof.
  intros Hs Hv. destruct (requested_spec std0 vals) as [_ [H|[_ ->]]]; [now apply Hv | exact Hs].
Qed.

(* ... rounded down to a whole multiple of the minimum step and never below it *)
Lemma post_spec m0 std0 vals : 0 < m0 -> 0 <= requested std0 vals ->
  let v := requested std0 vals in
  post m0 std0 vals = m0 * Z.max 1 (v / m0) /\
  post m0 std0 vals mod m0 = 0 /\ m0 <= post m0 std0 vals /\
  (m0 <= v -> post m0 std0 vals <= v /\ v < post m0 std0 vals + m0).
Proof.
  intros Hm Hv v. unfold post. fold v.
  assert (Hq : 0 <= v / m0) by (apply Z.div_pos; lia).
  assert (E : (if v / m0 =? 0 then 1 else v / m0) = Z.max 1 (v / m0)).
  { destruct (Z.eqb_spec (v / m0) 0) as [->|Hne]; lia. }
  rewrite E. repeat split.
  - lia.
  - apply Z_mod_mult.
  - nia.
  - assert (1 <= v / m0) by (apply Z.div_le_lower_bound; lia).
    rewrite Z.max_r by lia. pose proof (Z.mul_div_le v m0 Hm). lia.
  - assert (1 <= v / m0) by (apply Z.div_le_lower_bound; lia).
    rewrite Z.max_r by lia. pose proof (Z.mul_succ_div_gt v m0 Hm). lia.
Qed.

Lemma post_pos m0 std0 vals : 0 < m0 -> 0 <= requested std0 vals -> 0 < post m0 std0 vals.
Proof. intros Hm Hv. destruct (post_spec m0 std0 vals Hm Hv) as [_ [_ [H _]]]. lia. Qed.

(* ================= minima ================= *)
Lemma minl_le d l : forall x, In x (d :: l) -> minl d l <= x.
Proof.
  unfold minl. induction l as [|y l IH]; intros x Hx; simpl in *.
  - destruct Hx as [<-|[]]. lia.
  - destruct Hx as [<-|[<-|Hx]].
    + specialize (IH d (or_introl eq_refl)). lia.
    + lia.
    + specialize (IH x (or_intror Hx)). lia.
Qed.
Lemma minl_in d l : In (minl d l) (d :: l).
Proof.
  unfold minl. induction l as [|y l IH]; simpl; [auto|].
  destruct (Z.min_spec y (fold_right Z.min d l)) as [[_ ->]|[_ ->]]; [auto|].
  destruct IH as [H|H]; [left; exact H | right; right; exact H].
Qed.
Lemma min_next_le rs r : In r rs -> min_next rs <= nxt r.
Proof.
  destruct rs as [|r0 rs]; [contradiction|]. intros H. unfold min_next. apply minl_le.
  destruct H as [<-|H]; [left; reflexivity | right; now apply in_map].
Qed.
Lemma min_next_in rs : rs <> [] -> exists r, In r rs /\ nxt r = min_next rs.
Proof.
  destruct rs as [|r0 rs]; [congruence|]. intros _. unfold min_next.
  destruct (minl_in (nxt r0) (map nxt rs)) as [H|H].
  - exists r0. split; [left; reflexivity | auto].
  - apply in_map_iff in H as [r [Hr Hi]]. exists r. split; [right; auto | auto].
Qed.
Lemma min_next_gt rs t : rs <> [] -> (forall r, In r rs -> t < nxt r) -> t < min_next rs.
Proof. intros Hne H. destruct (min_next_in rs Hne) as [r [Hr <-]]. now apply H. Qed.

Lemma filter_nil_all {A} (f : A -> bool) l : filter f l = [] -> forall x, In x l -> f x = false.
Proof.
  intros H x Hx. destruct (f x) eqn:E; [|reflexivity].
  assert (In x (filter f l)) by (apply filter_In; auto). rewrite H in *. contradiction.
Qed.

(* ================= guards of the theorems ================= *)
(* requests are non-negative (a negative request makes the post-processor negative) *)
Definition req_ok (c : clk) (req : Z -> list (option Z)) : Prop := forall l, 0 <= requested (std c) (req l).
(* a pending move-to-end request is consumed at a time before stop + minimum (beyond that, stop + minimum - T <= 0) *)
Definition step_guard (c : clk) : Prop := snooze c = [] \/ T c + S c < E c + m c.

Lemma req_ok_of_nonneg c req : 0 <= std c -> (forall l v, In (Some v) (req l) -> 0 <= v) -> req_ok c req.
Proof. intros Hs Hv l. apply requested_nonneg; [exact Hs | apply Hv]. Qed.

Lemma step_guard_before_end c : 0 < m c -> T c + S c <= E c -> step_guard c.
Proof. intros Hm H. right. lia. Qed.

(* ================= step_forward ================= *)
Lemma step_forward_cases req c c' : step_forward req c = Ok c' ->
  let T' := T c + S c in
  (rows c = [] /\ c' = set_clk c T' (S c) [] (snooze c)) \/
  (rows c <> [] /\ filter (due T') (rows c) = [] /\
     c' = set_clk c T' (min_next (rows c) - T') (rows c) (snooze c)) \/
  (rows c <> [] /\ filter (due T') (rows c) <> [] /\
     (forall l, In l (snooze c) -> In l (labels (filter (due T') (rows c)))) /\
     c' = set_clk c T' (min_next (map (update_row req c T') (rows c)) - T') (map (update_row req c T') (rows c)) []).
Proof.
  intros H. cbv zeta. set (T' := T c + S c). unfold step_forward in H. cbv zeta in H. fold T' in H. destruct (rows c) as [|r0 rs] eqn:ER.
  - left. inversion H. auto.
  - right. destruct (filter (due T') (r0 :: rs)) as [|u U] eqn:EU.
    + left. inversion H. repeat split; congruence.
    + right. destruct (forallb _ (snooze c)) eqn:EF; [|discriminate]. inversion H.
      repeat split; try congruence. intros l Hl. rewrite forallb_forall in EF. apply zmem_In. now apply EF.
Qed.

Lemma step_forward_consts req c c' : step_forward req c = Ok c' -> E c' = E c /\ m c' = m c /\ std c' = std c.
Proof.
  intros H. destruct (step_forward_cases req c c' H) as [[_ ->]|[[_ [_ ->]]|[_ [_ [_ ->]]]]]; auto.
Qed.

Lemma step_forward_T req c c' : step_forward req c = Ok c' -> T c' = T c + S c.
Proof.
  intros H. destruct (step_forward_cases req c c' H) as [[_ ->]|[[_ [_ ->]]|[_ [_ [_ ->]]]]]; auto.
Qed.

Lemma update_row_lbl req c t r : lbl (update_row req c t r) = lbl r.
Proof. unfold update_row. destruct (due t r); reflexivity. Qed.

Lemma labels_update req c t rs : labels (map (update_row req c t) rs) = labels rs.
Proof. unfold labels. rewrite map_map. apply map_ext. intros r. apply update_row_lbl. Qed.

Lemma step_forward_labels req c c' : step_forward req c = Ok c' -> labels (rows c') = labels (rows c).
Proof.
  intros H. destruct (step_forward_cases req c c' H) as [[E0 ->]|[[_ [_ ->]]|[_ [_ [_ ->]]]]]; cbn [rows set_clk].
  - now rewrite E0.
  - reflexivity.
  - apply labels_update.
Qed.

Lemma new_step_pos req c l : 0 < m c -> req_ok c req -> step_guard c -> 0 < new_step req c (T c + S c) l.
Proof.
  intros Hm Hreq Hg. unfold new_step. destruct (zmem l (snooze c)) eqn:Ez.
  - destruct Hg as [Hg|Hg]; [rewrite Hg in Ez; discriminate | lia].
  - apply post_pos; [exact Hm | apply Hreq].
Qed.

(* ---------- the invariant is ESTABLISHED by every step_forward, whatever the state before it ---------- *)
Theorem step_forward_establishes_inv req c c' :
  0 < m c -> req_ok c req -> step_guard c -> (rows c = [] -> 0 < S c) ->
  step_forward req c = Ok c' -> Inv c'.
Proof.
  intros Hm Hreq Hg Hemp H. set (T' := T c + S c).
  destruct (step_forward_cases req c c' H) as [[E0 ->]|[[Hne [HU ->]]|[Hne [HU [_ ->]]]]];
    unfold Inv, set_clk; cbn [T S rows]; fold T'.
  - split; [auto|]. split; [intros r []| congruence].
  - assert (Hall : forall r, In r (rows c) -> T' < nxt r).
    { intros r Hr. pose proof (filter_nil_all _ _ HU r Hr) as Hd. unfold due in Hd. now apply Z.leb_gt in Hd. }
    pose proof (min_next_gt _ _ Hne Hall). split; [lia|]. split; [exact Hall | reflexivity].
  - assert (Hall : forall r, In r (map (update_row req c T') (rows c)) -> T' < nxt r).
    { intros r' Hr'. apply in_map_iff in Hr' as [r [<- Hr]]. unfold update_row. destruct (due T' r) eqn:Ed.
      - cbn [nxt]. pose proof (new_step_pos req c (lbl r) Hm Hreq Hg). fold T' in H0. lia.
      - unfold due in Ed. now apply Z.leb_gt in Ed. }
    assert (Hne' : map (update_row req c T') (rows c) <> []) by (destruct (rows c); [congruence | discriminate]).
    pose proof (min_next_gt _ _ Hne' Hall). split; [lia|]. split; [exact Hall | reflexivity].
Qed.

(* ---------- consequences of the invariant ---------- *)
Lemma inv_hits_earliest c : Inv c -> rows c <> [] -> T c + S c = min_next (rows c).
Proof. intros [_ [_ HS]] Hne. specialize (HS Hne). lia. Qed.

Lemma inv_all_ge c r : Inv c -> In r (rows c) -> T c + S c <= nxt r.
Proof.
  intros HI Hr. assert (Hne : rows c <> []) by (intro E0; rewrite E0 in Hr; contradiction).
  rewrite (inv_hits_earliest c HI Hne). now apply min_next_le.
Qed.

Lemma inv_due_iff c r : Inv c -> In r (rows c) -> (due (T c + S c) r = true <-> nxt r = T c + S c).
Proof.
  intros HI Hr. unfold due. rewrite Z.leb_le. pose proof (inv_all_ge c r HI Hr). lia.
Qed.

(* the event index is the list of the simulants whose next-event time IS the earliest pending one *)
Theorem inv_active_exact c : Inv c -> rows c <> [] ->
  active c = labels (filter (fun r => nxt r =? min_next (rows c)) (rows c)) /\ active c <> [].
Proof.
  intros HI Hne. split.
  - unfold active, active_at. f_equal. apply filter_ext_in. intros r Hr.
    rewrite <- (inv_hits_earliest c HI Hne). destruct (inv_due_iff c r HI Hr) as [H1 H2].
    destruct (due (T c + S c) r) eqn:Ed.
    + symmetry. apply Z.eqb_eq. now apply H1.
    + symmetry. apply Z.eqb_neq. intro E0. specialize (H2 E0). discriminate.
  - destruct (min_next_in _ Hne) as [r [Hr E0]]. unfold active, active_at, labels. intro H.
    apply map_eq_nil in H. assert (In r (filter (due (T c + S c)) (rows c))); [|rewrite H in *; contradiction].
    apply filter_In. split; [assumption|]. apply (inv_due_iff c r HI Hr). rewrite (inv_hits_earliest c HI Hne). exact E0.
Qed.

Lemma in_active_iff c l : In l (active c) <-> exists r, In r (rows c) /\ lbl r = l /\ due (T c + S c) r = true.
Proof.
  unfold active, active_at, labels. rewrite in_map_iff. split.
  - intros [r [E0 Hr]]. apply filter_In in Hr as [Hr Hd]. exists r. auto.
  - intros [r [Hr [E0 Hd]]]. exists r. split; [assumption|]. apply filter_In. auto.
Qed.

(* ---------- labels: 0 .. n-1, hence unique ---------- *)
Lemma zrange_in a n x : In x (zrange a n) -> a <= x.
Proof.
  revert a. induction n as [|k IH]; intros a H; simpl in *; [contradiction|].
  destruct H as [<-|H]; [lia|]. specialize (IH _ H). lia.
Qed.
Lemma zrange_nodup a n : NoDup (zrange a n).
Proof.
  revert a. induction n as [|k IH]; intros a; simpl; constructor; [|apply IH].
  intro H. apply zrange_in in H. lia.
Qed.
Lemma zrange_app a n k : zrange a (n + k) = zrange a n ++ zrange (a + Z.of_nat n) k.
Proof.
  revert a. induction n as [|n IH]; intros a; simpl.
  - now rewrite Z.add_0_r.
  - f_equal. rewrite IH. f_equal. f_equal. lia.
Qed.
Lemma labels_new_rows f n t s : labels (new_rows f n t s) = zrange f n.
Proof. revert f. induction n as [|k IH]; intros f; simpl; [reflexivity|]. f_equal. apply IH. Qed.

Lemma nodup_map_inj {A B} (f : A -> B) l x y : NoDup (map f l) -> In x l -> In y l -> f x = f y -> x = y.
Proof.
  induction l as [|a l IH]; intros Hnd Hx Hy E0; [contradiction|]. simpl in Hnd. inversion Hnd as [|? ? Hnin Hnd']; subst.
  destruct Hx as [->|Hx], Hy as [->|Hy]; auto.
  - exfalso. apply Hnin. rewrite E0. now apply in_map.
  - exfalso. apply Hnin. rewrite <- E0. now apply in_map.
Qed.

Lemma wf_row_unique c r1 r2 : WF c -> In r1 (rows c) -> In r2 (rows c) -> lbl r1 = lbl r2 -> r1 = r2.
Proof.
  intros Hwf. apply nodup_map_inj. fold (labels (rows c)). rewrite Hwf. apply zrange_nodup.
Qed.

(* each main-loop event includes exactly the simulants whose next-event time has been reached - which, at a step
   boundary and between the events of a step, are those whose next-event time equals the event time *)
Theorem wf_active_exact c r : WF c -> Inv c -> In r (rows c) -> (In (lbl r) (active c) <-> nxt r = T c + S c).
Proof.
  intros Hwf HI Hr. rewrite in_active_iff. split.
  - intros [r' [Hr' [E0 Hd]]]. rewrite (wf_row_unique c r' r Hwf Hr' Hr E0) in Hd. now apply (inv_due_iff c r HI Hr).
  - intros E0. exists r. split; [assumption|]. split; [reflexivity|]. now apply (inv_due_iff c r HI Hr).
Qed.

Lemma wf_create c n : WF c -> WF (create c n).
Proof.
  unfold WF, create, set_clk; cbn [rows]. intros H. unfold labels in *. rewrite map_app, app_length.
  fold (labels (new_rows (Z.of_nat (length (rows c))) n (T c + S c) (S c))). rewrite labels_new_rows.
  assert (L : length (new_rows (Z.of_nat (length (rows c))) n (T c + S c) (S c)) = n).
  { generalize (Z.of_nat (length (rows c))). induction n as [|k IH]; intros f; simpl; [reflexivity|]. now rewrite IH. }
  rewrite L, zrange_app, H. reflexivity.
Qed.
Lemma wf_snooze c idx : WF c -> WF (snooze_op c idx).
Proof. unfold snooze_op. destruct idx; auto. Qed.
Lemma wf_step_forward req c c' : WF c -> step_forward req c = Ok c' -> WF c'.
Proof.
  unfold WF. intros Hwf H. rewrite (step_forward_labels req c c' H), Hwf. f_equal.
  pose proof (f_equal (@length Z) (step_forward_labels req c c' H)) as L. unfold labels in L.
  rewrite !map_length in L. now rewrite L.
Qed.

(* ---------- one step_forward from a state satisfying the invariant ---------- *)
(* every iteration advances the global clock exactly to the earliest pending next-event time *)
Theorem clock_hits_earliest req c c' : Inv c -> rows c <> [] -> step_forward req c = Ok c' ->
  T c' = min_next (rows c).
Proof. intros HI Hne H. rewrite (step_forward_T req c c' H). now apply inv_hits_earliest. Qed.

(* no next-event time is passed without its simulant being included in the events of that step *)
Theorem never_passed req c c' : Inv c -> step_forward req c = Ok c' ->
  forall r, In r (rows c) -> T c' <= nxt r /\ (nxt r = T c' -> In (lbl r) (active c)).
Proof.
  intros HI H r Hr. rewrite (step_forward_T req c c' H). split.
  - now apply inv_all_ge.
  - intros E0. apply in_active_iff. exists r. split; [assumption|]. split; [reflexivity|].
    unfold due. apply Z.leb_le. lia.
Qed.

(* an included simulant's next-event time moves forward by its (new) step; everybody else keeps their row *)
Theorem included_advances req c c' : Inv c -> rows c <> [] -> step_forward req c = Ok c' ->
  forall r, In r (rows c) ->
    (due (T c + S c) r = true ->
       In {| lbl := lbl r; nxt := T c' + new_step req c (T c') (lbl r); stp := new_step req c (T c') (lbl r) |} (rows c')) /\
    (due (T c + S c) r = false -> In r (rows c')).
Proof.
  intros HI Hne H r Hr. pose proof (step_forward_T req c c' H) as HT.
  destruct (step_forward_cases req c c' H) as [[E0 _]|[[_ [HU E1]]|[_ [_ [_ E1]]]]]; [congruence| |].
  - exfalso. destruct (inv_active_exact c HI Hne) as [_ Ha]. apply Ha. unfold active, active_at. now rewrite HU.
  - rewrite HT. rewrite E1. cbn [rows set_clk].
    split; intros Hd; apply in_map_iff; exists r; (split; [|assumption]); unfold update_row; rewrite Hd; reflexivity.
Qed.

(* ---------- creation and move-to-end keep the invariant ---------- *)
Lemma new_rows_spec first n t s r : In r (new_rows first n t s) -> nxt r = t /\ stp r = s.
Proof.
  revert first. induction n as [|k IH]; intros first Hin; simpl in *; [contradiction|].
  destruct Hin as [<-|Hin]; [auto | eapply IH; eauto].
Qed.

Lemma min_next_app_ge rs extra t : rs <> [] -> min_next rs <= t -> (forall r, In r extra -> nxt r = t) ->
  min_next (rs ++ extra) = min_next rs.
Proof.
  intros Hne Hle Hex. apply Z.le_antisymm.
  - destruct (min_next_in rs Hne) as [r [Hr <-]]. apply min_next_le. apply in_or_app. now left.
  - assert (Hne' : rs ++ extra <> []) by (destruct rs; [congruence | discriminate]).
    destruct (min_next_in _ Hne') as [r [Hr <-]]. apply in_app_or in Hr as [Hr|Hr].
    + now apply min_next_le.
    + rewrite (Hex r Hr). exact Hle.
Qed.

Lemma min_next_all_eq rs t : rs <> [] -> (forall r, In r rs -> nxt r = t) -> min_next rs = t.
Proof. intros Hne H. destruct (min_next_in rs Hne) as [r [Hr <-]]. now apply H. Qed.

Theorem create_inv c n : Inv c -> Inv (create c n).
Proof.
  intros HI. pose proof HI as [Hs [Hlt HS]].
  unfold create, Inv, set_clk; cbn [T S rows]. split; [exact Hs|]. split.
  - intros r Hr. apply in_app_or in Hr as [Hr|Hr]; [auto|]. apply new_rows_spec in Hr as [-> _]. lia.
  - intros Hne'. destruct (rows c) as [|r0 rs] eqn:ER.
    + simpl in *. destruct n as [|k]; [simpl in Hne'; congruence|].
      rewrite (min_next_all_eq _ (T c + S c)); [lia | discriminate |].
        intros r Hr. now apply new_rows_spec in Hr as [-> _].
    + rewrite <- ER in *. assert (Hne : rows c <> []) by (rewrite ER; discriminate).
      rewrite (min_next_app_ge (rows c) _ (T c + S c) Hne); [exact (HS Hne) | specialize (HS Hne); lia |].
      intros r Hr. now apply new_rows_spec in Hr as [-> _].
Qed.

Theorem snooze_inv c idx : Inv c -> Inv (snooze_op c idx).
Proof. intros HI. unfold snooze_op. destruct idx; exact HI. Qed.

(* untracking touches nothing the clock looks at *)
Theorem untrack_inv c idx : Inv c -> Inv (untrack_op c idx).
Proof. intros HI. exact HI. Qed.
Lemma wf_untrack c idx : WF c -> WF (untrack_op c idx).
Proof. intros H. exact H. Qed.
Lemma active_untrack c idx : active (untrack_op c idx) = active c.
Proof. reflexivity. Qed.

(* ================= histories of StepForward / Create / Snooze ================= *)
Lemma apply_op_consts c o c1 : apply_op c o = Ok c1 -> E c1 = E c /\ m c1 = m c /\ std c1 = std c.
Proof.
  destruct o as [req|n|idx|idx]; simpl; intros H.
  - now apply (step_forward_consts req).
  - inversion H. auto.
  - inversion H. unfold snooze_op. destruct idx; auto.
  - inversion H. auto.
Qed.

(* every StepForward of the history is taken with non-negative requests and under [step_guard] *)
Fixpoint guards (c : clk) (ops : list op) : Prop :=
  match ops with
  | [] => True
  | o :: r => match o with StepForward req => req_ok c req /\ step_guard c | _ => True end /\
              forall c1, apply_op c o = Ok c1 -> guards c1 r
  end.

Lemma apply_op_inv c o c1 : 0 < m c -> Inv c ->
  match o with StepForward req => req_ok c req /\ step_guard c | _ => True end ->
  apply_op c o = Ok c1 -> Inv c1.
Proof.
  intros Hm HI Hg H. destruct o as [req|n|idx|idx]; simpl in H.
  - destruct Hg as [Hreq Hg]. apply (step_forward_establishes_inv req c c1 Hm Hreq Hg); [|exact H].
    intros _. now destruct HI.
  - inversion H. now apply create_inv.
  - inversion H. now apply snooze_inv.
  - inversion H. now apply untrack_inv.
Qed.

Theorem invariant_history ops : forall c c', 0 < m c -> Inv c -> guards c ops -> run_ops c ops = Ok c' -> Inv c'.
Proof.
  induction ops as [|o r IH]; intros c c' Hm HI Hg H; simpl in H.
  - inversion H; subst; assumption.
  - destruct Hg as [Hg Hrest]. destruct (apply_op c o) as [c1| |] eqn:E1; try discriminate.
    destruct (apply_op_consts c o c1 E1) as [_ [Hm1 _]].
    apply (IH c1 c'); [lia | now apply (apply_op_inv c o c1) | now apply Hrest | exact H].
Qed.

Lemma apply_op_wf c o c1 : WF c -> apply_op c o = Ok c1 -> WF c1.
Proof.
  intros Hwf H. destruct o as [req|n|idx|idx]; simpl in H.
  - now apply (wf_step_forward req c).
  - inversion H. now apply wf_create.
  - inversion H. now apply wf_snooze.
  - inversion H. now apply wf_untrack.
Qed.

Theorem wf_history ops : forall c c', WF c -> run_ops c ops = Ok c' -> WF c'.
Proof.
  induction ops as [|o r IH]; intros c c' Hwf H; simpl in H.
  - inversion H; subst; assumption.
  - destruct (apply_op c o) as [c1| |] eqn:E1; try discriminate.
    apply (IH c1 c'); [now apply (apply_op_wf c o) | exact H].
Qed.

Lemma run_ops_app ops1 : forall ops2 c c1, run_ops c ops1 = Ok c1 -> run_ops c (ops1 ++ ops2) = run_ops c1 ops2.
Proof.
  induction ops1 as [|o r IH]; intros ops2 c c1 H; simpl in *.
  - now inversion H.
  - destruct (apply_op c o) as [c2| |]; try discriminate. now apply IH.
Qed.

(* ================= the initial population ================= *)
Theorem initialize_inv req c n c' : 0 < m c -> 0 < S c -> req_ok c req -> rows c = [] -> snooze c = [] ->
  initialize req c n = Ok c' -> Inv c' /\ WF c' /\ T c' = T c /\ length (rows c') = n.
Proof.
  intros Hm Hs Hreq Hr Hsn H. unfold initialize in H.
  assert (Hrows : rows (pre_init c n) = new_rows 0 n (T c) (S c)).
  { unfold pre_init, create, set_clk; cbn [T S rows]. rewrite Hr. simpl. f_equal. lia. }
  assert (Hlen : forall f k t s, length (new_rows f k t s) = k).
  { intros f k. revert f. induction k as [|k IH]; intros f t s; simpl; [reflexivity|]. now rewrite IH. }
  split; [|split; [|split]].
  - apply (step_forward_establishes_inv req (pre_init c n) c').
    + exact Hm.
    + exact Hreq.
    + left. exact Hsn.
    + intros _. exact Hs.
    + exact H.
  - apply (wf_step_forward req (pre_init c n) c'); [|exact H]. unfold WF. rewrite Hrows, labels_new_rows, Hlen. reflexivity.
  - rewrite (step_forward_T req _ c' H). unfold pre_init, create, set_clk; cbn [T S]. lia.
  - pose proof (f_equal (@length Z) (step_forward_labels req _ c' H)) as L. unfold labels in L.
    rewrite !map_length in L. rewrite L, Hrows. apply Hlen.
Qed.

Lemma initialize_succeeds req c n : snooze c = [] -> exists c', initialize req c n = Ok c'.
Proof.
  intros Hsn. unfold initialize, step_forward. destruct (rows (pre_init c n)); [eexists; reflexivity|].
  destruct (filter _ _); [eexists; reflexivity|].
  assert (E0 : snooze (pre_init c n) = []) by (unfold pre_init, create, set_clk; cbn [snooze]; exact Hsn).
  rewrite E0. simpl. eexists; reflexivity.
Qed.

(* ================= engine.step ================= *)
Lemma active_snooze c idx : active (snooze_op c idx) = active c.
Proof. unfold snooze_op. destruct idx; reflexivity. Qed.

(* the state seen by each of the events of a step: same clock, same global step, the rows of the start of the step
   followed by the simulants born during the step; the invariant and label well-formedness carry over *)
Lemma run_events_spec acts : forall c c1 idxs, run_events c acts = (c1, idxs) ->
  run_ops c (flat_map ops_of acts) = Ok c1 /\
  forall idx, In idx idxs -> exists ck extra,
    idx = active ck /\ T ck = T c /\ S ck = S c /\ rows ck = rows c ++ extra /\ (Inv c -> Inv ck) /\ (WF c -> WF ck).
Proof.
  induction acts as [|a r IH]; intros c c1 idxs H; simpl in H.
  - inversion H; subst. split; [reflexivity | intros idx []].
  - destruct (run_events (ev_apply c a) r) as [c2 idxs'] eqn:E2. inversion H; subst.
    destruct (IH _ _ _ E2) as [Hops Hidx]. split; [simpl; exact Hops|].
    intros idx [<-|Hin].
    + exists c, []. rewrite app_nil_r. split; [reflexivity|]. split; [reflexivity|]. split; [reflexivity|].
      split; [reflexivity|]. split; auto.
    + destruct (Hidx idx Hin) as [ck [extra [Ha [HT [HS [Hrows [HI Hwf]]]]]]].
      set (cm := ev_apply c a) in *.
      assert (Hrm : exists ex0, rows cm = rows c ++ ex0).
      { unfold cm, ev_apply, create, untrack_op, set_clk; cbn [rows]. unfold snooze_op.
        destruct (sn a); cbn [rows set_clk]; eexists; reflexivity. }
      destruct Hrm as [ex0 Hrm]. exists ck, (ex0 ++ extra). rewrite app_assoc, <- Hrm.
      assert (HTm : T cm = T c /\ S cm = S c).
      { unfold cm, ev_apply, create, untrack_op, set_clk; cbn [T S]. unfold snooze_op. destruct (sn a); auto. }
      destruct HTm as [HTm HSm]. split; [exact Ha|]. split; [congruence|]. split; [congruence|].
      split; [congruence|]. split.
      * intros HI0. apply HI. unfold cm, ev_apply. apply create_inv. apply untrack_inv. now apply snooze_inv.
      * intros Hwf0. apply Hwf. unfold cm, ev_apply. apply wf_create. apply wf_untrack. now apply wf_snooze.
Qed.

Lemma run_events_consts acts : forall c c1 idxs, run_events c acts = (c1, idxs) ->
  E c1 = E c /\ m c1 = m c /\ std c1 = std c /\ T c1 = T c /\ S c1 = S c /\ (Inv c -> Inv c1) /\ (WF c -> WF c1).
Proof.
  induction acts as [|a r IH]; intros c c1 idxs H; simpl in H.
  - inversion H; subst. auto 10.
  - destruct (run_events (ev_apply c a) r) as [c3 idxs'] eqn:E3. inversion H; subst.
    destruct (IH _ _ _ E3) as [g1 [g2 [g3 [g4 [g5 [g6 g7]]]]]].
    assert (Hcm : forall cm, cm = ev_apply c a ->
                  E cm = E c /\ m cm = m c /\ std cm = std c /\ T cm = T c /\ S cm = S c).
    { intros cm ->. unfold ev_apply, create, untrack_op, set_clk, snooze_op; destruct (sn a); cbn; auto 10. }
    destruct (Hcm _ eq_refl) as [h1 [h2 [h3 [h4 h5]]]].
    split; [congruence|]. split; [congruence|]. split; [congruence|]. split; [congruence|]. split; [congruence|]. split.
    + intros HI. apply g6. unfold ev_apply. apply create_inv. apply untrack_inv. now apply snooze_inv.
    + intros Hwf. apply g7. unfold ev_apply. apply wf_create. apply wf_untrack. now apply wf_snooze.
Qed.

Lemma engine_step_as_ops z req c acts c' idxs : engine_step z req c acts = Ok (c', idxs) ->
  run_ops c (flat_map ops_of acts ++ [StepForward req]) = Ok c' /\ idxs = snd (run_events c acts).
Proof.
  unfold engine_step. destruct (z && (S c =? 0)); [discriminate|].
  destruct (run_events c acts) as [c1 idxs1] eqn:E1. destruct (step_forward req c1) as [c2| |] eqn:E2; try discriminate.
  intros H. inversion H; subst. destruct (run_events_spec acts c c1 idxs E1) as [Hops _]. split; [|reflexivity].
  rewrite (run_ops_app _ [StepForward req] c c1 Hops). simpl. now rewrite E2.
Qed.

(* every one of the four event indexes of a step contains exactly the simulants (alive at the start of the step) whose
   next-event time equals the event time *)
Theorem event_index_exact z req c acts c' idxs : WF c -> Inv c -> engine_step z req c acts = Ok (c', idxs) ->
  forall idx r, In idx idxs -> In r (rows c) -> (In (lbl r) idx <-> nxt r = T c + S c).
Proof.
  intros Hwf HI H idx r Hidx Hr. unfold engine_step in H. destruct (z && (S c =? 0)); [discriminate|].
  destruct (run_events c acts) as [c1 idxs1] eqn:E1. destruct (step_forward req c1) as [c2| |]; try discriminate.
  inversion H; subst. destruct (run_events_spec acts c c1 idxs E1) as [_ Hspec].
  destruct (Hspec idx Hidx) as [ck [extra [-> [HT [HS [Hrows [HIk Hwfk]]]]]]].
  rewrite <- HT, <- HS. apply wf_active_exact; auto. rewrite Hrows. apply in_or_app. now left.
Qed.

(* the whole step keeps the invariant (guards on the final step_forward as in [guards]) *)
Theorem engine_step_inv z req c acts c' idxs : 0 < m c -> Inv c -> req_ok c req ->
  (forall c1, fst (run_events c acts) = c1 -> step_guard c1) ->
  engine_step z req c acts = Ok (c', idxs) -> Inv c' /\ T c' = T c + S c.
Proof.
  intros Hm HI Hreq Hg H. unfold engine_step in H. destruct (z && (S c =? 0)); [discriminate|].
  destruct (run_events c acts) as [c1 idxs1] eqn:E1. destruct (step_forward req c1) as [c2| |] eqn:E2; try discriminate.
  inversion H; subst. destruct (run_events_spec acts c c1 idxs E1) as [Hops _].
  destruct (run_events_consts acts c c1 idxs E1) as [k1 [k2 [k3 [k4 [k5 [k6' _]]]]]]. pose proof (k6' HI) as k6.
  split.
  - apply (step_forward_establishes_inv req c1 c'); try assumption.
    + lia.
    + intros l. unfold req_ok in Hreq. rewrite k3. apply Hreq.
    + apply Hg. reflexivity.
    + intros _. now destruct k6.
  - rewrite (step_forward_T req c1 c' E2). lia.
Qed.

(* ================= InteractiveContext.step ================= *)
Theorem istep_none z req c acts : istep z None req c acts = engine_step z req c acts.
Proof.
  unfold istep. destruct (z && (S c =? 0)) eqn:E0.
  - unfold engine_step. now rewrite E0.
  - destruct (engine_step z req c acts) as [[c2 idxs]| |]; reflexivity.
Qed.

(* with an explicit override the step is taken with that step and the pre-step global step is put back *)
Theorem istep_override z s req c acts c' idxs : istep z (Some s) req c acts = Ok (c', idxs) ->
  exists c2, engine_step z req (with_S c s) acts = Ok (c2, idxs) /\ c' = with_S c2 (S c) /\ T c' = T c + s.
Proof.
  unfold istep. destruct (z && (S c =? 0)); [discriminate|].
  destruct (engine_step z req (with_S c s) acts) as [[c2 idxs2]| |] eqn:E2; try discriminate.
  intros H. inversion H; subst. exists c2. split; [reflexivity|]. split; [reflexivity|].
  unfold engine_step in E2. destruct (z && _); [discriminate|].
  destruct (run_events (with_S c s) acts) as [c1 idxs1] eqn:E1. destruct (step_forward req c1) as [c3| |] eqn:E3; try discriminate.
  inversion E2; subst. cbn [T with_S set_clk]. rewrite (step_forward_T req c1 c2 E3).
  destruct (run_events_consts acts _ c1 _ E1) as [_ [_ [_ [-> [-> _]]]]]. reflexivity.
Qed.

(* ================= simulants moved to the end ================= *)
(* a snoozed simulant that is due gets next = stop + minimum *)
Theorem snoozed_next req c c' r : Inv c -> step_forward req c = Ok c' -> In r (rows c) ->
  due (T c + S c) r = true -> zmem (lbl r) (snooze c) = true ->
  In {| lbl := lbl r; nxt := E c + m c; stp := E c + m c - T c' |} (rows c').
Proof.
  intros HI H Hr Hd Hs. assert (Hne : rows c <> []) by (intro E0; rewrite E0 in Hr; contradiction).
  destruct (included_advances req c c' HI Hne H r Hr) as [Ha _]. specialize (Ha Hd).
  unfold new_step in Ha. rewrite Hs in Ha. replace (T c' + (E c + m c - T c')) with (E c + m c) in Ha by lia. exact Ha.
Qed.

(* a row whose time is not reached by an operation is carried over unchanged *)
Lemma apply_op_keeps_far c o c1 r : apply_op c o = Ok c1 -> In r (rows c) ->
  match o with StepForward _ => T c + S c < nxt r | _ => True end -> In r (rows c1).
Proof.
  intros H Hr Hfar. destruct o as [req|n|idx|idx]; simpl in H; [| | |inversion H; exact Hr].
  - destruct (step_forward_cases req c c1 H) as [[E0 _]|[[_ [_ ->]]|[_ [_ [_ ->]]]]]; cbn [rows set_clk].
    + rewrite E0 in Hr. contradiction.
    + exact Hr.
    + apply in_map_iff. exists r. split; [|assumption]. unfold update_row, due.
      destruct (Z.leb_spec (nxt r) (T c + S c)); [lia | reflexivity].
  - inversion H. unfold create, set_clk; cbn [rows]. apply in_or_app. now left.
  - inversion H. unfold snooze_op. destruct idx; exact Hr.
Qed.

(* every StepForward of the history is an event at or before the stop time *)
Fixpoint within_end (c : clk) (ops : list op) : Prop :=
  match ops with
  | [] => True
  | o :: r => match o with StepForward _ => T c + S c <= E c | _ => True end /\
              forall c1, apply_op c o = Ok c1 -> within_end c1 r
  end.

Theorem snoozed_stays ops : forall c c' r, 0 < m c -> In r (rows c) -> nxt r = E c + m c ->
  within_end c ops -> run_ops c ops = Ok c' -> In r (rows c') /\ E c' = E c /\ m c' = m c.
Proof.
  induction ops as [|o ops IH]; intros c c' r Hm Hr Hn Hw H; simpl in H.
  - inversion H; subst. auto.
  - destruct Hw as [Hw Hrest]. destruct (apply_op c o) as [c1| |] eqn:E1; try discriminate.
    destruct (apply_op_consts c o c1 E1) as [HE [Hm1 _]].
    destruct (IH c1 c' r) as [h1 [h2 h3]]; try congruence; try lia.
    + apply (apply_op_keeps_far c o c1 r E1 Hr). destruct o; auto. lia.
    + now apply Hrest.
    + repeat split; congruence.
Qed.

Theorem snoozed_excluded c r : WF c -> 0 < m c -> In r (rows c) -> nxt r = E c + m c -> T c + S c <= E c ->
  ~ In (lbl r) (active c).
Proof.
  intros Hwf Hm Hr Hn Hle Hin. apply in_active_iff in Hin as [r' [Hr' [E0 Hd]]].
  rewrite (wf_row_unique c r' r Hwf Hr' Hr E0) in Hd. unfold due in Hd. apply Z.leb_le in Hd. lia.
Qed.

(* a simulant moved to the end while due is parked at stop + minimum, and through any later history of births,
   move-to-end requests and steps whose event time is at or before the stop time its row stays as it is and it is in
   no event index *)
Theorem snoozed_not_before_end req c c1 r : WF c -> Inv c -> 0 < m c ->
  step_forward req c = Ok c1 -> In r (rows c) -> due (T c + S c) r = true -> zmem (lbl r) (snooze c) = true ->
  let r' := {| lbl := lbl r; nxt := E c + m c; stp := E c + m c - T c1 |} in
  In r' (rows c1) /\
  forall ops c2, within_end c1 ops -> run_ops c1 ops = Ok c2 ->
    In r' (rows c2) /\ (T c2 + S c2 <= E c2 -> ~ In (lbl r) (active c2)).
Proof.
  intros Hwf HI Hm H Hr Hd Hs r'. pose proof (snoozed_next req c c1 r HI H Hr Hd Hs) as Hin. fold r' in Hin.
  split; [exact Hin|]. intros ops c2 Hw Hrun.
  destruct (step_forward_consts req c c1 H) as [HE [Hm1 _]].
  destruct (snoozed_stays ops c1 c2 r') as [h1 [h2 h3]]; try assumption; try lia.
  - unfold r'; cbn [nxt]. congruence.
  - split; [exact h1|]. intros Hle. change (lbl r) with (lbl r').
    apply snoozed_excluded; try assumption.
    + apply (wf_history ops c1 c2); [|exact Hrun]. now apply (wf_step_forward req c).
    + lia.
    + unfold r'; cbn [nxt]. congruence.
Qed.

(* ================= regression witnesses for the two repaired defects ================= *)
(* F-A (repaired by commit 47eaecae): under the old guard (Index.any(): truthiness of labels) the population {0} with a
   3-tick modifier keeps the 1-tick step and its clock row is never updated: the invariant breaks *)
Definition c_single0 : clk :=
  {| T := 0; S := 1; E := 10; m := 1; std := 1; rows := [ {| lbl := 0; nxt := 1; stp := 1 |} ]; snooze := [];
     untracked := [] |}.
Lemma inv_c_single0 : Inv c_single0.
Proof.
  unfold Inv, c_single0; simpl. split; [lia|]. split; [|reflexivity]. intros r [<-|[]]; simpl; lia.
Qed.

Theorem any_guard_refuted : exists c req c', Inv c /\ T c + S c < E c /\
  step_forward_any req c = Ok c' /\ ~ Inv c'.
Proof.
  exists c_single0, (fun _ => [Some 3]), (set_clk c_single0 1 1 (rows c_single0) []).
  split; [apply inv_c_single0|]. split; [vm_compute; reflexivity|]. split; [reflexivity|].
  intros [_ [H _]]. specialize (H {| lbl := 0; nxt := 1; stp := 1 |} (or_introl eq_refl)). simpl in H. lia.
Qed.

(* ... and with the repaired guard the same population is handled like any other *)
Example single0_ok : exists c', step_forward (fun _ => [Some 3]) c_single0 = Ok c' /\ Inv c' /\
  rows c' = [ {| lbl := 0; nxt := 4; stp := 3 |} ] /\ S c' = 3.
Proof.
  eexists. split; [reflexivity|]. split; [|split; reflexivity].
  apply (step_forward_establishes_inv (fun _ => [Some 3]) c_single0); try reflexivity.
  - intros l. vm_compute. discriminate.
  - left. reflexivity.
Qed.

(* F-B (repaired by commit 58535de7): InteractiveContext.step used to put the pre-step global step back always *)
Definition c_two : clk :=
  {| T := 0; S := 1; E := 20; m := 1; std := 1;
     rows := [ {| lbl := 0; nxt := 1; stp := 1 |}; {| lbl := 1; nxt := 1; stp := 1 |} ]; snooze := []; untracked := [] |}.
Lemma inv_c_two : Inv c_two.
Proof.
  unfold Inv, c_two; simpl. split; [lia|]. split; [|reflexivity]. intros r [<-|[<-|[]]]; simpl; lia.
Qed.
Theorem istep_old_refuted : exists c req c' idxs, Inv c /\ istep_old false req c [] = Ok (c', idxs) /\ ~ Inv c'.
Proof.
  exists c_two, (fun l => [Some (2 + l)]). eexists. eexists. split; [apply inv_c_two|]. split; [reflexivity|].
  intros [_ [_ H]]. vm_compute in H. specialize (H ltac:(discriminate)). discriminate.
Qed.
(* an explicit override is the caller's own schedule: it may leave the global step stale (documented behaviour) *)
Example istep_override_may_break_inv : exists c' idxs,
  istep false (Some 5) (fun l => [Some (2 + l)]) c_two [] = Ok (c', idxs) /\ ~ Inv c'.
Proof.
  eexists. eexists. split; [reflexivity|]. intros [_ [_ H]]. vm_compute in H. specialize (H ltac:(discriminate)). discriminate.
Qed.

(* ================= drivers: run() = engine steps; take_steps = InteractiveContext steps ================= *)
Fixpoint run_engine (z : bool) (c : clk) (steps : list step_spec) : result clk :=
  match steps with
  | [] => Ok c
  | (req, acts) :: r => match engine_step z req c acts with
                        | Ok (c1, _) => run_engine z c1 r
                        | Rejected e => Rejected e
                        | OutOfFuel => OutOfFuel
                        end
  end.
Fixpoint run_interactive (z : bool) (c : clk) (steps : list (option Z * step_spec)) : result clk :=
  match steps with
  | [] => Ok c
  | (ovr, (req, acts)) :: r => match istep z ovr req c acts with
                               | Ok (c1, _) => run_interactive z c1 r
                               | Rejected e => Rejected e
                               | OutOfFuel => OutOfFuel
                               end
  end.

(* stepping an InteractiveContext without overrides IS run()'s sequence of steps *)
Theorem interactive_no_override_eq_run z steps : forall c,
  run_interactive z c (map (fun s => (None, s)) steps) = run_engine z c steps.
Proof.
  induction steps as [|[req acts] r IH]; intros c; simpl; [reflexivity|].
  rewrite istep_none. destruct (engine_step z req c acts) as [[c1 idxs]| |]; auto.
Qed.

Fixpoint engine_guards (z : bool) (c : clk) (steps : list step_spec) : Prop :=
  match steps with
  | [] => True
  | (req, acts) :: r => req_ok c req /\ step_guard (fst (run_events c acts)) /\
                        forall c1 idxs, engine_step z req c acts = Ok (c1, idxs) -> engine_guards z c1 r
  end.

Theorem engine_history z steps : forall c c', 0 < m c -> Inv c -> WF c -> engine_guards z c steps ->
  run_engine z c steps = Ok c' -> Inv c' /\ WF c'.
Proof.
  induction steps as [|[req acts] r IH]; intros c c' Hm HI Hwf Hg H; simpl in H.
  - inversion H; subst. auto.
  - destruct Hg as [Hreq [Hsg Hrest]]. destruct (engine_step z req c acts) as [[c1 idxs]| |] eqn:E1; try discriminate.
    destruct (engine_step_inv z req c acts c1 idxs Hm HI Hreq) as [HI1 _]; [intros c0 <-; exact Hsg | exact E1 |].
    destruct (engine_step_as_ops z req c acts c1 idxs E1) as [Hops _].
    assert (Hm1 : m c1 = m c).
    { clear - Hops. revert c Hops. generalize (flat_map ops_of acts ++ [StepForward req]).
      induction l as [|o l IHl]; intros c Hops; simpl in Hops; [now inversion Hops|].
      destruct (apply_op c o) as [c2| |] eqn:E2; try discriminate.
      destruct (apply_op_consts c o c2 E2) as [_ [h _]]. rewrite (IHl c2 Hops). exact h. }
    apply (IH c1 c'); [lia | exact HI1 | exact (wf_history _ c c1 Hwf Hops) | exact (Hrest c1 idxs eq_refl) | exact H].
Qed.

(* ================= untracked simulants: the engine hands the clock the FULL population ================= *)
Definition lift_untracked (u : list Z) (r : result clk) : result clk :=
  match r with Ok c' => Ok (with_untracked c' u) | Rejected e => Rejected e | OutOfFuel => OutOfFuel end.

Lemma step_forward_with_untracked req c u :
  step_forward req (with_untracked c u) = lift_untracked u (step_forward req c).
Proof.
  unfold step_forward, with_untracked; cbn [T S rows snooze]. destruct (rows c) as [|r0 rs]; [reflexivity|].
  destruct (filter _ (r0 :: rs)); [reflexivity|]. destruct (forallb _ (snooze c)); reflexivity.
Qed.

Definition not_untrack (o : op) : bool := match o with Untrack _ => false | _ => true end.
Definition erase_untrack (ops : list op) : list op := filter not_untrack ops.
(* what the clock is made of: everything except the tracked flags *)
Definition clock_of (r : result clk) : result clk := lift_untracked [] r.

Lemma apply_op_with_untracked c u o : not_untrack o = true ->
  apply_op (with_untracked c u) o = lift_untracked u (apply_op c o).
Proof.
  destruct o as [req|n|idx|idx]; intros H; simpl in *; try discriminate.
  - apply step_forward_with_untracked.
  - reflexivity.
  - unfold snooze_op. destruct idx; reflexivity.
Qed.

(* whichever simulants are untracked, whenever: clock, global step, both clock columns, pending move-to-end set, errors
   - the whole schedule - are those of the same history without any untracking *)
Theorem untracked_never_matters ops : forall c u,
  clock_of (run_ops c ops) = clock_of (run_ops (with_untracked c u) (erase_untrack ops)).
Proof.
  induction ops as [|o r IH]; intros c u.
  - reflexivity.
  - destruct (not_untrack o) eqn:En.
    + unfold erase_untrack. simpl. rewrite En. fold (erase_untrack r). simpl.
      rewrite (apply_op_with_untracked c u o En). destruct (apply_op c o) as [c1| |]; simpl; [apply IH | reflexivity | reflexivity].
    + destruct o as [req|n|idx|idx]; try discriminate. unfold erase_untrack. simpl. fold (erase_untrack r).
      rewrite (IH (untrack_op c idx) u). reflexivity.
Qed.

(* an untracked simulant is in an event index exactly when its time has been reached, like everybody else *)
Theorem untracked_in_events c r : WF c -> Inv c -> In r (rows c) -> In (lbl r) (untracked c) ->
  (In (lbl r) (active c) <-> nxt r = T c + S c).
Proof. intros Hwf HI Hr _. now apply wf_active_exact. Qed.

Lemma filter_true {A} (l : list A) : filter (fun _ => true) l = l.
Proof. induction l as [|x l IH]; simpl; [reflexivity | now rewrite IH]. Qed.

(* the clock on the whole population is the index-restricted clock with nobody left out *)
Lemma step_forward_on_all req c : step_forward_on (fun _ => true) req c = step_forward req c.
Proof.
  unfold step_forward_on, step_forward. rewrite filter_true. destruct (rows c) as [|r0 rs] eqn:ER; [reflexivity|].
  destruct (filter _ (r0 :: rs)); [reflexivity|]. destruct (forallb _ (snooze c)); [|reflexivity].
  rewrite filter_true. reflexivity.
Qed.

(* regression (F-C, repaired by commit a70d8de6): InteractiveContext used to hand the clock the TRACKED simulants only;
   an untracked simulant's time is then passed without it being updated *)
Definition c_untracked1 : clk :=
  {| T := 0; S := 1; E := 20; m := 1; std := 1;
     rows := [ {| lbl := 0; nxt := 1; stp := 1 |}; {| lbl := 1; nxt := 1; stp := 1 |} ]; snooze := []; untracked := [1] |}.
Theorem tracked_only_refuted : exists c req c', Inv c /\ WF c /\
  step_forward_on (is_tracked c) req c = Ok c' /\ (exists r, In r (rows c') /\ nxt r <= T c') /\ ~ Inv c'.
Proof.
  exists c_untracked1, (fun _ => [Some 2]). eexists. split; [|split; [reflexivity|split; [reflexivity|split]]].
  - unfold Inv, c_untracked1; simpl. split; [lia|]. split; [|reflexivity]. intros r [<-|[<-|[]]]; simpl; lia.
  - exists {| lbl := 1; nxt := 1; stp := 1 |}. split; [right; left; reflexivity | simpl; lia].
  - intros [_ [H _]]. specialize (H {| lbl := 1; nxt := 1; stp := 1 |} (or_intror (or_introl eq_refl))). simpl in H. lia.
Qed.

(* ================= run_until / run_for / run ================= *)
Lemma engine_step_T z req c acts c' idxs : engine_step z req c acts = Ok (c', idxs) -> T c' = T c + S c.
Proof.
  unfold engine_step. destruct (z && _); [discriminate|]. destruct (run_events c acts) as [c1 idxs1] eqn:E1.
  destruct (step_forward req c1) as [c2| |] eqn:E2; try discriminate. intros H; inversion H; subst.
  rewrite (step_forward_T req c1 c' E2). destruct (run_events_consts acts c c1 _ E1) as [_ [_ [_ [-> [-> _]]]]]. reflexivity.
Qed.

(* every step moves the clock forward *)
Theorem engine_step_progress z req c acts c' idxs : Inv c -> engine_step z req c acts = Ok (c', idxs) -> T c < T c'.
Proof. intros [Hs _] H. rewrite (engine_step_T _ _ _ _ _ _ H). lia. Qed.

Theorem run_until_spec z e steps : forall c c' n, run_until z e c steps = Ok (c', n) ->
  e <= T c' /\ (n <= length steps)%nat /\ run_engine z c (firstn n steps) = Ok c' /\
  forall k ck, (k < n)%nat -> run_engine z c (firstn k steps) = Ok ck -> T ck < e.
Proof.
  induction steps as [|[req acts] r IH]; intros c c' n H; simpl in H.
  - destruct (Z.ltb_spec (T c) e); [discriminate|]. inversion H; subst.
    split; [assumption|]. split; [simpl; lia|]. split; [reflexivity|]. intros k ck Hk. lia.
  - destruct (Z.ltb_spec (T c) e) as [Hlt|Hge].
    + destruct (engine_step z req c acts) as [[c1 idxs]| |] eqn:E1; try discriminate.
      destruct (run_until z e c1 r) as [[c2 n']| |] eqn:E2; try discriminate. inversion H; subst.
      destruct (IH c1 c' n' E2) as [h1 [h2 [h3 h4]]]. split; [exact h1|]. split; [simpl; lia|]. split.
      * simpl. rewrite E1. exact h3.
      * intros k ck Hk Hrun. destruct k as [|k']; simpl in Hrun.
        -- inversion Hrun; subst. exact Hlt.
        -- rewrite E1 in Hrun. apply (h4 k' ck); [lia | exact Hrun].
    + inversion H; subst. split; [assumption|]. split; [simpl; lia|]. split; [reflexivity|]. intros k ck Hk. lia.
Qed.

Theorem run_until_noop z e c steps : e <= T c -> run_until z e c steps = Ok (c, O).
Proof.
  intros H. destruct steps as [|[req acts] r]; simpl; destruct (Z.ltb_spec (T c) e); try lia; reflexivity.
Qed.

Lemma engine_guards_firstn z n : forall steps c, engine_guards z c steps -> engine_guards z c (firstn n steps).
Proof.
  induction n as [|n IH]; intros steps c Hg; [exact I|]. destruct steps as [|[req acts] r]; [exact I|].
  simpl in *. destruct Hg as [h1 [h2 h3]]. split; [exact h1|]. split; [exact h2|]. intros c1 idxs H1. apply IH. now apply (h3 c1 idxs).
Qed.

(* run_until / run_for / run keep the invariant, stop at the first step boundary at or after the end time, never take a
   step from a boundary at or after it, and return the number of steps taken *)
Theorem run_until_inv z e steps c c' n : 0 < m c -> Inv c -> WF c -> engine_guards z c steps ->
  run_until z e c steps = Ok (c', n) -> Inv c' /\ WF c' /\ e <= T c'.
Proof.
  intros Hm HI Hwf Hg H. destruct (run_until_spec z e steps c c' n H) as [h1 [_ [h3 _]]].
  destruct (engine_history z (firstn n steps) c c' Hm HI Hwf (engine_guards_firstn z n steps c Hg) h3) as [a b]. auto.
Qed.
