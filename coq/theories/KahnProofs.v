(* C09 - soundness, cycle refusal, fuel sufficiency and completeness of the FIFO Kahn model (Kahn.v). *)
From Coq Require Import Permutation Arith.
From Viv Require Import Common Kahn.

Lemma NoDup_app_snoc (A:Type) (l : list A) (x : A) : NoDup l -> ~ In x l -> NoDup (l ++ [x]).
Proof. induction l as [|a l IH]; simpl; intros Hn Hx.
  - constructor; [auto|constructor].
  - inversion Hn; subst. constructor.
    + intro Hi. apply in_app_or in Hi as [Hi|[->|[]]]; auto.
    + apply IH; auto. Qed.

Lemma NoDup_app_l (A:Type) (l l' : list A) : NoDup (l ++ l') -> NoDup l.
Proof. induction l as [|a l IH]; simpl; intros H; [constructor|].
  inversion H; subst. constructor; [|auto]. intro Hi. apply H2. apply in_or_app; auto. Qed.

Lemma NoDup_mid_notin (A:Type) (l1 l2 : list A) (x : A) : NoDup (l1 ++ x :: l2) -> ~ In x l1 /\ ~ In x l2.
Proof. intros H. apply NoDup_remove_2 in H. split; intro Hi; apply H; apply in_or_app; auto. Qed.

Section Proof.
Context {node : Type}.
Variable eqb : node -> node -> bool.
Hypothesis eqb_eq : forall a b, eqb a b = true <-> a = b.
Variable nodes : list node.
Variable edges : list (node * node).

Lemma eqb_refl a : eqb a a = true.
Proof. now apply eqb_eq. Qed.
Lemma eqb_neq a b : eqb a b = false <-> a <> b.
Proof. rewrite <- eqb_eq. destruct (eqb a b); split; congruence. Qed.
Definition node_dec (a b : node) : {a = b} + {a <> b}.
Proof. destruct (eqb a b) eqn:E; [left; now apply eqb_eq | right; now apply eqb_neq]. Defined.

Notation succs := (succs eqb edges).
Notation indeg0 := (indeg0 eqb edges).
Notation dec_all := (dec_all eqb).
Notation loop := (loop eqb edges).
Notation memb := (memb eqb).

Lemma memb_In x l : memb x l = true <-> In x l.
Proof. unfold Kahn.memb. rewrite existsb_exists. split.
  - intros [y [Hy He]]. apply eqb_eq in He. subst; auto.
  - intros H. exists x. split; auto. apply eqb_refl. Qed.
Lemma memb_false x l : memb x l = false <-> ~ In x l.
Proof. rewrite <- memb_In. destruct (memb x l); split; congruence. Qed.

(* number of edges into v whose source is not yet emitted *)
Definition cnt (out : list node) (v : node) : nat :=
  length (filter (fun e => eqb (snd e) v && negb (memb (fst e) out)) edges).

Definition ecount (u v : node) : nat :=
  length (filter (fun e => eqb (fst e) u && eqb (snd e) v) edges).

Lemma count_succs u v : count_occ node_dec (succs u) v = ecount u v.
Proof.
  unfold Kahn.succs, ecount. induction edges as [|[a b] es IH]; simpl; auto.
  destruct (eqb a u) eqn:Ea; simpl.
  - destruct (node_dec b v) as [->|Hn].
    + rewrite eqb_refl. simpl. now rewrite IH.
    + apply eqb_neq in Hn. rewrite Hn. now rewrite IH.
  - exact IH.
Qed.

Lemma cnt_snoc out u v : ~ In u out -> cnt out v = cnt (out ++ [u]) v + ecount u v.
Proof.
  intros Hu. unfold cnt, ecount. induction edges as [|[a b] es IH]; simpl; auto.
  destruct (eqb b v) eqn:Eb; simpl.
  - destruct (eqb a u) eqn:Ea; simpl.
    + apply eqb_eq in Ea. subst a.
      assert (H1: memb u out = false) by (apply memb_false; auto).
      assert (H2: memb u (out ++ [u]) = true) by (apply memb_In, in_or_app; right; simpl; auto).
      rewrite H1, H2. simpl. lia.
    + assert (H : memb a (out ++ [u]) = memb a out).
      { unfold Kahn.memb. rewrite existsb_app. simpl. rewrite Ea. now rewrite !orb_false_r. }
      rewrite H. destruct (memb a out); simpl; lia.
  - rewrite andb_false_r. simpl. exact IH.
Qed.

Lemma cnt_zero out v : cnt out v = 0 -> forall u, In (u, v) edges -> In u out.
Proof.
  unfold cnt. intros H u Hin.
  destruct (memb u out) eqn:E; [now apply memb_In|].
  assert (In (u,v) (filter (fun e => eqb (snd e) v && negb (memb (fst e) out)) edges)).
  { apply filter_In. split; auto. simpl. rewrite eqb_refl, E. reflexivity. }
  remember (filter (fun e => eqb (snd e) v && negb (memb (fst e) out)) edges) as fl.
  destruct fl; simpl in *; [contradiction|discriminate].
Qed.

(* a positive count exhibits an edge from a not-yet-emitted source *)
Lemma cnt_pos out v : cnt out v > 0 -> exists u, In (u, v) edges /\ ~ In u out.
Proof.
  unfold cnt. intros H.
  remember (filter (fun e => eqb (snd e) v && negb (memb (fst e) out)) edges) as fl.
  destruct fl as [|[a b] fl]; simpl in H; [lia|].
  assert (Hin : In (a, b) (filter (fun e => eqb (snd e) v && negb (memb (fst e) out)) edges))
    by (rewrite <- Heqfl; simpl; auto).
  apply filter_In in Hin as [Hin Hc]. simpl in Hc. apply andb_true_iff in Hc as [Hb Ha].
  apply eqb_eq in Hb. subst b. exists a. split; [exact Hin|].
  apply memb_false. now destruct (memb a out).
Qed.

Lemma in_succs u c : In c (succs u) <-> In (u,c) edges.
Proof. unfold Kahn.succs. rewrite in_map_iff. split.
  - intros [[a b] [Hb Hf]]. simpl in Hb. subst. apply filter_In in Hf as [Hi He]. simpl in He.
    apply eqb_eq in He. now subst.
  - intros H. exists (u,c). split; auto. apply filter_In. split; auto. simpl. apply eqb_refl. Qed.

(* inner-loop invariant; out' is the emitted list including the node being expanded *)
Record J (out' : list node) (m : node -> nat) (q R : list node) : Prop := {
  J1 : NoDup (out' ++ q);
  J2 : forall v, In v q -> forall u, In (u,v) edges -> In u out';
  J3 : forall v, ~ In v (out' ++ q) -> m v = cnt out' v + count_occ node_dec R v;
  J4 : forall c, In c R -> ~ In c (out' ++ q);
  J5 : incl q nodes
}.

Lemma upd_same m c x : upd eqb m c x c = x.
Proof. unfold upd. now rewrite eqb_refl. Qed.

Lemma dec_all_J out' R : forall m q,
  (forall c, In c R -> In c nodes) ->
  J out' m q R ->
  let '(m', q') := dec_all m R q in J out' m' q' [].
Proof.
  induction R as [|c R IH]; intros m q HR HJ; simpl.
  - exact HJ.
  - destruct HJ as [H1 H2 H3 H4 H5].
    assert (Hc : ~ In c (out' ++ q)) by (apply H4; simpl; auto).
    assert (Hm : m c = cnt out' c + S (count_occ node_dec R c)).
    { rewrite (H3 c Hc). simpl. destruct (node_dec c c); [reflexivity|congruence]. }
    rewrite upd_same.
    destruct (Nat.eqb (m c - 1) 0) eqn:Ez.
    + (* enqueue c *)
      apply Nat.eqb_eq in Ez.
      assert (Hcnt : cnt out' c = 0) by lia.
      assert (HcR : count_occ node_dec R c = 0) by lia.
      apply IH; [intros; apply HR; simpl; auto|].
      constructor.
      * rewrite app_assoc. apply NoDup_app_snoc; auto.
      * intros v Hv u Hu. apply in_app_or in Hv as [Hv|[<-|[]]]; [eauto|].
        eapply cnt_zero; eauto.
      * intros v Hv. unfold upd.
        destruct (eqb v c) eqn:Evc.
        { apply eqb_eq in Evc. subst v. exfalso. apply Hv. rewrite app_assoc. apply in_or_app. right. simpl; auto. }
        rewrite H3.
        2:{ intro Hi. apply Hv. rewrite app_assoc. apply in_or_app. left. exact Hi. }
        simpl. apply eqb_neq in Evc. destruct (node_dec c v); [congruence|reflexivity].
      * intros c' Hc' Hin. rewrite app_assoc in Hin. apply in_app_or in Hin as [Hin|[<-|[]]].
        { apply (H4 c'); simpl; auto. }
        { apply (count_occ_not_In node_dec) in HcR. contradiction. }
      * intros x Hx. apply in_app_or in Hx as [Hx|[<-|[]]]; [auto|]. apply HR. simpl; auto.
    + (* not yet zero *)
      apply IH; [intros; apply HR; simpl; auto|].
      constructor; auto.
      * intros v Hv. unfold upd. destruct (eqb v c) eqn:Evc.
        { apply eqb_eq in Evc. subst v. lia. }
        rewrite (H3 v Hv). simpl. apply eqb_neq in Evc. destruct (node_dec c v); [congruence|reflexivity].
      * intros c' Hc'. apply H4. simpl; auto.
Qed.

(* the inner loop never touches the counter of a node outside R, and a node it leaves out of the queue keeps a
   positive counter *)
Lemma dec_all_pos R : forall m q v,
  (m v > 0 \/ In v q) ->
  let '(m', q') := dec_all m R q in (m' v > 0 \/ In v q').
Proof.
  induction R as [|c R IH]; intros m q v H; simpl; [exact H|].
  rewrite upd_same.
  destruct (Nat.eqb (m c - 1) 0) eqn:Ez.
  - apply IH. destruct H as [H|H]; [|right; apply in_or_app; now left].
    unfold upd. destruct (eqb v c) eqn:E.
    + apply eqb_eq in E. subst v. right. apply in_or_app. right. simpl; auto.
    + now left.
  - apply IH. destruct H as [H|H]; [|now right].
    unfold upd. destruct (eqb v c) eqn:E; [|now left].
    apply Nat.eqb_neq in Ez. left. lia.
Qed.

(* ---- outer loop ---- *)
Fixpoint ord_rev (r : list node) : Prop :=
  match r with
  | [] => True
  | v :: r' => (forall u, In (u,v) edges -> In u r') /\ ord_rev r'
  end.

Lemma ord_rev_closed r : ord_rev r -> forall c u, In c r -> In (u,c) edges -> In u r.
Proof. induction r as [|v r IH]; simpl; intros Ho c u Hc He; [contradiction|].
  destruct Ho as [Hv Ho]. destruct Hc as [->|Hc]; [right; eauto|right; eapply IH; eauto]. Qed.

Record I (m : node -> nat) (q out : list node) : Prop := {
  I1 : NoDup (out ++ q);
  I2 : forall v, In v q -> forall u, In (u,v) edges -> In u out;
  I3 : forall v, ~ In v (out ++ q) -> m v = cnt out v;
  I4 : ord_rev (rev out);
  I5 : incl (out ++ q) nodes;
  I6 : forall v, In v nodes -> ~ In v (out ++ q) -> m v > 0
}.

Hypothesis edges_closed : forall u v, In (u,v) edges -> In u nodes /\ In v nodes.

Lemma dec_all_incl R : forall m q, incl q (snd (dec_all m R q)).
Proof.
  induction R as [|c R IH]; intros m q; simpl; [apply incl_refl|].
  destruct (Nat.eqb (upd eqb m c (m c - 1) c) 0).
  - intros x Hx. apply IH. apply in_or_app. now left.
  - apply IH.
Qed.

Lemma step_I m u q out :
  I m (u :: q) out ->
  let '(m', q') := dec_all m (succs u) q in I m' q' (out ++ [u]).
Proof.
  intros [H1 H2 H3 H4 H5 H6].
  destruct (NoDup_mid_notin _ _ _ _ H1) as [Huo Huq].
  assert (HJ : J (out ++ [u]) m q (succs u)).
  { constructor.
    - rewrite <- app_assoc. exact H1.
    - intros v Hv w Hw. apply in_or_app. left. eapply H2; simpl; eauto.
    - intros v Hv. rewrite count_succs. rewrite <- cnt_snoc by exact Huo. apply H3.
      intro Hi. apply Hv. rewrite <- app_assoc. exact Hi.
    - intros c Hc Hin. apply in_succs in Hc.
      rewrite <- app_assoc in Hin. apply in_app_or in Hin as [Hin|[<-|Hin]].
      + apply Huo. apply in_rev. eapply ord_rev_closed; eauto. now apply in_rev in Hin.
      + apply Huo. eapply H2; simpl; eauto.
      + apply Huo. eapply (H2 c); simpl; eauto.
    - intros x Hx. apply H5. apply in_or_app. right. simpl; auto. }
  pose proof (dec_all_J (out ++ [u]) (succs u) m q) as HD.
  assert (HP : forall v, In v nodes -> ~ In v (out ++ u :: q) ->
               let '(m', q') := dec_all m (succs u) q in (m' v > 0 \/ In v q')).
  { intros v Hv Hn. apply dec_all_pos. left. now apply H6. }
  pose proof (dec_all_incl (succs u) m q) as HQ.
  destruct (dec_all m (succs u) q) as [m' q']. simpl in HQ.
  assert (Hn : forall c, In c (succs u) -> In c nodes).
  { intros c Hc. apply in_succs in Hc. now apply edges_closed in Hc. }
  specialize (HD Hn HJ). destruct HD as [K1 K2 K3 K4 K5].
  constructor; auto.
  - intros v Hv. rewrite (K3 v Hv). simpl. lia.
  - rewrite rev_unit. simpl. split; [|exact H4].
    intros w Hw. apply in_rev. rewrite rev_involutive. eapply H2; simpl; eauto.
  - intros x Hx. apply in_app_or in Hx as [Hx|Hx]; [|auto].
    apply in_app_or in Hx as [Hx|[<-|[]]]; apply H5; apply in_or_app; [left|right]; simpl; auto.
  - intros v Hv Hn'.
    assert (Hn0 : ~ In v (out ++ u :: q)).
    { intro Hi. apply Hn'. apply in_app_or in Hi as [Hi|[<-|Hi]].
      - apply in_or_app. left. apply in_or_app. now left.
      - apply in_or_app. left. apply in_or_app. right. simpl; auto.
      - apply in_or_app. right. now apply HQ. }
    destruct (HP v Hv Hn0) as [Hp|Hp]; [exact Hp|].
    exfalso. apply Hn'. apply in_or_app. now right.
Qed.

(* what is known of the list the loop returns *)
Definition terminal (o : list node) : Prop :=
  NoDup o /\ incl o nodes /\ ord_rev (rev o) /\ (forall v, In v nodes -> ~ In v o -> cnt o v > 0).

Lemma loop_I fuel : forall m q out o, I m q out -> loop fuel m q out = Some o -> terminal o.
Proof.
  induction fuel as [|f IH]; intros m q out o HI; destruct q as [|u q]; simpl.
  - intros [= <-]. destruct HI as [H1 _ H3 H4 H5 H6]. rewrite app_nil_r in *. repeat split; auto.
    intros v Hv Hn. rewrite <- (H3 v Hn). now apply H6.
  - discriminate.
  - intros [= <-]. destruct HI as [H1 _ H3 H4 H5 H6]. rewrite app_nil_r in *. repeat split; auto.
    intros v Hv Hn. rewrite <- (H3 v Hn). now apply H6.
  - pose proof (step_I m u q out HI) as HS.
    destruct (dec_all m (succs u) q) as [m' q']. intros HL. eapply IH; eauto.
Qed.

(* fuel = |nodes| is always enough: every iteration emits a new node *)
Lemma loop_fuel fuel : forall m q out, I m q out -> length nodes <= length out + fuel ->
  loop fuel m q out <> None.
Proof.
  induction fuel as [|f IH]; intros m q out HI Hlen; destruct q as [|u q]; simpl; try discriminate.
  - exfalso. destruct HI as [H1 _ _ _ H5 _].
    pose proof (NoDup_incl_length H1 H5) as HL. rewrite app_length in HL. simpl in HL. lia.
  - pose proof (step_I m u q out HI) as HS.
    destruct (dec_all m (succs u) q) as [m' q']. apply IH; [exact HS|].
    rewrite app_length. simpl. lia.
Qed.

Hypothesis nodes_nodup : NoDup nodes.

Lemma init_I : I indeg0 (filter (fun v => Nat.eqb (indeg0 v) 0) nodes) [].
Proof.
  constructor; simpl.
  - now apply NoDup_filter.
  - intros v Hv u Hu. apply filter_In in Hv as [_ Hz]. apply Nat.eqb_eq in Hz.
    unfold Kahn.indeg0 in Hz.
    assert (In (u,v) (filter (fun e => eqb (snd e) v) edges)) by (apply filter_In; split; auto; simpl; apply eqb_refl).
    remember (filter (fun e => eqb (snd e) v) edges) as fl. destruct fl; simpl in *; [contradiction|discriminate].
  - intros v _. unfold Kahn.indeg0, cnt. f_equal.
    apply filter_ext. intros [a b]. simpl. now rewrite andb_true_r.
  - exact Logic.I.
  - intros x Hx. now apply filter_In in Hx as [Hx _].
  - intros v Hv Hn. destruct (indeg0 v) eqn:E; [|lia]. exfalso. apply Hn.
    apply filter_In. split; [exact Hv|]. now rewrite E.
Qed.

(* every edge's source strictly precedes its target in o *)
Definition respects (o : list node) : Prop :=
  forall l1 v l2, o = l1 ++ v :: l2 -> forall u, In (u,v) edges -> In u l1.

Lemma ord_rev_respects o : ord_rev (rev o) -> respects o.
Proof.
  unfold respects. intros Ho l1 v l2 -> u Hu.
  rewrite rev_app_distr in Ho. simpl in Ho. rewrite <- app_assoc in Ho. simpl in Ho.
  revert Ho. generalize (rev l2) as r. induction r as [|x r IH]; simpl; intros Ho.
  - destruct Ho as [Hv _]. apply in_rev. eauto.
  - destruct Ho as [_ Ho]. auto.
Qed.

Notation kahn := (kahn eqb nodes edges).

Theorem kahn_never_out_of_fuel : kahn <> OutOfFuel.
Proof.
  unfold Kahn.kahn.
  pose proof (loop_fuel (length nodes) _ _ _ init_I) as HF. simpl in HF. specialize (HF (le_n _)).
  destruct (loop (length nodes) indeg0 (filter (fun v => Nat.eqb (indeg0 v) 0) nodes) []) as [out|]; [|congruence].
  destruct (Nat.eqb (length out) (length nodes)); discriminate.
Qed.

Theorem kahn_error_class e : kahn = Rejected e -> e = EResource.
Proof.
  unfold Kahn.kahn.
  destruct (loop (length nodes) indeg0 (filter (fun v => Nat.eqb (indeg0 v) 0) nodes) []) as [out|]; [|discriminate].
  destruct (Nat.eqb (length out) (length nodes)); [discriminate|]. now intros [= <-].
Qed.

Theorem kahn_sound o : kahn = Ok o -> Permutation o nodes /\ respects o.
Proof.
  unfold Kahn.kahn.
  destruct (loop (length nodes) indeg0 (filter (fun v => Nat.eqb (indeg0 v) 0) nodes) []) as [out|] eqn:EL; [|discriminate].
  destruct (loop_I _ _ _ _ _ init_I EL) as [Hn [Hi [Ho _]]].
  destruct (Nat.eqb (length out) (length nodes)) eqn:El; [|discriminate].
  intros [= <-]. apply Nat.eqb_eq in El. split.
  - apply NoDup_Permutation_bis; auto. lia.
  - now apply ord_rev_respects.
Qed.

(* reachability: what "transitively, the pipeline's source and modifiers" needs *)
Inductive path : node -> node -> Prop :=
| path_edge u v : In (u,v) edges -> path u v
| path_trans u w v : path u w -> path w v -> path u v.

Theorem respects_paths o : respects o -> forall u v, path u v -> forall l1 l2, o = l1 ++ v :: l2 -> In u l1.
Proof.
  intros Hr u v Hp. induction Hp as [u v He|u w v _ IH1 _ IH2]; intros l1 l2 Ho.
  - eapply Hr; eauto.
  - pose proof (IH2 l1 l2 Ho) as Hw. apply in_split in Hw as [a [b ->]].
    rewrite <- app_assoc in Ho. simpl in Ho. pose proof (IH1 a _ Ho) as Hu.
    apply in_or_app. now left.
Qed.

Corollary kahn_order_respects_closure o u v :
  kahn = Ok o -> path u v -> forall l1 l2, o = l1 ++ v :: l2 -> In u l1.
Proof. intros Hk. apply kahn_sound in Hk as [_ Hr]. now apply respects_paths. Qed.

Lemma path_in_nodes u v : path u v -> In u nodes /\ In v nodes.
Proof.
  induction 1 as [u v He|u w v _ [Hu _] _ [_ Hv]]; [|now split].
  destruct (edges_closed _ _ He). now split.
Qed.

(* any cycle, of any length (self-dependency included), is refused *)
Theorem kahn_refuses_any_cycle u : path u u -> kahn = Rejected EResource.
Proof.
  intros Hp. destruct (path_in_nodes _ _ Hp) as [Hu _].
  destruct kahn as [o|e|] eqn:E.
  - exfalso.
    pose proof (kahn_sound o E) as [Hperm Hr].
    assert (Hin : In u o) by (eapply Permutation_in; [apply Permutation_sym; exact Hperm|exact Hu]).
    apply in_split in Hin as [l1 [l2 Ho]].
    pose proof (respects_paths o Hr u u Hp l1 l2 Ho) as Hu1.
    assert (Hnd : NoDup o) by (eapply Permutation_NoDup; [apply Permutation_sym; exact Hperm|exact nodes_nodup]).
    rewrite Ho in Hnd. apply NoDup_remove_2 in Hnd. apply Hnd. apply in_or_app. now left.
  - f_equal. now apply kahn_error_class.
  - exfalso. now apply kahn_never_out_of_fuel.
Qed.

(* ---- completeness: no cycle => an order is produced (no false refusal) ---- *)
Fixpoint chain (w : list node) : Prop :=
  match w with
  | a :: ((b :: _) as r) => In (a, b) edges /\ chain r
  | _ => True
  end.

Lemma chain_tail a r : chain (a :: r) -> chain r.
Proof. destruct r; simpl; tauto. Qed.

Lemma chain_suffix l1 w : chain (l1 ++ w) -> chain w.
Proof. induction l1 as [|a l1 IH]; simpl; intros H; [exact H|]. apply IH. now apply (chain_tail a). Qed.

Lemma chain_path l : forall a b r, chain (a :: l ++ b :: r) -> path a b.
Proof.
  induction l as [|c l IH]; intros a b r H.
  - simpl in H. destruct H as [He _]. now apply path_edge.
  - change ((c :: l) ++ b :: r) with (c :: l ++ b :: r) in H.
    assert (He : In (a, c) edges) by (simpl in H; tauto).
    apply chain_tail in H. eapply path_trans; [apply path_edge; exact He|]. eapply IH; eauto.
Qed.

Lemma dup_or_nodup (w : list node) :
  NoDup w \/ exists x l1 l2 l3, w = l1 ++ x :: l2 ++ x :: l3.
Proof.
  induction w as [|a w IH]; [left; constructor|].
  destruct (in_dec node_dec a w) as [Hi|Hn].
  - right. apply in_split in Hi as [l2 [l3 ->]]. exists a, [], l2, l3. reflexivity.
  - destruct IH as [IH|[x [l1 [l2 [l3 ->]]]]].
    + left. now constructor.
    + right. exists x, (a :: l1), l2, l3. reflexivity.
Qed.

(* a non-empty set of nodes each of which has a predecessor in the set contains a cycle *)
Lemma backward_closed_cycle (P : node -> Prop) :
  (forall v, P v -> In v nodes) ->
  (forall v, P v -> exists u, P u /\ In (u, v) edges) ->
  (exists v, P v) -> exists x, path x x.
Proof.
  intros HPn HPp [v0 Hv0].
  assert (HW : forall n, exists w, length w = S n /\ chain w /\ Forall P w).
  { induction n as [|n [w [Hl [Hc Hf]]]].
    - exists [v0]. split; [|split]; simpl; auto.
    - destruct w as [|a r]; [discriminate|].
      inversion Hf as [|? ? Ha Hr]; subst.
      destruct (HPp a Ha) as [u [Hu He]].
      exists (u :: a :: r). split; [|split].
      + simpl in *. lia.
      + simpl. split; [exact He|exact Hc].
      + constructor; assumption. }
  destruct (HW (length nodes)) as [w [Hl [Hc Hf]]].
  destruct (dup_or_nodup w) as [Hnd|[x [l1 [l2 [l3 ->]]]]].
  - exfalso. assert (Hincl : incl w nodes).
    { intros x Hx. apply HPn. rewrite Forall_forall in Hf. now apply Hf. }
    pose proof (NoDup_incl_length Hnd Hincl). lia.
  - exists x. apply chain_suffix in Hc. eapply chain_path; eauto.
Qed.

Lemma missing_node (o : list node) :
  NoDup o -> incl o nodes -> length o <> length nodes -> exists v, In v nodes /\ ~ In v o.
Proof.
  intros Hnd Hincl Hlen.
  destruct (existsb (fun v => negb (memb v o)) nodes) eqn:E.
  - apply existsb_exists in E as [v [Hv Hm]]. exists v. split; [exact Hv|].
    apply memb_false. now destruct (memb v o).
  - exfalso. assert (Hall : incl nodes o).
    { intros v Hv. apply memb_In. destruct (memb v o) eqn:Em; [reflexivity|].
      assert (existsb (fun v => negb (memb v o)) nodes = true)
        by (apply existsb_exists; exists v; split; [exact Hv|now rewrite Em]).
      congruence. }
    pose proof (NoDup_incl_length nodes_nodup Hall). pose proof (NoDup_incl_length Hnd Hincl). lia.
Qed.

Theorem kahn_complete : (forall u, ~ path u u) -> exists o, kahn = Ok o.
Proof.
  intros Hacyc. pose proof kahn_never_out_of_fuel as HF. revert HF. unfold Kahn.kahn.
  destruct (loop (length nodes) indeg0 (filter (fun v => Nat.eqb (indeg0 v) 0) nodes) []) as [out|] eqn:EL;
    [|congruence].
  intros _. destruct (loop_I _ _ _ _ _ init_I EL) as [Hn [Hi [Ho Hpos]]].
  destruct (Nat.eqb (length out) (length nodes)) eqn:El; [now exists out|].
  exfalso. apply Nat.eqb_neq in El.
  destruct (backward_closed_cycle (fun v => In v nodes /\ ~ In v out)) as [x Hx].
  - tauto.
  - intros v [Hv Hnv]. destruct (cnt_pos out v (Hpos v Hv Hnv)) as [u [He Hu]].
    exists u. split; [|exact He]. split; [|exact Hu]. now apply edges_closed in He.
  - now apply missing_node.
  - now apply (Hacyc x).
Qed.

(* refusal is exactly the presence of a cycle *)
Corollary kahn_refuses_iff_cycle : (exists e, kahn = Rejected e) <-> exists u, path u u.
Proof.
  split.
  - intros [e He].
    (* constructive: the nodes left over when the loop stops form a backward-closed set *)
    revert He. unfold Kahn.kahn.
    destruct (loop (length nodes) indeg0 (filter (fun v => Nat.eqb (indeg0 v) 0) nodes) []) as [out|] eqn:EL;
      [|discriminate].
    destruct (loop_I _ _ _ _ _ init_I EL) as [Hn [Hi [Ho Hpos]]].
    destruct (Nat.eqb (length out) (length nodes)) eqn:El; [discriminate|]. intros _.
    apply Nat.eqb_neq in El.
    apply (backward_closed_cycle (fun v => In v nodes /\ ~ In v out)).
    + tauto.
    + intros v [Hv Hnv]. destruct (cnt_pos out v (Hpos v Hv Hnv)) as [u [He Hu]].
      exists u. split; [|exact He]. split; [|exact Hu]. now apply edges_closed in He.
    + now apply missing_node.
  - intros [u Hu]. exists EResource. now apply (kahn_refuses_any_cycle u).
Qed.
End Proof.

(* ---- the existence of a cycle, hence the refusal, does not depend on how the nodes are named ---- *)
Section Renaming.
Context {node node' : Type}.
Variable f : node -> node'.

Definition map_edges (edges : list (node * node)) : list (node' * node') :=
  map (fun e => (f (fst e), f (snd e))) edges.

Lemma path_map edges u v : path edges u v -> path (map_edges edges) (f u) (f v).
Proof.
  induction 1 as [u v He|u w v _ IH1 _ IH2].
  - apply path_edge. unfold map_edges. apply in_map_iff. exists (u, v). auto.
  - eapply path_trans; eauto.
Qed.

Hypothesis f_inj : forall a b, f a = f b -> a = b.

Lemma path_unmap edges x y : path (map_edges edges) x y -> exists a b, x = f a /\ y = f b /\ path edges a b.
Proof.
  induction 1 as [x y He|x w y _ [a [b [Hx [Hw H1]]]] _ [c [d [Hw' [Hy H2]]]]].
  - unfold map_edges in He. apply in_map_iff in He as [[a b] [E Hin]]. simpl in E. injection E as <- <-.
    exists a, b. repeat split; auto. now apply path_edge.
  - exists a, d. repeat split; auto. assert (b = c) by (apply f_inj; congruence). subst c.
    eapply path_trans; eauto.
Qed.

Theorem cycle_iff_renamed edges : (exists u, path edges u u) <-> (exists u', path (map_edges edges) u' u').
Proof.
  split.
  - intros [u H]. exists (f u). now apply path_map.
  - intros [u' H]. apply path_unmap in H as [a [b [Ha [Hb H]]]].
    assert (a = b) by (apply f_inj; congruence). subst b. eauto.
Qed.

Variable eqb : node -> node -> bool.
Variable eqb' : node' -> node' -> bool.
Hypothesis eqb_eq : forall a b, eqb a b = true <-> a = b.
Hypothesis eqb'_eq : forall a b, eqb' a b = true <-> a = b.

Theorem kahn_refusal_invariant_under_renaming nodes edges :
  (forall u v, In (u, v) edges -> In u nodes /\ In v nodes) -> NoDup nodes ->
  ((exists e, kahn eqb nodes edges = Rejected e) <->
   (exists e, kahn eqb' (map f nodes) (map_edges edges) = Rejected e)).
Proof.
  intros Hc Hn.
  assert (Hc' : forall u v, In (u, v) (map_edges edges) -> In u (map f nodes) /\ In v (map f nodes)).
  { intros u v H. unfold map_edges in H. apply in_map_iff in H as [[a b] [E Hin]]. simpl in E. injection E as <- <-.
    destruct (Hc _ _ Hin). split; now apply in_map. }
  assert (Hn' : NoDup (map f nodes)).
  { clear Hc Hc'. induction Hn as [|x l Hx _ IH]; simpl; constructor; auto.
    intro Hi. apply in_map_iff in Hi as [y [E Hy]]. apply f_inj in E. now subst. }
  rewrite (kahn_refuses_iff_cycle eqb eqb_eq nodes edges Hc Hn).
  rewrite (kahn_refuses_iff_cycle eqb' eqb'_eq _ _ Hc' Hn').
  apply cycle_iff_renamed.
Qed.
End Renaming.
