(* C09 - networkx.topological_sort as a Gallina function (model; proofs in KahnProofs.v).

   Anchor: resource.py 140-157 `sorted_nodes` = list(nx.algorithms.topological_sort(self.graph)); a cycle makes
   networkx raise NetworkXUnfeasible, re-raised as ResourceError.  networkx 3.x `topological_sort` flattens
   `topological_generations`:

       indegree_map  = {v: d for v, d in G.in_degree() if d > 0}
       zero_indegree = [v for v, d in G.in_degree() if d == 0]            (node insertion order)
       while zero_indegree:
           this_generation = zero_indegree; zero_indegree = []
           for node in this_generation:
               for child in G.neighbors(node):                            (edge insertion order)
                   indegree_map[child] -= 1
                   if indegree_map[child] == 0: zero_indegree.append(child); del indegree_map[child]
           yield this_generation
       if indegree_map: raise NetworkXUnfeasible

   Flattening the generations is exactly a FIFO queue, which is what `loop` does.  A self-loop counts in the
   in-degree and is never decremented to zero (the node is never dequeued), as in networkx.
   Nodes are generic (the resource model uses the first resource name of a group); `eqb` is their boolean equality.
   The real loop terminates (every node is dequeued at most once); `loop` runs on fuel = |nodes| and reports fuel
   exhaustion separately (None -> OutOfFuel) - KahnProofs.kahn_never_out_of_fuel shows it never happens.            *)
From Viv Require Import Common.

Section Kahn.
Context {node : Type}.
Variable eqb : node -> node -> bool.
Variable nodes : list node.
Variable edges : list (node * node).     (* de-duplicated by the caller (nx.DiGraph keeps one edge per pair) *)

Definition succs (u : node) : list node := map snd (filter (fun e => eqb (fst e) u) edges).
Definition indeg0 (v : node) : nat := length (filter (fun e => eqb (snd e) v) edges).

Definition upd (m : node -> nat) (k : node) (x : nat) : node -> nat :=
  fun v => if eqb v k then x else m v.

(* for child in G.neighbors(node): indegree_map[child] -= 1; if it is 0: zero_indegree.append(child) *)
Fixpoint dec_all (m : node -> nat) (cs : list node) (q : list node) : (node -> nat) * list node :=
  match cs with
  | [] => (m, q)
  | c :: cs' =>
      let m' := upd m c (m c - 1) in
      if Nat.eqb (m' c) 0 then dec_all m' cs' (q ++ [c]) else dec_all m' cs' q
  end.

(* None = fuel exhausted with a non-empty queue *)
Fixpoint loop (fuel : nat) (m : node -> nat) (q out : list node) : option (list node) :=
  match q with
  | [] => Some out
  | u :: q' =>
      match fuel with
      | O => None
      | S f => let '(m', q'') := dec_all m (succs u) q' in loop f m' q'' (out ++ [u])
      end
  end.

Definition kahn : result (list node) :=
  let q0 := filter (fun v => Nat.eqb (indeg0 v) 0) nodes in
  match loop (length nodes) indeg0 q0 [] with
  | None => OutOfFuel
  | Some out => if Nat.eqb (length out) (length nodes) then Ok out else Rejected EResource
  end.
End Kahn.

(* position-independent boolean check that an order puts every edge's source strictly before its target
   (used for validation of observed orders of ALL nodes; the initializer-level checker is in Resources.v) *)
Section Check.
Context {node : Type}.
Variable eqb : node -> node -> bool.
Definition memb (x : node) (l : list node) : bool := existsb (eqb x) l.
Fixpoint topo_ok (edges : list (node * node)) (seen : list node) (o : list node) : bool :=
  match o with
  | [] => true
  | v :: r => forallb (fun e => negb (eqb (snd e) v) || memb (fst e) seen) edges && topo_ok edges (v :: seen) r
  end.
End Check.
