(* Lemmas about the constraint model (DESIGN.md C07). *)
From Coq Require Import Permutation.
From Viv Require Import Common Lifecycle LifecycleProofs Constraints.
Local Open Scope Z_scope.

(* ---------- small facts ---------- *)
Lemma is_nil_true {A} (l : list A) : is_nil l = true <-> l = [].
Proof. destruct l; simpl; split; intro H; try reflexivity; discriminate. Qed.

Lemma is_nil_false {A} (l : list A) : is_nil l = false <-> l <> [].
Proof. destruct l; simpl; split; intro H; try reflexivity; try discriminate; congruence. Qed.

Lemma zmem_false x l : zmem x l = false <-> ~ In x l.
Proof.
  split.
  - intros H Hin. apply zmem_In in Hin. congruence.
  - intros H. destruct (zmem x l) eqn:E; [|reflexivity]. apply zmem_In in E. contradiction.
Qed.

Lemma guarded_ok A s : guarded A s = Ok tt <-> In s A.
Proof.
  unfold guarded. destruct (zmem s A) eqn:E.
  - split; [intros _; now apply zmem_In | reflexivity].
  - split; [discriminate|]. intros H. apply zmem_In in H. congruence.
Qed.

Lemma guarded_refused A s : guarded A s = Rejected EConstraint <-> ~ In s A.
Proof.
  unfold guarded. destruct (zmem s A) eqn:E.
  - split; [discriminate|]. intros H. exfalso. apply H. now apply zmem_In.
  - split; [intros _; now apply zmem_false | reflexivity].
Qed.

Lemma guarded_cases A s : guarded A s = Ok tt \/ guarded A s = Rejected EConstraint.
Proof. unfold guarded. destruct (zmem s A); auto. Qed.

(* ---------- add_constraint's argument rules ---------- *)
Definition exactly_one (al re : list sid) : Prop := (al = [] /\ re <> []) \/ (al <> [] /\ re = []).

Definition complement (all re : list sid) : list sid := filter (fun s => negb (zmem s re)) all.

Lemma unknown_exists S l :
  existsb (fun s => negb (zmem s S)) l = true <-> exists s, In s l /\ ~ In s S.
Proof.
  rewrite existsb_exists. split; intros [s [H1 H2]]; exists s; split; try assumption.
  - apply negb_true_iff in H2. now apply zmem_false.
  - apply negb_true_iff. now apply zmem_false.
Qed.

Lemma unknown_none S l :
  existsb (fun s => negb (zmem s S)) l = false <-> incl l S.
Proof.
  split.
  - intros H s Hs. destruct (zmem s S) eqn:E; [now apply zmem_In|].
    exfalso. assert (existsb (fun s => negb (zmem s S)) l = true); [|congruence].
    apply unknown_exists. exists s. split; [assumption | now apply zmem_false].
  - intros H. destruct (existsb (fun s => negb (zmem s S)) l) eqn:E; [|reflexivity].
    apply unknown_exists in E as [s [H1 H2]]. exfalso. apply H2. now apply H.
Qed.

(* complete characterisation of the three outcomes *)
Lemma permitted_config S al re : permitted S al re = Rejected EConfig <-> ~ exactly_one al re.
Proof.
  unfold permitted, exactly_one. destruct al as [|a al], re as [|r re]; cbn [is_nil negb andb orb].
  - split; [|reflexivity]. intros _ [[_ H]|[H _]]; congruence.
  - split.
    + destruct (existsb (fun s => negb (zmem s S)) ([] ++ r :: re)); discriminate.
    + intros H. exfalso. apply H. left. split; [reflexivity | discriminate].
  - split.
    + destruct (existsb (fun s => negb (zmem s S)) ((a :: al) ++ [])); discriminate.
    + intros H. exfalso. apply H. right. split; [discriminate | reflexivity].
  - split; [|reflexivity]. intros _ [[H _]|[_ H]]; discriminate.
Qed.

Lemma permitted_unknown S al re :
  permitted S al re = Rejected EUnknownState <-> exactly_one al re /\ exists s, In s (al ++ re) /\ ~ In s S.
Proof.
  unfold permitted, exactly_one. destruct al as [|a al], re as [|r re]; cbn [is_nil negb andb orb].
  - split; [discriminate|]. intros [[[_ H]|[H _]] _]; congruence.
  - destruct (existsb (fun s => negb (zmem s S)) ([] ++ r :: re)) eqn:E.
    + split; [|reflexivity]. intros _. split; [left; split; [reflexivity|discriminate]|]. now apply unknown_exists.
    + split; [discriminate|]. intros [_ H]. apply unknown_exists in H. congruence.
  - destruct (existsb (fun s => negb (zmem s S)) ((a :: al) ++ [])) eqn:E.
    + split; [|reflexivity]. intros _. split; [right; split; [discriminate|reflexivity]|]. now apply unknown_exists.
    + split; [discriminate|]. intros [_ H]. apply unknown_exists in H. congruence.
  - split; [discriminate|]. intros [[[H _]|[_ H]] _]; discriminate.
Qed.

Lemma permitted_ok S al re A :
  permitted S al re = Ok A <->
  exactly_one al re /\ incl (al ++ re) S /\ A = (if is_nil re then al else complement S re).
Proof.
  unfold permitted, exactly_one, complement. destruct al as [|a al], re as [|r re]; cbn [is_nil negb andb orb].
  - split; [discriminate|]. intros [[[_ H]|[H _]] _]; congruence.
  - destruct (existsb (fun s => negb (zmem s S)) ([] ++ r :: re)) eqn:E.
    + split; [discriminate|]. intros [_ [H _]]. apply unknown_none in H. congruence.
    + split.
      * intros [= <-]. split; [left; split; [reflexivity|discriminate]|]. split; [now apply unknown_none | reflexivity].
      * intros [_ [_ ->]]. reflexivity.
  - destruct (existsb (fun s => negb (zmem s S)) ((a :: al) ++ [])) eqn:E.
    + split; [discriminate|]. intros [_ [H _]]. apply unknown_none in H. congruence.
    + split.
      * intros [= <-]. split; [right; split; [discriminate|reflexivity]|]. split; [now apply unknown_none | reflexivity].
      * intros [_ [_ ->]]. reflexivity.
  - split; [discriminate|]. intros [[[H _]|[_ H]] _]; discriminate.
Qed.

Lemma permitted_never_out_of_fuel S al re : permitted S al re <> OutOfFuel.
Proof.
  unfold permitted. destruct (_ || _); [discriminate|]. destruct (existsb _ _); [discriminate|].
  destruct (negb (is_nil re)); discriminate.
Qed.

Lemma complement_In S R s : In s (complement S R) <-> In s S /\ ~ In s R.
Proof.
  unfold complement. rewrite filter_In, negb_true_iff, zmem_false. tauto.
Qed.

(* restrict_during: the permitted states are exactly the known states that are not listed *)
Theorem restrict_is_complement S R A : permitted S [] R = Ok A -> forall s, In s A <-> (In s S /\ ~ In s R).
Proof.
  intros H s. apply permitted_ok in H as [[[_ HR]|[HR _]] [_ ->]]; [|congruence].
  apply is_nil_false in HR. rewrite HR. apply complement_In.
Qed.

(* allow_during: the permitted states are exactly the listed ones, all of them known *)
Theorem allow_is_identity S L A : permitted S L [] = Ok A -> A = L /\ L <> [] /\ incl L S.
Proof.
  intros H. apply permitted_ok in H as [[[_ HR]|[HL _]] [Hi ->]]; [congruence|].
  simpl. rewrite app_nil_r in Hi. auto.
Qed.

Theorem exactly_one_list S al re : (exists A, permitted S al re = Ok A) -> exactly_one al re.
Proof. intros [A H]. now apply permitted_ok in H as [H _]. Qed.

Theorem both_or_neither_rejected S al re :
  (al <> [] /\ re <> []) \/ (al = [] /\ re = []) -> permitted S al re = Rejected EConfig.
Proof.
  intros H. apply permitted_config. unfold exactly_one. intros [[H1 H2]|[H1 H2]]; destruct H as [[H3 H4]|[H3 H4]]; congruence.
Qed.

Theorem unknown_state_rejected S al re s :
  exactly_one al re -> In s (al ++ re) -> ~ In s S -> permitted S al re = Rejected EUnknownState.
Proof. intros H1 H2 H3. apply permitted_unknown. split; [assumption|]. now exists s. Qed.

Theorem accepted_states_known S al re A : permitted S al re = Ok A -> incl (al ++ re) S /\ incl A S.
Proof.
  intros H. apply permitted_ok in H as [Hx [Hi ->]]. split; [assumption|].
  destruct (is_nil re).
  - intros s Hs. apply Hi. apply in_or_app. now left.
  - intros s Hs. now apply complement_In in Hs as [Hs _].
Qed.

(* LifeCycle._state_names is a python set: its iteration order does not matter *)
Lemma perm_filter {A} (f : A -> bool) l l' : Permutation l l' -> Permutation (filter f l) (filter f l').
Proof.
  induction 1 as [|x l l' H IH|x y l|l l' l'' H1 IH1 H2 IH2]; simpl.
  - constructor.
  - destruct (f x); [now constructor | assumption].
  - destruct (f x), (f y); try apply Permutation_refl. apply perm_swap.
  - eapply Permutation_trans; eassumption.
Qed.

Theorem permitted_perm S S' al re : Permutation S S' ->
  match permitted S al re, permitted S' al re with
  | Ok A, Ok A' => Permutation A A'
  | Rejected e, Rejected e' => e = e'
  | _, _ => False
  end.
Proof.
  intros HP.
  assert (Hincl : forall l, incl l S <-> incl l S').
  { intros l. split; intros H s Hs.
    - eapply Permutation_in; [exact HP | now apply H].
    - eapply Permutation_in; [apply Permutation_sym; exact HP | now apply H]. }
  destruct (permitted S al re) as [A|e|] eqn:E.
  - apply permitted_ok in E as [Hx [Hi ->]].
    assert (E' : permitted S' al re = Ok (if is_nil re then al else complement S' re)).
    { apply permitted_ok. split; [assumption|]. split; [now apply Hincl | reflexivity]. }
    rewrite E'. destruct (is_nil re); [apply Permutation_refl|]. now apply perm_filter.
  - destruct (permitted S' al re) as [A'|e'|] eqn:E'.
    + apply permitted_ok in E' as [Hx [Hi _]].
      assert (exists A, permitted S al re = Ok A) as [A HA].
      { eexists. apply permitted_ok. split; [eassumption|]. split; [now apply Hincl | reflexivity]. }
      congruence.
    + assert (C : e = EConfig \/ e = EUnknownState).
      { revert E. unfold permitted. destruct (_ || _); [intros [= <-]; auto|].
        destruct (existsb _ _); [intros [= <-]; auto|]. destruct (negb (is_nil re)); discriminate. }
      destruct C as [-> | ->].
      * apply permitted_config in E. assert (permitted S' al re = Rejected EConfig) by now apply permitted_config.
        congruence.
      * apply permitted_unknown in E as [Hx [s [H1 H2]]].
        assert (permitted S' al re = Rejected EUnknownState).
        { apply permitted_unknown. split; [assumption|]. exists s. split; [assumption|].
          intros Hin. apply H2. eapply Permutation_in; [apply Permutation_sym; exact HP | exact Hin]. }
        congruence.
    + exfalso. eapply permitted_never_out_of_fuel; eassumption.
  - exfalso. eapply permitted_never_out_of_fuel; eassumption.
Qed.

(* ---------- worlds ---------- *)
(* every installed wrapper has its guid on record *)
Definition Inv (w : world) : Prop := forall m A, wrapper w m = Some A -> In (gid_in (names w) m) (guids w).

Lemma inv_new m r : Inv (new_world m r).
Proof. intros x A H. discriminate. Qed.

Lemma make_constraint_cases w m A w' r : make_constraint w m A = (w', r) ->
  (w' = w /\ exists e, r = Rejected e /\
     (e = EConstraint -> kind_in (names w) m <> 1 /\ kind_in (names w) m <> 2 /\ In (gid_in (names w) m) (guids w))) \/
  (r = Ok A /\ ~ In (gid_in (names w) m) (guids w) /\ kind_in (names w) m <> 1 /\ kind_in (names w) m <> 2 /\
   w' = {| mgr := mgr w; names := names w; guids := gid_in (names w) m :: guids w; wraps := (m, A) :: wraps w;
           held := held w |}).
Proof.
  unfold make_constraint.
  destruct (Z.eqb_spec (kind_in (names w) m) 1) as [K1|K1].
  { intros [= <- <-]. left. split; [reflexivity|]. eexists. split; [reflexivity | discriminate]. }
  destruct (Z.eqb_spec (kind_in (names w) m) 2) as [K2|K2].
  { intros [= <- <-]. left. split; [reflexivity|]. eexists. split; [reflexivity | discriminate]. }
  destruct (zmem (gid_in (names w) m) (guids w)) eqn:G.
  - intros [= <- <-]. left. split; [reflexivity|]. eexists. split; [reflexivity|]. intros _.
    repeat split; try assumption. now apply zmem_In.
  - intros [= <- <-]. right. repeat split; try assumption. now apply zmem_false.
Qed.

Lemma add_constraint_cases w m al re w' r : add_constraint w m al re = (w', r) ->
  (w' = w /\ exists e, r = Rejected e) \/
  (exists A, r = Ok A /\ permitted (states_of (lc (mgr w))) al re = Ok A /\ ~ In (gid_in (names w) m) (guids w) /\
     w' = {| mgr := mgr w; names := names w; guids := gid_in (names w) m :: guids w; wraps := (m, A) :: wraps w;
             held := held w |}).
Proof.
  unfold add_constraint. destruct (permitted (states_of (lc (mgr w))) al re) as [A|e|] eqn:P.
  - intros H. apply make_constraint_cases in H as [[-> [e [-> _]]]|[-> [G [_ [_ ->]]]]].
    + left. split; [reflexivity | now exists e].
    + right. exists A. auto.
  - intros [= <- <-]. left. split; [reflexivity | now exists e].
  - exfalso. eapply permitted_never_out_of_fuel; eassumption.
Qed.

(* a refused add_constraint changes nothing *)
Theorem add_constraint_rejected_inert w m al re w' e : add_constraint w m al re = (w', Rejected e) -> w' = w.
Proof.
  intros H. apply add_constraint_cases in H as [[-> _]|[A [H _]]]; [reflexivity | discriminate].
Qed.

Lemma step_names w e : names (fst (step w e)) = names w.
Proof.
  destruct e as [n sts lp|s|m al re|m|m|k]; simpl.
  - destruct (m_add_phase (mgr w) n sts lp); reflexivity.
  - destruct (set_state (mgr w) s); reflexivity.
  - destruct (add_constraint w m al re) as [w' r] eqn:E. simpl.
    apply add_constraint_cases in E as [[-> _]|[A [_ [_ [_ ->]]]]]; reflexivity.
  - reflexivity.
  - reflexivity.
  - reflexivity.
Qed.

Lemma step_guids_mono w e g : In g (guids w) -> In g (guids (fst (step w e))).
Proof.
  intros H. destruct e as [n sts lp|s|m al re|m|m|k]; simpl.
  - destruct (m_add_phase (mgr w) n sts lp); exact H.
  - destruct (set_state (mgr w) s); exact H.
  - destruct (add_constraint w m al re) as [w' r] eqn:E. simpl.
    apply add_constraint_cases in E as [[-> _]|[A [_ [_ [_ ->]]]]]; [exact H | now right].
  - exact H.
  - exact H.
  - exact H.
Qed.

Lemma step_wrapper_stable w e m A : Inv w -> wrapper w m = Some A -> wrapper (fst (step w e)) m = Some A.
Proof.
  intros HI H. destruct e as [n sts lp|s|m0 al re|m0|m0|k]; simpl.
  - destruct (m_add_phase (mgr w) n sts lp); exact H.
  - destruct (set_state (mgr w) s); exact H.
  - destruct (add_constraint w m0 al re) as [w' r] eqn:E. simpl.
    apply add_constraint_cases in E as [[-> _]|[A0 [_ [_ [G ->]]]]]; [exact H|].
    unfold wrapper. cbn [wraps zassoc]. destruct (Z.eqb_spec m0 m) as [->|Hne]; [|exact H].
    exfalso. apply G. eapply HI; eassumption.
  - exact H.
  - exact H.
  - exact H.
Qed.

Lemma step_inv w e : Inv w -> Inv (fst (step w e)).
Proof.
  intros HI. destruct e as [n sts lp|s|m0 al re|m0|m0|k]; simpl.
  - destruct (m_add_phase (mgr w) n sts lp); exact HI.
  - destruct (set_state (mgr w) s); exact HI.
  - destruct (add_constraint w m0 al re) as [w' r] eqn:E. simpl.
    apply add_constraint_cases in E as [[-> _]|[A0 [_ [_ [G ->]]]]]; [exact HI|].
    intros m A. unfold wrapper. cbn [wraps zassoc names guids]. destruct (Z.eqb_spec m0 m) as [->|Hne].
    + intros _. now left.
    + intros H. right. eapply HI; eassumption.
  - exact HI.
  - exact HI.
  - exact HI.
Qed.

Lemma run_app w a b : run w (a ++ b) = run (run w a) b.
Proof. unfold run. apply fold_left_app. Qed.

Lemma run_cons w e r : run w (e :: r) = run (fst (step w e)) r.
Proof. reflexivity. Qed.

Lemma run_inv evs : forall w, Inv w -> Inv (run w evs).
Proof. induction evs as [|e r IH]; intros w HI; [exact HI|]. rewrite run_cons. apply IH. now apply step_inv. Qed.

Lemma run_names evs : forall w, names (run w evs) = names w.
Proof.
  induction evs as [|e r IH]; intros w; [reflexivity|]. rewrite run_cons, IH. apply step_names.
Qed.

Lemma run_guids_mono evs : forall w g, In g (guids w) -> In g (guids (run w evs)).
Proof.
  induction evs as [|e r IH]; intros w g H; [exact H|]. rewrite run_cons. apply IH. now apply step_guids_mono.
Qed.

(* constrained once: an installed wrapper is never replaced, whatever happens afterwards *)
Theorem wrapper_stable evs : forall w m A, Inv w -> wrapper w m = Some A -> wrapper (run w evs) m = Some A.
Proof.
  induction evs as [|e r IH]; intros w m A HI H; [exact H|]. rewrite run_cons.
  apply IH; [now apply step_inv | now apply step_wrapper_stable].
Qed.

(* the wrapper checks the state current AT THE CALL, on every call, whatever happened in between *)
Theorem checked_every_call w pre post m A : Inv w -> wrapper (run w pre) m = Some A ->
  call_attr (run w (pre ++ post)) m = guarded A (cur (mgr (run w (pre ++ post)))).
Proof.
  intros HI H. rewrite run_app. unfold call_attr, capture.
  rewrite (wrapper_stable post _ m A (run_inv pre w HI) H). reflexivity.
Qed.

(* ... and it does not matter when (after the constraint was installed) or in which form the handle was taken *)
Theorem handle_checked_every_call w pre mid post m A : Inv w -> wrapper (run w pre) m = Some A ->
  capture (run w (pre ++ mid)) m = Wrapped m A /\
  call_handle (run w (pre ++ mid ++ post)) (capture (run w (pre ++ mid)) m)
    = guarded A (cur (mgr (run w (pre ++ mid ++ post)))).
Proof.
  intros HI H.
  assert (E : capture (run w (pre ++ mid)) m = Wrapped m A).
  { rewrite run_app. unfold capture. now rewrite (wrapper_stable mid _ m A (run_inv pre w HI) H). }
  split; [exact E|]. rewrite E. reflexivity.
Qed.

(* outputs of a history, positionally *)
Lemma outs_app a : forall w b, outs w (a ++ b) = outs w a ++ outs (run w a) b.
Proof.
  induction a as [|e r IH]; intros w b; [reflexivity|].
  change ((e :: r) ++ b) with (e :: (r ++ b)). cbn [outs]. rewrite (run_cons w e r).
  destruct (step w e) as [w' o]. cbn [fst]. rewrite IH. reflexivity.
Qed.

Lemma outs_length evs : forall w, length (outs w evs) = length evs.
Proof.
  induction evs as [|e r IH]; intros w; [reflexivity|]. simpl. destruct (step w e). simpl. now rewrite IH.
Qed.

Lemma outs_nth w a e b : nth_error (outs w (a ++ e :: b)) (length a) = Some (snd (step (run w a) e)).
Proof.
  rewrite outs_app. rewrite nth_error_app2; rewrite outs_length; [|lia].
  rewrite Nat.sub_diag. simpl. destruct (step (run w a) e). reflexivity.
Qed.

(* a captured handle stays what it was *)
Lemma step_held_prefix w e : exists l, held (fst (step w e)) = held w ++ l.
Proof.
  destruct e as [n sts lp|s|m al re|m|m|k]; simpl.
  - destruct (m_add_phase (mgr w) n sts lp). exists []. now rewrite app_nil_r.
  - destruct (set_state (mgr w) s). exists []. now rewrite app_nil_r.
  - destruct (add_constraint w m al re) as [w' r] eqn:E. simpl.
    apply add_constraint_cases in E as [[-> _]|[A [_ [_ [_ ->]]]]]; exists []; now rewrite app_nil_r.
  - eexists. reflexivity.
  - exists []. now rewrite app_nil_r.
  - exists []. now rewrite app_nil_r.
Qed.

Lemma run_held_prefix evs : forall w, exists l, held (run w evs) = held w ++ l.
Proof.
  induction evs as [|e r IH]; intros w; [exists []; now rewrite app_nil_r|]. rewrite run_cons.
  destruct (IH (fst (step w e))) as [l Hl]. destruct (step_held_prefix w e) as [l0 Hl0].
  exists (l0 ++ l). rewrite Hl, Hl0. now rewrite app_assoc.
Qed.

(* The history-level statement: a constraint accepted at some point; later a handle is taken; later still it is called
   (k-th captured handle), with arbitrary activity in between: the outcome is decided by the state current at the call. *)
Theorem history_checked_every_call w pre m al re mid post rest A :
  Inv w ->
  snd (step (run w pre) (EConstrain m al re)) = OConstrain (Ok A) ->
  let evs1 := pre ++ EConstrain m al re :: mid in
  let k := length (held (run w evs1)) in
  let evs2 := evs1 ++ ECapture m :: post in
  nth_error (outs w (evs2 ++ ECallHandle k :: rest)) (length evs2) = Some (OCall (guarded A (cur (mgr (run w evs2)))))
  /\ nth_error (outs w (evs2 ++ ECallAttr m :: rest)) (length evs2) = Some (OCall (guarded A (cur (mgr (run w evs2))))).
Proof.
  intros HI HC evs1 k evs2.
  assert (HW : wrapper (run w (pre ++ [EConstrain m al re])) m = Some A).
  { rewrite run_app. cbn [run fold_left]. cbn [step] in *. destruct (add_constraint (run w pre) m al re) as [w' r] eqn:E.
    cbn [fst snd] in *. inversion HC; subst r.
    apply add_constraint_cases in E as [[_ [e He]]|[A0 [HA [_ [_ ->]]]]]; [discriminate|].
    inversion HA; subst A0. unfold wrapper. cbn [wraps zassoc]. now rewrite Z.eqb_refl. }
  assert (E1 : evs1 = (pre ++ [EConstrain m al re]) ++ mid) by (unfold evs1; now rewrite <- app_assoc).
  assert (HW1 : wrapper (run w evs1) m = Some A).
  { rewrite E1, run_app. apply wrapper_stable; [apply run_inv; exact HI | exact HW]. }
  assert (HI1 : Inv (run w evs1)) by (apply run_inv; exact HI).
  split.
  - rewrite outs_nth. f_equal. cbn [step snd]. f_equal.
    unfold evs2. rewrite run_app. rewrite run_cons.
    destruct (run_held_prefix post (fst (step (run w evs1) (ECapture m)))) as [l Hl].
    rewrite Hl. cbn [step fst held]. rewrite <- app_assoc. rewrite nth_error_app2; [|unfold k; lia].
    unfold k. rewrite Nat.sub_diag. cbn [app nth_error]. unfold capture. rewrite HW1. reflexivity.
  - rewrite outs_nth. f_equal. cbn [step snd]. f_equal.
    unfold evs2. rewrite run_app. unfold call_attr, capture.
    rewrite (wrapper_stable (ECapture m :: post) (run w evs1) m A HI1 HW1). reflexivity.
Qed.

(* constrained once: after a constraint on a method was accepted, every later attempt on the same guid - same method or
   another object's method that carries the same name - is refused and changes nothing *)
Theorem constrained_once w m al re post m' al' re' :
  Inv w ->
  (exists A, snd (step w (EConstrain m al re)) = OConstrain (Ok A)) ->
  gid_in (names w) m' = gid_in (names w) m ->
  let w2 := run (fst (step w (EConstrain m al re))) post in
  exists e, step w2 (EConstrain m' al' re') = (w2, OConstrain (Rejected e)) /\
    (kind_in (names w) m' = 0 -> (exists A', permitted (states_of (lc (mgr w2))) al' re' = Ok A') -> e = EConstraint).
Proof.
  intros HI [A HC] HG w2. cbn [step] in HC. unfold w2. cbn [step].
  destruct (add_constraint w m al re) as [w1 r] eqn:E. cbn [fst snd] in *. inversion HC; subst r.
  apply add_constraint_cases in E as [[_ [e He]]|[A0 [HA [_ [_ Hw1]]]]]; [discriminate|].
  assert (G1 : In (gid_in (names w) m) (guids w1)) by (rewrite Hw1; now left).
  assert (N1 : names w1 = names w) by (rewrite Hw1; reflexivity).
  set (w3 := run w1 post).
  assert (G3 : In (gid_in (names w3) m') (guids w3)).
  { unfold w3. rewrite run_names, N1, HG. now apply run_guids_mono. }
  assert (N3 : names w3 = names w) by (unfold w3; now rewrite run_names).
  unfold add_constraint. destruct (permitted (states_of (lc (mgr w3))) al' re') as [A'|e|] eqn:P.
  - unfold make_constraint.
    destruct (Z.eqb_spec (kind_in (names w3) m') 1) as [K1|K1].
    { eexists. split; [reflexivity|]. intros K0. rewrite N3 in K1. lia. }
    destruct (Z.eqb_spec (kind_in (names w3) m') 2) as [K2|K2].
    { eexists. split; [reflexivity|]. intros K0. rewrite N3 in K2. lia. }
    apply zmem_In in G3. rewrite G3. eexists. split; reflexivity.
  - eexists. split; [reflexivity|]. intros _ [A' HA']. discriminate.
  - exfalso. eapply permitted_never_out_of_fuel; eassumption.
Qed.

(* a handle taken BEFORE the constraint is the bare method: the model says so, the code does so (instance attribute
   installed later).  Stated so that nobody reads more into the theorems than they say. *)
Lemma early_handle_unguarded w m : wrapper w m = None -> capture w m = Raw m /\ forall w', call_handle w' (capture w m) = Ok tt.
Proof. intros H. unfold capture. rewrite H. auto. Qed.

(* ---------- the service matrix ---------- *)
Lemma matrix_sound states t : matrix_okb states t = true ->
  forall key svc A k, In (key, svc, A) t -> kind_of svc = Some k ->
  forall s, In s states -> (In s A <-> spec k s = true).
Proof.
  unfold matrix_okb. rewrite forallb_forall. intros H key svc A k Hin Hk s Hs.
  specialize (H _ Hin). unfold row_okb in H. rewrite Hk in H. rewrite forallb_forall in H.
  specialize (H s Hs). apply Bool.eqb_prop in H. rewrite <- H. symmetry. apply zmem_In.
Qed.

Lemma complete_sound t : complete_okb t = true ->
  forall svc k, In (svc, k) named_services -> exists key A, In (key, svc, A) t.
Proof.
  unfold complete_okb. rewrite forallb_forall. intros H svc k Hin. specialize (H _ Hin). cbn [fst] in H.
  unfold occurs in H. apply existsb_exists in H as [[[key svc'] A] [Hr E]]. cbn [fst snd] in E.
  apply Z.eqb_eq in E. subst svc'. now exists key, A.
Qed.

Lemma failing_entries_nil states t : failing_entries states t = [] <-> matrix_okb states t = true.
Proof.
  unfold failing_entries, matrix_okb. induction t as [|r t IH]; simpl; [tauto|].
  destruct (row_okb states r); simpl; [exact IH|]. split; discriminate.
Qed.

(* end to end: a service of a named kind whose installed permitted list passed the matrix check is available, in every
   history whatsoever, exactly in the states the property says *)
Theorem service_available_exactly states t : matrix_okb states t = true ->
  forall key svc A k, In (key, svc, A) t -> kind_of svc = Some k ->
  forall w m, Inv w -> wrapper w m = Some A ->
  forall post, In (cur (mgr (run w post))) states ->
    (call_attr (run w post) m = Ok tt <-> spec k (cur (mgr (run w post))) = true) /\
    (call_attr (run w post) m = Rejected EConstraint <-> spec k (cur (mgr (run w post))) = false).
Proof.
  intros HM key svc A k Hin Hk w m HI HW post Hs.
  pose proof (checked_every_call w [] post m A HI HW) as E. cbn [app] in E. rewrite E.
  pose proof (matrix_sound states t HM key svc A k Hin Hk _ Hs) as HS. split.
  - rewrite guarded_ok. exact HS.
  - rewrite guarded_refused. rewrite HS. destruct (spec k (cur (mgr (run w post)))); split; congruence.
Qed.

(* the set-equality test used by the correspondence is what it says *)
Lemma same_set_spec a b : same_set a b = true <-> (forall x, In x a <-> In x b).
Proof.
  unfold same_set. rewrite andb_true_iff, !forallb_forall. split.
  - intros [H1 H2] x. split; intros H; [apply zmem_In, H1, H | apply zmem_In, H2, H].
  - intros H. split; intros x Hx; apply zmem_In; now apply H.
Qed.

(* every obtained handle has its row, and that row obeys the matrix *)
Lemma handles_sound t hs : handles_okb t hs = true ->
  forall key svc, In (key, svc) hs -> exists A, In (key, svc, A) t.
Proof.
  unfold handles_okb. rewrite forallb_forall. intros H key svc Hin. specialize (H _ Hin). unfold handle_okb in H.
  apply existsb_exists in H as [[[key' svc'] A] [Hr E]]. cbn [fst snd] in E. apply andb_true_iff in E as [E1 E2].
  apply Z.eqb_eq in E1. apply Z.eqb_eq in E2. subst. now exists A.
Qed.

Theorem every_handle_guarded states t hs : matrix_okb states t = true -> handles_okb t hs = true ->
  forall key svc k, In (key, svc) hs -> kind_of svc = Some k ->
  exists A, In (key, svc, A) t /\ forall s, In s states -> (In s A <-> spec k s = true).
Proof.
  intros HM HH key svc k Hin Hk. destruct (handles_sound t hs HH key svc Hin) as [A HA]. exists A. split; [exact HA|].
  intros s Hs. exact (matrix_sound states t HM key svc A k HA Hk s Hs).
Qed.
