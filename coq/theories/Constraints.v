(* Model of the service-availability mechanism of vivarium/framework/lifecycle.py (DESIGN.md C07):
   LifeCycleManager.add_constraint + ConstraintMaker.  State names, method identities and guids are numbers (the
   harness interns the strings); the life cycle itself is the model of C06 (Viv.Lifecycle).

   lifecycle.py anchors:
     LifeCycleManager.add_constraint  562-611  -> [permitted] (exactly-one-list rule 592-595, unknown states 596-603,
                                                  restrict_during complemented against _state_names 604-607), [add_constraint]
     ConstraintMaker.__call__         409-452  -> [make_constraint] (bound method? 436, dunder? 442, guid already
                                                  constrained? 448-451)
     ConstraintMaker.to_guid          391-407  -> the [gid] field of a method: "<owner.name>.<method name>" - two DIFFERENT
                                                  objects carrying the same name share a guid
     constrain_normal_method          354-388  -> [install]: the wrapper is setattr'ed ON THE INSTANCE over the method name, so
                                                  attribute look-ups made afterwards reach the wrapper, a bound method taken
                                                  earlier does not ([capture] / [Raw])
     check_valid_state / _wrapped     330-352, 374-380 -> [guarded]: `current_state in permitted_states`, evaluated on EVERY call *)
From Viv Require Import Common Lifecycle.
Local Open Scope Z_scope.

(* ------------------------------------------------------------------------------------------------------------
   add_constraint: which states end up permitted
   ------------------------------------------------------------------------------------------------------------ *)
Definition is_nil {A} (l : list A) : bool := match l with [] => true | _ => false end.

(* [all] is LifeCycle._state_names (a python set: only membership matters, see permitted_perm in the proofs; the model
   enumerates it in declaration order).  Errors: ValueError -> EConfig, LifeCycleError -> EUnknownState. *)
Definition permitted (all allow restrict : list sid) : result (list sid) :=
  if (negb (is_nil allow) && negb (is_nil restrict)) || (is_nil allow && is_nil restrict)
  then Rejected EConfig                                               (* 592-595: exactly one of the two lists *)
  else if existsb (fun s => negb (zmem s all)) (allow ++ restrict)
  then Rejected EUnknownState                                         (* 596-603 *)
  else if negb (is_nil restrict)
  then Ok (filter (fun s => negb (zmem s restrict)) all)              (* 604-607: the complement *)
  else Ok allow.

(* the check the wrapper performs on every call (330-352): ConstraintError unless the CURRENT state is permitted *)
Definition guarded (A : list sid) (cur : sid) : result unit :=
  if zmem cur A then Ok tt else Rejected EConstraint.

(* ------------------------------------------------------------------------------------------------------------
   the constraint maker and the objects it rebinds
   ------------------------------------------------------------------------------------------------------------ *)
(* A method is a number [m] (the interned (object, attribute) pair).  What ConstraintMaker derives from it is fixed per
   method and kept in the registry [names]: m -> (guid, kind) with guid = to_guid = "<owner.name>.<attribute>" and
   kind: 0 bound normal method, 1 not a bound method (plain function), 2 dunder method.  Methods absent from the registry
   are normal methods with a guid of their own.  (Modelling assumption, structural: an object's name does not change.) *)
Definition registry := list (Z * (Z * Z)).
Definition gid_in (r : registry) (m : Z) : Z := match zassoc m r with Some (g, _) => g | None => m end.
Definition kind_in (r : registry) (m : Z) : Z := match zassoc m r with Some (_, k) => k | None => 0 end.

(* a callable somebody holds *)
Inductive handle :=
  | Raw (m : Z)                         (* the unwrapped bound method (taken before any constraint was installed) *)
  | Wrapped (m : Z) (A : list sid).     (* the re-bound wrapper, closing over its permitted list *)

Record world := {
  mgr : manager;                        (* the LifeCycleManager: life cycle + current state (model of C06) *)
  names : registry;                     (* fixed *)
  guids : list Z;                       (* ConstraintMaker.constraints *)
  wraps : list (Z * list sid);          (* instance attributes installed by setattr: method -> permitted list *)
  held : list handle                    (* handles captured so far, oldest first *)
}.

Definition wrapper (w : world) (m : Z) : option (list sid) := zassoc m (wraps w).

Definition new_world (m : manager) (r : registry) : world :=
  {| mgr := m; names := r; guids := []; wraps := []; held := [] |}.

(* ConstraintMaker.__call__ ; TypeError -> EOther, ValueError (dunder) -> EConfig, already constrained -> EConstraint *)
Definition make_constraint (w : world) (m : Z) (A : list sid) : world * result (list sid) :=
  if kind_in (names w) m =? 1 then (w, Rejected EOther)
  else if kind_in (names w) m =? 2 then (w, Rejected EConfig)
  else if zmem (gid_in (names w) m) (guids w) then (w, Rejected EConstraint)
  else ({| mgr := mgr w; names := names w; guids := gid_in (names w) m :: guids w; wraps := (m, A) :: wraps w;
           held := held w |}, Ok A).

(* LifeCycleManager.add_constraint: all argument checks come before the constraint maker is reached *)
Definition add_constraint (w : world) (m : Z) (allow restrict : list sid) : world * result (list sid) :=
  match permitted (states_of (lc (mgr w))) allow restrict with
  | Ok A => make_constraint w m A
  | Rejected e => (w, Rejected e)
  | OutOfFuel => (w, OutOfFuel)
  end.

(* `obj.method` evaluated now: the instance attribute (wrapper) if one was installed, else the class's method *)
Definition capture (w : world) (m : Z) : handle :=
  match wrapper w m with Some A => Wrapped m A | None => Raw m end.

(* calling a handle in the current state; the underlying method runs iff the result is Ok *)
Definition call_handle (w : world) (h : handle) : result unit :=
  match h with Raw _ => Ok tt | Wrapped _ A => guarded A (cur (mgr w)) end.

(* `obj.method(...)`: look the attribute up now, then call it *)
Definition call_attr (w : world) (m : Z) : result unit := call_handle w (capture w m).

(* ------------------------------------------------------------------------------------------------------------
   histories: life-cycle activity interleaved with constraining, taking handles and calling services
   ------------------------------------------------------------------------------------------------------------ *)
Inductive ev :=
  | EAddPhase (name : Z) (sts : list sid) (lp : bool)
  | EMove (s : sid)                                   (* LifeCycleManager.set_state *)
  | EConstrain (m : Z) (allow restrict : list sid)
  | ECapture (m : Z)                                  (* h = obj.method, kept for later *)
  | ECallAttr (m : Z)                                 (* obj.method(...) *)
  | ECallHandle (k : nat).                            (* the k-th captured handle is called *)

Inductive out :=
  | OLife (o : outcome)
  | OConstrain (r : result (list sid))
  | OCaptured
  | OCall (r : result unit).

Definition with_mgr (w : world) (m : manager) : world :=
  {| mgr := m; names := names w; guids := guids w; wraps := wraps w; held := held w |}.

Definition step (w : world) (e : ev) : world * out :=
  match e with
  | EAddPhase n sts lp => let '(m', o) := m_add_phase (mgr w) n sts lp in (with_mgr w m', OLife o)
  | EMove s => let '(m', o) := set_state (mgr w) s in (with_mgr w m', OLife o)
  | EConstrain m al re => let '(w', r) := add_constraint w m al re in (w', OConstrain r)
  | ECapture m =>
      ({| mgr := mgr w; names := names w; guids := guids w; wraps := wraps w; held := held w ++ [capture w m] |}, OCaptured)
  | ECallAttr m => (w, OCall (call_attr w m))
  | ECallHandle k =>
      (w, OCall (match nth_error (held w) k with Some h => call_handle w h | None => Rejected EOther end))
  end.

Definition run (w : world) (evs : list ev) : world := fold_left (fun w e => fst (step w e)) evs w.

Fixpoint outs (w : world) (evs : list ev) : list out :=
  match evs with [] => [] | e :: r => let '(w', o) := step w e in o :: outs w' r end.

(* ------------------------------------------------------------------------------------------------------------
   the property's matrix (C07): which kind of service is available in which engine state.
   State numbers are the documented order of the engine's life cycle (the same numbering as C06):
   0 initialization, 1 setup, 2 post_setup, 3 population_creation, 4 time_step__prepare, 5 time_step,
   6 time_step__cleanup, 7 collect_metrics, 8 simulation_end, 9 report
   ------------------------------------------------------------------------------------------------------------ *)
Definition st_initialization := 0.
Definition st_setup := 1.
Definition st_post_setup := 2.
Definition st_simulation_end := 8.
Definition st_report := 9.
Definition documented_states : list sid := [0; 1; 2; 3; 4; 5; 6; 7; 8; 9].

Inductive kind := Registration | Read | Mutate.

(* transcription of the property statement *)
Definition spec (k : kind) (s : sid) : bool :=
  match k with
  | Registration => s =? st_setup                     (* "work during setup and are refused ... in every later state" *)
  | Read => negb (zmem s [st_initialization; st_setup; st_post_setup])
                                                      (* "refused during setup and post_setup and work from population creation onwards" *)
  | Mutate => negb (zmem s [st_initialization; st_setup; st_post_setup]) && negb (zmem s [st_simulation_end; st_report])
                                                      (* "in addition refused once the simulation has ended" *)
  end.

(* the 16 services the property names (numbers assigned here; the harness maps (owner class, method) to them) *)
Definition named_services : list (Z * kind) :=
  [ (1, Registration)     (* event listeners:      EventManager.register_listener *)
  ; (2, Registration)     (* value producers:      ValuesManager.register_value_producer *)
  ; (3, Registration)     (* value modifiers:      ValuesManager.register_value_modifier *)
  ; (4, Registration)     (* simulant initializers: PopulationManager.register_simulant_initializer (builder.population.initializes_simulants) *)
  ; (5, Registration)     (* the simulant creator: PopulationManager.get_simulant_creator *)
  ; (6, Registration)     (* randomness streams:   RandomnessManager.get_randomness_stream *)
  ; (7, Registration)     (* lookup tables:        LookupTableManager.build_table *)
  ; (8, Read)             (* view reads:           PopulationView.get *)
  ; (9, Read)             (* pipeline calls:       Pipeline._call (behind Pipeline.__call__) *)
  ; (10, Read)            (* stream draws:         RandomnessStream.get_draw *)
  ; (11, Read)            (*                       RandomnessStream.filter_for_probability *)
  ; (12, Read)            (*                       RandomnessStream.filter_for_rate *)
  ; (13, Read)            (*                       RandomnessStream.choice *)
  ; (14, Read)            (* lookup calls:         LookupTable.call (behind LookupTable.__call__) *)
  ; (15, Mutate)          (* view updates:         PopulationView.update *)
  ; (16, Mutate)          (* simulant registration: RandomnessManager.register_simulants *)
  ].

Definition kind_of (svc : Z) : option kind := zassoc svc named_services.

(* a row of the generated table: (key of the constrained method [context * 100000 + guid], service class, permitted list
   as handed to the constraint maker) *)
Definition row := (Z * Z * list sid)%type.

Definition row_okb (states : list sid) (r : row) : bool :=
  let '(_, svc, A) := r in
  match kind_of svc with
  | Some k => forallb (fun s => Bool.eqb (zmem s A) (spec k s)) states
  | None => true                       (* services the property does not speak about: extracted, shown, not constrained *)
  end.
Definition matrix_okb (states : list sid) (t : list row) : bool := forallb (row_okb states) t.
Definition failing_entries (states : list sid) (t : list row) : list row := filter (fun r => negb (row_okb states r)) t.

Definition occurs (t : list row) (svc : Z) : bool := existsb (fun r => snd (fst r) =? svc) t.
Definition complete_okb (t : list row) : bool := forallb (fun p => occurs t (fst p)) named_services.
Definition missing_services (t : list row) : list Z := filter (fun s => negb (occurs t s)) (map fst named_services).

(* every HANDLE the probes obtained through the public builder API, in every variant (a stream with or without
   initializes_crn_attributes, a view over a column list / a single name / the whole table / with a query, a pipeline from
   register_value_producer / register_rate_producer / get_value, a scalar / categorical / interpolated lookup table, an
   emitter of each channel ...): (key of the method that must carry the guard, service number; 0 = a service the property
   does not name, for which only the presence of a constraint is recorded).  The table is complete only if each of them
   has its row. *)
Definition handle_entry := (Z * Z)%type.
Definition handle_okb (t : list row) (h : handle_entry) : bool :=
  existsb (fun r : row => (fst (fst r) =? fst h) && (snd (fst r) =? snd h)) t.
Definition handles_okb (t : list row) (hs : list handle_entry) : bool := forallb (handle_okb t) hs.
Definition missing_handles (t : list row) (hs : list handle_entry) : list handle_entry :=
  filter (fun h => negb (handle_okb t h)) hs.
Definition check_handle (t : list row) (h : handle_entry) : bool := handle_okb t h.

(* the state set read off the live life cycle is the documented one (as a set) *)
Definition same_set (a b : list Z) : bool := forallb (fun x => zmem x b) a && forallb (fun x => zmem x a) b.

(* ------------------------------------------------------------------------------------------------------------
   correspondence 1: recorded add_constraint calls of real contexts.
   (all states as read off LifeCycle._state_names, allow_during, restrict_during, observed code, observed permitted list)
   codes: 0 accepted, 1 ConstraintError, 2 other LifeCycleError, 3 ValueError, 4 TypeError, 5 anything else
   ------------------------------------------------------------------------------------------------------------ *)
Definition code_of_err (e : err) : Z :=
  match e with EConstraint => 1 | EUnknownState => 2 | EConfig => 3 | EOther => 4 | _ => 5 end.
Definition code_of_res {A} (r : result A) : Z :=
  match r with Ok _ => 0 | Rejected e => code_of_err e | OutOfFuel => 6 end.

Definition install_case := (list sid * list sid * list sid * Z * list sid)%type.
Definition check_install (c : install_case) : bool :=
  let '(all, al, re, code, obsA) := c in
  match permitted all al re with
  | Ok A => (code =? 0) && same_set A obsA
  | Rejected e => (code_of_err e =? code) && is_nil obsA
  | OutOfFuel => false
  end.

(* ------------------------------------------------------------------------------------------------------------
   correspondence 2: the exhaustive service x state x handle cells on real contexts.
   cell = (key of the method behind the handle, life-cycle state at the call,
           observed outcome: 0 returned normally, 1 ConstraintError, 2 another error (raised by the service itself,
           i.e. after the guard let the call through))
   ------------------------------------------------------------------------------------------------------------ *)
Definition cell := (Z * sid * Z)%type.
Definition check_cell (t : list row) (c : cell) : bool :=
  let '(key, s, code) := c in
  let guard := match zassoc key (map (fun r : row => (fst (fst r), snd r)) t) with
               | Some A => guarded A s
               | None => Ok tt                              (* never constrained: nothing stands in front of the method *)
               end in
  match guard with
  | Ok _ => (code =? 0) || (code =? 2)
  | Rejected _ => code =? 1
  | OutOfFuel => false
  end.

(* ------------------------------------------------------------------------------------------------------------
   correspondence 3: stand-alone managers, toy objects, generated histories.
   case = (registry of the toy methods, the events (phases are added by events too), each with the implementation's observation)
   observation per event: outcome code; for an accepted EConstrain also the permitted list handed to the constraint maker;
   for calls: 0 = returned normally and the underlying method ran once, 1 = ConstraintError and it did not run
   ------------------------------------------------------------------------------------------------------------ *)
Definition hist_case := (registry * list (ev * Z * list sid))%type.

Definition obs_okb (lenient : bool) (o : out) (code : Z) (obsA : list sid) : bool :=
  match o with
  | OLife Accepted => code =? 0
  | OLife (Refused EInvalidTransition) => code =? 1
  | OLife (Refused EUnknownState) => code =? 2
  | OLife (Refused _) => code =? 5
  | OConstrain (Ok A) => (code =? 0) && same_set A obsA
  | OConstrain r => (code_of_res r =? code) && is_nil obsA
  | OCaptured => code =? 0
  | OCall (Ok _) => (code =? 0) || (lenient && (code =? 2))     (* real services may fail by themselves once let through *)
  | OCall r => code_of_res r =? code
  end.

Fixpoint run_hist (lenient : bool) (w : world) (l : list (ev * Z * list sid)) : bool :=
  match l with
  | [] => true
  | (e, code, obsA) :: r => let '(w', o) := step w e in obs_okb lenient o code obsA && run_hist lenient w' r
  end.

(* index of the first event on which model and implementation disagree (for the evidence / debugging) *)
Fixpoint first_bad (lenient : bool) (w : world) (l : list (ev * Z * list sid)) (n : Z) : Z :=
  match l with
  | [] => -1
  | (e, code, obsA) :: r => let '(w', o) := step w e in
                            if obs_okb lenient o code obsA then first_bad lenient w' r (n + 1) else n
  end.

Definition check_hist (c : hist_case) : bool := run_hist false (new_world (mk_manager 0 0) (fst c)) (snd c).

(* correspondence 4: the complete recorded history of a real context (phases, moves, every add_constraint attempt, every
   probe call, in order of occurrence) replayed through the same model *)
Definition check_hist_real (c : hist_case) : bool := run_hist true (new_world (mk_manager 0 0) (fst c)) (snd c).

(* correspondence 5: one (named service, state) entry of the matrix, against the generated table: how many constrained
   instances of that service the table holds, in how many of them the state is permitted, and that this is what the
   property says *)
Definition matrix_entry := (Z * sid * Z * Z)%type.
Definition check_matrix_entry (t : list row) (c : matrix_entry) : bool :=
  let '(svc, s, nrows, nmember) := c in
  let rows := filter (fun r : row => snd (fst r) =? svc) t in
  match kind_of svc with
  | Some k => negb (is_nil rows) && (Z.of_nat (length rows) =? nrows)
              && (Z.of_nat (length (filter (fun r : row => zmem s (snd r)) rows)) =? nmember)
              && forallb (fun r : row => Bool.eqb (zmem s (snd r)) (spec k s)) rows
  | None => false
  end.
