(* Lemmas about scripts of life-cycle requests (DESIGN.md C06, engine part). All generic in the life cycle and
   the scripts: the generated file instantiates them on what the live code does today. *)
From Viv Require Import Common Lifecycle LifecycleProofs Engine.
Local Open Scope Z_scope.

(* ---- m' extends m: same life cycle, and the newly entered states form a legal path from cur m ---- *)
Definition extends (m m' : manager) : Prop :=
  lc m' = lc m /\
  exists new, entered m' = rev new ++ entered m /\
              path (legal_succ (phs (lc m))) (cur m) new /\ cur m' = last new (cur m).

Lemma extends_refl m : extends m m.
Proof. split; [reflexivity|]. exists []. simpl. auto. Qed.

Lemma path_concat R s l1 l2 : path R s l1 -> path R (last l1 s) l2 -> path R s (l1 ++ l2).
Proof.
  revert s. induction l1 as [|y r IH]; intros s H1 H2; [exact H2|].
  destruct H1 as [H0 H1]. split; [assumption|]. apply IH; [assumption|].
  destruct r as [|z r]; [exact H2|]. now rewrite (last_nonempty_indep z r y s).
Qed.

Lemma last_app_default (l1 l2 : list sid) d : last (l1 ++ l2) d = last l2 (last l1 d).
Proof.
  revert d. induction l1 as [|y r IH]; intros d; [reflexivity|].
  destruct r as [|z r].
  - destruct l2 as [|w l2]; [reflexivity|].
    change (last ([y] ++ w :: l2) d) with (last (w :: l2) d).
    change (last [y] d) with y. apply last_nonempty_indep.
  - change (last ((y :: z :: r) ++ l2) d) with (last ((z :: r) ++ l2) d).
    change (last (y :: z :: r) d) with (last (z :: r) d). apply IH.
Qed.

Lemma extends_trans m1 m2 m3 : extends m1 m2 -> extends m2 m3 -> extends m1 m3.
Proof.
  intros [L1 [n1 [E1 [P1 C1]]]] [L2 [n2 [E2 [P2 C2]]]]. split; [congruence|].
  exists (n1 ++ n2). rewrite rev_app_distr, <- app_assoc, <- E1. repeat split.
  - exact E2.
  - apply path_concat; [assumption|]. rewrite <- C1, <- L1. exact P2.
  - rewrite last_app_default, <- C1. exact C2.
Qed.

Lemma set_state_extends m s : reachable_lc (lc m) -> extends m (fst (set_state m s)).
Proof.
  intros HR. destruct (set_state m s) as [m' o] eqn:E. destruct o as [|e]; cbn [fst].
  - apply set_state_accepted in E as [_ [Hv ->]]. split; [reflexivity|]. exists [s]. simpl. repeat split; auto.
    now apply links_correct.
  - apply set_state_refused_inert in E. subst. apply extends_refl.
Qed.

Lemma run_script_extends sc : forall m em, reachable_lc (lc m) -> extends m (fst (fst (run_script m sc em))).
Proof.
  induction sc as [|[s|e] r IH]; intros m em HR; cbn [run_script].
  - apply extends_refl.
  - pose proof (set_state_extends m s HR) as Hx. destruct (set_state m s) as [m' o]. cbn [fst] in Hx.
    destruct o as [|e]; [|exact Hx].
    eapply extends_trans; [exact Hx|]. apply IH. destruct Hx as [-> _]. exact HR.
  - apply IH. exact HR.
Qed.

(* every sequence of context calls (each an arbitrary script), from any manager over a well-built life cycle:
   the states entered form a path of the legal-successor relation *)
Theorem calls_trace_legal scs : forall m, reachable_lc (lc m) -> extends m (do_calls m scs).
Proof.
  induction scs as [|sc r IH]; intros m HR; unfold do_calls in *; cbn [fold_left].
  - apply extends_refl.
  - pose proof (run_script_extends sc m [] HR) as Hx. fold (do_call m sc) in Hx.
    eapply extends_trans; [exact Hx|]. apply IH. destruct Hx as [-> _]. exact HR.
Qed.

(* ---- the outcome of a request depends on the manager only through (lc, cur) ---- *)
Lemma set_state_indep m1 m2 s : lc m1 = lc m2 -> cur m1 = cur m2 ->
  snd (set_state m1 s) = snd (set_state m2 s) /\
  lc (fst (set_state m1 s)) = lc (fst (set_state m2 s)) /\ cur (fst (set_state m1 s)) = cur (fst (set_state m2 s)).
Proof.
  intros HL HC. unfold set_state. rewrite HL, HC.
  destruct (negb (known (lc m2) s)); [auto|]. destruct (valid_next (lc m2) (cur m2) s); cbn; auto.
Qed.

Lemma run_script_indep sc : forall m1 m2 em1 em2, lc m1 = lc m2 -> cur m1 = cur m2 ->
  let r1 := run_script m1 sc em1 in let r2 := run_script m2 sc em2 in
  snd (fst r1) = snd (fst r2) /\
  lc (fst (fst r1)) = lc (fst (fst r2)) /\ cur (fst (fst r1)) = cur (fst (fst r2)).
Proof.
  induction sc as [|[s|e] r IH]; intros m1 m2 em1 em2 HL HC; cbn [run_script].
  - cbn. auto.
  - destruct (set_state_indep m1 m2 s HL HC) as [Ho [Hl Hc]].
    destruct (set_state m1 s) as [m1' o1]. destruct (set_state m2 s) as [m2' o2]. cbn [fst snd] in *. subst o2.
    destruct o1 as [|e]; [apply IH; assumption | cbn; auto].
  - apply IH; assumption.
Qed.

Lemma run_script_indep_em sc : forall m1 m2 em, lc m1 = lc m2 -> cur m1 = cur m2 ->
  snd (run_script m1 sc em) = snd (run_script m2 sc em).
Proof.
  induction sc as [|[s|e] r IH]; intros m1 m2 em HL HC; cbn [run_script].
  - reflexivity.
  - destruct (set_state_indep m1 m2 s HL HC) as [Ho [Hl Hc]].
    destruct (set_state m1 s) as [m1' o1]. destruct (set_state m2 s) as [m2' o2]. cbn [fst snd] in *. subst o2.
    destruct o1 as [|e]; [apply IH; assumption | reflexivity].
  - rewrite HC. apply IH; assumption.
Qed.

(* atomicity of one call from any manager standing at state s *)
Definition atomic (m : manager) (sc : script) : Prop :=
  let r := run_script m sc [] in
  snd (fst r) = Accepted \/ (fst (fst r) = m /\ snd r = []).

Lemma atomicb_sound L s sc m : atomicb L s sc = true -> lc m = L -> cur m = s -> atomic m sc.
Proof.
  unfold atomicb, atomic. intros H HL HC. apply orb_true_iff in H as [H|H].
  - left. unfold all_accepted in H.
    destruct (run_script_indep sc m (at_state L s) [] [] HL HC) as [Ho _]. rewrite Ho.
    destruct (snd (fst (run_script (at_state L s) sc []))); [reflexivity | discriminate].
  - right. unfold first_refused in H. destruct sc as [|[x|e] r]; try discriminate.
    cbn [run_script]. destruct (set_state_indep m (at_state L s) x HL HC) as [Ho _].
    destruct (set_state m x) as [m' o] eqn:E. cbn [snd] in Ho. rewrite <- Ho in H.
    destruct o as [|e]; [discriminate|]. apply set_state_refused_inert in E. subst. cbn. auto.
Qed.

Theorem atomic_table_sound L scs : atomic_table L scs = true ->
  forall m sc, lc m = L -> In (cur m) (states_of L) -> In sc scs -> atomic m sc.
Proof.
  unfold atomic_table. intros H m sc HL HC Hsc. rewrite forallb_forall in H. specialize (H _ HC).
  rewrite forallb_forall in H. eapply atomicb_sound; eauto.
Qed.

(* run_script over a concatenation *)
Lemma run_script_app sc1 sc2 : forall m em,
  run_script m (sc1 ++ sc2) em =
  match run_script m sc1 em with
  | (m1, Accepted, em1) => run_script m1 sc2 em1
  | r => r
  end.
Proof.
  induction sc1 as [|[s|e] r IH]; intros m em; cbn [app run_script]; [reflexivity| |apply IH].
  destruct (set_state m s) as [m' o]. destruct o; [apply IH | reflexivity].
Qed.

Lemma run_script_states sc : forall m em, reachable_lc (lc m) -> In (cur m) (states_of (lc m)) ->
  In (cur (fst (fst (run_script m sc em)))) (states_of (lc m)) /\ lc (fst (fst (run_script m sc em))) = lc m.
Proof.
  induction sc as [|[s|e] r IH]; intros m em HR HC; cbn [run_script]; [cbn; auto | | apply IH; auto].
  destruct (set_state m s) as [m' o] eqn:E. destruct o as [|e].
  - apply set_state_accepted in E as [Hk [_ ->]]. specialize (IH {| lc := lc m; cur := s; entered := s :: entered m |} em).
    cbn [lc cur] in IH. apply IH; [assumption|]. now apply zmem_In.
  - apply set_state_refused_inert in E. subst. cbn. auto.
Qed.

(* `run` = the step script n times, for EVERY n: atomic as soon as one step is atomic from every state and
   repeatable (boolean checks over the finite state set) *)
Lemma set_state_lc m s : lc (fst (set_state m s)) = lc m.
Proof. unfold set_state. destruct (negb (known (lc m) s)); [reflexivity|]. destruct (valid_next _ _ _); reflexivity. Qed.

Lemma run_script_lc sc : forall m em, lc (fst (fst (run_script m sc em))) = lc m.
Proof.
  induction sc as [|[s|e] r IH]; intros m em; cbn [run_script]; [reflexivity| |apply IH].
  pose proof (set_state_lc m s) as H. destruct (set_state m s) as [m' o]. cbn [fst] in H.
  destruct o; [rewrite IH; exact H | exact H].
Qed.

Lemma repeat_all_accepted L sc c :
  (let r := run_script (at_state L c) sc [] in snd (fst r) = Accepted /\ cur (fst (fst r)) = c) ->
  forall n m em, lc m = L -> cur m = c ->
    snd (fst (run_script m (repeat_script sc n) em)) = Accepted.
Proof.
  intros [Hacc Hc]. induction n as [|n IH]; intros m em HL HC; cbn [repeat_script]; [reflexivity|].
  rewrite run_script_app.
  destruct (run_script_indep sc m (at_state L c) em [] HL HC) as [Ho [Hl Hcu]].
  pose proof (run_script_lc sc m em) as Hlm.
  destruct (run_script m sc em) as [[m1 o1] em1]. cbn [fst snd] in *.
  rewrite Hacc in Ho. subst o1. apply IH; [congruence | congruence].
Qed.

Theorem repeat_atomic L sc : forallb (fun s => atomicb L s sc) (states_of L) = true -> repeatableb L sc = true ->
  forall n m, lc m = L -> In (cur m) (states_of L) -> atomic m (repeat_script sc n).
Proof.
  intros Hat Hrep n m HL HC. rewrite forallb_forall in Hat. unfold repeatableb in Hrep. rewrite forallb_forall in Hrep.
  destruct n as [|n]; [left; reflexivity|].
  pose proof (atomicb_sound L (cur m) sc m (Hat _ HC) HL eq_refl) as Ha. unfold atomic in *.
  cbn [repeat_script]. rewrite run_script_app.
  destruct (run_script_indep sc m (at_state L (cur m)) [] [] HL eq_refl) as [Ho [Hl Hcu]].
  specialize (Hrep _ HC).
  destruct (run_script m sc []) as [[m1 o1] em1] eqn:E1. cbn [fst snd] in *.
  destruct o1 as [|e].
  - left. destruct (run_script (at_state L (cur m)) sc []) as [[a1 oa] ea] eqn:Ea. cbn [fst snd] in *. subst oa.
    destruct (run_script (at_state L (cur a1)) sc []) as [[a2 ob] eb] eqn:Eb. destruct ob; [|discriminate].
    apply Z.eqb_eq in Hrep.
    apply (repeat_all_accepted L sc (cur a1)).
    + rewrite Eb. cbn. auto.
    + pose proof (run_script_lc sc m []) as Hlm. rewrite E1 in Hlm. cbn [fst] in Hlm. congruence.
    + congruence.
  - destruct Ha as [Ha|[-> ->]]; [discriminate|]. right. cbn. auto.
Qed.

(* events are emitted in their own state, from any manager *)
Theorem own_state_table_sound L scs : own_state_table L scs = true ->
  forall m sc, lc m = L -> In (cur m) (states_of L) -> In sc scs ->
  forall e st, In (e, st) (snd (run_script m sc [])) -> e = st.
Proof.
  unfold own_state_table. intros H m sc HL HC Hsc e st Hin. rewrite forallb_forall in H. specialize (H _ HC).
  rewrite forallb_forall in H. specialize (H _ Hsc). unfold own_stateb in H.
  rewrite (run_script_indep_em sc m (at_state L (cur m)) [] HL eq_refl) in Hin.
  rewrite forallb_forall in H. specialize (H _ Hin). now apply Z.eqb_eq in H.
Qed.
