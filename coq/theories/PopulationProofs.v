(* Lemmas about the population model (DESIGN.md C11, C13).  Statements exposed in props/C11.v and props/C13.v. *)
From Viv Require Import Common Population.
From Coq Require Import Permutation.
Local Open Scope Z_scope.

(* ================================================================================================================ *)
(** * Lists *)

Lemma set_nth_length n v l : length (set_nth n v l) = length l.
Proof. revert n; induction l as [|x r IH]; intros [|n]; simpl; auto. Qed.

Lemma set_nth_nth n v l : forall m,
  nth m (set_nth n v l) Null = if (Nat.eqb m n) && (Nat.ltb n (length l)) then v else nth m l Null.
Proof.
  revert n; induction l as [|x r IH]; intros n m; simpl.
  - destruct n, m; simpl; try reflexivity; now rewrite ?andb_false_r.
  - destruct n as [|n], m as [|m]; simpl; try reflexivity. rewrite IH.
    replace (Nat.ltb (S n) (S (length r))) with (Nat.ltb n (length r)) by reflexivity. reflexivity.
Qed.

Lemma write_pairs_length ps : forall cs, length (write_pairs cs ps) = length cs.
Proof.
  unfold write_pairs. induction ps as [|p r IH]; intros cs; simpl; [reflexivity|].
  rewrite IH. apply set_nth_length.
Qed.

Lemma last_pair_acc l ps : forall acc,
  last_pair l ps acc = match last_pair l ps None with Some x => Some x | None => acc end.
Proof.
  induction ps as [|[i v] r IH]; intros acc; simpl; [reflexivity|].
  destruct (i =? l).
  - rewrite (IH (Some v)). destruct (last_pair l r None); reflexivity.
  - apply IH.
Qed.

Definition keys_in (n : nat) (ps : list (Z * cell)) : Prop := forall p, In p ps -> 0 <= fst p < Z.of_nat n.

(* exactness of one column write: every position holds the value supplied (last) for its label, or the old value *)
Lemma write_pairs_nth ps : forall cs m, keys_in (length cs) ps ->
  nth m (write_pairs cs ps) Null =
  match last_pair (Z.of_nat m) ps None with Some v => v | None => nth m cs Null end.
Proof.
  unfold write_pairs. induction ps as [|[i v] r IH]; intros cs m Hk; simpl; [reflexivity|].
  assert (Hi : 0 <= i < Z.of_nat (length cs)) by (apply (Hk (i, v)); left; reflexivity).
  rewrite IH.
  2:{ intros p Hp. rewrite set_nth_length. apply Hk. right. exact Hp. }
  rewrite (last_pair_acc _ r (if i =? Z.of_nat m then Some v else None)).
  destruct (last_pair (Z.of_nat m) r None); [reflexivity|].
  rewrite set_nth_nth.
  assert (Hlt : Nat.ltb (Z.to_nat i) (length cs) = true) by (apply Nat.ltb_lt; lia).
  rewrite Hlt, andb_true_r.
  destruct (i =? Z.of_nat m) eqn:E.
  - apply Z.eqb_eq in E. subst i. rewrite Nat2Z.id, Nat.eqb_refl. reflexivity.
  - apply Z.eqb_neq in E. destruct (Nat.eqb m (Z.to_nat i)) eqn:E2; [|reflexivity].
    apply Nat.eqb_eq in E2. exfalso. apply E. subst m. rewrite Z2Nat.id; lia.
Qed.

Lemma zmem_false_iff x l : zmem x l = false <-> ~ In x l.
Proof. rewrite <- zmem_In. destruct (zmem x l); split; intro H; try reflexivity; try discriminate. exfalso; now apply H. Qed.

Lemma nodupb_NoDup l : nodupb l = true <-> NoDup l.
Proof.
  induction l as [|x r IH]; simpl.
  - split; [constructor | reflexivity].
  - rewrite andb_true_iff, negb_true_iff, IH, zmem_false_iff. split.
    + intros [A B]. now constructor.
    + intros H. inversion H; subst. split; assumption.
Qed.

Lemma dedup_In x l : In x (dedup l) <-> In x l.
Proof.
  induction l as [|y r IH]; simpl; [tauto|].
  destruct (zmem y r) eqn:E.
  - rewrite IH. split; [tauto|]. intros [->|H]; [now apply zmem_In | exact H].
  - simpl. rewrite IH. tauto.
Qed.

Lemma dedup_NoDup l : NoDup (dedup l).
Proof.
  induction l as [|y r IH]; simpl; [constructor|].
  destruct (zmem y r) eqn:E; [exact IH|].
  constructor; [|exact IH]. rewrite dedup_In. now apply zmem_false_iff.
Qed.

Lemma NoDup_app_intro {A} (l1 l2 : list A) : NoDup l1 -> NoDup l2 -> (forall x, In x l1 -> In x l2 -> False) ->
  NoDup (l1 ++ l2).
Proof.
  induction l1 as [|x r IH]; simpl; intros N1 N2 D; [assumption|].
  inversion N1; subst. constructor.
  - rewrite in_app_iff. intros [H|H]; [contradiction | eapply D; [left; reflexivity | exact H]].
  - apply IH; try assumption. intros y Hy. apply D. now right.
Qed.

Lemma order_by_In ord names c : In c (order_by ord names) <-> In c names.
Proof.
  unfold order_by. rewrite dedup_In, in_app_iff, !filter_In, zmem_In, negb_true_iff, zmem_false_iff.
  split; [tauto|]. intros H. destruct (in_dec Z.eq_dec c ord); tauto.
Qed.

Lemma order_by_NoDup ord names : NoDup (order_by ord names).
Proof. apply dedup_NoDup. Qed.

Lemma dtype_eqb_eq a b : dtype_eqb a b = true <-> a = b.
Proof. unfold dtype_eqb. rewrite Z.eqb_eq. destruct a, b; simpl; split; intro H; try reflexivity; try discriminate. Qed.

Lemma cell_eqb_eq a b : cell_eqb a b = true <-> a = b.
Proof.
  destruct a, b; simpl; split; intro H; try reflexivity; try discriminate;
    try (apply Z.eqb_eq in H; now subst); try (inversion H; subst; apply Z.eqb_refl).
  - apply Bool.eqb_prop in H. now subst.
  - inversion H; subst. apply Bool.eqb_reflx.
Qed.

Lemma cells_eqb_eq a b : cells_eqb a b = true <-> a = b.
Proof. apply list_eqb_eq. apply cell_eqb_eq. Qed.

(* ================================================================================================================ *)
(** * Columns of a table *)

Lemma find_col_name cs c k : find_col cs c = Some k -> cname k = c.
Proof.
  induction cs as [|x r IH]; simpl; [discriminate|].
  destruct (cname x =? c) eqn:E; [|exact IH]. intros H. inversion H; subst. now apply Z.eqb_eq.
Qed.

Lemma find_col_In cs c k : find_col cs c = Some k -> In k cs.
Proof.
  induction cs as [|x r IH]; simpl; [discriminate|].
  destruct (cname x =? c); [intros H; inversion H; now left | intros H; right; now apply IH].
Qed.

Lemma find_col_None cs c : find_col cs c = None <-> ~ In c (map cname cs).
Proof.
  induction cs as [|x r IH]; simpl; [tauto|].
  destruct (cname x =? c) eqn:E.
  - apply Z.eqb_eq in E. split; [discriminate | intros H; exfalso; apply H; now left].
  - apply Z.eqb_neq in E. rewrite IH. tauto.
Qed.

Lemma find_col_Some_In cs c : In c (map cname cs) -> exists k, find_col cs c = Some k.
Proof.
  intros H. destruct (find_col cs c) eqn:E; [eauto|]. apply find_col_None in E. contradiction.
Qed.

Lemma has_col_In t c : has_col t c = true <-> In c (col_names t).
Proof.
  unfold has_col, col_names. destruct (find_col (tcols t) c) eqn:E.
  - split; [|reflexivity]. intros _. apply find_col_name in E as N. apply find_col_In in E. subst c. now apply in_map.
  - apply find_col_None in E. split; [discriminate | contradiction].
Qed.

Lemma find_put_col cs k c :
  find_col (put_col cs k) c = if cname k =? c then Some k else find_col cs c.
Proof.
  induction cs as [|x r IH]; simpl.
  - destruct (cname k =? c); reflexivity.
  - destruct (cname x =? cname k) eqn:E; simpl.
    + apply Z.eqb_eq in E. rewrite E. destruct (cname k =? c); reflexivity.
    + destruct (cname x =? c) eqn:E2.
      * apply Z.eqb_eq in E2. apply Z.eqb_neq in E. destruct (cname k =? c) eqn:E3; [|reflexivity].
        apply Z.eqb_eq in E3. congruence.
      * exact IH.
Qed.

Lemma put_col_names_in cs k : In (cname k) (map cname cs) -> map cname (put_col cs k) = map cname cs.
Proof.
  induction cs as [|x r IH]; simpl; [tauto|].
  destruct (cname x =? cname k) eqn:E; simpl.
  - apply Z.eqb_eq in E. now rewrite E.
  - apply Z.eqb_neq in E. intros [H|H]; [contradiction|]. now rewrite IH.
Qed.

Lemma put_col_names_new cs k : ~ In (cname k) (map cname cs) -> map cname (put_col cs k) = map cname cs ++ [cname k].
Proof.
  induction cs as [|x r IH]; simpl; [reflexivity|].
  intros H. destruct (cname x =? cname k) eqn:E.
  - apply Z.eqb_eq in E. exfalso. apply H. now left.
  - simpl. rewrite IH; [reflexivity|]. intros H2. apply H. now right.
Qed.

Lemma put_col_In cols kk x : In x (put_col cols kk) -> x = kk \/ In x cols.
Proof.
  induction cols as [|y ys IHc]; simpl.
  - intros [<-|[]]. now left.
  - destruct (cname y =? cname kk); simpl.
    + intros [<-|H]; [now left | right; now right].
    + intros [<-|H]; [right; now left|]. apply IHc in H. destruct H; [now left | right; now right].
Qed.

(* replacing an existing column of a table with distinct names = a map *)
Lemma put_col_map cs k : NoDup (map cname cs) -> In (cname k) (map cname cs) ->
  put_col cs k = map (fun x => if cname x =? cname k then k else x) cs.
Proof.
  induction cs as [|x r IH]; simpl; [tauto|].
  intros ND HI. inversion ND as [|? ? Hx ND']; subst.
  destruct (cname x =? cname k) eqn:E.
  - apply Z.eqb_eq in E. f_equal. rewrite <- (map_id r) at 1. apply map_ext_in.
    intros y Hy. destruct (cname y =? cname k) eqn:E2; [|reflexivity].
    apply Z.eqb_eq in E2. exfalso. apply Hx. rewrite E, <- E2. now apply in_map.
  - apply Z.eqb_neq in E. f_equal. apply IH; [assumption|]. destruct HI; [contradiction|assumption].
Qed.

(* ================================================================================================================ *)
(** * Well-formed tables: distinct column names, every column as long as the table *)

Definition wf (t : table) : Prop :=
  NoDup (col_names t) /\ Forall (fun k => length (ccells k) = tn t) (tcols t).

Lemma wf_empty : wf empty_table.
Proof. split; constructor. Qed.

Lemma wf_find t c k : wf t -> find_col (tcols t) c = Some k -> length (ccells k) = tn t.
Proof. intros [_ W] H. apply find_col_In in H. rewrite Forall_forall in W. now apply W. Qed.

Lemma has_label_spec t l : has_label t l = true <-> 0 <= l < Z.of_nat (tn t).
Proof. unfold has_label. rewrite andb_true_iff, Z.leb_le, Z.ltb_lt. tauto. Qed.

(* ================================================================================================================ *)
(** * One column: [build_col] *)

Lemma cast_cells_length d cs : forall cs', cast_cells d cs = inl cs' -> length cs' = length cs.
Proof.
  induction cs as [|c r IH]; simpl; intros cs' H.
  - inversion H. reflexivity.
  - destruct (cast_cell d c); try discriminate.
    destruct (cast_cells d r); [|discriminate]. inversion H; subst. simpl. f_equal. now apply IH.
Qed.

Lemma write_cells_length d cs idx vals : length (write_cells d cs idx vals) = length cs.
Proof. apply write_pairs_length. Qed.

(* the two ways a column gets built: a plain write (same dtype), or - only while simulants are added - coerce the
   supplied values to the column's dtype, write, cast the whole column to the update's dtype *)
Lemma build_col_inv a k idx u k' : build_col a k idx u = inl k' ->
  (udt u = cdt k /\ k' = mkcol (cname k) (cdt k) (write_cells (cdt k) (ccells k) idx (ucells u))) \/
  (a = true /\ udt u <> cdt k /\ first_wins (cdt k) = false /\ first_wins (udt u) = false /\
   exists vals cs, cast_cells (cdt k) (ucells u) = inl vals /\
                   cast_cells (udt u) (write_cells (cdt k) (ccells k) idx vals) = inl cs /\
                   k' = mkcol (cname k) (udt u) cs).
Proof.
  unfold build_col. destruct (dtype_eqb (udt u) (cdt k)) eqn:E.
  { intros H; inversion H. left. split; [now apply dtype_eqb_eq | reflexivity]. }
  destruct a; simpl; [|discriminate]. intros H. right. split; [reflexivity|].
  split; [intros X; apply dtype_eqb_eq in X; congruence|].
  assert (G : forall dc du, dc = cdt k -> du = udt u -> first_wins dc = false -> first_wins du = false ->
              match cast_cells dc (ucells u) with
              | inl vals => match cast_cells du (write_cells dc (ccells k) idx vals) with
                            | inl cs => inl (mkcol (cname k) du cs) | inr o => inr o end
              | inr o => inr o end = inl k' ->
              first_wins (cdt k) = false /\ first_wins (udt u) = false /\
              exists vals cs, cast_cells (cdt k) (ucells u) = inl vals /\
                   cast_cells (udt u) (write_cells (cdt k) (ccells k) idx vals) = inl cs /\
                   k' = mkcol (cname k) (udt u) cs).
  { intros dc du -> -> F1 F2 HH. split; [assumption|]. split; [assumption|].
    destruct (cast_cells (cdt k) (ucells u)) as [vals|] eqn:C1; [|discriminate].
    destruct (cast_cells (udt u) (write_cells (cdt k) (ccells k) idx vals)) as [cs|] eqn:C2; [|discriminate].
    inversion HH. exists vals, cs. split; [reflexivity|]. split; [exact C2|reflexivity]. }
  destruct (cdt k) eqn:Dk, (udt u) eqn:Du; simpl in H;
    repeat match type of H with
           | (if ?c then _ else _) = _ => destruct c; try discriminate
           end; try discriminate;
    (eapply G; [reflexivity | reflexivity | reflexivity | reflexivity | exact H]).
Qed.

Lemma build_col_name a k idx u k' : build_col a k idx u = inl k' -> cname k' = cname k.
Proof. intros B. apply build_col_inv in B. destruct B as [[_ ->]|[_ [_ [_ [_ [vals [cs [_ [_ ->]]]]]]]]]; reflexivity. Qed.

Lemma build_col_length a k idx u k' : build_col a k idx u = inl k' -> length (ccells k') = length (ccells k).
Proof.
  intros B. apply build_col_inv in B. destruct B as [[_ ->]|[_ [_ [_ [_ [vals [cs [_ [C ->]]]]]]]]]; simpl.
  - apply write_cells_length.
  - apply cast_cells_length in C. rewrite C. apply write_cells_length.
Qed.

(* steady state: only an update of the column's own dtype is accepted *)
Lemma build_col_steady k idx u k' : build_col false k idx u = inl k' -> udt u = cdt k.
Proof.
  unfold build_col. destruct (dtype_eqb (udt u) (cdt k)) eqn:E; [intros _; now apply dtype_eqb_eq|]. simpl. discriminate.
Qed.
Lemma build_col_steady_fail k idx u o : build_col false k idx u = inr o -> o = Fail WDtype.
Proof.
  unfold build_col. destruct (dtype_eqb (udt u) (cdt k)); [discriminate|]. simpl. intros H; now inversion H.
Qed.

Lemma build_col_same_dtype a k idx u : udt u = cdt k ->
  build_col a k idx u = inl (mkcol (cname k) (cdt k) (write_cells (cdt k) (ccells k) idx (ucells u))).
Proof. intros E. unfold build_col. apply dtype_eqb_eq in E. now rewrite E. Qed.

Lemma cast_cells_not_pass d cs : cast_cells d cs <> inr Pass.
Proof.
  induction cs as [|c r IH]; simpl; [discriminate|].
  destruct (cast_cell d c); try discriminate.
  destruct (cast_cells d r) as [|o]; [discriminate|]. intros H. apply IH. now inversion H.
Qed.
Lemma build_col_not_pass a k idx u : build_col a k idx u <> inr Pass.
Proof.
  unfold build_col. destruct (dtype_eqb (udt u) (cdt k)); [discriminate|].
  destruct (negb a); [discriminate|].
  assert (G : forall dc du, match cast_cells dc (ucells u) with
                            | inl vals => match cast_cells du (write_cells dc (ccells k) idx vals) with
                                          | inl cs => inl (mkcol (cname k) du cs) | inr o => inr o end
                            | inr o => inr o end <> inr Pass).
  { intros dc du. destruct (cast_cells dc (ucells u)) as [vals|o] eqn:E1.
    - destruct (cast_cells du (write_cells dc (ccells k) idx vals)) as [cs|o] eqn:E2; [discriminate|].
      intros H. apply (cast_cells_not_pass du (write_cells dc (ccells k) idx vals)). rewrite E2. now inversion H.
    - intros H. apply (cast_cells_not_pass dc (ucells u)). rewrite E1. now inversion H. }
  destruct (cdt k), (udt u); simpl;
    repeat match goal with
           | |- (if ?c then _ else _) <> _ => destruct c
           end; try discriminate; apply G.
Qed.

(* the pairs written are the update's (label, value) pairs *)
Lemma pairs_for_keys d idx vals n : (forall l, In l idx -> 0 <= l < Z.of_nat n) -> keys_in n (pairs_for d idx vals).
Proof.
  intros H p Hp. unfold pairs_for in Hp.
  assert (In p (combine idx vals)) as Hc by (destruct (first_wins d); [now apply in_rev|assumption]).
  destruct p as [i v]. apply in_combine_l in Hc. simpl. now apply H.
Qed.

Lemma write_cells_cell d cs idx vals l : (forall i, In i idx -> 0 <= i < Z.of_nat (length cs)) -> 0 <= l ->
  nth (Z.to_nat l) (write_cells d cs idx vals) Null =
  match supplied d l idx vals with Some v => v | None => nth (Z.to_nat l) cs Null end.
Proof.
  intros H Hl. unfold write_cells, supplied. rewrite write_pairs_nth; [|now apply pairs_for_keys].
  rewrite Z2Nat.id by assumption. reflexivity.
Qed.

(* a value is supplied only for labels of the update's index *)
Lemma last_pair_In l ps v : last_pair l ps None = Some v -> In (l, v) ps.
Proof.
  assert (G : forall ps acc, last_pair l ps acc = Some v -> In (l, v) ps \/ acc = Some v).
  { induction ps0 as [|[i x] r IH]; simpl; intros acc H; [now right|].
    apply IH in H. destruct H as [H|H]; [left; now right|].
    destruct (i =? l) eqn:E; [|now right]. apply Z.eqb_eq in E. inversion H; subst. left; now left. }
  intros H. apply G in H. destruct H; [assumption|discriminate].
Qed.
Lemma supplied_In d l idx vals v : supplied d l idx vals = Some v -> In l idx /\ In v vals.
Proof.
  unfold supplied, pairs_for. intros H. apply last_pair_In in H.
  assert (In (l, v) (combine idx vals)) as Hc by (destruct (first_wins d); [now apply in_rev|assumption]).
  split; [eapply in_combine_l | eapply in_combine_r]; eassumption.
Qed.
Lemma supplied_nil d l vals : supplied d l [] vals = None.
Proof. unfold supplied, pairs_for. simpl. destruct (first_wins d); reflexivity. Qed.

(* ================================================================================================================ *)
(** * All columns: [build_all], then the assignments *)

Lemma find_ucol_name us c u : find_ucol us c = Some u -> uname u = c /\ In u us.
Proof.
  induction us as [|x r IH]; simpl; [discriminate|].
  destruct (uname x =? c) eqn:E.
  - intros H; inversion H; subst. split; [now apply Z.eqb_eq | now left].
  - intros H. apply IH in H. destruct H. split; [assumption | now right].
Qed.
Lemma find_ucol_None us c : find_ucol us c = None <-> ~ In c (unames us).
Proof.
  induction us as [|x r IH]; simpl; [tauto|].
  destruct (uname x =? c) eqn:E.
  - apply Z.eqb_eq in E. split; [discriminate | intros H; exfalso; apply H; now left].
  - apply Z.eqb_neq in E. rewrite IH. tauto.
Qed.
Lemma find_ucol_NoDup us u : NoDup (unames us) -> In u us -> find_ucol us (uname u) = Some u.
Proof.
  induction us as [|x r IH]; simpl; [tauto|].
  intros ND [->|H]; [now rewrite Z.eqb_refl|].
  inversion ND as [|? ? Hx ND']; subst.
  destruct (uname x =? uname u) eqn:E; [|now apply IH].
  apply Z.eqb_eq in E. exfalso. apply Hx. rewrite E. now apply in_map.
Qed.

Definition built (a : bool) (t : table) (idx : list Z) (us : list ucol) (c : cid) : option column :=
  match find_col (tcols t) c, find_ucol us c with
  | Some k, Some u => match build_col a k idx u with inl k' => Some k' | inr _ => None end
  | _, _ => None
  end.

Lemma built_name a t idx us c k' : built a t idx us c = Some k' -> cname k' = c.
Proof.
  unfold built. destruct (find_col (tcols t) c) as [k|] eqn:E; [|discriminate].
  destruct (find_ucol us c); [|discriminate]. destruct (build_col a k idx u) eqn:B; [|discriminate].
  intros H; inversion H; subst. apply build_col_name in B. apply find_col_name in E. congruence.
Qed.

(* [build_all] succeeds iff every column builds; the result lists the built columns, in the order visited *)
Lemma build_all_ok a t idx us : forall cs ks, build_all a t idx us cs = inl ks ->
  (forall k', In k' ks <-> exists c, In c cs /\ built a t idx us c = Some k') /\
  (forall c k u, In c cs -> find_col (tcols t) c = Some k -> find_ucol us c = Some u ->
                 exists k', build_col a k idx u = inl k') /\
  (NoDup cs -> NoDup (map cname ks)).
Proof.
  induction cs as [|c r IH]; simpl; intros ks H.
  - inversion H; subst. split; [|split].
    + intros k'. simpl. split; [tauto|]. intros [c [[] _]].
    + intros c k u [].
    + intros _. constructor.
  - destruct (find_col (tcols t) c) as [k|] eqn:Ek; [destruct (find_ucol us c) as [u|] eqn:Eu|].
    + destruct (build_col a k idx u) as [k'|] eqn:B; [|discriminate].
      destruct (build_all a t idx us r) as [ks'|] eqn:R; [|discriminate].
      inversion H; subst. destruct (IH ks' eq_refl) as [I1 [I2 I3]].
      assert (Bc : built a t idx us c = Some k') by (unfold built; now rewrite Ek, Eu, B).
      repeat split.
      * intros [<-|Hin]; [exists c; split; [now left|assumption]|].
        apply I1 in Hin. destruct Hin as [c' [Hc' Hb]]. exists c'. split; [now right|assumption].
      * intros [c' [[<-|Hc'] Hb]]; [left; congruence|]. right. apply I1. eauto.
      * intros c' k0 u0 [<-|Hc'] Hk0 Hu0; [rewrite Ek in Hk0; rewrite Eu in Hu0; inversion Hk0; inversion Hu0; subst; eauto|].
        eapply I2; eassumption.
      * intros ND. inversion ND as [|? ? Hc ND']; subst. simpl. constructor; [|now apply I3].
        intros Hin. apply in_map_iff in Hin. destruct Hin as [k2 [Hn Hin]]. apply I1 in Hin.
        destruct Hin as [c2 [Hc2 Hb2]]. apply built_name in Hb2. apply built_name in Bc. apply Hc. congruence.
    + destruct (IH ks H) as [I1 [I2 I3]]. repeat split.
      * intros Hin. apply I1 in Hin. destruct Hin as [c' [Hc' Hb]]. exists c'. split; [now right|assumption].
      * intros [c' [[<-|Hc'] Hb]]; [unfold built in Hb; rewrite Ek, Eu in Hb; discriminate|]. apply I1. eauto.
      * intros c' k0 u0 [<-|Hc'] Hk0 Hu0; [congruence|]. eapply I2; eassumption.
      * intros ND. inversion ND; subst. now apply I3.
    + destruct (IH ks H) as [I1 [I2 I3]]. repeat split.
      * intros Hin. apply I1 in Hin. destruct Hin as [c' [Hc' Hb]]. exists c'. split; [now right|assumption].
      * intros [c' [[<-|Hc'] Hb]]; [unfold built in Hb; rewrite Ek in Hb; discriminate|]. apply I1. eauto.
      * intros c' k0 u0 [<-|Hc'] Hk0 Hu0; [congruence|]. eapply I2; eassumption.
      * intros ND. inversion ND; subst. now apply I3.
Qed.

Lemma build_all_complete a t idx us : forall cs,
  (forall c k u, In c cs -> find_col (tcols t) c = Some k -> find_ucol us c = Some u -> exists k', build_col a k idx u = inl k') ->
  exists ks, build_all a t idx us cs = inl ks.
Proof.
  induction cs as [|c r IH]; simpl; intros H; [eauto|].
  destruct IH as [ks' R]. { intros. eapply H; [right|..]; eassumption. }
  destruct (find_col (tcols t) c) as [k|] eqn:Ek; [destruct (find_ucol us c) as [u|] eqn:Eu|]; try (rewrite R; now eauto).
  destruct (H c k u (or_introl eq_refl) Ek Eu) as [k' B]. rewrite B, R. eauto.
Qed.

(* a failing [build_all] fails with the outcome of one of the columns *)
Lemma build_all_fail a t idx us : forall cs o, build_all a t idx us cs = inr o ->
  exists c k u, In c cs /\ find_col (tcols t) c = Some k /\ find_ucol us c = Some u /\ build_col a k idx u = inr o.
Proof.
  induction cs as [|c r IH]; simpl; intros o H; [discriminate|].
  assert (G : build_all a t idx us r = inr o ->
              exists c0 k u, (c = c0 \/ In c0 r) /\ find_col (tcols t) c0 = Some k /\ find_ucol us c0 = Some u /\ build_col a k idx u = inr o).
  { intros R. destruct (IH o R) as [c0 [k [u [A B]]]]. exists c0, k, u. split; [now right|assumption]. }
  destruct (find_col (tcols t) c) as [k|] eqn:Ek; [destruct (find_ucol us c) as [u|] eqn:Eu|]; try (now apply G).
  destruct (build_col a k idx u) as [k'|o'] eqn:B.
  - destruct (build_all a t idx us r) eqn:R; [discriminate|]. inversion H; subst. now apply G.
  - inversion H; subst. exists c, k, u. repeat split; try assumption. now left.
Qed.

Lemma find_col_NoDup ks k' : NoDup (map cname ks) -> In k' ks -> find_col ks (cname k') = Some k'.
Proof.
  induction ks as [|x r IH]; simpl; [tauto|].
  intros ND [->|H]; [now rewrite Z.eqb_refl|].
  inversion ND as [|? ? Hx ND']; subst.
  destruct (cname x =? cname k') eqn:E; [|now apply IH].
  apply Z.eqb_eq in E. exfalso. apply Hx. rewrite E. now apply in_map.
Qed.

Lemma fold_put_find ks : forall cols c, NoDup (map cname ks) ->
  find_col (fold_left put_col ks cols) c = match find_col ks c with Some k' => Some k' | None => find_col cols c end.
Proof.
  induction ks as [|k r IH]; intros cols c ND; simpl; [reflexivity|].
  inversion ND as [|? ? Hk ND']; subst. rewrite IH by assumption. rewrite find_put_col.
  destruct (cname k =? c) eqn:E.
  - apply Z.eqb_eq in E. subst c. destruct (find_col r (cname k)) eqn:F; [|reflexivity].
    exfalso. apply Hk. apply find_col_name in F as N. apply find_col_In in F. rewrite <- N. now apply in_map.
  - reflexivity.
Qed.

Lemma fold_put_names ks : forall cols, (forall k, In k ks -> In (cname k) (map cname cols)) ->
  map cname (fold_left put_col ks cols) = map cname cols.
Proof.
  induction ks as [|k r IH]; intros cols H; simpl; [reflexivity|].
  rewrite IH.
  - apply put_col_names_in. apply H. now left.
  - intros k' Hk'. rewrite put_col_names_in by (apply H; now left). apply H. now right.
Qed.

Lemma fold_put_map ks : forall cols, NoDup (map cname cols) -> NoDup (map cname ks) ->
  (forall k, In k ks -> In (cname k) (map cname cols)) ->
  fold_left put_col ks cols = map (fun x => match find_col ks (cname x) with Some k' => k' | None => x end) cols.
Proof.
  induction ks as [|k r IH]; intros cols NDc ND H; simpl.
  - symmetry. apply map_id.
  - inversion ND as [|? ? Hk ND']; subst.
    assert (Hin : In (cname k) (map cname cols)) by (apply H; now left).
    rewrite IH.
    + rewrite put_col_map by assumption. rewrite map_map. apply map_ext_in. intros x Hx.
      destruct (cname x =? cname k) eqn:E.
      * apply Z.eqb_eq in E. rewrite Z.eqb_sym, E, Z.eqb_refl.
        destruct (find_col r (cname k)) eqn:F; [|reflexivity].
        exfalso. apply Hk. apply find_col_name in F as N. apply find_col_In in F. rewrite <- N. now apply in_map.
      * rewrite Z.eqb_sym, E. reflexivity.
    + now rewrite put_col_names_in.
    + assumption.
    + intros k' Hk'. rewrite put_col_names_in by assumption. apply H. now right.
Qed.

(* ================================================================================================================ *)
(** * [update]: inversion lemmas *)

Lemma update_checked_ok t v f u idx us : update_checked t v f u = inl (idx, us) ->
  coerce (view_columns t v) u = inl (idx, us) /\
  (forall l, In l idx -> has_label t l = true) /\
  (creating f = false -> check_steady t f idx us = None) /\
  (creating f = true -> check_creating t idx us = None /\ adding f = true).
Proof.
  unfold update_checked. destruct (creating f && negb (adding f)) eqn:EA; [discriminate|].
  destruct (coerce (view_columns t v) u) as [[idx0 us0]|] eqn:EC; [|discriminate].
  destruct (existsb (fun l => negb (has_label t l)) idx0) eqn:ER; [discriminate|].
  destruct (creating f) eqn:Cf.
  - destruct (check_creating t idx0 us0) eqn:CC; [discriminate|]. intros H; inversion H; subst.
    split; [reflexivity|]. split; [|split].
    + intros l Hl. destruct (has_label t l) eqn:E; [reflexivity|].
      assert (existsb (fun l => negb (has_label t l)) idx = true) by (apply existsb_exists; exists l; now rewrite E).
      congruence.
    + discriminate.
    + intros _. split; [assumption|]. simpl in EA. now destruct (adding f).
  - destruct (check_steady t f idx0 us0) eqn:CC; [discriminate|]. intros H; inversion H; subst.
    split; [reflexivity|]. split; [|split].
    + intros l Hl. destruct (has_label t l) eqn:E; [reflexivity|].
      assert (existsb (fun l => negb (has_label t l)) idx = true) by (apply existsb_exists; exists l; now rewrite E).
      congruence.
    + intros _. assumption.
    + discriminate.
Qed.

Lemma check_steady_ok t f idx us : check_steady t f idx us = None ->
  (forall u, In u us -> has_col t (uname u) = true) /\
  (adding f = true -> forall u, In u us -> add_conflict t idx u = false).
Proof.
  unfold check_steady. destruct (forallb (fun u => has_col t (uname u)) us) eqn:E; simpl; [|discriminate].
  destruct (adding f && existsb (add_conflict t idx) us) eqn:E2; [discriminate|]. intros _.
  rewrite forallb_forall in E. split; [exact E|].
  intros A u Hu. rewrite A in E2. simpl in E2. destruct (add_conflict t idx u) eqn:C; [|reflexivity].
  assert (existsb (add_conflict t idx) us = true) by (apply existsb_exists; eauto). congruence.
Qed.

Lemma filter_all {A} (p : A -> bool) l : (forall x, In x l -> p x = true) -> filter p l = l.
Proof.
  induction l as [|x r IH]; simpl; intros H; [reflexivity|].
  rewrite H by now left. f_equal. apply IH. intros; apply H; now right.
Qed.

(* a successful update outside the initial creation *)
Lemma update_steady_inv t v f ord u t' : creating f = false -> update t v f ord u = (t', Pass) ->
  exists idx us, update_checked t v f u = inl (idx, us) /\
    ((idx = [] /\ t' = t) \/
     (idx <> [] /\ NoDup (unames us) /\
      exists ks, build_all (adding f) t idx us (order_by ord (unames us)) = inl ks /\
                 t' = set_cols t (fold_left put_col ks (tcols t)))).
Proof.
  intros Cf. unfold update. destruct (update_checked t v f u) as [[idx us]|w] eqn:UC; [|discriminate].
  rewrite Cf. intros H. exists idx, us. split; [reflexivity|].
  destruct idx as [|i idx]; simpl in H; [left; split; [reflexivity | now inversion H]|].
  right. split; [discriminate|].
  destruct (nodupb (unames us)) eqn:ND; simpl in H; [|discriminate].
  apply nodupb_NoDup in ND. split; [assumption|].
  apply update_checked_ok in UC. destruct UC as [_ [_ [CS _]]]. apply check_steady_ok in CS; [|assumption].
  destruct CS as [HC _].
  rewrite (filter_all (has_col t) (unames us)) in H.
  2:{ intros c Hc. apply in_map_iff in Hc. destruct Hc as [x [<- Hx]]. now apply HC. }
  destruct (build_all (adding f) t (i :: idx) us (order_by ord (unames us))) as [ks|o] eqn:B.
  - inversion H; subst. eauto.
  - inversion H; subst. apply build_all_fail in B. destruct B as [c [k [u0 [_ [_ [_ B]]]]]].
    exfalso. eapply build_col_not_pass; eassumption.
Qed.

(* every rejection - structural or dtype, whatever the flags and the iteration order - leaves the table as it was *)
Lemma update_rejected_unchanged t v f ord u t' o : update t v f ord u = (t', o) -> o <> Pass -> t' = t.
Proof.
  unfold update. destruct (update_checked t v f u) as [[idx us]|w]; [|intros H; now inversion H].
  destruct (creating f).
  - destruct (negb (nodupb (unames us))); [intros H; now inversion H|].
    destruct (negb (nodupb idx)); intros H; inversion H; subst; [reflexivity|]. intros N. now elim N.
  - destruct (is_nil idx); [intros H; inversion H; subst; intros N; now elim N|].
    destruct (negb (nodupb (unames us))); [intros H; now inversion H|].
    destruct (build_all _ _ _ _ _); intros H; inversion H; subst; [intros N; now elim N | reflexivity].
Qed.

(* ================================================================================================================ *)
(** * C11: a successful update outside the initial creation writes exactly the addressed cells *)

(* what the table must look like afterwards: the supplied value where one was supplied, the old cell elsewhere *)
Definition spec_cell (t : table) (idx : list Z) (us : list ucol) (c : cid) (l : Z) : option cell :=
  match cell_at t c l with
  | None => None
  | Some old => match find_ucol us c with
                | Some u => match supplied (udt u) l idx (ucells u) with Some v => Some v | None => Some old end
                | None => Some old
                end
  end.

(* no column is cast: the update's dtype is the column's (always so in steady state; the guard while adding) *)
Definition nocast (t : table) (us : list ucol) : Prop :=
  forall u k, In u us -> find_col (tcols t) (uname u) = Some k -> udt u = cdt k.

Lemma set_cols_wf t cs : map cname cs = col_names t -> NoDup (col_names t) ->
  Forall (fun k => length (ccells k) = tn t) cs -> wf (set_cols t cs).
Proof. intros N ND F. split; unfold col_names; simpl; [now rewrite N | exact F]. Qed.

Lemma built_in_table a t idx us c k' : built a t idx us c = Some k' -> In (cname k') (col_names t).
Proof.
  intros B. apply built_name in B as N. unfold built in B. destruct (find_col (tcols t) c) eqn:E; [|discriminate].
  subst c. apply find_col_name in E as N2. apply find_col_In in E. rewrite <- N2. unfold col_names. now apply in_map.
Qed.

Lemma built_length a t idx us c k' : wf t -> built a t idx us c = Some k' -> length (ccells k') = tn t.
Proof.
  intros W B. unfold built in B. destruct (find_col (tcols t) c) as [k|] eqn:E; [|discriminate].
  destruct (find_ucol us c); [|discriminate]. destruct (build_col a k idx u) eqn:Bc; [|discriminate].
  inversion B; subst. apply build_col_length in Bc. rewrite Bc. eapply wf_find; eassumption.
Qed.

Section SteadyUpdate.
  Variables (t : table) (v : view) (f : flags) (ord : list cid) (u : upd) (t' : table) (idx : list Z) (us : list ucol).
  Hypothesis W : wf t.
  Hypothesis Cf : creating f = false.
  Hypothesis UC : update_checked t v f u = inl (idx, us).
  Hypothesis UP : update t v f ord u = (t', Pass).

  Lemma steady_shape :
    (idx = [] /\ t' = t) \/
    (idx <> [] /\ NoDup (unames us) /\
      exists ks, build_all (adding f) t idx us (order_by ord (unames us)) = inl ks /\
                 t' = set_cols t (fold_left put_col ks (tcols t))).
  Proof.
    destruct (update_steady_inv _ _ _ _ _ _ Cf UP) as [idx0 [us0 [E H]]]. rewrite UC in E. inversion E; subst. exact H.
  Qed.

  Lemma steady_rows : tn t' = tn t.
  Proof. destruct steady_shape as [[_ ->]|[_ [_ [ks [_ ->]]]]]; reflexivity. Qed.

  (* the columns of the result: the built column where the update names the column, the old one elsewhere *)
  Lemma steady_find c :
    find_col (tcols t') c =
    match idx, find_ucol us c with
    | _ :: _, Some _ => built (adding f) t idx us c
    | _, _ => find_col (tcols t) c
    end.
  Proof.
    destruct steady_shape as [[-> ->]|[NE [ND [ks [B ->]]]]]; [reflexivity|].
    destruct idx as [|i r]; [congruence|].
    destruct (build_all_ok _ _ _ _ _ _ B) as [I1 [I2 I3]]. specialize (I3 (order_by_NoDup _ _)).
    simpl. rewrite fold_put_find by assumption.
    destruct (find_ucol us c) as [u0|] eqn:Eu.
    - assert (Hc : In c (order_by ord (unames us))).
      { apply order_by_In. apply find_ucol_name in Eu. destruct Eu as [<- Hu]. now apply in_map. }
      assert (Ht : exists k, find_col (tcols t) c = Some k).
      { apply find_col_Some_In. apply has_col_In. apply update_checked_ok in UC. destruct UC as [_ [_ [CS _]]].
        apply check_steady_ok in CS; [|assumption]. destruct CS as [HC _]. apply find_ucol_name in Eu.
        destruct Eu as [<- Hu]. now apply HC. }
      destruct Ht as [k Ek]. destruct (I2 c k u0 Hc Ek Eu) as [k' Bk].
      assert (Bc : built (adding f) t (i :: r) us c = Some k') by (unfold built; now rewrite Ek, Eu, Bk).
      rewrite Bc. assert (In k' ks) by (apply I1; eauto).
      apply built_name in Bc. subst c. now rewrite find_col_NoDup.
    - destruct (find_col ks c) as [k'|] eqn:F; [|reflexivity]. exfalso.
      apply find_col_name in F as N. apply find_col_In in F. apply I1 in F. destruct F as [c' [_ Bc]].
      apply built_name in Bc as N2. unfold built in Bc. destruct (find_col (tcols t) c'); [|discriminate].
      destruct (find_ucol us c') eqn:E2; [|discriminate]. congruence.
  Qed.

  Lemma steady_names : col_names t' = col_names t.
  Proof.
    destruct steady_shape as [[_ ->]|[_ [_ [ks [B ->]]]]]; [reflexivity|].
    unfold col_names. simpl. apply fold_put_names. intros k Hk.
    destruct (build_all_ok _ _ _ _ _ _ B) as [I1 _]. apply I1 in Hk. destruct Hk as [c [_ Bc]].
    eapply built_in_table; eassumption.
  Qed.

  Lemma steady_wf : wf t'.
  Proof.
    destruct steady_shape as [[_ ->]|[_ [_ [ks [B E]]]]]; [assumption|].
    pose proof steady_names as N. rewrite E in *. apply set_cols_wf; [exact N | apply W |].
    destruct (build_all_ok _ _ _ _ _ _ B) as [I1 [_ I3]]. specialize (I3 (order_by_NoDup _ _)).
    assert (NDt : NoDup (map cname (tcols t))) by apply W.
    rewrite fold_put_map; try assumption.
    - apply Forall_forall. intros x Hx. apply in_map_iff in Hx. destruct Hx as [y [<- Hy]].
      destruct (find_col ks (cname y)) eqn:F.
      + apply find_col_In in F. apply I1 in F. destruct F as [c' [_ Bc]]. eapply built_length; eassumption.
      + destruct W as [_ WF]. rewrite Forall_forall in WF. now apply WF.
    - intros k Hk. apply I1 in Hk. destruct Hk as [c [_ Bc]]. eapply built_in_table; eassumption.
  Qed.

  (* exactness, when no column is cast *)
  Hypothesis NC : nocast t us.

  Lemma steady_dtypes c : dtype_at t' c = dtype_at t c.
  Proof.
    unfold dtype_at. rewrite steady_find. destruct idx as [|i r]; [reflexivity|].
    destruct (find_ucol us c) as [u0|] eqn:Eu; [|reflexivity].
    unfold built. rewrite Eu. destruct (find_col (tcols t) c) as [k|] eqn:Ek; [|reflexivity].
    apply find_ucol_name in Eu. destruct Eu as [<- Hu]. rewrite build_col_same_dtype by (now apply NC). reflexivity.
  Qed.

  Lemma steady_cells c l : cell_at t' c l = spec_cell t idx us c l.
  Proof.
    unfold spec_cell, cell_at. rewrite steady_find.
    assert (HL : has_label t' l = has_label t l) by (unfold has_label; now rewrite steady_rows). rewrite HL.
    destruct idx as [|i r] eqn:EI.
    { destruct (find_col (tcols t) c); [|reflexivity]. destruct (has_label t l); [|reflexivity].
      destruct (find_ucol us c); [|reflexivity]. now rewrite supplied_nil. }
    rewrite <- EI in *.
    destruct (find_ucol us c) as [u0|] eqn:Eu.
    2:{ destruct (find_col (tcols t) c); [|reflexivity]. destruct (has_label t l); reflexivity. }
    unfold built. rewrite Eu. destruct (find_col (tcols t) c) as [k|] eqn:Ek; [|reflexivity].
    apply find_ucol_name in Eu. destruct Eu as [<- Hu]. rewrite build_col_same_dtype by (now apply NC).
    destruct (has_label t l) eqn:L; [|reflexivity]. apply has_label_spec in L.
    unfold cell_of. simpl. rewrite write_cells_cell.
    - rewrite (NC u0 k Hu Ek). destruct (supplied (cdt k) l idx (ucells u0)); reflexivity.
    - intros j Hj. rewrite (wf_find _ _ _ W Ek). apply has_label_spec. apply update_checked_ok in UC.
      destruct UC as [_ [R _]]. now apply R.
    - lia.
  Qed.
End SteadyUpdate.

(* in steady state success itself implies that no column is cast *)
Lemma steady_nocast t v f ord u t' idx us : creating f = false -> adding f = false ->
  update_checked t v f u = inl (idx, us) -> update t v f ord u = (t', Pass) -> idx <> [] -> nocast t us.
Proof.
  intros Cf Af UC UP NE u0 k Hu Ek.
  destruct (update_steady_inv _ _ _ _ _ _ Cf UP) as [idx0 [us0 [E H]]]. rewrite UC in E. inversion E; subst.
  destruct H as [[-> _]|[_ [ND [ks [B _]]]]]; [congruence|].
  destruct (build_all_ok _ _ _ _ _ _ B) as [_ [I2 _]].
  assert (Hc : In (uname u0) (order_by ord (unames us0))) by (apply order_by_In; now apply in_map).
  destruct (I2 _ _ _ Hc Ek (find_ucol_NoDup _ _ ND Hu)) as [k' Bk]. rewrite Af in Bk. now apply build_col_steady in Bk.
Qed.

(* ================================================================================================================ *)
(** * C11: the iteration order of the column set does not matter *)

Lemma update_steady_eval t v f ord u idx us : creating f = false -> update_checked t v f u = inl (idx, us) ->
  idx <> [] -> NoDup (unames us) ->
  update t v f ord u =
  match build_all (adding f) t idx us (order_by ord (unames us)) with
  | inl ks => (set_cols t (fold_left put_col ks (tcols t)), Pass)
  | inr o => (t, o)
  end.
Proof.
  intros Cf UC NE ND. unfold update. rewrite UC, Cf. destruct idx as [|i r]; [congruence|]. simpl.
  apply nodupb_NoDup in ND. rewrite ND. simpl.
  apply update_checked_ok in UC. destruct UC as [_ [_ [CS _]]]. apply check_steady_ok in CS; [|assumption].
  destruct CS as [HC _]. rewrite (filter_all (has_col t) (unames us)); [reflexivity|].
  intros c Hc. apply in_map_iff in Hc. destruct Hc as [x [<- Hx]]. now apply HC.
Qed.

Lemma build_all_find a t idx us cs ks c : NoDup cs -> build_all a t idx us cs = inl ks ->
  find_col ks c = if zmem c cs then built a t idx us c else None.
Proof.
  intros ND B. destruct (build_all_ok _ _ _ _ _ _ B) as [I1 [_ I3]]. specialize (I3 ND).
  destruct (find_col ks c) as [k'|] eqn:F.
  - apply find_col_name in F as N. apply find_col_In in F. apply I1 in F. destruct F as [c' [Hc' Bc]].
    apply built_name in Bc as N2. assert (E : c' = c) by congruence. rewrite E in Hc', Bc.
    apply zmem_In in Hc'. rewrite Hc'. now rewrite Bc.
  - destruct (zmem c cs) eqn:Z; [|reflexivity]. apply zmem_In in Z.
    destruct (built a t idx us c) as [k'|] eqn:Bc; [|reflexivity].
    assert (In k' ks) by (apply I1; eauto). apply built_name in Bc. subst c.
    rewrite find_col_NoDup in F by assumption. discriminate.
Qed.

Lemma zmem_ext c l1 l2 : (In c l1 <-> In c l2) -> zmem c l1 = zmem c l2.
Proof.
  intros H. destruct (zmem c l1) eqn:A, (zmem c l2) eqn:B; try reflexivity.
  - apply zmem_In in A. apply H in A. apply zmem_In in A. congruence.
  - apply zmem_In in B. apply H in B. apply zmem_In in B. congruence.
Qed.

Theorem steady_perm_invariant t v f ord1 ord2 u t1 : wf t -> creating f = false ->
  update t v f ord1 u = (t1, Pass) -> update t v f ord2 u = (t1, Pass).
Proof.
  intros W Cf UP. destruct (update_steady_inv _ _ _ _ _ _ Cf UP) as [idx [us [UC H]]].
  destruct H as [[-> ->]|[NE [ND [ks1 [B1 ->]]]]].
  { unfold update. rewrite UC, Cf. reflexivity. }
  rewrite (update_steady_eval _ _ _ ord2 _ _ _ Cf UC NE ND).
  destruct (build_all_ok _ _ _ _ _ _ B1) as [I1 [I2 I3]].
  destruct (build_all_complete (adding f) t idx us (order_by ord2 (unames us))) as [ks2 B2].
  { intros c k u0 Hc. apply I2. apply order_by_In. now apply order_by_In in Hc. }
  rewrite B2. f_equal. f_equal.
  destruct (build_all_ok _ _ _ _ _ _ B2) as [J1 [_ J3]].
  assert (NDt : NoDup (map cname (tcols t))) by apply W.
  rewrite !fold_put_map; try assumption; try (apply I3 || apply J3; apply order_by_NoDup).
  - apply map_ext. intros x.
    rewrite (build_all_find _ _ _ _ _ _ (cname x) (order_by_NoDup _ _) B1).
    rewrite (build_all_find _ _ _ _ _ _ (cname x) (order_by_NoDup _ _) B2).
    rewrite (zmem_ext (cname x) (order_by ord2 (unames us)) (order_by ord1 (unames us))); [reflexivity|].
    now rewrite !order_by_In.
  - intros k Hk. apply I1 in Hk. destruct Hk as [c [_ Bc]]. eapply built_in_table; eassumption.
  - intros k Hk. apply J1 in Hk. destruct Hk as [c [_ Bc]]. eapply built_in_table; eassumption.
Qed.

(* ================================================================================================================ *)
(** * C11 / C13: updates during the initial creation add the new columns and nothing else *)

Definition newcol (t : table) (idx : list Z) (us : list ucol) (c : cid) : option column :=
  match find_ucol us c with Some u => Some (mkcol c (udt u) (align t idx (ucells u))) | None => None end.

Lemma assign_new_find t idx us cs : forall acc c,
  find_col (fold_left (fun acc c => match find_ucol us c with
                                    | Some u => put_col acc (mkcol c (udt u) (align t idx (ucells u)))
                                    | None => acc end) cs acc) c
  = match (if zmem c cs then newcol t idx us c else None) with Some k => Some k | None => find_col acc c end.
Proof.
  induction cs as [|a r IH]; intros acc c; simpl; [reflexivity|].
  rewrite IH. unfold newcol.
  destruct (a =? c) eqn:E.
  - apply Z.eqb_eq in E. subst a. rewrite Z.eqb_refl. simpl.
    destruct (find_ucol us c) as [u|] eqn:Eu.
    + destruct (zmem c r); [reflexivity|]. rewrite find_put_col. simpl. now rewrite Z.eqb_refl.
    + destruct (zmem c r); reflexivity.
  - rewrite Z.eqb_sym, E. simpl. destruct (zmem c r); [destruct (find_ucol us c); [reflexivity|]|].
    + destruct (find_ucol us a); [|reflexivity]. rewrite find_put_col. simpl. now rewrite E.
    + destruct (find_ucol us a); [|reflexivity]. rewrite find_put_col. simpl. now rewrite E.
Qed.

Lemma assign_new_names t idx us cs : forall acc,
  NoDup cs -> (forall c, In c cs -> ~ In c (map cname acc)) -> (forall c, In c cs -> In c (unames us)) ->
  map cname (fold_left (fun acc c => match find_ucol us c with
                                     | Some u => put_col acc (mkcol c (udt u) (align t idx (ucells u)))
                                     | None => acc end) cs acc) = map cname acc ++ cs.
Proof.
  induction cs as [|a r IH]; intros acc ND D U; simpl; [now rewrite app_nil_r|].
  inversion ND as [|? ? Ha ND']; subst.
  destruct (find_ucol us a) as [u|] eqn:Eu.
  2:{ apply find_ucol_None in Eu. exfalso. apply Eu. apply U. now left. }
  rewrite IH; try assumption.
  - rewrite put_col_names_new by (simpl; apply D; now left). simpl. now rewrite <- app_assoc.
  - intros c Hc. rewrite put_col_names_new by (simpl; apply D; now left). simpl.
    rewrite in_app_iff. intros [H|[H|[]]]; [eapply D; [right|]; eassumption | congruence].
  - intros c Hc. apply U. now right.
Qed.

Lemma labels_nth n (g : Z -> cell) l : 0 <= l < Z.of_nat n -> nth (Z.to_nat l) (map g (labels_upto n)) Null = g l.
Proof.
  intros H. unfold labels_upto. rewrite map_map.
  rewrite (nth_indep _ Null (g (Z.of_nat 0))) by (rewrite map_length, seq_length; lia).
  rewrite (map_nth (fun x => g (Z.of_nat x)) (seq 0 n) 0%nat). rewrite seq_nth by lia. simpl. f_equal. lia.
Qed.

Lemma labels_length n : length (labels_upto n) = n.
Proof. unfold labels_upto. now rewrite map_length, seq_length. Qed.

Lemma update_creating_inv t v f ord u t' : creating f = true -> update t v f ord u = (t', Pass) ->
  exists idx us, update_checked t v f u = inl (idx, us) /\ NoDup (unames us) /\ NoDup idx /\
    t' = set_cols t (assign_new t idx us (order_by ord (filter (fun c => negb (has_col t c)) (unames us)))).
Proof.
  intros Cf. unfold update. destruct (update_checked t v f u) as [[idx us]|w] eqn:UC; [|discriminate].
  rewrite Cf. destruct (nodupb (unames us)) eqn:N1; simpl; [|discriminate].
  destruct (nodupb idx) eqn:N2; simpl; [|discriminate]. intros H; inversion H; subst.
  exists idx, us. repeat split; try reflexivity; now apply nodupb_NoDup.
Qed.

Lemma check_creating_ok t idx us : check_creating t idx us = None ->
  (forall l, In l (labels t) -> In l idx) /\
  (exists u, In u us /\ has_col t (uname u) = false) /\
  (forall u, In u us -> has_col t (uname u) = true -> series_equals_col t idx u = true).
Proof.
  unfold check_creating. destruct (existsb (fun l => negb (zmem l idx)) (labels t)) eqn:E1; [discriminate|].
  destruct (forallb (fun u => has_col t (uname u)) us) eqn:E2; [discriminate|].
  destruct (existsb (fun u => has_col t (uname u) && negb (series_equals_col t idx u)) us) eqn:E3; [discriminate|].
  intros _. split; [|split].
  - intros l Hl. destruct (zmem l idx) eqn:Z; [now apply zmem_In|].
    assert (existsb (fun l => negb (zmem l idx)) (labels t) = true) by (apply existsb_exists; exists l; now rewrite Z). congruence.
  - destruct (forallb_forall (fun u => has_col t (uname u)) us) as [_ B].
    destruct (existsb (fun u => negb (has_col t (uname u))) us) eqn:E4.
    + apply existsb_exists in E4. destruct E4 as [x [Hx Hn]]. exists x. split; [assumption|]. now apply negb_true_iff.
    + exfalso. assert (forallb (fun u => has_col t (uname u)) us = true); [|congruence]. apply B. intros x Hx.
      destruct (has_col t (uname x)) eqn:Hc; [reflexivity|].
      assert (existsb (fun u => negb (has_col t (uname u))) us = true) by (apply existsb_exists; exists x; now rewrite Hc). congruence.
  - intros x Hx Hc. destruct (series_equals_col t idx x) eqn:S; [reflexivity|].
    assert (existsb (fun u => has_col t (uname u) && negb (series_equals_col t idx u)) us = true)
      by (apply existsb_exists; exists x; now rewrite Hc, S). congruence.
Qed.

Section CreatingUpdate.
  Variables (t : table) (v : view) (f : flags) (ord : list cid) (u : upd) (t' : table) (idx : list Z) (us : list ucol).
  Hypothesis W : wf t.
  Hypothesis Cf : creating f = true.
  Hypothesis UC : update_checked t v f u = inl (idx, us).
  Hypothesis UP : update t v f ord u = (t', Pass).

  Let cs := order_by ord (filter (fun c => negb (has_col t c)) (unames us)).

  Lemma creating_shape : NoDup (unames us) /\ NoDup idx /\ t' = set_cols t (assign_new t idx us cs).
  Proof.
    destruct (update_creating_inv _ _ _ _ _ _ Cf UP) as [idx0 [us0 [E H]]]. rewrite UC in E. inversion E; subst. exact H.
  Qed.

  Lemma cs_In c : In c cs <-> In c (unames us) /\ has_col t c = false.
  Proof. unfold cs. rewrite order_by_In, filter_In, negb_true_iff. tauto. Qed.

  Lemma creating_rows : tn t' = tn t.
  Proof. destruct creating_shape as [_ [_ ->]]. reflexivity. Qed.

  (* existing columns are untouched; the update's new columns appear with the supplied dtype and values *)
  Lemma creating_find c :
    find_col (tcols t') c =
    if has_col t c then find_col (tcols t) c else newcol t idx us c.
  Proof.
    destruct creating_shape as [_ [_ ->]]. simpl. unfold assign_new. rewrite assign_new_find.
    destruct (has_col t c) eqn:Hc.
    - assert (zmem c cs = false) as ->. { apply zmem_false_iff. rewrite cs_In. intros [_ ?]. congruence. }
      reflexivity.
    - destruct (zmem c cs) eqn:Z.
      + destruct (newcol t idx us c) eqn:N; [reflexivity|]. unfold has_col in Hc. now destruct (find_col (tcols t) c).
      + unfold newcol. destruct (find_ucol us c) eqn:Eu.
        * apply find_ucol_name in Eu. destruct Eu as [<- Hu]. exfalso. apply zmem_false_iff in Z. apply Z.
          apply cs_In. split; [now apply in_map|assumption].
        * unfold has_col in Hc. now destruct (find_col (tcols t) c).
  Qed.

  Lemma creating_names : col_names t' = col_names t ++ cs.
  Proof.
    destruct creating_shape as [_ [_ ->]]. unfold col_names. simpl. apply assign_new_names.
    - apply order_by_NoDup.
    - intros c Hc. apply cs_In in Hc. destruct Hc as [_ Hc]. intros H. apply has_col_In in H. congruence.
    - intros c Hc. now apply cs_In in Hc.
  Qed.

  Lemma creating_wf : wf t'.
  Proof.
    split.
    - rewrite creating_names. destruct W as [ND _]. apply NoDup_app_intro; [assumption | apply order_by_NoDup |].
      intros c H1 H2. apply cs_In in H2. destruct H2 as [_ H2]. apply has_col_In in H1. congruence.
    - apply Forall_forall. intros k Hk. rewrite creating_rows.
      assert (find_col (tcols t') (cname k) = Some k \/ True) as _ by now right.
      destruct (find_col (tcols t') (cname k)) as [k2|] eqn:F.
      2:{ apply find_col_None in F. exfalso. apply F. now apply in_map. }
      (* every column of t' is an old one or a freshly aligned one *)
      assert (G : forall k0, In k0 (tcols t') -> length (ccells k0) = tn t).
      { destruct creating_shape as [_ [_ E]]. rewrite E. simpl. unfold assign_new.
        assert (GG : forall l acc, (forall k0, In k0 acc -> length (ccells k0) = tn t) ->
                  forall k0, In k0 (fold_left (fun acc c => match find_ucol us c with
                                     | Some u => put_col acc (mkcol c (udt u) (align t idx (ucells u)))
                                     | None => acc end) l acc) -> length (ccells k0) = tn t).
        { induction l as [|a r IH]; intros acc HA k0; simpl; [apply HA|]. apply IH.
          destruct (find_ucol us a); [|exact HA]. intros k1 Hk1.
          apply put_col_In in Hk1. destruct Hk1 as [->|Hk1]; [|now apply HA].
          simpl. unfold align, labels. now rewrite map_length, labels_length. }
        apply GG. destruct W as [_ WF]. rewrite Forall_forall in WF. exact WF. }
      now apply G.
  Qed.

  Lemma creating_cells_old c l : has_col t c = true -> cell_at t' c l = cell_at t c l.
  Proof.
    intros Hc. unfold cell_at. rewrite creating_find, Hc. unfold has_label. now rewrite creating_rows.
  Qed.

  Lemma creating_cells_new c u0 l : has_col t c = false -> find_ucol us c = Some u0 -> has_label t l = true ->
    cell_at t' c l = Some (match last_pair l (combine idx (ucells u0)) None with Some x => x | None => Null end)
    /\ dtype_at t' c = Some (udt u0).
  Proof.
    intros Hc Eu L. unfold cell_at, dtype_at. rewrite creating_find, Hc. unfold newcol. rewrite Eu.
    unfold has_label in *. rewrite creating_rows, L. split; [|reflexivity]. f_equal.
    unfold cell_of. simpl. unfold align, labels. rewrite labels_nth; [reflexivity|].
    apply andb_true_iff in L. destruct L as [A B]. apply Z.leb_le in A. apply Z.ltb_lt in B. lia.
  Qed.
End CreatingUpdate.

Theorem creating_perm_invariant t v f ord1 ord2 u t1 : wf t -> creating f = true ->
  update t v f ord1 u = (t1, Pass) ->
  exists t2, update t v f ord2 u = (t2, Pass) /\ tn t2 = tn t1 /\ forall c, find_col (tcols t2) c = find_col (tcols t1) c.
Proof.
  intros W Cf UP. destruct (update_creating_inv _ _ _ _ _ _ Cf UP) as [idx [us [UC [N1 [N2 E]]]]].
  exists (set_cols t (assign_new t idx us (order_by ord2 (filter (fun c => negb (has_col t c)) (unames us))))).
  assert (UP2 : update t v f ord2 u =
               (set_cols t (assign_new t idx us (order_by ord2 (filter (fun c => negb (has_col t c)) (unames us)))), Pass)).
  { unfold update. rewrite UC, Cf. apply nodupb_NoDup in N1. apply nodupb_NoDup in N2. now rewrite N1, N2. }
  split; [exact UP2|]. split; [subst t1; reflexivity|].
  intros c. rewrite (creating_find _ _ _ _ _ _ _ _ Cf UC UP2 c), (creating_find _ _ _ _ _ _ _ _ Cf UC UP c). reflexivity.
Qed.

(* ================================================================================================================ *)
(** * C11: the structural rejections, each with the table returned unchanged *)

Definition flags_ok (f : flags) : Prop := creating f = true -> adding f = true.

Lemma flags_ok_assert f : flags_ok f -> creating f && negb (adding f) = false.
Proof. unfold flags_ok. destruct (creating f), (adding f); simpl; intros H; try reflexivity. discriminate (H eq_refl). Qed.

Lemma coerce_fail_update t v f ord u w : flags_ok f -> coerce (view_columns t v) u = inr w -> update t v f ord u = (t, Fail w).
Proof. intros F C. unfold update, update_checked. now rewrite (flags_ok_assert _ F), C. Qed.

Lemma rej_not_pandas t v f ord : flags_ok f -> update t v f ord UNotPandas = (t, Fail WNotPandas).
Proof. intros F. now apply coerce_fail_update. Qed.

Lemma rej_unnamed t v f ord dt idx vals : flags_ok f -> length (view_columns t v) <> 1%nat ->
  update t v f ord (USeries None dt idx vals) = (t, Fail WUnnamed).
Proof.
  intros F L. apply coerce_fail_update; [assumption|]. simpl.
  destruct (view_columns t v) as [|a [|b r]]; try reflexivity. simpl in L. congruence.
Qed.

Lemma rej_extra_series t v f ord c dt idx vals : flags_ok f -> ~ In c (view_columns t v) ->
  update t v f ord (USeries (Some c) dt idx vals) = (t, Fail WExtraCols).
Proof. intros F L. apply coerce_fail_update; [assumption|]. simpl. apply zmem_false_iff in L. now rewrite L. Qed.

Lemma rej_extra_frame t v f ord idx cols c : flags_ok f -> In c (unames cols) -> ~ In c (view_columns t v) ->
  update t v f ord (UFrame idx cols) = (t, Fail WExtraCols).
Proof.
  intros F I L. apply coerce_fail_update; [assumption|]. simpl.
  destruct (forallb (fun c => zmem c (view_columns t v)) (unames cols)) eqn:E; [|reflexivity].
  rewrite forallb_forall in E. apply E in I. apply zmem_In in I. contradiction.
Qed.

Lemma rej_no_cols t v f ord idx : flags_ok f -> update t v f ord (UFrame idx []) = (t, Fail WNoCols).
Proof. intros F. now apply coerce_fail_update. Qed.

Lemma rej_unknown_rows t v f ord u idx us l : flags_ok f -> coerce (view_columns t v) u = inl (idx, us) ->
  In l idx -> has_label t l = false -> update t v f ord u = (t, Fail WUnknownRows).
Proof.
  intros F C I L. unfold update, update_checked. rewrite (flags_ok_assert _ F), C.
  assert (existsb (fun l => negb (has_label t l)) idx = true) as -> by (apply existsb_exists; exists l; now rewrite L).
  reflexivity.
Qed.

Lemma rej_new_cols t v f ord u idx us u0 : creating f = false -> coerce (view_columns t v) u = inl (idx, us) ->
  (forall l, In l idx -> has_label t l = true) -> In u0 us -> has_col t (uname u0) = false ->
  update t v f ord u = (t, Fail WNewCols).
Proof.
  intros Cf C R I H. unfold update, update_checked. rewrite Cf, C. simpl.
  assert (existsb (fun l => negb (has_label t l)) idx = false) as ->.
  { destruct (existsb (fun l => negb (has_label t l)) idx) eqn:E; [|reflexivity].
    apply existsb_exists in E. destruct E as [l [Hl E]]. rewrite R in E by assumption. discriminate. }
  unfold check_steady.
  assert (forallb (fun u => has_col t (uname u)) us = false) as ->.
  { destruct (forallb (fun u => has_col t (uname u)) us) eqn:E; [|reflexivity].
    rewrite forallb_forall in E. rewrite E in H by assumption. discriminate. }
  reflexivity.
Qed.

Lemma rej_dtype t v f ord u idx us u0 k : creating f = false -> adding f = false ->
  update_checked t v f u = inl (idx, us) -> idx <> [] -> NoDup (unames us) ->
  In u0 us -> find_col (tcols t) (uname u0) = Some k -> udt u0 <> cdt k ->
  update t v f ord u = (t, Fail WDtype).
Proof.
  intros Cf Af UC NE ND I Ek D. rewrite (update_steady_eval _ _ _ ord _ _ _ Cf UC NE ND). rewrite Af.
  destruct (build_all false t idx us (order_by ord (unames us))) as [ks|o] eqn:B.
  - exfalso. destruct (build_all_ok _ _ _ _ _ _ B) as [_ [I2 _]].
    assert (Hc : In (uname u0) (order_by ord (unames us))) by (apply order_by_In; now apply in_map).
    destruct (I2 _ _ _ Hc Ek (find_ucol_NoDup _ _ ND I)) as [k' Bk]. apply build_col_steady in Bk. contradiction.
  - apply build_all_fail in B. destruct B as [c [k1 [u1 [_ [_ [_ B]]]]]]. apply build_col_steady_fail in B. now subst.
Qed.

(* conflicting / repeated initial values (C13) *)
Lemma rej_init_conflict t v f ord u idx us u0 : creating f = true -> adding f = true ->
  coerce (view_columns t v) u = inl (idx, us) -> (forall l, In l idx -> has_label t l = true) ->
  (forall l, In l (labels t) -> In l idx) -> In u0 us -> has_col t (uname u0) = true ->
  series_equals_col t idx u0 = false ->
  exists w, update t v f ord u = (t, Fail w) /\ (w = WInitConflict \/ w = WNoNewCols).
Proof.
  intros Cf Af C R M I H S. unfold update, update_checked. rewrite Cf, Af, C. simpl.
  assert (existsb (fun l => negb (has_label t l)) idx = false) as ->.
  { destruct (existsb (fun l => negb (has_label t l)) idx) eqn:E; [|reflexivity].
    apply existsb_exists in E. destruct E as [l [Hl E]]. rewrite R in E by assumption. discriminate. }
  unfold check_creating.
  assert (existsb (fun l => negb (zmem l idx)) (labels t) = false) as ->.
  { destruct (existsb (fun l => negb (zmem l idx)) (labels t)) eqn:E; [|reflexivity].
    apply existsb_exists in E. destruct E as [l [Hl E]]. apply M in Hl. apply zmem_In in Hl. rewrite Hl in E. discriminate. }
  destruct (forallb (fun u => has_col t (uname u)) us); [eauto|].
  assert (existsb (fun u => has_col t (uname u) && negb (series_equals_col t idx u)) us = true) as ->
    by (apply existsb_exists; exists u0; now rewrite H, S).
  eauto.
Qed.

Lemma rej_add_conflict t v f ord u idx us u0 : creating f = false -> adding f = true ->
  coerce (view_columns t v) u = inl (idx, us) -> (forall l, In l idx -> has_label t l = true) ->
  (forall x, In x us -> has_col t (uname x) = true) -> In u0 us -> add_conflict t idx u0 = true ->
  update t v f ord u = (t, Fail WAddConflict).
Proof.
  intros Cf Af C R H I A. unfold update, update_checked. rewrite Cf, C. simpl.
  assert (existsb (fun l => negb (has_label t l)) idx = false) as ->.
  { destruct (existsb (fun l => negb (has_label t l)) idx) eqn:E; [|reflexivity].
    apply existsb_exists in E. destruct E as [l [Hl E]]. rewrite R in E by assumption. discriminate. }
  unfold check_steady.
  assert (forallb (fun u => has_col t (uname u)) us = true) as -> by (apply forallb_forall; exact H).
  rewrite Af. simpl.
  assert (existsb (add_conflict t idx) us = true) as -> by (apply existsb_exists; eauto).
  reflexivity.
Qed.

(* ================================================================================================================ *)
(** * C11 while simulants are being added: the whole-column cast (finding F-L) and the guard that excludes it *)

(* the value of a cell, whatever its int64/float64 representation *)
Definition val (c : cell) : cell := match c with Iv z => Fv (2 * z) | c => c end.
Definition val_eq (a b : cell) : Prop := val a = val b.
Definition oval_eq (a b : option cell) : Prop :=
  match a, b with Some x, Some y => val_eq x y | None, None => True | _, _ => False end.

Lemma val_eq_refl a : val_eq a a. Proof. reflexivity. Qed.
Lemma val_eq_sym a b : val_eq a b -> val_eq b a. Proof. unfold val_eq. congruence. Qed.
Lemma val_eq_trans a b c : val_eq a b -> val_eq b c -> val_eq a c. Proof. unfold val_eq. congruence. Qed.
Lemma oval_eq_refl a : oval_eq a a. Proof. destruct a; simpl; [apply val_eq_refl|exact I]. Qed.
Lemma oval_eq_trans a b c : oval_eq a b -> oval_eq b c -> oval_eq a c.
Proof. destruct a, b, c; simpl; try tauto. apply val_eq_trans. Qed.

(* The guard.  A column touched by an update made while simulants are added is built LOSSLESSLY if the update has
   the column's dtype (no cast), or if the column that results from coercing, writing and casting the whole column
   holds, cell by cell, the same values as the plain write of the supplied cells into the old ones.  The class this
   excludes is exactly finding F-L (the cast changes a value: of an existing simulant, of an unaddressed new row, or
   of a supplied value). *)
Definition lossless (k : column) (idx : list Z) (u : ucol) : Prop :=
  udt u = cdt k \/
  forall k', build_col true k idx u = inl k' ->
    length (ccells k') = length (ccells k) /\
    forall m, val_eq (nth m (ccells k') Null) (nth m (write_cells (cdt k) (ccells k) idx (ucells u)) Null).

Lemma build_col_dtype a k idx u k' : build_col a k idx u = inl k' -> cdt k' = udt u.
Proof.
  intros B. apply build_col_inv in B. destruct B as [[E ->]|[_ [_ [_ [_ [vals [cs [_ [_ ->]]]]]]]]]; simpl; congruence.
Qed.

Section AddingUpdate.
  Variables (t : table) (v : view) (f : flags) (ord : list cid) (u : upd) (t' : table) (idx : list Z) (us : list ucol).
  Hypothesis W : wf t.
  Hypothesis Cf : creating f = false.
  Hypothesis Af : adding f = true.
  Hypothesis UC : update_checked t v f u = inl (idx, us).
  Hypothesis UP : update t v f ord u = (t', Pass).
  Hypothesis LL : forall u0 k, In u0 us -> find_col (tcols t) (uname u0) = Some k -> lossless k idx u0.

  (* every cell: the supplied value where one was supplied, the old value elsewhere - up to representation *)
  Lemma adding_cells c l : oval_eq (cell_at t' c l) (spec_cell t idx us c l).
  Proof.
    unfold spec_cell, cell_at. rewrite (steady_find t v f ord u t' idx us Cf UC UP).
    assert (HL : has_label t' l = has_label t l)
      by (unfold has_label; now rewrite (steady_rows t v f ord u t' idx us Cf UC UP)).
    rewrite HL.
    destruct idx as [|i r] eqn:EI.
    { destruct (find_col (tcols t) c); [|exact I]. destruct (has_label t l); [|exact I].
      destruct (find_ucol us c); [rewrite supplied_nil|]; apply val_eq_refl. }
    rewrite <- EI in *.
    destruct (find_ucol us c) as [u0|] eqn:Eu.
    2:{ destruct (find_col (tcols t) c); [|exact I]. destruct (has_label t l); [apply val_eq_refl|exact I]. }
    unfold built. rewrite Eu. destruct (find_col (tcols t) c) as [k|] eqn:Ek; [|exact I].
    apply find_ucol_name in Eu. destruct Eu as [<- Hu].
    (* the column builds (the update succeeded) *)
    destruct (steady_shape t v f ord u t' idx us Cf UC UP) as [[E0 _]|[_ [ND [ks [B _]]]]]; [congruence|].
    destruct (build_all_ok _ _ _ _ _ _ B) as [_ [I2 _]].
    assert (Hc : In (uname u0) (order_by ord (unames us))) by (apply order_by_In; now apply in_map).
    destruct (I2 _ _ _ Hc Ek (find_ucol_NoDup _ _ ND Hu)) as [k' Bk]. rewrite Af in Bk. rewrite Af, Bk.
    destruct (has_label t l) eqn:L; [|exact I]. apply has_label_spec in L.
    assert (WC : nth (Z.to_nat l) (write_cells (cdt k) (ccells k) idx (ucells u0)) Null =
                 match supplied (cdt k) l idx (ucells u0) with Some x => x | None => cell_of k l end).
    { apply write_cells_cell; [|lia]. intros j Hj. rewrite (wf_find _ _ _ W Ek). apply has_label_spec.
      apply update_checked_ok in UC. destruct UC as [_ [R _]]. now apply R. }
    destruct (LL u0 k Hu Ek) as [ED|LS].
    - rewrite build_col_same_dtype in Bk by assumption. inversion Bk; subst k'. unfold cell_of at 1. simpl.
      rewrite WC, ED. destruct (supplied (cdt k) l idx (ucells u0)); apply val_eq_refl.
    - destruct (LS k' Bk) as [_ LV]. specialize (LV (Z.to_nat l)). unfold cell_of at 1.
      rewrite WC in LV.
      (* which duplicate wins is decided by the array the values are written into: the column's *)
      assert (SD : supplied (udt u0) l idx (ucells u0) = supplied (cdt k) l idx (ucells u0) \/ True) by now right.
      destruct (dtype_eqb (udt u0) (cdt k)) eqn:DE.
      + apply dtype_eqb_eq in DE. rewrite DE. destruct (supplied (cdt k) l idx (ucells u0)); exact LV.
      + (* a cast: the column is not a string column (those refuse), nor is the update (unmodelled) *)
        assert (FW : first_wins (udt u0) = first_wins (cdt k)).
        { apply build_col_inv in Bk. destruct Bk as [[X _]|[_ [_ [F1 [F2 _]]]]]; [|congruence].
          apply dtype_eqb_eq in X. congruence. }
        unfold supplied, pairs_for in *. rewrite FW.
        destruct (last_pair l (if first_wins (cdt k) then rev (combine idx (ucells u0)) else combine idx (ucells u0)) None); exact LV.
  Qed.

  Lemma adding_dtypes c : dtype_at t' c =
    match idx, find_ucol us c, dtype_at t c with
    | _ :: _, Some u0, Some _ => Some (udt u0)
    | _, _, d => d
    end.
  Proof.
    unfold dtype_at. rewrite (steady_find t v f ord u t' idx us Cf UC UP).
    destruct idx as [|i r] eqn:EI; [now destruct (find_ucol us c), (find_col (tcols t) c)|]. rewrite <- EI in *.
    destruct (find_ucol us c) as [u0|] eqn:Eu; [|now destruct (find_col (tcols t) c)].
    unfold built. rewrite Eu. destruct (find_col (tcols t) c) as [k|] eqn:Ek; [|reflexivity].
    apply find_ucol_name in Eu. destruct Eu as [<- Hu].
    destruct (steady_shape t v f ord u t' idx us Cf UC UP) as [[E0 _]|[_ [ND [ks [B _]]]]]; [congruence|].
    destruct (build_all_ok _ _ _ _ _ _ B) as [_ [I2 _]].
    assert (Hc : In (uname u0) (order_by ord (unames us))) by (apply order_by_In; now apply in_map).
    destruct (I2 _ _ _ Hc Ek (find_ucol_NoDup _ _ ND Hu)) as [k' Bk]. rewrite Bk.
    apply build_col_dtype in Bk. now rewrite Bk.
  Qed.
End AddingUpdate.

(* ================================================================================================================ *)
(** * Invariants of every update: rows, well-formedness, column set outside the initial creation *)

Lemma update_rows t v f ord u : tn (fst (update t v f ord u)) = tn t.
Proof.
  unfold update. destruct (update_checked t v f u) as [[idx us]|w]; [|reflexivity].
  destruct (creating f).
  - destruct (negb (nodupb (unames us))); [reflexivity|]. destruct (negb (nodupb idx)); reflexivity.
  - destruct (is_nil idx); [reflexivity|]. destruct (negb (nodupb (unames us))); [reflexivity|].
    destruct (build_all _ _ _ _ _); reflexivity.
Qed.

Lemma update_wf t v f ord u : wf t -> wf (fst (update t v f ord u)).
Proof.
  intros W. destruct (update t v f ord u) as [t' o] eqn:UP. simpl.
  destruct o; try (rewrite (update_rejected_unchanged _ _ _ _ _ _ _ UP) by discriminate; exact W).
  destruct (creating f) eqn:Cf.
  - destruct (update_creating_inv _ _ _ _ _ _ Cf UP) as [idx [us [UC _]]]. eapply creating_wf; eassumption.
  - destruct (update_steady_inv _ _ _ _ _ _ Cf UP) as [idx [us [UC _]]]. eapply steady_wf; eassumption.
Qed.

Lemma update_names t v f ord u : creating f = false -> col_names (fst (update t v f ord u)) = col_names t.
Proof.
  intros Cf. destruct (update t v f ord u) as [t' o] eqn:UP. simpl.
  destruct o; try (rewrite (update_rejected_unchanged _ _ _ _ _ _ _ UP) by discriminate; reflexivity).
  destruct (update_steady_inv _ _ _ _ _ _ Cf UP) as [idx [us [UC _]]]. eapply steady_names; eassumption.
Qed.

(* an update made before any population exists is always rejected *)
Lemma update_none_rejected v f ord u : creating f = false -> snd (update empty_table v f ord u) <> Pass.
Proof.
  intros Cf. destruct (update empty_table v f ord u) as [t' o] eqn:UP. simpl. intros ->.
  destruct (update_steady_inv _ _ _ _ _ _ Cf UP) as [idx [us [UC _]]].
  apply update_checked_ok in UC. destruct UC as [C [_ [CS _]]]. apply check_steady_ok in CS; [|assumption].
  destruct CS as [HC _].
  assert (us <> []).
  { destruct u as [|name dt i vals|i cols]; simpl in C; [discriminate| |].
    - destruct name as [c|]; [destruct (zmem c (view_columns empty_table v))|destruct (view_columns empty_table v) as [|a [|b r]]];
        inversion C; discriminate.
    - destruct (negb (forallb (fun c => zmem c (view_columns empty_table v)) (unames cols))); [discriminate|].
      destruct cols; simpl in C; [discriminate|]. inversion C. discriminate. }
  destruct us as [|u0 r]; [congruence|]. specialize (HC u0 (or_introl eq_refl)). discriminate.
Qed.

(* ================================================================================================================ *)
(** * Creation of simulants *)

Lemma reindex_rows t count : tn (reindex t count) = (tn t + count)%nat.
Proof. destruct count; simpl; [lia|reflexivity]. Qed.

Lemma reindex_names t count : col_names (reindex t count) = col_names t.
Proof. destruct count; [reflexivity|]. unfold col_names. simpl. rewrite map_map. reflexivity. Qed.

Lemma reindex_wf t count : wf t -> wf (reindex t count).
Proof.
  intros W. destruct count as [|n]; [exact W|]. split.
  - rewrite reindex_names. apply W.
  - unfold reindex. cbn [tcols tn]. apply Forall_forall. intros k Hk. apply in_map_iff in Hk.
    destruct Hk as [k0 [<- Hk0]]. cbn [ccells]. rewrite app_length, map_length, repeat_length. destruct W as [_ WF]. rewrite Forall_forall in WF. now rewrite WF.
Qed.

Lemma find_col_map g cs c : (forall k, cname (g k) = cname k) ->
  find_col (map g cs) c = option_map g (find_col cs c).
Proof.
  intros H. induction cs as [|x r IH]; simpl; [reflexivity|]. rewrite H. destruct (cname x =? c); [reflexivity|exact IH].
Qed.

(* int64 cells that survive the float64 round trip *)
Definition ints_exact (t : table) : Prop :=
  forall k z, In k (tcols t) -> cdt k = DInt -> In (Iv z) (ccells k) -> Z.abs z <= TWO53.

Lemma f64_exact z : Z.abs z <= TWO53 -> f64_of_int z = z.
Proof. intros H. unfold f64_of_int. apply Z.leb_le in H. now rewrite H. Qed.

(* C13: the re-indexing itself keeps every cell of every existing simulant (its value: an int64 column is held as
   float64 until its initializer has filled the new rows), and the new rows start out null *)
Lemma reindex_cell_at t n c l :
  cell_at (reindex t (S n)) c l =
  match find_col (tcols t) c with
  | Some k => if (0 <=? l) && (l <? Z.of_nat (tn t + S n))
              then Some (nth (Z.to_nat l) (map (promote_cell (cdt k)) (ccells k) ++ repeat Null (S n)) Null) else None
  | None => None
  end.
Proof.
  unfold cell_at, reindex, has_label. cbn [tcols tn]. rewrite find_col_map by reflexivity.
  destruct (find_col (tcols t) c); reflexivity.
Qed.

Lemma reindex_old_cells t count c l : wf t -> ints_exact t -> 0 <= l < Z.of_nat (tn t) ->
  oval_eq (cell_at (reindex t count) c l) (cell_at t c l).
Proof.
  intros W IE L. destruct count as [|n]; [apply oval_eq_refl|].
  rewrite reindex_cell_at. unfold cell_at.
  destruct (find_col (tcols t) c) as [k|] eqn:Ek; [|exact I].
  assert (HL1 : has_label t l = true) by (apply has_label_spec; lia).
  assert (HL2 : (0 <=? l) && (l <? Z.of_nat (tn t + S n)) = true)
    by (apply andb_true_iff; split; [apply Z.leb_le | apply Z.ltb_lt]; lia).
  rewrite HL1, HL2. unfold cell_of.
  pose proof (wf_find _ _ _ W Ek) as Len.
  rewrite app_nth1 by (rewrite map_length; lia).
  rewrite (nth_indep _ Null (promote_cell (cdt k) Null)) by (rewrite map_length; lia).
  rewrite map_nth. set (x := nth (Z.to_nat l) (ccells k) Null).
  assert (Hx : In x (ccells k)) by (apply nth_In; lia).
  unfold oval_eq, promote_cell. destruct (cdt k) eqn:D; try apply val_eq_refl.
  destruct x eqn:X; try apply val_eq_refl.
  unfold val_eq. cbn [val]. rewrite f64_exact; [reflexivity|]. apply find_col_In in Ek. eapply IE; eassumption.
Qed.

Lemma reindex_new_cells t count c l k : wf t -> find_col (tcols t) c = Some k ->
  Z.of_nat (tn t) <= l < Z.of_nat (tn t + count) -> cell_at (reindex t count) c l = Some Null.
Proof.
  intros W Ek L. destruct count as [|n]; [lia|].
  rewrite reindex_cell_at, Ek.
  assert (HL2 : (0 <=? l) && (l <? Z.of_nat (tn t + S n)) = true)
    by (apply andb_true_iff; split; [apply Z.leb_le | apply Z.ltb_lt]; lia).
  rewrite HL2. pose proof (wf_find _ _ _ W Ek) as Len.
  rewrite app_nth2 by (rewrite map_length; lia). rewrite map_length.
  f_equal. apply nth_repeat.
Qed.

Lemma run_strat_props f s : forall t t2 r, run_strat f t s = (t2, r) ->
  tn t2 = tn t /\ (wf t -> wf t2) /\ (creating f = false -> col_names t2 = col_names t).
Proof.
  induction s as [|a k IH]; intros t t2 r; simpl.
  - intros H; inversion H; subst. tauto.
  - destruct (update t (a_view a) f (a_ord a) (a_upd a)) as [t' o] eqn:UP.
    assert (R : tn t' = tn t) by (pose proof (update_rows t (a_view a) f (a_ord a) (a_upd a)) as X; now rewrite UP in X).
    assert (Wf : wf t -> wf t') by (intros W; pose proof (update_wf t (a_view a) f (a_ord a) (a_upd a) W) as X; now rewrite UP in X).
    assert (N : creating f = false -> col_names t' = col_names t)
      by (intros C; pose proof (update_names t (a_view a) f (a_ord a) (a_upd a) C) as X; now rewrite UP in X).
    destruct (negb (is_pass o) && a_propagate a).
    + intros H; inversion H; subst. tauto.
    + intros H. apply IH in H. destruct H as [H1 [H2 H3]]. split; [congruence|]. split; [tauto|].
      intros C. rewrite H3, N; tauto.
Qed.

Lemma run_inits_props f sd inits : forall t t2 r log, run_inits f t sd inits = (t2, r, log) ->
  tn t2 = tn t /\ (wf t -> wf t2) /\ (creating f = false -> col_names t2 = col_names t) /\
  (exists n, log = repeat sd n /\ (n <= length inits)%nat /\ (r = false -> n = length inits)).
Proof.
  induction inits as [|i rest IH]; intros t t2 r log; simpl.
  - intros H; inversion H; subst. split; [reflexivity|]. split; [tauto|]. split; [reflexivity|].
    exists 0%nat. simpl. repeat split; lia.
  - destruct (run_strat f t (i sd t)) as [t' raised] eqn:RS. apply run_strat_props in RS. destruct RS as [R1 [R2 R3]].
    destruct raised.
    + intros H; inversion H; subst. split; [assumption|]. split; [assumption|]. split; [assumption|].
      exists 1%nat. simpl. repeat split; try lia; try discriminate.
    + destruct (run_inits f t' sd rest) as [[t'' raised'] log'] eqn:RI. intros H; inversion H; subst.
      apply IH in RI. destruct RI as [I1 [I2 [I3 [n [-> [Hn Hr]]]]]]. split; [congruence|]. split; [tauto|]. split.
      * intros C. rewrite I3, R3; tauto.
      * exists (S n). simpl. repeat split; try lia. intros E. now rewrite Hr.
Qed.

Lemma wf_cur st : (forall t, ptbl st = Some t -> wf t) -> wf (cur_table st).
Proof. unfold cur_table. destruct (ptbl st); intros H; [now apply H | apply wf_empty]. Qed.

Definition wf_state (st : pstate) : Prop := wf (cur_table st).

Lemma new_labels_app n a b : new_labels n (a + b) = new_labels n a ++ new_labels (n + a) b.
Proof. unfold new_labels. now rewrite seq_app, map_app. Qed.

(* C13: a creation adds exactly [count] rows and returns exactly their labels n .. n+count-1 *)
Lemma create_props st count user clock stp inits st' r log : create st count user clock stp inits = (st', r, log) ->
  nrows st' = (nrows st + count)%nat /\
  (forall l, r = Ok l -> l = new_labels (nrows st) count /\ pflags st' = steady) /\
  (r = Ok (new_labels (nrows st) count) \/ exists e, r = Rejected e) /\
  (wf_state st -> wf_state st') /\ ptbl st' <> None /\
  (creating (pflags st) = false -> ptbl st <> None ->
     creating (pflags st') = false /\ col_names (cur_table st') = col_names (cur_table st)) /\
  (exists n, log = repeat (mksimdata (new_labels (nrows st) count) user clock stp) n /\ (n <= length inits)%nat /\
             (forall l, r = Ok l -> n = length inits)).
Proof.
  unfold create, nrows.
  destruct (run_inits _ (reindex (cur_table st) count) _ inits) as [[t2 raised] lg] eqn:RI.
  apply run_inits_props in RI. destruct RI as [R1 [R2 [R3 [n [-> [Hn Hr]]]]]]. rewrite reindex_rows in R1.
  assert (NM : creating (pflags st) = false -> ptbl st <> None ->
               col_names t2 = col_names (cur_table st)).
  { intros C P. rewrite R3; [apply reindex_names|]. simpl. destruct (ptbl st); [assumption|congruence]. }
  destruct raised; intros H; inversion H; subst; unfold cur_table at 1 3, wf_state; cbn [ptbl pflags cur_table].
  - split; [assumption|]. split; [discriminate|]. split; [right; eauto|].
    split; [intros W; apply R2; now apply reindex_wf|]. split; [discriminate|]. split.
    + intros C P. split; [|now apply NM]. cbn [creating]. destruct (ptbl st); [assumption|congruence].
    + exists n. split; [reflexivity|]. split; [assumption|]. discriminate.
  - split; [assumption|]. split; [intros l E; inversion E; split; reflexivity|]. split; [now left|].
    split; [intros W; apply R2; now apply reindex_wf|]. split; [discriminate|]. split.
    + intros C P. split; [reflexivity|now apply NM].
    + exists n. split; [reflexivity|]. split; [assumption|]. intros _ _. now apply Hr.
Qed.

(* ================================================================================================================ *)
(** * Histories *)

Lemma step_rows st o : nrows (fst (step st o)) =
  match o with OpCreate count _ _ _ _ => (nrows st + count)%nat | _ => nrows st end.
Proof.
  destruct o as [v ord u| |count user clock stp inits]; simpl.
  - destruct (update (cur_table st) v (pflags st) ord u) as [t' out] eqn:UP. simpl.
    destruct (ptbl st) eqn:P; [|reflexivity]. unfold nrows, cur_table. simpl.
    pose proof (update_rows (cur_table st) v (pflags st) ord u) as X. rewrite UP in X. exact X.
  - reflexivity.
  - destruct (create st count user clock stp inits) as [[st' r] log] eqn:C. simpl. apply create_props in C.
    destruct C as [C _]. exact C.
Qed.

Lemma step_wf st o : wf_state st -> wf_state (fst (step st o)).
Proof.
  intros W. destruct o as [v ord u| |count user clock stp inits]; simpl.
  - destruct (update (cur_table st) v (pflags st) ord u) as [t' out] eqn:UP. simpl.
    destruct (ptbl st) eqn:P; [|exact W]. unfold wf_state, cur_table. simpl.
    pose proof (update_wf (cur_table st) v (pflags st) ord u W) as X. now rewrite UP in X.
  - exact W.
  - destruct (create st count user clock stp inits) as [[st' r] log] eqn:C. simpl. apply create_props in C. tauto.
Qed.

Lemma run_wf ops : forall st, wf_state st -> wf_state (run st ops).
Proof. induction ops as [|o r IH]; intros st W; simpl; [exact W|]. apply IH. now apply step_wf. Qed.

Lemma init_wf : wf_state init_pstate.
Proof. apply wf_empty. Qed.

(* C11: rejected updates and reads can be deleted from any history *)
Lemma step_ineffective st o : (ptbl st = None -> creating (pflags st) = false) ->
  effective_op st o = false -> fst (step st o) = st.
Proof.
  intros HN. destruct o as [v ord u| |count user clock stp inits]; unfold effective_op; simpl.
  - destruct (update (cur_table st) v (pflags st) ord u) as [t' out] eqn:UP. simpl. intros E.
    destruct (ptbl st) eqn:P; [|reflexivity].
    assert (t' = cur_table st) by (eapply update_rejected_unchanged; [exact UP | intros ->; discriminate]).
    subst t'. unfold cur_table. rewrite P. destruct st; simpl in *; congruence.
  - reflexivity.
  - destruct (create st count user clock stp inits) as [[st' r] log]. discriminate.
Qed.

(* the "no population yet" states have steady flags in every reachable state *)
Definition flags_sane (st : pstate) : Prop := ptbl st = None -> pflags st = steady.

Lemma step_sane st o : flags_sane st -> flags_sane (fst (step st o)).
Proof.
  intros S. destruct o as [v ord u| |count user clock stp inits]; simpl.
  - destruct (update (cur_table st) v (pflags st) ord u) as [t' out]. simpl.
    destruct (ptbl st) eqn:P; [|exact S]. intros H. discriminate.
  - exact S.
  - destruct (create st count user clock stp inits) as [[st' r] log] eqn:C. simpl. apply create_props in C.
    intros H. exfalso. tauto.
Qed.

Theorem history_effective ops : forall st, flags_sane st -> run st ops = run st (effective st ops).
Proof.
  induction ops as [|o r IH]; intros st S; simpl; [reflexivity|].
  destruct (effective_op st o) eqn:E; simpl.
  - apply IH. now apply step_sane.
  - rewrite step_ineffective; [now apply IH | intros P; now rewrite (S P) | assumption].
Qed.

Lemma effective_all ops : forall st, Forall (fun o => match o with OpRead => False | _ => True end) (effective st ops).
Proof.
  induction ops as [|o r IH]; intros st; simpl; [constructor|].
  destruct (effective_op st o) eqn:E; [|apply IH]. constructor; [|apply IH].
  destruct o; [exact I | discriminate | exact I].
Qed.

(* C13: the labels handed out over ANY history are consecutive, fresh and never reused *)
Theorem created_consecutive ops : forall st,
  concat (created st ops) = new_labels (nrows st) (nrows (run st ops) - nrows st) /\ (nrows st <= nrows (run st ops))%nat.
Proof.
  induction ops as [|o r IH]; intros st; simpl.
  - rewrite Nat.sub_diag. split; [reflexivity|lia].
  - pose proof (step_rows st o) as SR. remember (fst (step st o)) as st1 eqn:E1. clear E1.
    destruct (IH st1) as [E L]. rewrite concat_app, E.
    destruct o as [v ord u| |count user clock stp inits]; simpl.
    + rewrite SR in *. split; [reflexivity|lia].
    + rewrite SR in *. split; [reflexivity|exact L].
    + rewrite SR in *. rewrite app_nil_r. split; [|lia].
      replace (nrows (run st1 r) - nrows st)%nat with (count + (nrows (run st1 r) - (nrows st + count)))%nat by lia.
      now rewrite new_labels_app.
Qed.

Lemma new_labels_spec n count l : In l (new_labels n count) <-> Z.of_nat n <= l < Z.of_nat (n + count).
Proof.
  unfold new_labels. rewrite in_map_iff. split.
  - intros [x [<- Hx]]. apply in_seq in Hx. lia.
  - intros H. exists (Z.to_nat l). split; [lia|]. apply in_seq. lia.
Qed.

Lemma new_labels_NoDup n count : NoDup (new_labels n count).
Proof.
  unfold new_labels. apply FinFun.Injective_map_NoDup; [|apply seq_NoDup]. intros a b H. lia.
Qed.

(* ================================================================================================================ *)
(** * C13: initializers that confine themselves to the new simulants cannot disturb the existing ones *)

(* An update is BENIGN for the first [n0] rows if it addresses none of them and casts no column lossily. *)
Definition benign (n0 : nat) (t : table) (v : view) (f : flags) (u : upd) : Prop :=
  forall idx us, update_checked t v f u = inl (idx, us) ->
    (forall l, In l idx -> Z.of_nat n0 <= l) /\
    (forall u0 k, In u0 us -> find_col (tcols t) (uname u0) = Some k -> lossless k idx u0).

(* every ACCEPTED update the initializer actually makes is benign (rejected ones change nothing anyway) *)
Fixpoint wb_strat (f : flags) (n0 : nat) (t : table) (s : istrat) : Prop :=
  match s with
  | IDone => True
  | IAct a k =>
      (snd (update t (a_view a) f (a_ord a) (a_upd a)) = Pass -> benign n0 t (a_view a) f (a_upd a)) /\
      (if negb (is_pass (snd (update t (a_view a) f (a_ord a) (a_upd a)))) && a_propagate a then True
       else wb_strat f n0 (fst (update t (a_view a) f (a_ord a) (a_upd a)))
                     (k (fst (update t (a_view a) f (a_ord a) (a_upd a))) (snd (update t (a_view a) f (a_ord a) (a_upd a)))))
  end.

Fixpoint wb_inits (f : flags) (n0 : nat) (t : table) (sd : simdata) (inits : list initializer) : Prop :=
  match inits with
  | [] => True
  | i :: r => wb_strat f n0 t (i sd t) /\
              (if snd (run_strat f t (i sd t)) then True else wb_inits f n0 (fst (run_strat f t (i sd t))) sd r)
  end.

Lemma benign_update_old_cells n0 t v f ord u t' : wf t -> creating f = false -> adding f = true ->
  update t v f ord u = (t', Pass) -> benign n0 t v f u ->
  forall c l, 0 <= l < Z.of_nat n0 -> oval_eq (cell_at t' c l) (cell_at t c l).
Proof.
  intros W Cf Af UP BN c l L.
  destruct (update_steady_inv _ _ _ _ _ _ Cf UP) as [idx [us [UC _]]].
  destruct (BN idx us UC) as [CONF LL].
  eapply oval_eq_trans; [eapply adding_cells; eassumption|].
  unfold spec_cell. destruct (cell_at t c l) as [old|]; [|exact I].
  destruct (find_ucol us c) as [u0|]; [|apply val_eq_refl].
  destruct (supplied (udt u0) l idx (ucells u0)) as [x|] eqn:S; [|apply val_eq_refl].
  apply supplied_In in S. destruct S as [S _]. apply CONF in S. lia.
Qed.

Lemma strat_old_cells f n0 s : creating f = false -> adding f = true ->
  forall t t2 r, wf t -> wb_strat f n0 t s -> run_strat f t s = (t2, r) ->
  forall c l, 0 <= l < Z.of_nat n0 -> oval_eq (cell_at t2 c l) (cell_at t c l).
Proof.
  intros Cf Af. induction s as [|a k IH]; intros t t2 r W WB; simpl.
  - intros H; inversion H; subst. intros; apply oval_eq_refl.
  - simpl in WB. destruct (update t (a_view a) f (a_ord a) (a_upd a)) as [t' o] eqn:UP. simpl in WB.
    destruct WB as [WB1 WB2].
    assert (OLD : forall c l, 0 <= l < Z.of_nat n0 -> oval_eq (cell_at t' c l) (cell_at t c l)).
    { intros c l L. destruct o.
      - eapply benign_update_old_cells; try eassumption. now apply WB1.
      - rewrite (update_rejected_unchanged _ _ _ _ _ _ _ UP) by discriminate. apply oval_eq_refl.
      - rewrite (update_rejected_unchanged _ _ _ _ _ _ _ UP) by discriminate. apply oval_eq_refl. }
    destruct (negb (is_pass o) && a_propagate a).
    + intros H; inversion H; subst. exact OLD.
    + intros H c l L. eapply oval_eq_trans; [|apply OLD; exact L].
      eapply IH; try eassumption.
      pose proof (update_wf t (a_view a) f (a_ord a) (a_upd a) W) as X. now rewrite UP in X.
Qed.

Lemma inits_old_cells f n0 sd inits : creating f = false -> adding f = true ->
  forall t t2 r log, wf t -> wb_inits f n0 t sd inits -> run_inits f t sd inits = (t2, r, log) ->
  forall c l, 0 <= l < Z.of_nat n0 -> oval_eq (cell_at t2 c l) (cell_at t c l).
Proof.
  intros Cf Af. induction inits as [|i rest IH]; intros t t2 r log W WB; simpl.
  - intros H; inversion H; subst. intros; apply oval_eq_refl.
  - simpl in WB. destruct WB as [WB1 WB2].
    destruct (run_strat f t (i sd t)) as [t' raised] eqn:RS. simpl in WB2.
    pose proof (strat_old_cells f n0 (i sd t) Cf Af t t' raised W WB1 RS) as OLD.
    apply run_strat_props in RS. destruct RS as [_ [W' _]].
    destruct raised.
    + intros H; inversion H; subst. exact OLD.
    + destruct (run_inits f t' sd rest) as [[t'' raised'] log'] eqn:RI. intros H; inversion H; subst.
      intros c l L. eapply oval_eq_trans; [|apply OLD; exact L]. eapply IH; try eassumption. now apply W'.
Qed.

(* C13_existing_untouched, for a whole creation *)
Theorem create_old_cells st count user clock stp inits st' r log :
  wf_state st -> ptbl st <> None -> creating (pflags st) = false -> ints_exact (cur_table st) ->
  wb_inits (mkflags false true) (nrows st) (reindex (cur_table st) count)
           (mksimdata (new_labels (nrows st) count) user clock stp) inits ->
  create st count user clock stp inits = (st', r, log) ->
  forall c l, 0 <= l < Z.of_nat (nrows st) -> oval_eq (cell_at (cur_table st') c l) (cell_at (cur_table st) c l).
Proof.
  intros W P Cf IE WB. unfold create.
  assert (F : mkflags ((match ptbl st with None => true | Some _ => false end) || creating (pflags st)) true = mkflags false true).
  { rewrite Cf. destruct (ptbl st); [reflexivity|congruence]. }
  rewrite F.
  destruct (run_inits _ (reindex (cur_table st) count) _ inits) as [[t2 raised] lg] eqn:RI.
  intros H c l L.
  assert (T2 : cur_table st' = t2) by (destruct raised; inversion H; subst; reflexivity). rewrite T2.
  eapply oval_eq_trans.
  - apply (inits_old_cells (mkflags false true) (nrows st) _ inits eq_refl eq_refl
             (reindex (cur_table st) count) t2 raised lg (reindex_wf _ _ W) WB RI c l L).
  - apply reindex_old_cells; assumption.
Qed.

(* ---- the guard is met by what a well-behaved initializer does: the column is still in its promoted state
        (bool held as object / int64 held as float64), the update has the column's own dtype and fills every cell
        that is still null ---- *)
Definition cell_has (d : dtype) (c : cell) : bool :=
  match d, c with
  | DBool, Bv _ => true
  | DInt, Iv _ => true
  | DInt, Fv z => Z.even z            (* an integer held as a float *)
  | _, _ => false
  end.

Lemma cast_cells_nth d cs cs' : cast_cells d cs = inl cs' ->
  forall m, (m < length cs)%nat -> cast_cell d (nth m cs Null) = CastOk (nth m cs' Null).
Proof.
  revert cs'. induction cs as [|c r IH]; simpl; intros cs' H m Hm; [lia|].
  destruct (cast_cell d c) eqn:E; try discriminate.
  destruct (cast_cells d r) as [r'|]; [|discriminate]. inversion H; subst.
  destruct m as [|m]; simpl; [exact E|]. apply IH; [reflexivity|lia].
Qed.

Lemma cast_cells_total d cs : (forall c, In c cs -> exists c', cast_cell d c = CastOk c') -> exists cs', cast_cells d cs = inl cs'.
Proof.
  induction cs as [|c r IH]; simpl; intros H; [eauto|].
  destruct (H c (or_introl eq_refl)) as [c' E]. rewrite E.
  destruct IH as [r' R]; [intros; apply H; now right|]. rewrite R. eauto.
Qed.

Lemma cast_int_to_float z : Z.abs z <= TWO53 -> cast_cell DFloat (Iv z) = CastOk (Fv (2 * z)).
Proof. intros H. unfold cast_cell. now rewrite f64_exact. Qed.
Lemma cast_float_to_int z : cast_cell DInt (Fv z) = CastOk (Iv (Z.quot z 2)). Proof. reflexivity. Qed.
Lemma cast_int_to_int z : cast_cell DInt (Iv z) = CastOk (Iv z). Proof. reflexivity. Qed.
Lemma rt_supplied d a a' c : (d = DBool \/ d = DInt) -> cell_has d a = true -> (d = DInt -> exists z, a = Iv z /\ Z.abs z <= TWO53) ->
  cast_cell (promote d) a = CastOk a' -> cast_cell d a' = CastOk c -> val_eq c a.
Proof.
  intros [->| ->] H Hz C1 C2.
  - destruct a; try discriminate. cbn in C1. injection C1 as <-. cbn in C2. injection C2 as <-. reflexivity.
  - destruct (Hz eq_refl) as [z [-> Hb]]. change (promote DInt) with DFloat in C1. rewrite cast_int_to_float in C1 by assumption.
    assert (E : a' = Fv (2 * z)) by congruence. subst a'. rewrite cast_float_to_int in C2.
    assert (E : c = Iv (Z.quot (2 * z) 2)) by congruence. subst c.
    rewrite Z.mul_comm, Z.quot_mul by lia. reflexivity.
Qed.
Lemma rt_old d x c : (d = DBool \/ d = DInt) -> cell_has d x = true -> cast_cell d x = CastOk c -> val_eq c x.
Proof.
  intros [->| ->] H C.
  - destruct x; try discriminate. cbn in C. injection C as <-. reflexivity.
  - destruct x; try discriminate.
    + rewrite cast_int_to_int in C. injection C as <-. reflexivity.
    + rewrite cast_float_to_int in C. assert (E : c = Iv (Z.quot z 2)) by congruence. subst c. unfold cell_has in H. apply Z.even_spec in H. destruct H as [q ->].
      rewrite Z.mul_comm, Z.quot_mul by lia. unfold val_eq, val. f_equal. lia.
Qed.

Lemma lossless_promoted k idx u d : (d = DBool \/ d = DInt) -> udt u = d -> cdt k = promote d ->
  (forall i, In i idx -> 0 <= i < Z.of_nat (length (ccells k))) ->
  (forall x, In x (ucells u) -> cell_has d x = true /\ (d = DInt -> exists z, x = Iv z /\ Z.abs z <= TWO53)) ->
  (forall m, (m < length (ccells k))%nat -> In (Z.of_nat m) idx \/ cell_has d (nth m (ccells k) Null) = true) ->
  (length idx <= length (ucells u))%nat ->
  lossless k idx u.
Proof.
  intros Hd Eu Ek Hidx Hu Hk Hlen. right. intros k' B. split; [eapply build_col_length; eassumption|].
  intros m. unfold build_col in B. rewrite Eu, Ek in B.
  assert (NE : dtype_eqb d (promote d) = false) by (destruct Hd; subst d; reflexivity).
  rewrite NE in B. simpl in B.
  (* the supplied values coerced into the promoted array *)
  assert (B' : match cast_cells (promote d) (ucells u) with
               | inl vals => match cast_cells d (write_cells (promote d) (ccells k) idx vals) with
                             | inl cs => inl (mkcol (cname k) d cs) | inr o => inr o end
               | inr o => inr o end = inl k').
  { destruct Hd; subst d; simpl in *; exact B. }
  clear B. destruct (cast_cells (promote d) (ucells u)) as [vals|] eqn:C1; [|discriminate].
  destruct (cast_cells d (write_cells (promote d) (ccells k) idx vals)) as [cs|] eqn:C2; [|discriminate].
  inversion B'; subst k'. cbn [ccells]. rewrite Ek.
  pose proof (cast_cells_length _ _ _ C1) as L1.
  destruct (Nat.lt_ge_cases m (length (ccells k))) as [Hm|Hm].
  2:{ rewrite !nth_overflow; [apply val_eq_refl | rewrite write_cells_length; lia |].
      apply cast_cells_length in C2. rewrite C2, write_cells_length. lia. }
  pose proof (cast_cells_nth _ _ _ C2 m) as N2. rewrite write_cells_length in N2. specialize (N2 Hm).
  assert (FW : first_wins (promote d) = false) by (destruct Hd; subst d; reflexivity).
  (* position m of both writes: the value supplied for label m (the same pair of the two zipped lists), or the old cell *)
  assert (WR : forall vs, nth m (write_cells (promote d) (ccells k) idx vs) Null =
                          match last_pair (Z.of_nat m) (combine idx vs) None with Some x => x | None => nth m (ccells k) Null end).
  { intros vs. unfold write_cells, pairs_for. rewrite FW. rewrite write_pairs_nth; [reflexivity|].
    intros p Hp. destruct p as [i x]. apply in_combine_l in Hp. simpl. now apply Hidx. }
  rewrite WR in N2. rewrite WR.
  (* relate the pair lists: combine idx vals is combine idx (ucells u) with every value coerced *)
  assert (REL : forall ix us0 vs acc acc', cast_cells (promote d) us0 = inl vs ->
            (forall x, In x us0 -> cell_has d x = true /\ (d = DInt -> exists z, x = Iv z /\ Z.abs z <= TWO53)) ->
            match acc, acc' with
            | Some a, Some a' => cast_cell (promote d) a = CastOk a' /\ cell_has d a = true /\ (d = DInt -> exists z, a = Iv z /\ Z.abs z <= TWO53)
            | None, None => True | _, _ => False end ->
            match last_pair (Z.of_nat m) (combine ix us0) acc, last_pair (Z.of_nat m) (combine ix vs) acc' with
            | Some a, Some a' => cast_cell (promote d) a = CastOk a' /\ cell_has d a = true /\ (d = DInt -> exists z, a = Iv z /\ Z.abs z <= TWO53)
            | None, None => True | _, _ => False end).
  { induction ix as [|i ir IHx]; intros us0 vs acc acc' Hc Hh Hacc; simpl; [exact Hacc|].
    destruct us0 as [|x xr]; simpl in Hc.
    - inversion Hc; subst. simpl. exact Hacc.
    - destruct (cast_cell (promote d) x) as [x'| |] eqn:Ex; try discriminate.
      destruct (cast_cells (promote d) xr) as [vr|] eqn:Er; [|discriminate]. inversion Hc; subst. simpl.
      apply IHx; [exact Er | intros y Hy; apply Hh; now right |].
      destruct (i =? Z.of_nat m); [|exact Hacc]. split; [exact Ex|]. apply Hh. now left. }
  specialize (REL idx (ucells u) vals None None C1 Hu I).
  destruct (last_pair (Z.of_nat m) (combine idx (ucells u)) None) as [a|] eqn:LA;
    destruct (last_pair (Z.of_nat m) (combine idx vals) None) as [a'|] eqn:LA'; try contradiction.
  - (* a supplied cell: coerced, written, cast back *)
    destruct REL as [Ca [Ha Hz]]. eapply rt_supplied; eassumption.
  - (* an old cell of the right kind *)
    destruct (Hk m Hm) as [Hin|Hc].
    + exfalso. (* label m is in idx and idx is no longer than the values: a value was supplied *)
      assert (G : forall ix vs acc, In (Z.of_nat m) ix -> (length ix <= length vs)%nat -> last_pair (Z.of_nat m) (combine ix vs) acc <> None).
      { induction ix as [|i ir IHx]; intros vs acc Hi Hl; simpl in *; [contradiction|].
        destruct vs as [|x xr]; simpl in *; [lia|].
        destruct (i =? Z.of_nat m) eqn:E.
        - rewrite last_pair_acc. destruct (last_pair (Z.of_nat m) (combine ir xr) None); discriminate.
        - destruct Hi as [Hi|Hi]; [apply Z.eqb_neq in E; congruence|]. apply IHx; [assumption|lia]. }
      apply (G idx (ucells u) None Hin Hlen). exact LA.
    + eapply rt_old; eassumption.
Qed.

(* ================================================================================================================ *)
(** * C13: columns can be added only while the initial population is being built *)

Definition established (st : pstate) : Prop := ptbl st <> None /\ creating (pflags st) = false.

Lemma step_established st o : established st -> established (fst (step st o)) /\
  col_names (cur_table (fst (step st o))) = col_names (cur_table st).
Proof.
  intros [P C]. destruct o as [v ord u| |count user clock stp inits]; simpl.
  - destruct (update (cur_table st) v (pflags st) ord u) as [t' out] eqn:UP. simpl.
    destruct (ptbl st) eqn:PT; [|congruence]. split; [split; [discriminate|exact C]|].
    unfold cur_table at 1. simpl. pose proof (update_names (cur_table st) v (pflags st) ord u C) as X. now rewrite UP in X.
  - split; [split; assumption|reflexivity].
  - destruct (create st count user clock stp inits) as [[st' r] log] eqn:CR. simpl. apply create_props in CR.
    destruct CR as [_ [_ [_ [_ [P' [E _]]]]]]. destruct (E C P) as [C' N]. split; [split; assumption|exact N].
Qed.

Theorem established_columns_fixed ops : forall st, established st ->
  established (run st ops) /\ col_names (cur_table (run st ops)) = col_names (cur_table st).
Proof.
  induction ops as [|o r IH]; intros st E; simpl; [split; [exact E|reflexivity]|].
  destruct (step_established st o E) as [E' N]. destruct (IH _ E') as [E'' N']. split; [exact E''|congruence].
Qed.

(* the first creation that completes establishes the population *)
Lemma create_establishes st count user clock stp inits st' l log :
  create st count user clock stp inits = (st', Ok l, log) -> established st'.
Proof.
  intros C. apply create_props in C. destruct C as [_ [A [_ [_ [P _]]]]]. destruct (A l eq_refl) as [_ F].
  split; [exact P|]. now rewrite F.
Qed.

(* ================================================================================================================ *)
(** * Statements as exposed in props/C11.v *)

Theorem update_exact_steady t v f ord u t' : wf t -> creating f = false -> adding f = false ->
  update t v f ord u = (t', Pass) ->
  exists idx us, update_checked t v f u = inl (idx, us) /\
    wf t' /\ tn t' = tn t /\ col_names t' = col_names t /\ (forall c, dtype_at t' c = dtype_at t c) /\
    (forall c l, cell_at t' c l = spec_cell t idx us c l).
Proof.
  intros W Cf Af UP. destruct (update_steady_inv _ _ _ _ _ _ Cf UP) as [idx [us [UC H]]].
  exists idx, us. split; [exact UC|]. split; [eapply steady_wf; eassumption|].
  split; [eapply steady_rows; eassumption|]. split; [eapply steady_names; eassumption|].
  destruct idx as [|i r].
  - destruct H as [[_ ->]|[NE _]]; [|congruence]. split; [reflexivity|]. intros c l. unfold spec_cell.
    destruct (cell_at t c l); [|reflexivity]. destruct (find_ucol us c); [|reflexivity]. now rewrite supplied_nil.
  - assert (NC : nocast t us) by (eapply steady_nocast; try eassumption; discriminate).
    split; [intros c; eapply steady_dtypes; eassumption | intros c l; eapply steady_cells; eassumption].
Qed.

Theorem update_exact_adding t v f ord u t' : wf t -> creating f = false -> adding f = true ->
  update t v f ord u = (t', Pass) ->
  exists idx us, update_checked t v f u = inl (idx, us) /\
    wf t' /\ tn t' = tn t /\ col_names t' = col_names t /\
    ((forall u0 k, In u0 us -> find_col (tcols t) (uname u0) = Some k -> lossless k idx u0) ->
       forall c l, oval_eq (cell_at t' c l) (spec_cell t idx us c l)) /\
    (nocast t us -> (forall c, dtype_at t' c = dtype_at t c) /\ forall c l, cell_at t' c l = spec_cell t idx us c l).
Proof.
  intros W Cf Af UP. destruct (update_steady_inv _ _ _ _ _ _ Cf UP) as [idx [us [UC H]]].
  exists idx, us. split; [exact UC|]. split; [eapply steady_wf; eassumption|].
  split; [eapply steady_rows; eassumption|]. split; [eapply steady_names; eassumption|]. split.
  - intros LL c l. eapply adding_cells; eassumption.
  - intros NC. split; [intros c; eapply steady_dtypes; eassumption | intros c l; eapply steady_cells; eassumption].
Qed.

Theorem update_exact_creating t v f ord u t' : wf t -> creating f = true ->
  update t v f ord u = (t', Pass) ->
  exists idx us, update_checked t v f u = inl (idx, us) /\
    wf t' /\ tn t' = tn t /\
    (forall c, In c (col_names t') <-> In c (col_names t) \/ In c (unames us)) /\
    (exists u0, In u0 us /\ has_col t (uname u0) = false) /\
    (forall c l, has_col t c = true -> cell_at t' c l = cell_at t c l /\ dtype_at t' c = dtype_at t c) /\
    (forall c u0 l, has_col t c = false -> find_ucol us c = Some u0 -> has_label t l = true ->
       cell_at t' c l = Some (match last_pair l (combine idx (ucells u0)) None with Some x => x | None => Null end)
       /\ dtype_at t' c = Some (udt u0)).
Proof.
  intros W Cf UP. destruct (update_creating_inv _ _ _ _ _ _ Cf UP) as [idx [us [UC _]]].
  exists idx, us. split; [exact UC|]. split; [eapply creating_wf; eassumption|].
  split; [eapply creating_rows; eassumption|]. split; [|split; [|split]].
  - intros c. rewrite (creating_names t v f ord u t' idx us Cf UC UP), in_app_iff, order_by_In, filter_In, negb_true_iff.
    split; [tauto|]. intros [H|H]; [now left|]. destruct (has_col t c) eqn:E; [left; now apply has_col_In | right; tauto].
  - apply update_checked_ok in UC. destruct UC as [_ [_ [_ CC]]]. destruct (CC Cf) as [CK _].
    apply check_creating_ok in CK. tauto.
  - intros c l Hc. split; [eapply creating_cells_old; eassumption|].
    unfold dtype_at. rewrite (creating_find t v f ord u t' idx us Cf UC UP c), Hc. reflexivity.
  - intros c u0 l Hc Eu L. eapply creating_cells_new; eassumption.
Qed.

Theorem update_perm_invariant t v f ord1 ord2 u t1 : wf t -> update t v f ord1 u = (t1, Pass) ->
  exists t2, update t v f ord2 u = (t2, Pass) /\ tn t2 = tn t1 /\
             (forall c, find_col (tcols t2) c = find_col (tcols t1) c) /\ (creating f = false -> t2 = t1).
Proof.
  intros W UP. destruct (creating f) eqn:Cf.
  - destruct (creating_perm_invariant _ _ _ _ ord2 _ _ W Cf UP) as [t2 [U2 [R F]]]. exists t2. repeat split; try assumption. discriminate.
  - exists t1. split; [eapply steady_perm_invariant; eassumption|]. repeat split.
Qed.

Corollary update_outcome_perm_invariant t v f ord1 ord2 u : wf t ->
  is_pass (snd (update t v f ord1 u)) = is_pass (snd (update t v f ord2 u)).
Proof.
  intros W.
  assert (G : forall o1 o2, is_pass (snd (update t v f o1 u)) = true -> is_pass (snd (update t v f o2 u)) = true).
  { intros o1 o2 H. destruct (update t v f o1 u) as [t1 out] eqn:UP. simpl in H. destruct out; try discriminate.
    destruct (update_perm_invariant _ _ _ _ o2 _ _ W UP) as [t2 [U2 _]]. now rewrite U2. }
  destruct (is_pass (snd (update t v f ord1 u))) eqn:A, (is_pass (snd (update t v f ord2 u))) eqn:B; try reflexivity.
  - apply (G ord1 ord2) in A. congruence.
  - apply (G ord2 ord1) in B. congruence.
Qed.

(* ================================================================================================================ *)
(** * A decision procedure for the guard of C13_existing_untouched (used for the non-vacuity examples) *)

Definition val_eqb (a b : cell) : bool := cell_eqb (val a) (val b).
Lemma val_eqb_spec a b : val_eqb a b = true <-> val_eq a b.
Proof. unfold val_eqb, val_eq. apply cell_eqb_eq. Qed.

Fixpoint forall2b {A} (p : A -> A -> bool) (l1 l2 : list A) : bool :=
  match l1, l2 with
  | [], [] => true
  | x :: r, y :: s => p x y && forall2b p r s
  | _, _ => false
  end.
Lemma forall2b_nth (l1 : list cell) : forall l2, forall2b val_eqb l1 l2 = true ->
  length l1 = length l2 /\ forall m, val_eq (nth m l1 Null) (nth m l2 Null).
Proof.
  induction l1 as [|x r IH]; intros [|y s]; simpl; try discriminate.
  - intros _. split; [reflexivity|]. intros [|m]; apply val_eq_refl.
  - intros H. apply andb_true_iff in H. destruct H as [H1 H2]. apply val_eqb_spec in H1.
    destruct (IH s H2) as [L N]. split; [now rewrite L|]. intros [|m]; [exact H1|apply N].
Qed.

Definition lossless_b (k : column) (idx : list Z) (u : ucol) : bool :=
  dtype_eqb (udt u) (cdt k) ||
  match build_col true k idx u with
  | inl k' => forall2b val_eqb (ccells k') (write_cells (cdt k) (ccells k) idx (ucells u))
  | inr _ => true
  end.
Lemma lossless_b_sound k idx u : lossless_b k idx u = true -> lossless k idx u.
Proof.
  unfold lossless_b. intros H. apply orb_true_iff in H. destruct H as [H|H]; [left; now apply dtype_eqb_eq|].
  right. intros k' B. rewrite B in H. apply forall2b_nth in H. destruct H as [L N]. split; [|exact N].
  now rewrite L, write_cells_length.
Qed.

Definition benign_b (n0 : nat) (t : table) (v : view) (f : flags) (u : upd) : bool :=
  match update_checked t v f u with
  | inl (idx, us) =>
      forallb (fun l => Z.of_nat n0 <=? l) idx &&
      forallb (fun u0 => match find_col (tcols t) (uname u0) with Some k => lossless_b k idx u0 | None => true end) us
  | inr _ => true
  end.
Lemma benign_b_sound n0 t v f u : benign_b n0 t v f u = true -> benign n0 t v f u.
Proof.
  unfold benign_b, benign. intros H idx us UC. rewrite UC in H. apply andb_true_iff in H. destruct H as [H1 H2].
  rewrite forallb_forall in H1, H2. split.
  - intros l Hl. apply Z.leb_le. now apply H1.
  - intros u0 k Hu Ek. apply lossless_b_sound. specialize (H2 u0 Hu). now rewrite Ek in H2.
Qed.

Fixpoint wb_strat_b (f : flags) (n0 : nat) (t : table) (s : istrat) : bool :=
  match s with
  | IDone => true
  | IAct a k =>
      let r := update t (a_view a) f (a_ord a) (a_upd a) in
      (if is_pass (snd r) then benign_b n0 t (a_view a) f (a_upd a) else true) &&
      (if negb (is_pass (snd r)) && a_propagate a then true else wb_strat_b f n0 (fst r) (k (fst r) (snd r)))
  end.
Lemma wb_strat_b_sound f n0 s : forall t, wb_strat_b f n0 t s = true -> wb_strat f n0 t s.
Proof.
  induction s as [|a k IH]; intros t; simpl; [intros _; exact I|].
  intros H. apply andb_true_iff in H. destruct H as [H1 H2]. split.
  - intros E. rewrite E in H1. simpl in H1. now apply benign_b_sound.
  - destruct (negb (is_pass (snd (update t (a_view a) f (a_ord a) (a_upd a)))) && a_propagate a); [exact I|].
    now apply IH.
Qed.

Fixpoint wb_inits_b (f : flags) (n0 : nat) (t : table) (sd : simdata) (inits : list initializer) : bool :=
  match inits with
  | [] => true
  | i :: r => wb_strat_b f n0 t (i sd t) &&
              (if snd (run_strat f t (i sd t)) then true else wb_inits_b f n0 (fst (run_strat f t (i sd t))) sd r)
  end.
Lemma wb_inits_b_sound f n0 sd inits : forall t, wb_inits_b f n0 t sd inits = true -> wb_inits f n0 t sd inits.
Proof.
  induction inits as [|i r IH]; intros t; simpl; [intros _; exact I|].
  intros H. apply andb_true_iff in H. destruct H as [H1 H2]. split; [now apply wb_strat_b_sound|].
  destruct (snd (run_strat f t (i sd t))); [exact I|]. now apply IH.
Qed.

(* ================================================================================================================ *)
(** * C13: abandoned creations (an exception escapes an initializer; or the life cycle refuses the manager's update) *)

(* the first initializer's first update raises and is not caught: exactly the re-indexed table is left behind, both
   flags stay set (they are not cleared in a `finally`), nothing is returned, nobody else is called *)
Theorem create_first_raises st count user clock stp a k rest :
  let f := mkflags ((match ptbl st with None => true | Some _ => false end) || creating (pflags st)) true in
  let t1 := reindex (cur_table st) count in
  snd (update t1 (a_view a) f (a_ord a) (a_upd a)) <> Pass -> a_propagate a = true ->
  create st count user clock stp ((fun _ _ => IAct a k) :: rest) =
  (mkpstate (Some t1) f, Rejected EOther, [mksimdata (new_labels (nrows st) count) user clock stp]).
Proof.
  intros f t1 NP PR. unfold create. fold f. fold t1. simpl.
  destruct (update t1 (a_view a) f (a_ord a) (a_upd a)) as [t' o] eqn:UP. simpl in NP.
  assert (E : t' = t1) by (eapply update_rejected_unchanged; eassumption). subst t'.
  assert (IP : is_pass o = false) by (destruct o; try reflexivity; congruence).
  rewrite IP, PR. simpl. reflexivity.
Qed.

(* whatever made the creation fail: the rows are there, the flags stay set, and (under the guards of
   C13_existing_untouched) no existing cell changed its value *)
Theorem create_abandoned st count user clock stp inits st' e log :
  create st count user clock stp inits = (st', Rejected e, log) ->
  nrows st' = (nrows st + count)%nat /\
  pflags st' = mkflags ((match ptbl st with None => true | Some _ => false end) || creating (pflags st)) true /\
  ptbl st' <> None.
Proof.
  intros C. pose proof (create_props _ _ _ _ _ _ _ _ _ C) as [R [_ [_ [_ [P _]]]]]. split; [exact R|]. split; [|exact P].
  unfold create in C.
  destruct (run_inits _ (reindex (cur_table st) count) _ inits) as [[t2 raised] lg]. destruct raised; inversion C. reflexivity.
Qed.

(* the refused creation of the correspondence is an instance *)
Lemma refused_action_raises t f : snd (update t (a_view refused_action) f (a_ord refused_action) (a_upd refused_action)) <> Pass.
Proof.
  unfold refused_action, update, update_checked. simpl. destruct (creating f && negb (adding f)); simpl; discriminate.
Qed.
