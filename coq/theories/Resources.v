(* C09 - Simulant initializers run in dependency order or not at all.  MODEL (proofs: ResourcesProofs.v).

   API-level declarations made by components during `setup` (in the order the calls are made)
     -> registrations in the ResourceManager (the implicit dependency rules of the population, values and randomness
        managers), refusing duplicates with the error class the code raises
     -> `on_post_setup` of the values manager (one `value.<name>` group per pipeline)
     -> the dependency graph (`_to_graph`: an edge producer(dep) -> group for every KNOWN dependency)
     -> `kahn` (Kahn.v = networkx.topological_sort) -> the producers of the `column` / `null` groups, in that order
        (`ResourceManager.__iter__`), which is what `_create_simulants` iterates.

   Anchors (line numbers of /repo/src/vivarium/framework, docstrings stripped):
     resource.py        add_resources 163-209, _get_resource_group 211-232, _to_graph 234-266, sorted_nodes 140-157,
                        __iter__ 268-281
     population/manager.py  InitializerComponentSet.add 57-118, register_simulant_initializer 259-309,
                        _create_simulants 329-351
     values.py          on_post_setup 273-296, register_value_producer 298-330, _register_value_producer 332-352,
                        register_value_modifier 354-397, get_value, _convert_dependencies, _get_modifier_name
     randomness/manager.py  get_randomness_stream 67-120, _get_randomness_stream 122-138
     component.py       setup_component: `setup(builder)` runs first, then _register_simulant_initializer 752-770

   Names are numbers.  Resource names are structured (`res`) instead of dotted strings: the model therefore assumes
   that no user-chosen name contains a dot / equals "None" (string collisions between differently-built resource
   names are outside the model).

   `nog` ("name on get"): whether `ValuesManager.get_value` names the pipeline object it returns (true since the
   repair "pipelines are named when first requested" - finding F-Q; false = the behaviour before it, kept as a
   documented variant: a pipeline used as a source or modifier before its own producer was registered had
   `name = None`, its dependency was recorded as `value.None` and silently dropped).                                 *)
From Viv Require Import Common Kahn.
Local Open Scope Z_scope.

(* ------------------------------------------------------------------------------------------------------------ *)
(* resource names                                                                                                *)
(* ------------------------------------------------------------------------------------------------------------ *)
Inductive mname : Set :=            (* _get_modifier_name *)
  | MFun (f : Z)                    (* "<owner.name>.<method name>" of a bound method / function *)
  | MPipe (p : Z)                   (* a Pipeline object used as modifier: its .name *)
  | MNone.                          (* ... when that name is still None *)

Inductive res : Set :=
  | RCol (c : Z)                    (* column.<c> *)
  | RVal (v : Z)                    (* value.<v> *)
  | RValNone                        (* value.None  (dependency on a pipeline whose name is None) *)
  | RSrc (v : Z)                    (* value_source.<v> *)
  | RMiss (v : Z)                   (* missing_value_source.<v> *)
  | RMod (v : Z) (i : Z) (m : mname)(* value_modifier.<v>.<i>.<m> *)
  | RStream (s : Z)                 (* stream.<s> *)
  | RNull (k : Z).                  (* null.<k> *)

Definition mname_eqb (a b : mname) : bool :=
  match a, b with
  | MFun x, MFun y => x =? y | MPipe x, MPipe y => x =? y | MNone, MNone => true | _, _ => false
  end.

Definition res_eqb (a b : res) : bool :=
  match a, b with
  | RCol x, RCol y | RVal x, RVal y | RSrc x, RSrc y | RMiss x, RMiss y | RStream x, RStream y
  | RNull x, RNull y => x =? y
  | RValNone, RValNone => true
  | RMod v i m, RMod v' i' m' => (v =? v') && (i =? i') && mname_eqb m m'
  | _, _ => false
  end.

Definition rmem (r : res) (l : list res) : bool := existsb (res_eqb r) l.

Definition tracked : Z := 0.        (* the column created by the population manager itself *)

(* ------------------------------------------------------------------------------------------------------------ *)
(* declarations: the calls components make on the builder during setup                                           *)
(* ------------------------------------------------------------------------------------------------------------ *)
Inductive source : Set := SFun | SPipe (p : Z).        (* source callable: a function, or the Pipeline get_value(p) *)
Inductive mutator : Set := UFun (f : Z) | UPipe (p : Z).
Inductive rawtype : Set := RwColumn | RwValue | RwSource | RwMissing | RwStream | RwUnknown.

Inductive decl : Set :=
  (* builder.population.initializes_simulants(method of component comp, creates, requires_columns/values/streams);
     also what Component._register_simulant_initializer does with columns_created / initialization_requirements *)
  | DInit (comp : Z) (creates rc rv rs : list Z)
  (* builder.value.register_value_producer(v, source, requires_...) *)
  | DProducer (v : Z) (src : source) (rc rv rs : list Z)
  (* builder.value.register_value_modifier(v, modifier, requires_...) *)
  | DModifier (v : Z) (u : mutator) (rc rv rs : list Z)
  (* builder.value.get_value(v): may create the pipeline *)
  | DGetValue (v : Z)
  (* builder.randomness.get_stream(s, initializes_crn_attributes) *)
  | DStream (s : Z) (crn_init : bool)
  (* builder.resources.add_resources(type, names, producer pid, dependencies) called directly *)
  | DRaw (t : rawtype) (names : list Z) (pid : Z) (deps : list res).

(* ------------------------------------------------------------------------------------------------------------ *)
(* state of the managers during setup                                                                            *)
(* ------------------------------------------------------------------------------------------------------------ *)
Record group : Set := mkgroup {
  g_names : list res;               (* ResourceGroup.names (never empty: null groups get null.<k>) *)
  g_prod : Z;                       (* the producer: component id of an initializer / pid of a raw registration; -1 otherwise *)
  g_deps : list res }.

Record state : Set := mkstate {
  groups : list group;              (* ResourceManager._resource_group_map values, in creation order *)
  nulls : Z;                        (* _null_producer_count *)
  comps : list Z;                   (* InitializerComponentSet._components *)
  cols : list Z;                    (* InitializerComponentSet._columns_produced *)
  pnames : list Z;                  (* ValuesManager._pipelines keys, in creation order *)
  named : list Z;                   (* pipelines whose .name is set *)
  sourced : list Z;                 (* pipelines whose .source is set *)
  muts : list (Z * mutator);        (* all registered modifiers (pipeline, modifier), in registration order *)
  streams : list Z }.               (* RandomnessManager._decision_points *)

Definition init_state : state := mkstate [] 0 [] [] [] [] [] [] [].

Definition with_groups (st : state) (gs : list group) (n : Z) : state :=
  mkstate gs n (comps st) (cols st) (pnames st) (named st) (sourced st) (muts st) (streams st).
Definition with_inits (st : state) (cs cl : list Z) : state :=
  mkstate (groups st) (nulls st) cs cl (pnames st) (named st) (sourced st) (muts st) (streams st).
Definition with_pipes (st : state) (pn nm so : list Z) (mu : list (Z * mutator)) : state :=
  mkstate (groups st) (nulls st) (comps st) (cols st) pn nm so mu (streams st).
Definition with_streams (st : state) (ss : list Z) : state :=
  mkstate (groups st) (nulls st) (comps st) (cols st) (pnames st) (named st) (sourced st) (muts st) ss.

(* ---- resource.py add_resources 202-209: a resource may have one producer only ---- *)
Definition owned (gs : list group) (r : res) : bool := existsb (fun g => rmem r (g_names g)) gs.

Fixpoint has_dup (l : list res) : bool :=
  match l with [] => false | x :: r => rmem x r || has_dup r end.

Definition clash (gs : list group) (names : list res) : bool := existsb (owned gs) names || has_dup names.

Definition add_group (gs : list group) (names : list res) (prod : Z) (deps : list res) : result (list group) :=
  if clash gs names then Rejected EResource else Ok (gs ++ [mkgroup names prod deps]).

(* _get_resource_group 224-230: no names -> type "null", name str(count), count += 1 *)
Definition add_resources (st : state) (names : list res) (prod : Z) (deps : list res) : result state :=
  match names with
  | [] => match add_group (groups st) [RNull (nulls st)] prod deps with
          | Ok gs => Ok (with_groups st gs (nulls st + 1)) | Rejected e => Rejected e | OutOfFuel => OutOfFuel end
  | _ => match add_group (groups st) names prod deps with
         | Ok gs => Ok (with_groups st gs (nulls st)) | Rejected e => Rejected e | OutOfFuel => OutOfFuel end
  end.

(* ---- values.py ---- *)
Definition ensure (v : Z) (l : list Z) : list Z := if zmem v l then l else l ++ [v].       (* defaultdict access *)
Definition add_set (v : Z) (l : list Z) : list Z := if zmem v l then l else v :: l.

(* get_value: creates the pipeline if needed; names it iff nog *)
Definition get_value (nog : bool) (st : state) (v : Z) : state :=
  with_pipes st (ensure v (pnames st)) (if nog then add_set v (named st) else named st) (sourced st) (muts st).

(* "value.<func.name>" of _convert_dependencies when func is a Pipeline *)
Definition val_res (nm : list Z) (p : Z) : res := if zmem p nm then RVal p else RValNone.
(* _get_modifier_name *)
Definition mut_name (nm : list Z) (u : mutator) : mname :=
  match u with UFun f => MFun f | UPipe p => if zmem p nm then MPipe p else MNone end.

Definition req_deps (rc rv rs : list Z) : list res := map RCol rc ++ map RVal rv ++ map RStream rs.

Definition muts_of (v : Z) (mu : list (Z * mutator)) : list mutator := map snd (filter (fun e => fst e =? v) mu).

Fixpoint zhas_dup (l : list Z) : bool :=
  match l with [] => false | x :: r => zmem x r || zhas_dup r end.

Definition raw_res (t : rawtype) (n : Z) : res :=
  match t with RwColumn => RCol n | RwValue => RVal n | RwSource => RSrc n | RwMissing => RMiss n
             | RwStream => RStream n | RwUnknown => RNull n end.

(* one builder call.  kc = configuration.randomness.key_columns *)
Definition step (nog : bool) (kc : list Z) (st : state) (d : decl) : result state :=
  match d with
  | DInit comp creates rc rv rs =>
      (* InitializerComponentSet.add 105-118 *)
      if zmem comp (comps st) then Rejected EPopulation
      else if existsb (fun c => zmem c (cols st)) creates || zhas_dup creates then Rejected EPopulation
      else
        (* register_simulant_initializer 298-309 *)
        add_resources (with_inits st (comp :: comps st) (creates ++ cols st)) (map RCol creates) comp
          (req_deps rc rv rs ++ (if zmem tracked creates then [] else [RCol tracked]))
  | DProducer v src rc rv rs =>
      let st0 := match src with SPipe p => get_value nog st p | SFun => st end in
      (* _register_value_producer 341-352 *)
      if zmem v (sourced st0) then Rejected EDynamicValue
      else
        let st1 := with_pipes st0 (ensure v (pnames st0)) (add_set v (named st0)) (v :: sourced st0) (muts st0) in
        (* 322-325 *)
        add_resources st1 [RSrc v] (-1)
          (match src with SPipe p => [val_res (named st1) p] | SFun => req_deps rc rv rs end)
  | DModifier v u rc rv rs =>
      let st0 := match u with UPipe p => get_value nog st p | UFun _ => st end in
      (* 387-397 *)
      let nm := mut_name (named st0) u in
      let st1 := with_pipes st0 (ensure v (pnames st0)) (named st0) (sourced st0) (muts st0 ++ [(v, u)]) in
      add_resources st1 [RMod v (Z.of_nat (length (muts_of v (muts st1)))) nm] (-1)
        (match u with UPipe p => [val_res (named st1) p] | UFun _ => req_deps rc rv rs end)
  | DGetValue v => Ok (get_value nog st v)
  | DStream s crn =>
      (* _get_randomness_stream 125-129, get_randomness_stream 98-105 *)
      if zmem s (streams st) then Rejected ERandomness
      else
        let st1 := with_streams st (s :: streams st) in
        if crn then Ok st1 else add_resources st1 [RStream s] (-1) (map RCol kc)
  | DRaw t names pid deps =>
      (* add_resources 192-196 *)
      match t with
      | RwUnknown => Rejected EResource
      | _ => add_resources st (map (raw_res t) names) pid deps
      end
  end.

Fixpoint run_decls (nog : bool) (kc : list Z) (st : state) (ds : list decl) : result state :=
  match ds with
  | [] => Ok st
  | d :: r => match step nog kc st d with
              | Ok st' => run_decls nog kc st' r
              | Rejected e => Rejected e
              | OutOfFuel => OutOfFuel
              end
  end.

(* ---- values.py on_post_setup 287-296: value.<name> depends on its source (or missing_value_source) and on every
        modifier, named by _get_modifier_name AS OF NOW ---- *)
Fixpoint number_from (i : Z) (v : Z) (nm : list Z) (us : list mutator) : list res :=
  match us with [] => [] | u :: r => RMod v i (mut_name nm u) :: number_from (i + 1) v nm r end.

Definition value_deps (st : state) (v : Z) : list res :=
  (if zmem v (sourced st) then RSrc v else RMiss v) :: number_from 1 v (named st) (muts_of v (muts st)).

Fixpoint post_groups (st : state) (vs : list Z) (gs : list group) : result (list group) :=
  match vs with
  | [] => Ok gs
  | v :: r => match add_group gs [RVal v] (-1) (value_deps st v) with
              | Ok gs' => post_groups st r gs'
              | Rejected e => Rejected e
              | OutOfFuel => OutOfFuel
              end
  end.

(* all registrations of a simulation: the groups after post_setup *)
Definition build (nog : bool) (kc : list Z) (ds : list decl) : result (list group) :=
  match run_decls nog kc init_state ds with
  | Ok st => post_groups st (pnames st) (groups st)
  | Rejected e => Rejected e
  | OutOfFuel => OutOfFuel
  end.

(* ------------------------------------------------------------------------------------------------------------ *)
(* the graph (resource.py _to_graph) and the order                                                               *)
(* ------------------------------------------------------------------------------------------------------------ *)
Definition key (g : group) : res := hd (RNull (-1)) (g_names g).     (* node identity: the group's first resource *)

Definition owner (gs : list group) (r : res) : option res :=
  match find (fun g => rmem r (g_names g)) gs with Some g => Some (key g) | None => None end.

(* for group in nodes: for dependency in group.dependencies: unknown -> warn, continue; else add_edge(dep group, group) *)
Definition group_edges (gs : list group) (g : group) : list (res * res) :=
  flat_map (fun d => match owner gs d with Some k => [(k, key g)] | None => [] end) (g_deps g).
Definition raw_edges (gs : list group) : list (res * res) := flat_map (group_edges gs) gs.

Definition edge_eqb (a b : res * res) : bool := res_eqb (fst a) (fst b) && res_eqb (snd a) (snd b).
Fixpoint dedup (seen l : list (res * res)) : list (res * res) :=      (* DiGraph keeps one edge per ordered pair *)
  match l with
  | [] => []
  | e :: r => if existsb (edge_eqb e) seen then dedup seen r else e :: dedup (e :: seen) r
  end.

Definition nodes_of (gs : list group) : list res := map key gs.
Definition edges_of (gs : list group) : list (res * res) := dedup [] (raw_edges gs).

(* __iter__ 275-281: the `column` and `null` groups *)
Definition is_init (k : res) : bool := match k with RCol _ | RNull _ => true | _ => false end.
Definition prod_of (gs : list group) (k : res) : Z :=
  match find (fun g => res_eqb (key g) k) gs with Some g => g_prod g | None => -1 end.

Definition sort_groups (gs : list group) : result (list Z) :=
  match kahn res_eqb (nodes_of gs) (edges_of gs) with
  | Ok o => Ok (map (prod_of gs) (filter is_init o))
  | Rejected e => Rejected e
  | OutOfFuel => OutOfFuel
  end.

(* the order in which _create_simulants calls the initializers, or the refusal *)
Definition init_order (nog : bool) (kc : list Z) (ds : list decl) : result (list Z) :=
  match build nog kc ds with
  | Ok gs => sort_groups gs
  | Rejected e => Rejected e
  | OutOfFuel => OutOfFuel
  end.

(* ------------------------------------------------------------------------------------------------------------ *)
(* the verified checker: does an observed call order respect the declared requirements?                          *)
(* (soundness w.r.t. the declarative specification: ResourcesProofs.respects_sound)                             *)
(* ------------------------------------------------------------------------------------------------------------ *)
Definition is_stream_decl (s : Z) (d : decl) : bool :=
  match d with DStream s' false => s' =? s | _ => false end.
Definition stream_cols (kc : list Z) (ds : list decl) (s : Z) : list Z :=
  if existsb (is_stream_decl s) ds then kc else [].

(* the target pipeline of a producer / modifier declaration *)
Definition target (d : decl) : option Z :=
  match d with DProducer v _ _ _ _ | DModifier v _ _ _ _ => Some v | _ => None end.

(* columns a declaration contributes to its pipeline's needs, given the needs N of the other pipelines *)
Definition contrib (kc : list Z) (ds : list decl) (N : Z -> list Z) (d : decl) : list Z :=
  match d with
  | DProducer _ SFun rc rv rs | DModifier _ (UFun _) rc rv rs =>
      rc ++ flat_map N rv ++ flat_map (stream_cols kc ds) rs
  | DProducer _ (SPipe p) _ _ _ | DModifier _ (UPipe p) _ _ _ => N p
  | _ => []
  end.

Fixpoint znodup (l : list Z) : list Z :=
  match l with [] => [] | x :: r => if zmem x r then znodup r else x :: znodup r end.

Definition lookup (T : list (Z * list Z)) (v : Z) : list Z := match zassoc v T with Some l => l | None => [] end.

Definition targets (ds : list decl) : list Z :=
  znodup (flat_map (fun d => match target d with Some v => [v] | None => [] end) ds).

Definition needs_of (kc : list Z) (ds : list decl) (T : list (Z * list Z)) (v : Z) : list Z :=
  znodup (flat_map (fun d => match target d with
                             | Some v' => if v' =? v then contrib kc ds (lookup T) d else []
                             | None => [] end) ds).

Definition round (kc : list Z) (ds : list decl) (T : list (Z * list Z)) : list (Z * list Z) :=
  map (fun v => (v, needs_of kc ds T v)) (targets ds).

Fixpoint saturate (n : nat) (kc : list Z) (ds : list decl) (T : list (Z * list Z)) : list (Z * list Z) :=
  match n with O => T | S k => saturate k kc ds (round kc ds T) end.

Definition zsubset (a b : list Z) : bool := forallb (fun x => zmem x b) a.

(* T is closed under the requirement rules (certificate check: no fuel argument is trusted) *)
Definition closed (kc : list Z) (ds : list decl) (T : list (Z * list Z)) : bool :=
  forallb (fun d => match target d with
                    | Some v => zsubset (contrib kc ds (lookup T) d) (lookup T v)
                    | None => true end) ds.

(* the initializer registrations and the columns they create *)
Definition raw_is_init (t : rawtype) (names : list Z) : bool :=
  match t with RwUnknown => false | RwColumn => true | _ => match names with [] => true | _ => false end end.

Definition registered_inits (ds : list decl) : list Z :=
  flat_map (fun d => match d with
                     | DInit comp _ _ _ _ => [comp]
                     | DRaw t names pid _ => if raw_is_init t names then [pid] else []
                     | _ => [] end) ds.

Definition creators (ds : list decl) (c : Z) : list Z :=
  flat_map (fun d => match d with
                     | DInit comp creates _ _ _ => if zmem c creates then [comp] else []
                     | DRaw RwColumn names pid _ => if zmem c names then [pid] else []
                     | _ => [] end) ds.

Fixpoint beforeb (a b : Z) (o : list Z) : bool :=
  match o with [] => false | x :: r => if x =? a then zmem b r else beforeb a b r end.

Fixpoint zcount (x : Z) (l : list Z) : nat :=
  match l with [] => O | y :: r => if y =? x then S (zcount x r) else zcount x r end.
Definition zperm (a b : list Z) : bool := forallb (fun x => Nat.eqb (zcount x a) (zcount x b)) (a ++ b).

(* the columns an initializer registration needs, transitively *)
Definition init_needs (kc : list Z) (ds : list decl) (T : list (Z * list Z)) (creates rc rv rs : list Z) : list Z :=
  rc ++ (if zmem tracked creates then [] else [tracked]) ++ flat_map (lookup T) rv ++ flat_map (stream_cols kc ds) rs.

Definition respects_with (kc : list Z) (ds : list decl) (T : list (Z * list Z)) (o : list Z) : bool :=
  closed kc ds T &&
  zperm o (registered_inits ds) &&
  forallb (fun d => match d with
                    | DInit comp creates rc rv rs =>
                        forallb (fun c => forallb (fun j => beforeb j comp o) (creators ds c))
                                (init_needs kc ds T creates rc rv rs)
                    | _ => true end) ds.

Definition respects (kc : list Z) (ds : list decl) (o : list Z) : bool :=
  respects_with kc ds (saturate (S (length ds)) kc ds []) o.

(* ------------------------------------------------------------------------------------------------------------ *)
(* correspondence                                                                                                *)
(* ------------------------------------------------------------------------------------------------------------ *)
Definition err_code (e : err) : Z :=
  match e with
  | EPopulation => 1 | EDynamicValue => 2 | ERandomness => 3 | EResource => 4 | _ => 9
  end.

Inductive obs : Set :=
  | ObsErr (code : Z)                                   (* the simulation refused: error class *)
  | ObsOk (ogroups : list (list res * Z * list res))    (* _resource_group_map after post_setup: names, producer id, dependencies *)
          (oedges : list (res * res))                   (* ResourceManager.graph.edges, as (first name, first name) *)
          (calls : list (list Z)).                      (* per creation of simulants: initializer ids in call order *)

Definition rsubset (a b : list res) : bool := forallb (fun x => rmem x b) a.
Definition esubset (a b : list (res * res)) : bool := forallb (fun x => existsb (edge_eqb x) b) a.

Definition group_agrees (g : group) (og : list res * Z * list res) : bool :=
  let '(n, p, d) := og in
  list_eqb res_eqb (g_names g) n && (if is_init (key g) then g_prod g =? p else true)
  && rsubset (g_deps g) d && rsubset d (g_deps g).

(* same groups, whatever the order in which they were registered *)
Definition groups_agree (gs : list group) (ogs : list (list res * Z * list res)) : bool :=
  Nat.eqb (length gs) (length ogs) &&
  forallb (fun g => existsb (group_agrees g) ogs) gs &&
  forallb (fun og => existsb (fun g => group_agrees g og) gs) ogs.

Definition case : Set := (list Z * list decl * obs)%type.

Definition check_case (c : case) : bool :=
  let '(kc, ds, ob) := c in
  match build true kc ds with
  | Rejected e => match ob with ObsErr code => err_code e =? code | _ => false end
  | OutOfFuel => false
  | Ok gs =>
      match sort_groups gs, ob with
      | Rejected e, ObsErr code => err_code e =? code
      | Ok o, ObsOk ogs oes calls =>
          let T := saturate (S (length ds)) kc ds [] in
          groups_agree gs ogs
          && esubset (edges_of gs) oes && esubset oes (edges_of gs)
          && respects_with kc ds T o                             (* the model's own order passes the checker *)
          && forallb (respects_with kc ds T) calls               (* and so does every observed call order *)
      | _, _ => false
      end
  end.

(* the model's Kahn order equals the observed one exactly (reported by the harness, not required) *)
Definition same_order (c : case) : bool :=
  let '(kc, ds, ob) := c in
  match init_order true kc ds, ob with
  | Ok o, ObsOk _ _ calls => forallb (zlist_eqb o) calls
  | _, _ => true
  end.
